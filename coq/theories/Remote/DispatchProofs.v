(* Proofs about the dispatcher model Remote/Dispatch.v *)
From Coq Require Import List Arith NArith Bool Ascii String Lia Sorted.
From AdltV Require Import Base.Res Base.MachInt Remote.Dispatch Remote.DispatchFsProofs.
Import ListNotations.
Open Scope string_scope.
Open Scope N_scope.

(* ------------------------------------------------------------------ text layer *)
Lemma split_on_nonempty c s : split_on c s <> [].
Proof.
  induction s as [|a r IH]; cbn [split_on]; [discriminate|].
  destruct (Ascii.eqb a c); [discriminate|].
  destruct (split_on c r); discriminate.
Qed.

Lemma splitn2_nonempty c s : splitn2 c s <> [].
Proof. unfold splitn2. destruct (split_once c s) as [[a b]|]; discriminate. Qed.

(* ------------------------------------------------------------------ containers *)
Lemma position_lt id l p : position id l = Some p -> (p < List.length l)%nat.
Proof.
  revert p. induction l as [|s r IH]; intros p H; cbn [position] in H; [discriminate|].
  destruct (s_id s =? id).
  - inversion H; subst. cbn. lia.
  - destruct (position id r) as [q|]; [|discriminate]. inversion H; subst. cbn. specialize (IH q eq_refl). lia.
Qed.

Lemma position_nth id l p : position id l = Some p -> exists s, nth_error l p = Some s /\ s_id s = id.
Proof.
  revert p. induction l as [|s r IH]; intros p H; cbn [position] in H; [discriminate|].
  destruct (s_id s =? id) eqn:E.
  - inversion H; subst. exists s. split; [reflexivity|]. apply N.eqb_eq. exact E.
  - destruct (position id r) as [q|]; [|discriminate]. inversion H; subst. exact (IH q eq_refl).
Qed.

Lemma position_none id l : position id l = None -> existsb (fun s => s_id s =? id) l = false.
Proof.
  induction l as [|s r IH]; intros H; cbn [position existsb] in *; [reflexivity|].
  destruct (s_id s =? id); [discriminate|]. cbn. apply IH. destruct (position id r); [discriminate|reflexivity].
Qed.

Lemma position_some_exists id l p : position id l = Some p -> existsb (fun s => s_id s =? id) l = true.
Proof.
  revert p. induction l as [|s r IH]; intros p H; cbn [position existsb] in *; [discriminate|].
  destruct (s_id s =? id); [reflexivity|]. cbn.
  destruct (position id r) as [q|]; [|discriminate]. exact (IH q eq_refl).
Qed.

Lemma nth_chk_lt {A} site (l : list A) i : (i < List.length l)%nat -> exists a, nth_chk site l i = Ok a /\ nth_error l i = Some a.
Proof.
  intros H. unfold nth_chk. destruct (nth_error l i) as [a|] eqn:E.
  - exists a. split; reflexivity.
  - apply nth_error_None in E. lia.
Qed.

(* ------------------------------------------------------------------ one reply, no panic *)
Definition one_ok (r : res (state * list reply)) : Prop := exists st' rp, r = Ok (st', [rp]).

Lemma do_open_one st o : one_ok (do_open st o).
Proof.
  unfold do_open, one_ok. destruct (st_fc st) as [fc|]; cbn.
  - eauto.
  - destruct (o_open o); eauto.
Qed.

Lemma do_pause_one st c : one_ok (do_pause st c).
Proof. unfold do_pause, one_ok. destruct (st_fc st); eauto. Qed.

Lemma do_close_one st : one_ok (do_close st).
Proof. unfold do_close, one_ok. destruct (st_fc st); cbn; eauto. Qed.

Lemma do_stream_one st c o : one_ok (do_stream st c o).
Proof.
  unfold do_stream, one_ok. destruct (st_fc st) as [fc|]; [|eauto].
  destruct (fc_collect fc); destruct (o_stream o); eauto;
    match goal with |- context [if ?b then _ else _] => destruct b end; eauto.
Qed.

Lemma search_params_one o id j :
  exists rp, (fst (search_params o id j) ++ (if snd (search_params o id j) then [] else [RErr ESearchParams]))%list = [rp].
Proof. unfold search_params. destruct (o_search_ok o && negb (j =?s "")); cbn; eauto. Qed.

Lemma plugin_loop_one name ps :
  exists rp, (fst (plugin_loop name ps) ++ (if snd (plugin_loop name ps) then [] else [RErr EPluginNotFound]))%list = [rp].
Proof.
  induction ps as [|[n c] r IH]; cbn [plugin_loop]; [cbn; eauto|].
  destruct (n =?s name); [destruct c; cbn; eauto|exact IH].
Qed.

Lemma do_id_found_one st fc c params ps id pos o :
  (pos < List.length (fc_streams fc))%nat -> ps <> [] -> one_ok (do_id_found st fc c params ps id pos o).
Proof.
  intros Hpos Hps. unfold do_id_found, one_ok.
  destruct (nth_chk_lt site_streams_index (fc_streams fc) pos Hpos) as [s [Hs _]].
  destruct (c =?s "stream_search").
  { rewrite Hs. cbn [bind].
    destruct (search_params_one o id (match split_once sp params with Some (_, j) => j | None => "" end)) as [rp H].
    rewrite H. eauto. }
  destruct (c =?s "stream_binary_search").
  { rewrite Hs. cbn [bind]. destruct (Nat.ltb 1 (List.length ps)) eqn:L; [|eauto].
    apply Nat.ltb_lt in L. destruct (nth_chk_lt site_params_splitted_1 ps 1%nat L) as [w [Hw _]]. rewrite Hw. cbn [bind].
    destruct (split_once "="%char w) as [[k what]|]; [|eauto].
    destruct (k =?s "index"); [destruct (_ <? _); eauto|].
    destruct (k =?s "time_ms"); eauto. }
  destruct (c =?s "stream_change_window").
  { destruct (Nat.ltb 1 (List.length ps)) eqn:L; [|eauto].
    apply Nat.ltb_lt in L. destruct (nth_chk_lt site_params_splitted_1 ps 1%nat L) as [w [Hw _]].
    rewrite Hs. cbn [bind]. rewrite Hw. cbn [bind].
    destruct (split_once ","%char w) as [[a b]|]; eauto. }
  destruct (c =?s "stop"); [|eauto].
  unfold remove_chk. apply Nat.ltb_lt in Hpos. rewrite Hpos. cbn [bind]. eauto.
Qed.

Lemma do_id_one st c params o : one_ok (do_id st c params o).
Proof.
  unfold do_id.
  pose proof (split_on_nonempty sp params) as Hne.
  destruct (split_on sp params) as [|p0 rest] eqn:E; [contradiction|].
  cbn [nth_chk nth_error bind].
  destruct (parse_u32 p0) as [id|]; [|unfold one_ok; eauto].
  destruct (st_fc st) as [fc|]; [|unfold one_ok; eauto].
  destruct (position id (fc_streams fc)) as [pos|] eqn:P; [|unfold one_ok; eauto].
  apply do_id_found_one; [exact (position_lt _ _ _ P)|discriminate].
Qed.

Lemma do_plugin_one st o : one_ok (do_plugin st o).
Proof.
  unfold do_plugin, one_ok. destruct (st_fc st) as [fc|]; [|eauto].
  destruct (o_json o) as [| | |name]; eauto.
  destruct (plugin_loop_one name (fc_plugins fc)) as [rp H]. rewrite H. eauto.
Qed.

Lemma do_fs_one st o : one_ok (do_fs st o).
Proof.
  unfold do_fs, one_ok. destruct (o_json o); eauto;
    destruct (process_fs_cmd_total (o_fs o)) as [r ->]; cbn [bind]; destruct r; eauto.
Qed.

(* every way `fs` can be answered: the state is untouched, one frame *)
Lemma do_fs_inv st o st' w :
  do_fs st o = Ok (st', w) ->
  st' = st /\ (w = [RErr EJsonParse] \/ w = [RErr ENotObject] \/ w = [RErr EFsErr] \/ exists v, w = [ROk (OkFs v)]).
Proof.
  unfold do_fs. intros H.
  destruct (o_json o); try (inversion H; subst; split; [reflexivity|auto]; fail);
    destruct (process_fs_cmd (o_fs o)) as [r| |]; cbn [bind] in H; try discriminate;
    destruct r as [v|]; inversion H; subst; split; try reflexivity; eauto.
Qed.

Lemma step_one st t o : one_ok (step st t o).
Proof.
  unfold step.
  destruct (command_of t =?s "open"); [apply do_open_one|].
  destruct ((command_of t =?s "pause") || (command_of t =?s "resume")); [apply do_pause_one|].
  destruct (command_of t =?s "close"); [apply do_close_one|].
  destruct ((command_of t =?s "stream") || (command_of t =?s "query")); [apply do_stream_one|].
  destruct (is_id_command (command_of t)); [apply do_id_one|].
  destruct (command_of t =?s "plugin_cmd"); [apply do_plugin_one|].
  destruct (command_of t =?s "fs"); [apply do_fs_one|].
  unfold one_ok; eauto.
Qed.

Lemma run_total st h :
  exists st' ws, run st h = Ok (st', ws) /\ List.length ws = List.length h /\ Forall (fun w => exists r, w = [r]) ws.
Proof.
  revert st. induction h as [|it r IH]; intros st; cbn [run].
  - exists st, []. repeat split; constructor.
  - destruct (step_one (apply_events st (i_pre it)) (i_frame it) (i_orc it)) as [st1 [rp H1]]. rewrite H1. cbn [bind fst snd].
    destruct (IH st1) as [st2 [ws [H2 [Hl Hf]]]]. rewrite H2. cbn [bind fst snd].
    exists st2, ([rp] :: ws). split; [reflexivity|]. split; [cbn; lia|]. constructor; [eauto|exact Hf].
Qed.

(* ------------------------------------------------------------------ generic case-splitting tactic *)
Ltac split_res H :=
  repeat (first
    [ discriminate H
    | match type of H with
      | context [bind ?r _] => destruct r eqn:?; cbn [bind fst snd app] in H
      | context [match ?x with _ => _ end] => destruct x eqn:?; cbn [bind fst snd app] in H
      | context [if ?b then _ else _] => destruct b eqn:?; cbn [bind fst snd app] in H
      end ]).

(* ------------------------------------------------------------------ the unknown-command notice *)
Definition not_unknown (r : reply) : Prop := match r with RUnknown _ => False | _ => True end.

Lemma plugin_loop_nu name ps : Forall not_unknown (fst (plugin_loop name ps)).
Proof.
  induction ps as [|[n c] r IH]; cbn [plugin_loop fst]; [constructor|].
  destruct (n =?s name); [destruct c; repeat constructor|exact IH].
Qed.

Lemma do_open_nu st o st' w : do_open st o = Ok (st', w) -> Forall not_unknown w.
Proof. unfold do_open, unwrap_chk. intros H. split_res H; inversion H; subst; repeat constructor. Qed.
Lemma do_pause_nu st c st' w : do_pause st c = Ok (st', w) -> Forall not_unknown w.
Proof. unfold do_pause. intros H. split_res H; inversion H; subst; repeat constructor. Qed.
Lemma do_close_nu st st' w : do_close st = Ok (st', w) -> Forall not_unknown w.
Proof. unfold do_close, unwrap_chk. intros H. split_res H; inversion H; subst; repeat constructor. Qed.
Lemma do_stream_nu st c o st' w : do_stream st c o = Ok (st', w) -> Forall not_unknown w.
Proof. unfold do_stream. intros H. split_res H; inversion H; subst; repeat constructor. Qed.
Lemma do_id_found_nu st fc c params ps id pos o st' w :
  do_id_found st fc c params ps id pos o = Ok (st', w) -> Forall not_unknown w.
Proof.
  unfold do_id_found, search_params, remove_chk. intros H.
  split_res H; inversion H; subst; repeat constructor.
Qed.
Lemma do_id_nu st c params o st' w : do_id st c params o = Ok (st', w) -> Forall not_unknown w.
Proof.
  unfold do_id. intros H.
  destruct (nth_chk site_params_splitted_0 (split_on sp params) 0); cbn [bind] in H; try discriminate.
  destruct (parse_u32 a); [|inversion H; subst; repeat constructor].
  destruct (st_fc st) as [fc|]; [|inversion H; subst; repeat constructor].
  destruct (position n (fc_streams fc)); [|inversion H; subst; repeat constructor].
  exact (do_id_found_nu _ _ _ _ _ _ _ _ _ _ H).
Qed.
Lemma do_plugin_nu st o st' w : do_plugin st o = Ok (st', w) -> Forall not_unknown w.
Proof.
  unfold do_plugin. intros H.
  destruct (st_fc st) as [fc|]; [|inversion H; subst; repeat constructor].
  destruct (o_json o) as [| | |name]; try (inversion H; subst; repeat constructor).
  inversion H; subst.
  apply Forall_app. split; [exact (plugin_loop_nu name (fc_plugins fc))|]. destruct (snd _); repeat constructor.
Qed.
Lemma do_fs_nu st o st' w : do_fs st o = Ok (st', w) -> Forall not_unknown w.
Proof. intros H. destruct (do_fs_inv _ _ _ _ H) as [-> [->|[->|[->|[v ->]]]]]; repeat constructor. Qed.

(* the twelve command words *)
Definition known_command (c : string) : bool :=
  (c =?s "open") || ((c =?s "pause") || (c =?s "resume")) || (c =?s "close") || ((c =?s "stream") || (c =?s "query"))
  || is_id_command c || (c =?s "plugin_cmd") || (c =?s "fs").

Lemma step_unknown_iff st t o st' w :
  step st t o = Ok (st', w) ->
  (known_command (command_of t) = false -> w = [RUnknown t] /\ st' = st) /\
  (known_command (command_of t) = true -> Forall not_unknown w).
Proof.
  unfold step, known_command. intros H.
  destruct (command_of t =?s "open"); cbn [orb]; [split; [discriminate|intros _; exact (do_open_nu _ _ _ _ H)]|].
  destruct ((command_of t =?s "pause") || (command_of t =?s "resume")); cbn [orb]; [split; [discriminate|intros _; exact (do_pause_nu _ _ _ _ H)]|].
  destruct (command_of t =?s "close"); cbn [orb]; [split; [discriminate|intros _; exact (do_close_nu _ _ _ H)]|].
  destruct ((command_of t =?s "stream") || (command_of t =?s "query")); cbn [orb]; [split; [discriminate|intros _; exact (do_stream_nu _ _ _ _ _ H)]|].
  destruct (is_id_command (command_of t)); cbn [orb]; [split; [discriminate|intros _; exact (do_id_nu _ _ _ _ _ _ H)]|].
  destruct (command_of t =?s "plugin_cmd"); cbn [orb]; [split; [discriminate|intros _; exact (do_plugin_nu _ _ _ _ H)]|].
  destruct (command_of t =?s "fs"); cbn [orb]; [split; [discriminate|intros _; exact (do_fs_nu _ _ _ _ H)]|].
  inversion H; subst. split; [auto|discriminate].
Qed.

(* ------------------------------------------------------------------ the state is a function of the replies *)
Definition sview (s : stream) : N * bool := (s_id s, s_is_stream s).

Lemma abs_with_fc st fc : abs (with_fc st fc) = Some (map sview (fc_streams fc)).
Proof. reflexivity. Qed.

Lemma remove_at_first id l pos :
  position id l = Some pos -> map sview (remove_at l pos) = remove_first id (map sview l).
Proof.
  revert pos. induction l as [|s r IH]; intros pos H; cbn [position] in H; [discriminate|].
  cbn [map remove_first sview fst]. destruct (s_id s =? id) eqn:E.
  - inversion H; subst. reflexivity.
  - destruct (position id r) as [q|]; [|discriminate]. inversion H; subst. cbn [remove_at map]. rewrite (IH q eq_refl). reflexivity.
Qed.

Lemma replace_at_first id new_id l pos s s' :
  position id l = Some pos -> nth_error l pos = Some s -> sview s' = (new_id, s_is_stream s) ->
  map sview (replace_at l pos s') = renew_first id new_id (map sview l).
Proof.
  revert pos. induction l as [|x r IH]; intros pos H Hn Hv; cbn [position] in H; [discriminate|].
  cbn [map renew_first sview fst snd]. destruct (s_id x =? id) eqn:E.
  - inversion H; subst. cbn in Hn. inversion Hn; subst. cbn [replace_at map]. rewrite Hv. reflexivity.
  - destruct (position id r) as [q|] eqn:P; [|discriminate]. inversion H; subst. cbn in Hn. cbn [replace_at map].
    rewrite (IH q eq_refl Hn Hv). reflexivity.
Qed.

Lemma do_id_found_abs st fc c params ps id pos o st' w :
  st_fc st = Some fc -> position id (fc_streams fc) = Some pos ->
  do_id_found st fc c params ps id pos o = Ok (st', w) ->
  abs st' = fold_left spec_reply w (abs st).
Proof.
  intros Hfc Hpos H. unfold do_id_found, search_params, remove_chk in H.
  assert (A : abs st = Some (map sview (fc_streams fc))) by (unfold abs; rewrite Hfc; reflexivity).
  destruct (c =?s "stream_search").
  { split_res H; inversion H; subst; rewrite A; reflexivity. }
  destruct (c =?s "stream_binary_search").
  { split_res H; inversion H; subst; rewrite A; reflexivity. }
  destruct (c =?s "stream_change_window").
  { destruct (Nat.ltb 1 (List.length ps)); [|inversion H; subst; rewrite A; reflexivity].
    destruct (nth_chk site_streams_index (fc_streams fc) pos) as [s| |] eqn:Hs; cbn [bind] in H; try discriminate.
    destruct (nth_chk site_params_splitted_1 ps 1) as [wt| |]; cbn [bind] in H; try discriminate.
    destruct (split_once ","%char wt) as [[a b]|]; [|inversion H; subst; rewrite A; reflexivity].
    inversion H; subst. rewrite A. cbn [fold_left spec_reply]. rewrite abs_with_fc. cbn [fc_streams set_streams].
    f_equal. unfold nth_chk in Hs. destruct (nth_error (fc_streams fc) pos) eqn:Hn; [|discriminate]. inversion Hs; subst.
    apply (replace_at_first id (st_next_id st) _ pos s); auto. }
  destruct (c =?s "stop"); [|inversion H; subst; rewrite A; reflexivity].
  destruct (Nat.ltb pos (List.length (fc_streams fc))); cbn [bind] in H; [|discriminate].
  inversion H; subst. rewrite A. cbn [fold_left spec_reply]. rewrite abs_with_fc. cbn [fc_streams set_streams].
  f_equal. apply remove_at_first. exact Hpos.
Qed.

Lemma step_abs st t o st' w : step st t o = Ok (st', w) -> abs st' = fold_left spec_reply w (abs st).
Proof.
  unfold step. intros H.
  destruct (command_of t =?s "open").
  { unfold do_open, unwrap_chk in H. destruct (st_fc st) as [fc|] eqn:Hfc; cbn [is_some bind] in H.
    - inversion H; subst. reflexivity.
    - destruct (o_open o); inversion H; subst; unfold abs; cbn; rewrite ?Hfc; reflexivity. }
  destruct ((command_of t =?s "pause") || (command_of t =?s "resume")).
  { unfold do_pause in H. destruct (st_fc st) as [fc|] eqn:Hfc; inversion H; subst; unfold abs; cbn; rewrite ?Hfc; reflexivity. }
  destruct (command_of t =?s "close").
  { unfold do_close, unwrap_chk in H. destruct (st_fc st) as [fc|] eqn:Hfc; cbn [is_some bind] in H; inversion H; subst; unfold abs; cbn; rewrite ?Hfc; reflexivity. }
  destruct ((command_of t =?s "stream") || (command_of t =?s "query")).
  { unfold do_stream in H. destruct (st_fc st) as [fc|] eqn:Hfc; [|inversion H; subst; unfold abs; rewrite Hfc; reflexivity].
    assert (A : abs st = Some (map sview (fc_streams fc))) by (unfold abs; rewrite Hfc; reflexivity).
    destruct (fc_collect fc); destruct (o_stream o); try (inversion H; subst; rewrite A; reflexivity);
      match type of H with context [if ?b then _ else _] => destruct b end; inversion H; subst; rewrite A; cbn [fold_left spec_reply];
      try (unfold abs, bump; cbn [st_fc]; rewrite Hfc; reflexivity);
      rewrite abs_with_fc; cbn [fc_streams set_streams]; rewrite map_app; reflexivity. }
  destruct (is_id_command (command_of t)).
  { unfold do_id in H.
    destruct (nth_chk site_params_splitted_0 (split_on sp (params_of t)) 0); cbn [bind] in H; try discriminate.
    destruct (parse_u32 a); [|inversion H; subst; destruct (abs st'); reflexivity].
    destruct (st_fc st) as [fc|] eqn:Hfc; [|inversion H; subst; destruct (abs st'); reflexivity].
    destruct (position n (fc_streams fc)) eqn:P; [|inversion H; subst; destruct (abs st'); reflexivity].
    exact (do_id_found_abs _ _ _ _ _ _ _ _ _ _ Hfc P H). }
  destruct (command_of t =?s "plugin_cmd").
  { unfold do_plugin in H. destruct (st_fc st) as [fc|]; [|inversion H; subst; destruct (abs st'); reflexivity].
    destruct (o_json o) as [| | |name]; try (inversion H; subst; destruct (abs st'); reflexivity).
    inversion H; subst. clear H.
    assert (G : forall sp0, fold_left spec_reply (fst (plugin_loop name (fc_plugins fc))) sp0 = sp0).
    { induction (fc_plugins fc) as [|[n c] r IH]; intros sp0; cbn [plugin_loop fst]; [reflexivity|].
      destruct (n =?s name); [destruct c; reflexivity|apply IH]. }
    rewrite fold_left_app, G. destruct (snd _); reflexivity. }
  destruct (command_of t =?s "fs").
  { destruct (do_fs_inv _ _ _ _ H) as [-> [->|[->|[->|[v ->]]]]]; reflexivity. }
  inversion H; subst. reflexivity.
Qed.

Lemma apply_event_abs st ev : abs (apply_event st ev) = spec_event (abs st) ev.
Proof.
  destruct ev as [id]. unfold apply_event, abs at 2. destruct (st_fc st) as [fc|] eqn:Hfc; cbn [spec_event].
  - rewrite abs_with_fc. cbn [fc_streams set_streams]. f_equal.
    induction (fc_streams fc) as [|s r IH]; cbn [filter map]; [reflexivity|].
    cbn [sview fst snd]. destruct (negb ((s_id s =? id) && negb (s_is_stream s))); cbn [map]; rewrite IH; reflexivity.
  - unfold abs. rewrite Hfc. reflexivity.
Qed.

Lemma apply_events_abs evs st : abs (apply_events st evs) = fold_left spec_event evs (abs st).
Proof.
  unfold apply_events. revert st. induction evs as [|e r IH]; intros st; cbn [fold_left]; [reflexivity|].
  rewrite IH, apply_event_abs. reflexivity.
Qed.

Lemma run_abs h : forall st st' ws, run st h = Ok (st', ws) -> abs st' = spec_run (abs st) h ws.
Proof.
  induction h as [|it r IH]; intros st st' ws H; cbn [run] in H.
  - inversion H; subst. reflexivity.
  - destruct (step (apply_events st (i_pre it)) (i_frame it) (i_orc it)) as [[st1 w]| |] eqn:H1; cbn [bind fst snd] in H; try discriminate.
    destruct (run st1 r) as [[st2 ws2]| |] eqn:H2; cbn [bind fst snd] in H; try discriminate.
    inversion H; subst. cbn [spec_run]. rewrite (IH _ _ _ H2). unfold spec_item.
    rewrite <- apply_events_abs, <- (step_abs _ _ _ _ _ H1). reflexivity.
Qed.

(* ------------------------------------------------------------------ what a client can tell from the next reply *)
Definition reply_ok (r : reply) : bool := match r with ROk _ => true | _ => false end.
(* the command reached an existing stream (no "not found" / "no file opened" / "no valid id" answer) *)
Definition reaches_stream (r : reply) : bool :=
  match r with
  | RErr (EIdNotFound _) | RErr ENoFileOpened | RErr ENotValidId => false
  | _ => true
  end.

Lemma step_pause_close st t o :
  command_of t = "pause" \/ command_of t = "resume" \/ command_of t = "close" ->
  exists st' r, step st t o = Ok (st', [r]) /\ reply_ok r = spec_open (abs st).
Proof.
  intros Hc. unfold step, spec_open, abs.
  destruct Hc as [-> | [-> | ->]]; cbn [String.eqb Ascii.eqb Bool.eqb orb andb];
    unfold do_pause, do_close, unwrap_chk; destruct (st_fc st); cbn [is_some bind]; eauto.
Qed.

(* number of files in file_streams / extraction pending, as the dispatcher sees them *)
Definition files_of (st : state) : N := match st_fc st with Some fc => fc_nfiles fc | None => 0 end.
Definition extracting_of (st : state) : bool := match st_fc st with Some fc => fc_extracting fc | None => false end.

Lemma step_open_reply st t o :
  command_of t = "open" ->
  exists st' r, step st t o = Ok (st', [r]) /\
    (spec_open (abs st) = true -> r = RErr (EOpenAlready (files_of st)) /\ st' = st) /\
    (spec_open (abs st) = false ->
       match o_open o with
       | OpenOk _ _ plugins => r = ROk (OkOpen (N.of_nat (List.length plugins))) /\ abs st' = Some [] /\
                               extracting_of st' = o_archive o /\
                               files_of st' = (if o_archive o then 0 else o_nfiles o)
       | OpenErr => r = RErr EOpenFailed /\ st' = st
       end).
Proof.
  intros Hc. unfold step, spec_open, abs, files_of, extracting_of. rewrite Hc. cbn [String.eqb Ascii.eqb Bool.eqb].
  unfold do_open, unwrap_chk. destruct (st_fc st) as [fc|]; cbn [is_some bind].
  - eexists _, _. split; [reflexivity|]. split; [auto|discriminate].
  - destruct (o_open o); eexists _, _; (split; [reflexivity|]); (split; [discriminate|]); cbn; auto.
Qed.

Lemma existsb_sview id l : existsb (fun x => fst x =? id) (map sview l) = existsb (fun s => s_id s =? id) l.
Proof. induction l as [|s r IH]; cbn; [reflexivity|]. rewrite IH. reflexivity. Qed.

Lemma spec_live_abs st id :
  spec_live (abs st) id = match st_fc st with Some fc => existsb (fun s => s_id s =? id) (fc_streams fc) | None => false end.
Proof. unfold spec_live, abs. destruct (st_fc st); [apply existsb_sview|reflexivity]. Qed.

Lemma do_id_found_reaches st fc c params ps id pos o st' r :
  do_id_found st fc c params ps id pos o = Ok (st', [r]) -> reaches_stream r = true.
Proof.
  unfold do_id_found, search_params, remove_chk. intros H.
  split_res H; inversion H; subst; reflexivity.
Qed.

Lemma step_id_usable st t o id :
  is_id_command (command_of t) = true ->
  parse_u32 (hd "" (split_on sp (params_of t))) = Some id ->
  exists st' r, step st t o = Ok (st', [r]) /\ reaches_stream r = spec_live (abs st) id /\
                (command_of t = "stop" -> reply_ok r = spec_live (abs st) id).
Proof.
  intros Hc Hp. destruct (step_one st t o) as [st' [r H]]. exists st', r. split; [exact H|].
  rewrite spec_live_abs.
  unfold step in H.
  assert (N1 : (command_of t =?s "open") = false /\ ((command_of t =?s "pause") || (command_of t =?s "resume")) = false /\
               (command_of t =?s "close") = false /\ ((command_of t =?s "stream") || (command_of t =?s "query")) = false).
  { unfold is_id_command in Hc.
    repeat match type of Hc with
           | (_ || _) = true => apply orb_true_iff in Hc; destruct Hc as [Hc|Hc]
           end; apply String.eqb_eq in Hc; rewrite Hc; repeat split; reflexivity. }
  destruct N1 as [E1 [E2 [E3 E4]]]. rewrite E1, E2, E3, E4, Hc in H.
  unfold do_id in H.
  destruct (split_on sp (params_of t)) as [|p0 rest]; cbn [nth_chk nth_error bind hd] in *; [discriminate|].
  rewrite Hp in H.
  destruct (st_fc st) as [fc|]; [|inversion H; subst; split; [reflexivity|intros _; reflexivity]].
  destruct (position id (fc_streams fc)) as [pos|] eqn:P.
  - rewrite (position_some_exists _ _ _ P). split; [exact (do_id_found_reaches _ _ _ _ _ _ _ _ _ _ H)|].
    intros Hs. unfold do_id_found in H. rewrite Hs in H. cbn [String.eqb Ascii.eqb Bool.eqb] in H.
    unfold remove_chk in H. destruct (Nat.ltb pos _); cbn [bind] in H; [|discriminate]. inversion H; subst. reflexivity.
  - rewrite (position_none _ _ P). inversion H; subst. split; [reflexivity|intros _; reflexivity].
Qed.

(* replies other than ok: leave the session state alone *)
Lemma step_err_keeps_state st t o st' r :
  step st t o = Ok (st', [r]) -> reply_ok r = false -> st_fc st' = st_fc st.
Proof.
  unfold step. intros H Hr.
  destruct (command_of t =?s "open").
  { unfold do_open, unwrap_chk in H. split_res H; inversion H; subst; try discriminate; cbn in *; congruence. }
  destruct ((command_of t =?s "pause") || (command_of t =?s "resume")).
  { unfold do_pause in H. split_res H; inversion H; subst; try discriminate; cbn in *; congruence. }
  destruct (command_of t =?s "close").
  { unfold do_close, unwrap_chk in H. split_res H; inversion H; subst; try discriminate; cbn in *; congruence. }
  destruct ((command_of t =?s "stream") || (command_of t =?s "query")).
  { unfold do_stream in H. split_res H; inversion H; subst; try discriminate; cbn in *; congruence. }
  destruct (is_id_command (command_of t)).
  { unfold do_id, do_id_found, search_params, remove_chk in H. split_res H; inversion H; subst; try discriminate; cbn in *; congruence. }
  destruct (command_of t =?s "plugin_cmd").
  { unfold do_plugin in H. split_res H; inversion H; subst; cbn in *; congruence. }
  destruct (command_of t =?s "fs").
  { destruct (do_fs_inv _ _ _ _ H) as [-> _]. reflexivity. }
  inversion H; subst. reflexivity.
Qed.

(* the `_ =>` arm of the inner match is dead code *)
Lemma step_no_inner_default st t o st' w id : step st t o = Ok (st', w) -> ~ In (RErr (EInnerDefault id)) w.
Proof.
  unfold step. intros H Hin.
  assert (NI : forall r, not_unknown r -> True) by auto.
  destruct (command_of t =?s "open").
  { unfold do_open, unwrap_chk in H. split_res H; inversion H; subst; cbn in Hin; intuition discriminate. }
  destruct ((command_of t =?s "pause") || (command_of t =?s "resume")).
  { unfold do_pause in H. split_res H; inversion H; subst; cbn in Hin; intuition discriminate. }
  destruct (command_of t =?s "close").
  { unfold do_close, unwrap_chk in H. split_res H; inversion H; subst; cbn in Hin; intuition discriminate. }
  destruct ((command_of t =?s "stream") || (command_of t =?s "query")).
  { unfold do_stream in H. split_res H; inversion H; subst; cbn in Hin; intuition discriminate. }
  destruct (is_id_command (command_of t)) eqn:Hc.
  { unfold is_id_command in Hc. unfold do_id, do_id_found, search_params, remove_chk in H.
    destruct (command_of t =?s "stream_search") eqn:C1; [split_res H; inversion H; subst; cbn in Hin; intuition discriminate|].
    destruct (command_of t =?s "stream_binary_search") eqn:C2; [split_res H; inversion H; subst; cbn in Hin; intuition discriminate|].
    destruct (command_of t =?s "stream_change_window") eqn:C3; [split_res H; inversion H; subst; cbn in Hin; intuition discriminate|].
    destruct (command_of t =?s "stop") eqn:C4; [split_res H; inversion H; subst; cbn in Hin; intuition discriminate|].
    discriminate Hc. }
  destruct (command_of t =?s "plugin_cmd").
  { unfold do_plugin in H. destruct (st_fc st) as [fc|]; [|inversion H; subst; cbn in Hin; intuition discriminate].
    destruct (o_json o) as [| | |name]; try (inversion H; subst; cbn in Hin; intuition discriminate).
    inversion H; subst. apply in_app_or in Hin. destruct Hin as [Hin|Hin].
    - clear H. induction (fc_plugins fc) as [|[n c] r IH]; cbn [plugin_loop fst] in Hin; [destruct Hin|].
      destruct (n =?s name); [destruct c; cbn in Hin; intuition discriminate|exact (IH Hin)].
    - destruct (snd _); cbn in Hin; intuition discriminate. }
  destruct (command_of t =?s "fs").
  { destruct (do_fs_inv _ _ _ _ H) as [-> [->|[->|[->|[v ->]]]]]; cbn in Hin; intuition discriminate. }
  inversion H; subst. cbn in Hin. intuition discriminate.
Qed.

(* ------------------------------------------------------------------ stream ids are fresh *)
Definition issued_of (r : reply) : list N :=
  match r with
  | ROk (OkStream _ id _ _ _) => [id]
  | ROk (OkWindow _ new_id _ _) => [new_id]
  | _ => []
  end.
Definition issued (ws : list (list reply)) : list N := flat_map (flat_map issued_of) ws.

Lemma step_counter st t o st' w :
  step st t o = Ok (st', w) ->
  (st_next_id st' = st_next_id st /\ flat_map issued_of w = []) \/
  (st_next_id st' = wrapping_add 32 (st_next_id st) 1 /\
   (flat_map issued_of w = [] \/ flat_map issued_of w = [st_next_id st])).
Proof.
  unfold step. intros H.
  destruct (command_of t =?s "open").
  { unfold do_open, unwrap_chk in H. split_res H; inversion H; subst; left; split; reflexivity. }
  destruct ((command_of t =?s "pause") || (command_of t =?s "resume")).
  { unfold do_pause in H. split_res H; inversion H; subst; left; split; reflexivity. }
  destruct (command_of t =?s "close").
  { unfold do_close, unwrap_chk in H. split_res H; inversion H; subst; left; split; reflexivity. }
  destruct ((command_of t =?s "stream") || (command_of t =?s "query")).
  { unfold do_stream in H. split_res H; inversion H; subst;
      first [left; split; reflexivity | right; split; [reflexivity|]; first [left; reflexivity | right; reflexivity]]. }
  destruct (is_id_command (command_of t)).
  { unfold do_id, do_id_found, search_params, remove_chk in H. split_res H; inversion H; subst;
      first [left; split; reflexivity | right; split; [reflexivity|]; first [left; reflexivity | right; reflexivity]]. }
  destruct (command_of t =?s "plugin_cmd").
  { unfold do_plugin in H. destruct (st_fc st) as [fc|]; [|inversion H; subst; left; split; reflexivity].
    destruct (o_json o) as [| | |name]; try (inversion H; subst; left; split; reflexivity).
    inversion H; subst. clear H. left. split; [reflexivity|]. rewrite flat_map_app.
    assert (G : flat_map issued_of (fst (plugin_loop name (fc_plugins fc))) = []).
    { induction (fc_plugins fc) as [|[n c] r IH]; cbn [plugin_loop fst]; [reflexivity|].
      destruct (n =?s name); [destruct c; reflexivity|exact IH]. }
    rewrite G. destruct (snd _); reflexivity. }
  destruct (command_of t =?s "fs").
  { destruct (do_fs_inv _ _ _ _ H) as [-> [->|[->|[->|[v ->]]]]]; left; split; reflexivity. }
  inversion H; subst. left. split; reflexivity.
Qed.

Lemma apply_events_counter evs st : st_next_id (apply_events st evs) = st_next_id st.
Proof.
  unfold apply_events. revert st. induction evs as [|e r IH]; intros st; cbn [fold_left]; [reflexivity|].
  rewrite IH. destruct e. unfold apply_event. destruct (st_fc st); reflexivity.
Qed.

Lemma run_ids_fresh h : forall st st' ws,
  run st h = Ok (st', ws) ->
  st_next_id st + N.of_nat (List.length h) < 2 ^ 32 ->
  StronglySorted N.lt (issued ws) /\
  Forall (fun i => st_next_id st <= i) (issued ws) /\
  st_next_id st <= st_next_id st' <= st_next_id st + N.of_nat (List.length h).
Proof.
  induction h as [|it r IH]; intros st st' ws H Hb; cbn [run] in H.
  - inversion H; subst. cbn. repeat split; try constructor; lia.
  - destruct (step (apply_events st (i_pre it)) (i_frame it) (i_orc it)) as [[st1 w]| |] eqn:H1; cbn [bind fst snd] in H; try discriminate.
    destruct (run st1 r) as [[st2 ws2]| |] eqn:H2; cbn [bind fst snd] in H; try discriminate.
    inversion H; subst. clear H.
    pose proof (step_counter _ _ _ _ _ H1) as C. rewrite apply_events_counter in C.
    cbn [List.length] in Hb. rewrite Nat2N.inj_succ in Hb.
    assert (W : wrapping_add 32 (st_next_id st) 1 = st_next_id st + 1).
    { unfold wrapping_add. apply N.mod_small. lia. }
    unfold issued. cbn [flat_map]. fold (issued ws2).
    destruct C as [[Cn Ci]|[Cn Ci]].
    + rewrite Ci. cbn [app]. destruct (IH st1 st' ws2 H2) as [S [F B]]; [rewrite Cn; lia|].
      rewrite Cn in *. split; [exact S|]. split; [exact F|]. cbn [List.length]. rewrite Nat2N.inj_succ. lia.
    + rewrite W in Cn. destruct (IH st1 st' ws2 H2) as [S [F B]]; [rewrite Cn; lia|].
      rewrite Cn in *. cbn [List.length]. rewrite Nat2N.inj_succ.
      destruct Ci as [Ci|Ci]; rewrite Ci; cbn [app].
      * split; [exact S|]. split; [|lia]. eapply Forall_impl; [|exact F]. cbn. intros a Ha. lia.
      * split; [|split; [|lia]].
        -- constructor; [exact S|]. eapply Forall_impl; [|exact F]. cbn. intros a Ha. lia.
        -- constructor; [lia|]. eapply Forall_impl; [|exact F]. cbn. intros a Ha. lia.
Qed.

Lemma strongly_sorted_lt_nodup l : StronglySorted N.lt l -> NoDup l.
Proof.
  induction 1 as [|a l S IH F]; constructor; [|exact IH].
  intros Hin. rewrite Forall_forall in F. specialize (F a Hin). lia.
Qed.

Lemma step_close_none st t o :
  command_of t = "close" -> exists st' r, step st t o = Ok (st', [r]) /\ abs st' = None.
Proof.
  intros Hc. unfold step. rewrite Hc. cbn [String.eqb Ascii.eqb Bool.eqb orb andb].
  unfold do_close, unwrap_chk, abs. destruct (st_fc st) eqn:E; cbn [is_some bind]; eexists _, _; (split; [reflexivity|]); cbn; rewrite ?E; reflexivity.
Qed.

Lemma close_then_open st tc oc t_open o_op mode sort plugins :
  command_of tc = "close" -> command_of t_open = "open" -> o_open o_op = OpenOk mode sort plugins ->
  exists st1 r1 st2,
    step st tc oc = Ok (st1, [r1]) /\
    step st1 t_open o_op = Ok (st2, [ROk (OkOpen (N.of_nat (List.length plugins)))]) /\
    abs st2 = Some [].
Proof.
  intros Hc Ho Hoo.
  destruct (step_close_none st tc oc Hc) as [st1 [r1 [H1 A1]]].
  destruct (step_open_reply st1 t_open o_op Ho) as [st2 [r2 [H2 [_ Hn]]]].
  rewrite A1 in Hn. specialize (Hn eq_refl). rewrite Hoo in Hn. destruct Hn as [-> [A2 _]].
  exists st1, r1, st2. auto.
Qed.

(* ------------------------------------------------------------------ well-formed frames reach their command *)
Fixpoint no_space (s : string) : bool :=
  match s with
  | EmptyString => true
  | String a r => negb (Ascii.eqb a sp) && no_space r
  end.

Lemma split_once_no_space c : no_space c = true -> split_once sp c = None.
Proof.
  induction c as [|a r IH]; cbn [no_space split_once]; [reflexivity|].
  intros H. apply andb_true_iff in H. destruct H as [H1 H2]. apply negb_true_iff in H1. rewrite H1, (IH H2). reflexivity.
Qed.

Lemma split_once_frame c p : no_space c = true -> split_once sp (c ++ String sp p) = Some (c, p).
Proof.
  induction c as [|a r IH]; cbn [no_space split_once String.append].
  - intros _. rewrite Ascii.eqb_refl. reflexivity.
  - intros H. apply andb_true_iff in H. destruct H as [H1 H2]. apply negb_true_iff in H1. rewrite H1, (IH H2). reflexivity.
Qed.

Lemma frame_command c p : no_space c = true ->
  command_of (c ++ String sp p) = c /\ params_of (c ++ String sp p) = p.
Proof. intros H. unfold command_of, params_of, splitn2. rewrite (split_once_frame c p H). split; reflexivity. Qed.

Lemma frame_command_bare c : no_space c = true -> command_of c = c /\ params_of c = "".
Proof. intros H. unfold command_of, params_of, splitn2. rewrite (split_once_no_space c H). split; reflexivity. Qed.

(* ------------------------------------------------------------------ lookups over collections answer once: first match *)
Lemma plugin_loop_first name c ps1 ps2 :
  (forall q, In q ps1 -> (fst q =?s name) = false) ->
  plugin_loop name (ps1 ++ (name, c) :: ps2) = ((if c then [ROk OkPluginCmd] else [RErr EPluginNoCmds]), true).
Proof.
  induction ps1 as [|[n h] r IH]; intros H; cbn [app plugin_loop].
  - rewrite String.eqb_refl. reflexivity.
  - pose proof (H (n, h) (or_introl eq_refl)) as Hh. cbn [fst] in Hh. rewrite Hh. apply IH. intros q Hq. apply H. right. exact Hq.
Qed.

Lemma plugin_loop_none name ps :
  (forall q, In q ps -> (fst q =?s name) = false) -> plugin_loop name ps = ([], false).
Proof.
  induction ps as [|[n h] r IH]; intros H; cbn [plugin_loop]; [reflexivity|].
  pose proof (H (n, h) (or_introl eq_refl)) as Hh. cbn [fst] in Hh. rewrite Hh. apply IH. intros q Hq. apply H. right. exact Hq.
Qed.

Lemma step_plugin_cmd st t o fc name :
  command_of t = "plugin_cmd" -> st_fc st = Some fc -> o_json o = JGood name ->
  (forall c ps1 ps2, fc_plugins fc = (ps1 ++ (name, c) :: ps2)%list -> (forall q, In q ps1 -> (fst q =?s name) = false) ->
     step st t o = Ok (st, [if c then ROk OkPluginCmd else RErr EPluginNoCmds])) /\
  ((forall q, In q (fc_plugins fc) -> (fst q =?s name) = false) -> step st t o = Ok (st, [RErr EPluginNotFound])).
Proof.
  intros Hc Hfc Hj. unfold step. rewrite Hc. cbn [String.eqb Ascii.eqb Bool.eqb orb andb is_id_command].
  unfold do_plugin. rewrite Hfc, Hj. split.
  - intros c ps1 ps2 Hp Hn. rewrite Hp, (plugin_loop_first name c ps1 ps2 Hn). cbn. destruct c; reflexivity.
  - intros Hn. rewrite (plugin_loop_none name _ Hn). reflexivity.
Qed.

Lemma position_first id l1 s l2 :
  s_id s = id -> (forall x, In x l1 -> (s_id x =? id) = false) -> position id (l1 ++ s :: l2) = Some (List.length l1).
Proof.
  intros Hs. induction l1 as [|a r IH]; intros H; cbn [app position List.length].
  - rewrite Hs, N.eqb_refl. reflexivity.
  - rewrite (H a (or_introl eq_refl)). rewrite IH; [reflexivity|]. intros x Hx. apply H. right. exact Hx.
Qed.

Lemma remove_at_app {A} (l1 : list A) s l2 : remove_at (l1 ++ s :: l2) (List.length l1) = (l1 ++ l2)%list.
Proof. induction l1 as [|a r IH]; cbn; [reflexivity|]. rewrite IH. reflexivity. Qed.

(* stop <id> with several streams carrying the id (possible only after the u32 counter wrapped): one reply,
   exactly the first of them is removed *)
Lemma step_stop_first st t o fc id l1 s l2 :
  command_of t = "stop" -> parse_u32 (hd "" (split_on sp (params_of t))) = Some id ->
  st_fc st = Some fc -> fc_streams fc = (l1 ++ s :: l2)%list -> s_id s = id ->
  (forall x, In x l1 -> (s_id x =? id) = false) ->
  step st t o = Ok (with_fc st (set_streams fc (l1 ++ l2)%list), [ROk (OkStop id)]).
Proof.
  intros Hc Hp Hfc Hl Hs Hn. unfold step. rewrite Hc. cbn [String.eqb Ascii.eqb Bool.eqb orb andb is_id_command].
  unfold do_id. destruct (split_on sp (params_of t)) as [|p0 rest]; cbn [hd] in Hp; cbn [nth_chk nth_error bind].
  - discriminate Hp.
  - rewrite Hp, Hfc, Hl, (position_first id l1 s l2 Hs Hn).
    unfold do_id_found. cbn [String.eqb Ascii.eqb Bool.eqb]. unfold remove_chk.
    assert (L : Nat.ltb (List.length l1) (List.length (l1 ++ s :: l2)) = true).
    { apply Nat.ltb_lt. rewrite app_length. cbn. lia. }
    rewrite Hl, L. cbn [bind]. rewrite remove_at_app. reflexivity.
Qed.

(* ------------------------------------------------------------------ fs: one reply whatever the environment is *)
Lemma step_fs st t o : command_of t = "fs" -> step st t o = do_fs st o.
Proof.
  intros Hc. unfold step. rewrite Hc. cbn [String.eqb Ascii.eqb Bool.eqb orb andb is_id_command]. reflexivity.
Qed.

(* every `fs` frame - any body, any path text, any file metadata (any type, length, modification / creation time
   before, at or after the epoch or unavailable), any read_dir outcome, any archive - is answered by exactly one
   frame that is ok: or err:, and the session state is untouched *)
Lemma step_fs_one st t o :
  command_of t = "fs" ->
  step st t o = Ok (st, [RErr EJsonParse]) \/ step st t o = Ok (st, [RErr ENotObject]) \/
  step st t o = Ok (st, [RErr EFsErr]) \/ exists v, step st t o = Ok (st, [ROk (OkFs v)]).
Proof.
  intros Hc. rewrite (step_fs st t o Hc). destruct (do_fs_one st o) as [st' [rp H]].
  destruct (do_fs_inv _ _ _ _ H) as [-> [E|[E|[E|[v E]]]]]; rewrite H, E; eauto.
Qed.

(* stat of an existing path: the reply is the stat value computed from the metadata, for every metadata *)
Lemma step_fs_stat_existing st t o name m :
  command_of t = "fs" -> o_json o = JGood name ->
  fo_cmd_path (o_fs o) = true -> fo_cmd (o_fs o) = FsCmdStat -> fo_meta (o_fs o) = MetaOk m ->
  step st t o = Ok (st, [ROk (OkFs (stat_value m))]).
Proof.
  intros Hc Hj H1 H2 H3. rewrite (step_fs st t o Hc). unfold do_fs. rewrite Hj.
  rewrite (process_fs_cmd_stat_existing _ m H1 H2 H3). reflexivity.
Qed.
