(* Proofs about Remote/Stream.v, part 2: stream_search paging, std binary search, the lookups *)
From Coq Require Import List NArith Bool Lia Arith.
From AdltV Require Import Base.Res Base.MachInt Remote.Stream Remote.StreamProofs.
Import ListNotations.
Open Scope N_scope.

(* [a; a+1; ...] of length n *)
Fixpoint rangeN (a : N) (n : nat) : list N :=
  match n with O => [] | S k => a :: rangeN (a + 1) k end.
Definition range (a b : N) : list N := rangeN a (N.to_nat (b - a)).

Lemma range_empty a b : b <= a -> range a b = [].
Proof. intros H. unfold range. replace (N.to_nat (b - a)) with 0%nat by lia. reflexivity. Qed.
Lemma range_cons a b : a < b -> range a b = a :: range (a + 1) b.
Proof.
  intros H. unfold range. replace (N.to_nat (b - a)) with (S (N.to_nat (b - (a + 1)))) by lia. reflexivity.
Qed.
Lemma rangeN_app a n m : rangeN a (n + m) = rangeN a n ++ rangeN (a + N.of_nat n) m.
Proof.
  revert a. induction n as [|n IH]; intros a; cbn [rangeN Nat.add app].
  - rewrite N.add_0_r. reflexivity.
  - rewrite IH. do 3 f_equal. rewrite Nat2N.inj_succ. lia.
Qed.
Lemma range_split a b c : a <= b -> b <= c -> range a c = range a b ++ range b c.
Proof.
  intros H1 H2. unfold range.
  replace (N.to_nat (c - a)) with (N.to_nat (b - a) + N.to_nat (c - b))%nat by lia.
  rewrite rangeN_app. do 2 f_equal. lia.
Qed.
Lemma rangeN_in a n x : In x (rangeN a n) <-> a <= x < a + N.of_nat n.
Proof.
  revert a. induction n as [|n IH]; intros a; cbn [rangeN In].
  - split; [contradiction|lia].
  - rewrite IH. split; [intros [H|H]; lia|intros H]. destruct (N.eq_dec a x); [left; assumption|right; lia].
Qed.
Lemma range_in a b x : In x (range a b) <-> a <= x < b.
Proof. unfold range. rewrite rangeN_in. lia. Qed.

Section Search.
  Context {M : Type}.
  Notation sctx := (sctx M).
  Notation fset := (fset M).

  Variable all : list M.
  Variable s : sctx.
  Let slen := stream_len s (len all).

  (* every stream position has a message (no index panics): follows from the index invariant, see below *)
  Definition stream_ok : Prop := forall i, i < slen -> exists m, stream_msg all s i = Ok m.

  Variable fs : fset.       (* the search's filters *)
  Definition hit (i : N) : bool :=
    match stream_msg all s i with Ok m => match_filters fs m | _ => false end.
  (* matching stream positions in [a, b) *)
  Definition hits (a b : N) : list N := filter hit (range a b).

  Lemma hits_empty a b : b <= a -> hits a b = [].
  Proof. intros H. unfold hits. rewrite range_empty by exact H. reflexivity. Qed.
  Lemma hits_cons a b : a < b -> hits a b = if hit a then a :: hits (a + 1) b else hits (a + 1) b.
  Proof. intros H. unfold hits. rewrite range_cons by exact H. reflexivity. Qed.
  Lemma hits_split a b c : a <= b -> b <= c -> hits a c = hits a b ++ hits b c.
  Proof. intros H1 H2. unfold hits. rewrite (range_split a b c H1 H2). apply filter_app. Qed.

  Variable maxr : N.

  Lemma search_loop_spec : stream_ok -> forall fuel i acc,
    (N.to_nat (slen - i) <= fuel)%nat ->
    exists j, search_loop fuel all s fs maxr slen i acc = Ok (acc ++ hits i j, j) /\
              i <= j /\ (j <= slen \/ j = i) /\
              (slen <= j \/ (maxr <= len (acc ++ hits i j) /\ i < j)).
  Proof.
    intros Hok. induction fuel as [|f IH]; intros i acc Hf.
    - exists i. cbn [search_loop]. rewrite hits_empty, app_nil_r by lia. repeat split; try lia; try (left; lia).
    - cbn [search_loop]. destruct (i <? slen) eqn:El.
      + apply N.ltb_lt in El. destruct (Hok i El) as [m Hm]. rewrite Hm. cbn [bind].
        assert (Hh : hit i = match_filters fs m) by (unfold hit; rewrite Hm; reflexivity).
        destruct (match_filters fs m) eqn:Em.
        * destruct (maxr <=? len (acc ++ [i])) eqn:Ef.
          -- apply N.leb_le in Ef. exists (i + 1).
             rewrite (hits_cons i (i + 1)) by lia. rewrite Hh, hits_empty by lia.
             repeat split; try lia; try (right; split; [exact Ef|lia]).
          -- destruct (IH (i + 1) (acc ++ [i])) as [j [Hj [H1 [H2 H3]]]]; [lia|].
             exists j. rewrite Hj. rewrite (hits_cons i j) by lia. rewrite Hh, <- app_assoc. cbn [app].
             rewrite <- app_assoc in H3. cbn [app] in H3.
             repeat split; try lia; try (destruct H3 as [H3|[H3 H4]]; [left; exact H3|right; split; [exact H3|lia]]).
        * destruct (IH (i + 1) acc) as [j [Hj [H1 [H2 H3]]]]; [lia|].
          exists j. rewrite Hj.
          destruct (N.eq_dec j i) as [->|Hn]; [lia|].
          rewrite (hits_cons i j) by lia. rewrite Hh.
          repeat split; try lia; try (destruct H3 as [H3|[H3 H4]]; [left; exact H3|right; split; [exact H3|lia]]).
      + apply N.ltb_ge in El. exists i. rewrite hits_empty, app_nil_r by lia. repeat split; try lia; try (left; lia).
  Qed.

  (* one page: the matching positions of the examined range [start, j), and the continuation *)
  Lemma stream_search_spec : stream_ok -> forall start,
    exists j, stream_search all s start maxr fs = Ok (hits start j, if j <? slen then Some j else None) /\
              start <= j /\ (j <= slen \/ j = start) /\ (slen <= j \/ (maxr <= len (hits start j) /\ start < j)).
  Proof.
    intros Hok start. unfold stream_search. fold slen.
    destruct (search_loop_spec Hok (N.to_nat (slen - start)) start [] (le_n _)) as [j [Hj [H1 [H2 H3]]]].
    rewrite Hj. cbn [bind app]. exists j. cbn [app] in H3. auto.
  Qed.

  (* the pages obtained by following next_search_idx: consecutive examined ranges *)
  Fixpoint chain (a : N) (pages : list (list N * (N * N))) (b : N) : Prop :=
    match pages with
    | [] => False
    | [(_, (f, t))] => f = a /\ f <= t /\ t = b
    | (_, (f, t)) :: r => f = a /\ f < t /\ chain t r b
    end.

  Theorem search_pages_partition : stream_ok -> forall fuel start,
    (N.to_nat (slen - start) < fuel)%nat ->
    exists pages,
      search_pages fuel all s start maxr fs = Ok pages /\
      (* every position of [start, stream length) is examined by exactly one page, in order *)
      chain start pages (N.max start slen) /\
      (* each page returns the matching positions of the range it examined *)
      Forall (fun p => fst p = hits (fst (snd p)) (snd (snd p))) pages /\
      (* so the union of the pages is exactly the set of matching positions *)
      concat (map fst pages) = hits start (N.max start slen).
  Proof.
    intros Hok. induction fuel as [|f IH]; intros start Hf; [lia|].
    cbn [search_pages]. destruct (stream_search_spec Hok start) as [j [Hs [H1 [H2 H3]]]].
    rewrite Hs. cbn [bind fst snd]. fold slen.
    destruct (j <? slen) eqn:Ej.
    - apply N.ltb_lt in Ej. destruct H3 as [H3|[H3 H4]]; [lia|].
      destruct (IH j) as [pages [Hp [Hc [Hall Hu]]]]; [lia|].
      rewrite Hp. cbn [bind]. exists ((hits start j, (start, j)) :: pages).
      split; [reflexivity|].
      assert (Em : N.max start slen = N.max j slen) by lia.
      split; [|split].
      + cbn [chain]. destruct pages as [|p r]; [contradiction|]. rewrite Em. auto.
      + constructor; [reflexivity|exact Hall].
      + cbn [map concat fst]. rewrite Hu, Em. symmetry. apply hits_split; lia.
    - apply N.ltb_ge in Ej.
      exists [(hits start j, (start, N.max start slen))]. split; [reflexivity|].
      assert (Eh : hits start j = hits start (N.max start slen)).
      { destruct H2 as [H2|H2]; [replace (N.max start slen) with j by lia; reflexivity|].
        subst j. rewrite !hits_empty by lia. reflexivity. }
      split; [|split].
      + cbn [chain]. repeat split; lia.
      + constructor; [exact Eh|constructor].
      + cbn [map concat fst]. rewrite app_nil_r. exact Eh.
  Qed.
End Search.

(* the behaviour before the repairs 536fc54 / fe9ae21 did not have the property: one position per page was
   skipped, and nothing was found in a stream without filters (kept as checked documentation of the defects) *)
Section SearchRefuted.
  Definition d_all : list N := [1; 1; 1; 1].
  Definition d_fs : fset N := {| f_pos := [fun m => m =? 1]; f_neg := []; f_ev := [] |}.
  Definition d_filtered : sctx N := set_progress (new_ctx 1 true true d_fs 0 10) [0; 1; 2; 3] 4.
  Definition d_unfiltered : sctx N := set_progress (new_ctx 1 true true fs_none 0 10) [] 4.

  Lemma search_prefix_skipped_a_position :
    stream_search_prefix d_all d_filtered 0 1 d_fs = Ok ([0], Some 2) /\
    stream_search_prefix d_all d_filtered 2 1 d_fs = Ok ([2], Some 4) /\
    stream_search_prefix d_all d_filtered 4 1 d_fs = Ok ([], None) /\
    hits d_all d_filtered d_fs 0 4 = [0; 1; 2; 3].
  Proof. repeat split; vm_compute; reflexivity. Qed.

  Lemma search_prefix_found_nothing_without_filters :
    stream_search_prefix d_all d_unfiltered 0 100 d_fs = Ok ([], None) /\
    hits d_all d_unfiltered d_fs 0 4 = [0; 1; 2; 3].
  Proof. repeat split; vm_compute; reflexivity. Qed.
End SearchRefuted.

(* every state that satisfies the index invariant has a message at every stream position *)
Section StreamOk.
  Context {M : Type}.
  Lemma inv_stream_ok (all : list M) (s : sctx M) : inv all s -> stream_ok all s.
  Proof.
    intros [Hl [Ha Hna]] i Hi. unfold stream_len in Hi. unfold stream_msg.
    destruct (s_filters_active s) eqn:Ea.
    - destruct (nthN_lt_some _ _ Hi) as [p Hp]. unfold nth_chk at 1. rewrite Hp. cbn [bind].
      assert (Hin : In p (s_filtered s)) by (eapply nth_error_In; exact Hp).
      rewrite (Ha eq_refl) in Hin. apply matching_bounds in Hin. rewrite len_firstN in Hin.
      destruct (nthN_lt_some all p) as [m Hm]; [lia|]. exists m. unfold nth_chk. rewrite Hm. reflexivity.
    - cbn [bind]. destruct (nthN_lt_some all i Hi) as [m Hm]. exists m. unfold nth_chk. rewrite Hm. reflexivity.
  Qed.
End StreamOk.

(* ------------------------------------------------------------------ std binary search *)
Section BSearch.
  Context {A : Type}.
  Variable cmp : A -> comparison.

  (* Less* Equal* Greater* *)
  Definition cle (x y : comparison) : bool :=
    match x, y with
    | Lt, _ => true
    | Eq, Lt => false
    | Eq, _ => true
    | Gt, Gt => true
    | Gt, _ => false
    end.
  Definition partitioned (l : list A) : Prop :=
    forall i j a b, i <= j -> nthN l i = Some a -> nthN l j = Some b -> cle (cmp a) (cmp b) = true.

  Lemma cmp_at_some l i a : nthN l i = Some a -> cmp_at cmp l i = cmp a.
  Proof. intros H. unfold cmp_at. rewrite H. reflexivity. Qed.

  Lemma bs_loop_inv l : partitioned l -> forall fuel size base,
    (N.to_nat size <= fuel)%nat -> 1 <= size -> base + size <= len l ->
    (base = 0 \/ cmp_at cmp l base <> Gt) ->
    (forall j, base + size <= j -> j < len l -> cmp_at cmp l j = Gt) ->
    let b := bs_loop fuel cmp l size base in
    b < len l /\ (b = 0 \/ cmp_at cmp l b <> Gt) /\ (forall j, b + 1 <= j -> j < len l -> cmp_at cmp l j = Gt).
  Proof.
    intros Hp. induction fuel as [|f IH]; intros size base Hf H1 Hb Hlo Hhi; cbv zeta; [lia|].
    cbn [bs_loop]. destruct (1 <? size) eqn:E1.
    - apply N.ltb_lt in E1.
      assert (Hh : 1 <= size / 2) by (apply N.div_le_lower_bound; lia).
      assert (Hh2 : 2 * (size / 2) <= size) by (apply N.mul_div_le; lia).
      set (half := size / 2) in *. set (mid := base + half).
      assert (Hmid : mid < len l) by (unfold mid; lia).
      destruct (nthN_lt_some l mid Hmid) as [am Ham].
      destruct (cmp_at cmp l mid) eqn:Ec.
      + apply IH; try lia.
        * right. fold mid. rewrite Ec. discriminate.
        * intros j Hj Hjl. apply Hhi; [unfold mid in Hj; lia|exact Hjl].
      + apply IH; try lia.
        * right. fold mid. rewrite Ec. discriminate.
        * intros j Hj Hjl. apply Hhi; [unfold mid in Hj; lia|exact Hjl].
      + apply IH; try lia; [exact Hlo|].
        intros j Hj Hjl. destruct (nthN_lt_some l j Hjl) as [aj Haj].
        rewrite (cmp_at_some _ _ _ Haj). rewrite (cmp_at_some _ _ _ Ham) in Ec.
        assert (Hle : mid <= j) by (unfold mid; lia).
        pose proof (Hp mid j am aj Hle Ham Haj) as Hc. rewrite Ec in Hc. destruct (cmp aj); [discriminate|discriminate|reflexivity].
    - apply N.ltb_ge in E1. assert (size = 1) by lia. subst size.
      split; [lia|]. split; [exact Hlo|]. intros j Hj Hjl. apply Hhi; [lia|exact Hjl].
  Qed.

  (* the toolchain's algorithm meets the documented contract *)
  Theorem std_bsearch_valid l : partitioned l -> bsearch_valid cmp l (std_bsearch cmp l).
  Proof.
    intros Hp. unfold std_bsearch. destruct l as [|a0 r] eqn:El.
    - cbn [bsearch_valid]. split; [apply N.le_0_l|]. split; intros j a _ H; unfold nthN in H; destruct (N.to_nat j); discriminate.
    - rewrite <- El in *. assert (Hl1 : 1 <= len l) by (rewrite El, len_cons; lia).
      assert (P1 : (N.to_nat (len l) <= length l)%nat) by (unfold len; lia).
      assert (P2 : 0 + len l <= len l) by lia.
      assert (P3 : 0 = 0 \/ cmp_at cmp l 0 <> Gt) by (left; reflexivity).
      assert (P4 : forall j, 0 + len l <= j -> j < len l -> cmp_at cmp l j = Gt) by (intros; lia).
      destruct (bs_loop_inv l Hp (length l) (len l) 0 P1 Hl1 P2 P3 P4) as [Hb [Hlo Hhi]].
      cbv zeta in *. set (b := bs_loop (length l) cmp l (len l) 0) in *.
      destruct (nthN_lt_some l b Hb) as [ab Hab]. rewrite (cmp_at_some _ _ _ Hab) in *.
      destruct (cmp ab) eqn:Ec; cbn [bsearch_valid].
      + exists ab. auto.
      + split; [lia|]. split.
        * intros j a Hj Ha. assert (Hle : j <= b) by lia.
          pose proof (Hp j b a ab Hle Ha Hab) as Hc. rewrite Ec in Hc. destruct (cmp a); [discriminate|reflexivity|discriminate].
        * intros j a Hj Ha. rewrite <- (cmp_at_some _ _ _ Ha). apply Hhi; [lia|]. eapply nthN_some_lt; exact Ha.
      + destruct Hlo as [Hlo|Hlo]; [|congruence]. rewrite Hlo in *. split; [lia|]. split.
        * intros j a Hj; lia.
        * intros j a Hj Ha. pose proof (Hp 0 j ab a Hj Hab Ha) as Hc. rewrite Ec in Hc. destruct (cmp a); [discriminate|discriminate|reflexivity].
  Qed.

  (* with the current algorithm an Ok result is the LAST of several equal elements (why the lookups that
     used binary_search_by on message times answered the last message of that time) *)
  Theorem std_bsearch_ok_is_last l i : partitioned l -> std_bsearch cmp l = BOk i ->
    forall j a, i < j -> nthN l j = Some a -> cmp a = Gt.
  Proof.
    intros Hp. unfold std_bsearch. destruct l as [|a0 r] eqn:El; [discriminate|].
    rewrite <- El in *. assert (Hl1 : 1 <= len l) by (rewrite El, len_cons; lia).
    assert (P1 : (N.to_nat (len l) <= length l)%nat) by (unfold len; lia).
    assert (P2 : 0 + len l <= len l) by lia.
    assert (P3 : 0 = 0 \/ cmp_at cmp l 0 <> Gt) by (left; reflexivity).
    assert (P4 : forall j, 0 + len l <= j -> j < len l -> cmp_at cmp l j = Gt) by (intros; lia).
    destruct (bs_loop_inv l Hp (length l) (len l) 0 P1 Hl1 P2 P3 P4) as [Hb [Hlo Hhi]].
    cbv zeta in *. set (b := bs_loop (length l) cmp l (len l) 0) in *.
    destruct (cmp_at cmp l b); intros H; inversion H; subst i.
    intros j a Hj Ha. rewrite <- (cmp_at_some _ _ _ Ha). apply Hhi; [lia|]. eapply nthN_some_lt; exact Ha.
  Qed.
End BSearch.

(* counting: if the elements before position i satisfy P and those from i on do not, i elements satisfy P *)
Lemma count_split {A} (P : A -> bool) (l : list A) : forall i,
  i <= len l ->
  (forall j a, j < i -> nthN l j = Some a -> P a = true) ->
  (forall j a, i <= j -> nthN l j = Some a -> P a = false) ->
  len (filter P l) = i.
Proof.
  induction l as [|x r IH]; intros i Hi Ht Hf.
  - rewrite len_nil in Hi. cbn [filter]. rewrite len_nil. lia.
  - rewrite len_cons in Hi. cbn [filter]. destruct (N.eq_dec i 0) as [->|Hn].
    + rewrite (Hf 0 x (N.le_refl _) (nthN_cons_0 _ _)).
      apply IH; [lia| |].
      * intros j a Hj; lia.
      * intros j a _ Ha. apply (Hf (j + 1)); [lia|]. rewrite nthN_cons_succ. exact Ha.
    + assert (H0 : 0 < i) by lia. rewrite (Ht 0 x H0 (nthN_cons_0 _ _)). rewrite len_cons.
      rewrite (IH (i - 1)); [lia|lia| |].
      * intros j a Hj Ha. apply (Ht (j + 1)); [lia|]. rewrite nthN_cons_succ. exact Ha.
      * intros j a Hj Ha. apply (Hf (j + 1)); [lia|]. rewrite nthN_cons_succ. exact Ha.
Qed.

(* any result allowed by the contract, unwrapped with unwrap_or_else(|e| e), on a strictly increasing list of
   numbers: the number of elements below the key = the position of the first element not below it *)
Definition increasing (l : list N) : Prop :=
  forall i j a b, i < j -> nthN l i = Some a -> nthN l j = Some b -> a < b.

Lemma bsearch_increasing_pos (l : list N) key r :
  increasing l -> bsearch_valid (fun f => N.compare f key) l r ->
  bres_idx r = len (filter (fun f => f <? key) l).
Proof.
  intros Hinc Hv. symmetry. destruct r as [i|i]; cbn [bres_idx bsearch_valid] in *.
  - destruct Hv as [a [Ha Hc]]. apply N.compare_eq in Hc. subst a.
    apply count_split.
    + apply nthN_some_lt in Ha. lia.
    + intros j a Hj Hja. apply N.ltb_lt. exact (Hinc j i a key Hj Hja Ha).
    + intros j a Hj Hja. apply N.ltb_ge. destruct (N.eq_dec i j) as [->|Hn]; [rewrite Ha in Hja; inversion Hja; lia|].
      assert (Hlt : i < j) by lia. pose proof (Hinc i j key a Hlt Ha Hja). lia.
  - destruct Hv as [Hi [Hlo Hhi]]. apply count_split; [exact Hi| |].
    + intros j a Hj Hja. apply N.ltb_lt. pose proof (Hlo j a Hj Hja) as Hc. apply N.compare_lt_iff in Hc. exact Hc.
    + intros j a Hj Hja. apply N.ltb_ge. pose proof (Hhi j a Hj Hja) as Hc. apply N.compare_gt_iff in Hc. lia.
Qed.

Lemma increasing_partitioned (l : list N) key : increasing l -> partitioned (fun f => N.compare f key) l.
Proof.
  intros Hinc i j a b Hij Ha Hb.
  assert (Hab : a <= b).
  { destruct (N.eq_dec i j) as [->|Hn]; [rewrite Ha in Hb; inversion Hb; lia|].
    assert (Hlt : i < j) by lia. pose proof (Hinc i j a b Hlt Ha Hb). lia. }
  destruct (N.compare_spec a key), (N.compare_spec b key); cbn; try reflexivity; lia.
Qed.

(* ------------------------------------------------------------------ the lookups *)
Lemma increasing_cons x (l : list N) :
  (forall a, In a l -> x < a) -> increasing l -> increasing (x :: l).
Proof.
  intros Hx Hl i j a b Hij Ha Hb.
  destruct (N.eq_dec i 0) as [->|Hi].
  - rewrite nthN_cons_0 in Ha. inversion Ha; subst a.
    replace j with ((j - 1) + 1) in Hb by lia. rewrite nthN_cons_succ in Hb.
    apply Hx. eapply nth_error_In. exact Hb.
  - replace i with ((i - 1) + 1) in Ha by lia. replace j with ((j - 1) + 1) in Hb by lia.
    rewrite nthN_cons_succ in Ha, Hb. apply (Hl (i - 1) (j - 1)); [lia|exact Ha|exact Hb].
Qed.

Lemma matching_increasing {M} (fs : fset M) l : forall off, increasing (matching_idxs fs l off).
Proof.
  induction l as [|m r IH]; intros off; cbn [matching_idxs].
  - intros i j a b _ Ha. unfold nthN in Ha. destruct (N.to_nat i); discriminate.
  - destruct (match_filters fs m); [|apply IH].
    apply increasing_cons; [|apply IH]. intros a Ha. apply matching_bounds in Ha. lia.
Qed.

(* a contract-level result on an increasing list, unwrapped: the first position whose element is not below the key *)
Lemma valid_first_not_before (l : list N) key r :
  increasing l -> bsearch_valid (fun f => N.compare f key) l r ->
  let p := bres_idx r in
  p <= len l /\
  (forall q a, q < p -> nthN l q = Some a -> a < key) /\
  (forall q a, p <= q -> nthN l q = Some a -> key <= a).
Proof.
  intros Hinc Hv. destruct r as [i|i]; cbn [bres_idx bsearch_valid] in *; cbv zeta.
  - destruct Hv as [a [Ha Hc]]. apply N.compare_eq in Hc. subst a.
    split; [apply nthN_some_lt in Ha; lia|]. split.
    + intros q a Hq Hqa. exact (Hinc q i a key Hq Hqa Ha).
    + intros q a Hq Hqa. destruct (N.eq_dec i q) as [->|Hn]; [rewrite Ha in Hqa; inversion Hqa; lia|].
      assert (Hlt : i < q) by lia. pose proof (Hinc i q key a Hlt Ha Hqa). lia.
  - destruct Hv as [Hi [Hlo Hhi]]. split; [exact Hi|]. split.
    + intros q a Hq Hqa. pose proof (Hlo q a Hq Hqa) as Hc. apply N.compare_lt_iff in Hc. exact Hc.
    + intros q a Hq Hqa. pose proof (Hhi q a Hq Hqa) as Hc. apply N.compare_gt_iff in Hc. lia.
Qed.

Section Lookups.
  Context {M : Type}.
  Variable time_of index_of : M -> N.
  Variable all : list M.
  Variable s : sctx M.
  Hypothesis Hinv : inv all s.
  Let slen := stream_len s (len all).

  (* the all_msgs position of stream position q *)
  Definition all_pos (q : N) : option N :=
    if s_filters_active s then nthN (s_filtered s) q else if q <? len all then Some q else None.

  Lemma stream_msg_all_pos q m : stream_msg all s q = Ok m -> exists a, all_pos q = Some a /\ nthN all a = Some m.
  Proof.
    unfold stream_msg, all_pos. destruct (s_filters_active s).
    - unfold nth_chk at 1. destruct (nthN (s_filtered s) q) as [a|]; cbn [bind]; [|discriminate].
      unfold nth_chk. destruct (nthN all a) as [m'|] eqn:E; [|discriminate]. intros H; inversion H; subst. eauto.
    - cbn [bind]. unfold nth_chk. destruct (nthN all q) as [m'|] eqn:E; [|discriminate]. intros H; inversion H; subst.
      exists q. pose proof (nthN_some_lt _ _ _ E) as E0. apply N.ltb_lt in E0. rewrite E0. auto.
  Qed.

  Lemma filtered_increasing : s_filters_active s = true -> increasing (s_filtered s).
  Proof. intros E. destruct Hinv as [_ [Ha _]]. rewrite (Ha E). apply matching_increasing. Qed.

  (* a binary search that keeps the contract (std's does: std_bsearch_valid) *)
  Definition keeps_contract (bs : (N -> comparison) -> list N -> bres) : Prop :=
    forall cmp l, partitioned cmp l -> bsearch_valid cmp l (bs cmp l).

  (* position in the stream of the first stream message that is not before all_msgs position ai,
     for ANY result the contract of binary_search allows *)
  Theorem stream_pos_first_not_before bs ai : keeps_contract bs -> ai <= len all ->
    let p := stream_pos_with bs s ai in
    p <= slen /\
    (forall q a, q < p -> all_pos q = Some a -> a < ai) /\
    (forall q a, p <= q -> all_pos q = Some a -> ai <= a).
  Proof.
    intros Hbs Hai. cbv zeta. unfold stream_pos_with, all_pos, slen, stream_len.
    destruct (s_filters_active s) eqn:Ea.
    - pose proof (filtered_increasing Ea) as Hinc.
      exact (valid_first_not_before _ ai _ Hinc (Hbs _ _ (increasing_partitioned _ ai Hinc))).
    - split; [exact Hai|]. split.
      + intros q a Hq H. destruct (q <? len all); inversion H; subst; exact Hq.
      + intros q a Hq H. destruct (q <? len all); inversion H; subst; exact Hq.
  Qed.

  Lemma std_keeps_contract : keeps_contract (@std_bsearch N).
  Proof. intros cmp l Hp. apply std_bsearch_valid. exact Hp. Qed.

  (* --- time lookup: messages ordered by time --- *)
  Definition time_ordered : Prop :=
    forall i j a b, i <= j -> nthN all i = Some a -> nthN all j = Some b -> time_of a <= time_of b.

  Lemma partition_point_time t : time_ordered ->
    let ai := partition_point (fun m => time_of m <? t) all in
    ai <= len all /\
    (forall j m, j < ai -> nthN all j = Some m -> time_of m < t) /\
    (forall j m, ai <= j -> nthN all j = Some m -> t <= time_of m).
  Proof.
    intros Hord. cbv zeta. unfold partition_point.
    set (cmp := fun a : M => if time_of a <? t then Lt else Gt).
    assert (Hp : partitioned cmp all).
    { intros i j a b Hij Ha Hb. pose proof (Hord i j a b Hij Ha Hb) as Hle. unfold cmp.
      destruct (time_of a <? t) eqn:E1, (time_of b <? t) eqn:E2; cbn; try reflexivity.
      apply N.ltb_ge in E1. apply N.ltb_lt in E2. lia. }
    pose proof (std_bsearch_valid cmp all Hp) as Hv.
    destruct (std_bsearch cmp all) as [i|i]; cbn [bres_idx bsearch_valid] in *.
    - destruct Hv as [a [_ Hc]]. unfold cmp in Hc. destruct (time_of a <? t); discriminate.
    - destruct Hv as [Hi [Hlo Hhi]]. split; [exact Hi|]. split.
      + intros j m Hj Hm. pose proof (Hlo j m Hj Hm) as Hc. unfold cmp in Hc.
        destruct (time_of m <? t) eqn:E; [apply N.ltb_lt in E; exact E|discriminate].
      + intros j m Hj Hm. pose proof (Hhi j m Hj Hm) as Hc. unfold cmp in Hc.
        destruct (time_of m <? t) eqn:E; [discriminate|apply N.ltb_ge in E; exact E].
  Qed.

  Theorem lookup_time_first_not_before t : time_ordered ->
    let p := lookup_time time_of all s t in
    p <= slen /\
    (forall q m, q < p -> stream_msg all s q = Ok m -> time_of m < t) /\
    (forall q m, p <= q -> stream_msg all s q = Ok m -> t <= time_of m).
  Proof.
    intros Hord. cbv zeta. unfold lookup_time, stream_pos.
    destruct (partition_point_time t Hord) as [Hai [Hlo Hhi]]. cbv zeta in *.
    set (ai := partition_point (fun m => time_of m <? t) all) in *.
    destruct (stream_pos_first_not_before _ ai std_keeps_contract Hai) as [Hp [Hb Ha]]. cbv zeta in *.
    split; [exact Hp|]. split.
    - intros q m Hq Hm. destruct (stream_msg_all_pos q m Hm) as [a [Hqa Ham]].
      exact (Hlo a m (Hb q a Hq Hqa) Ham).
    - intros q m Hq Hm. destruct (stream_msg_all_pos q m Hm) as [a [Hqa Ham]].
      exact (Hhi a m (Ha q a Hq Hqa) Ham).
  Qed.

  (* --- index lookup, file order (indices strictly increasing along all_msgs) --- *)
  Definition index_increasing : Prop :=
    forall i j a b, i < j -> nthN all i = Some a -> nthN all j = Some b -> index_of a < index_of b.

  Definition keeps_contract_on (A : Type) (bs : (A -> comparison) -> list A -> bres) : Prop :=
    forall cmp l, partitioned cmp l -> bsearch_valid cmp l (bs cmp l).
  Lemma std_keeps_contract_on A : keeps_contract_on A (@std_bsearch A).
  Proof. intros cmp l Hp. apply std_bsearch_valid. exact Hp. Qed.

  (* msg.index ascending along all_msgs makes the comparison with a wanted index a partition *)
  Lemma index_partitioned idx : index_increasing -> partitioned (fun m : M => N.compare (index_of m) idx) all.
  Proof.
    intros Hinc i j a b Hij Ha Hb.
    assert (Hab : index_of a <= index_of b).
    { destruct (N.eq_dec i j) as [->|Hn]; [rewrite Ha in Hb; inversion Hb; lia|].
      assert (Hlt : i < j) by lia. pose proof (Hinc i j a b Hlt Ha Hb). lia. }
    destruct (N.compare_spec (index_of a) idx), (N.compare_spec (index_of b) idx); cbn; try reflexivity; lia.
  Qed.

  (* what the first search of the file-order branches finds, for any result the contract allows *)
  Lemma index_search_spec bsA idx : keeps_contract_on M bsA -> index_increasing ->
    match bsA (fun m => N.compare (index_of m) idx) all with
    | BOk ai => exists m, nthN all ai = Some m /\ index_of m = idx
    | BErr _ => forall j m, nthN all j = Some m -> index_of m <> idx
    end.
  Proof.
    intros HA Hinc. pose proof (HA _ all (index_partitioned idx Hinc)) as Hv.
    destruct (bsA (fun m => N.compare (index_of m) idx) all) as [ai|i]; cbn [bsearch_valid] in Hv.
    - destruct Hv as [m [Hm Hc]]. apply N.compare_eq in Hc. eauto.
    - destruct Hv as [Hi [Hlo Hhi]]. intros j m Hm He.
      destruct (N.lt_ge_cases j i) as [Hj|Hj].
      + pose proof (Hlo j m Hj Hm) as Hc. cbv beta in Hc. rewrite He, N.compare_refl in Hc. discriminate.
      + pose proof (Hhi j m Hj Hm) as Hc. cbv beta in Hc. rewrite He, N.compare_refl in Hc. discriminate.
  Qed.

  (* branches "file order": relies on msg.index ascending along all_msgs (first search) and, with filters, on
     filtered_msgs ascending (second search; part of the index invariant [inv]) *)
  Theorem lookup_index_with_first_not_before bsA bsF idx :
    keeps_contract_on M bsA -> keeps_contract bsF -> index_increasing ->
    match lookup_index_with index_of bsA bsF all s idx with
    | Some p =>
        exists ai m, nthN all ai = Some m /\ index_of m = idx /\
          p <= slen /\
          (forall q a, q < p -> all_pos q = Some a -> a < ai) /\
          (forall q a, p <= q -> all_pos q = Some a -> ai <= a)
    | None => forall j m, nthN all j = Some m -> index_of m <> idx
    end.
  Proof.
    intros HA HF Hinc. unfold lookup_index_with. pose proof (index_search_spec bsA idx HA Hinc) as Hs.
    destruct (bsA (fun m => N.compare (index_of m) idx) all) as [ai|i]; [|exact Hs].
    destruct Hs as [m [Hm He]]. exists ai, m. split; [exact Hm|]. split; [exact He|].
    apply (stream_pos_first_not_before _ ai HF). apply nthN_some_lt in Hm. lia.
  Qed.

  Theorem lookup_index_first_not_before idx : index_increasing ->
    match lookup_index index_of all s idx with
    | Some p =>
        exists ai m, nthN all ai = Some m /\ index_of m = idx /\
          p <= slen /\
          (forall q a, q < p -> all_pos q = Some a -> a < ai) /\
          (forall q a, p <= q -> all_pos q = Some a -> ai <= a)
    | None => forall j m, nthN all j = Some m -> index_of m <> idx
    end.
  Proof. exact (lookup_index_with_first_not_before _ _ idx (std_keeps_contract_on M) std_keeps_contract). Qed.

  (* branch "file order, no filters": only msg.index ascending along all_msgs is used; the answer is the position
     of the message itself *)
  Theorem lookup_index_unfiltered_exact bsA bsF idx :
    keeps_contract_on M bsA -> index_increasing -> s_filters_active s = false ->
    match lookup_index_with index_of bsA bsF all s idx with
    | Some p => exists m, nthN all p = Some m /\ index_of m = idx
    | None => forall j m, nthN all j = Some m -> index_of m <> idx
    end.
  Proof.
    intros HA Hinc Ea. unfold lookup_index_with, stream_pos_with. rewrite Ea.
    pose proof (index_search_spec bsA idx HA Hinc) as Hs.
    destruct (bsA (fun m => N.compare (index_of m) idx) all); exact Hs.
  Qed.

  (* --- index lookup, file sorted by time: the first message with that index is found linearly --- *)
  Lemma find_index_spec idx : forall l pos,
    match find_index index_of l idx pos with
    | Some (ai, m) => pos <= ai /\ nthN l (ai - pos) = Some m /\ index_of m = idx /\
                      (forall j m', j < ai - pos -> nthN l j = Some m' -> index_of m' <> idx)
    | None => forall j m', nthN l j = Some m' -> index_of m' <> idx
    end.
  Proof.
    induction l as [|x r IH]; intros pos; cbn [find_index].
    - intros j m' H. unfold nthN in H. destruct (N.to_nat j); discriminate.
    - destruct (index_of x =? idx) eqn:E.
      + apply N.eqb_eq in E. rewrite N.sub_diag. split; [lia|]. split; [reflexivity|]. split; [exact E|].
        intros j m' Hj; lia.
      + apply N.eqb_neq in E. specialize (IH (pos + 1)).
        destruct (find_index index_of r idx (pos + 1)) as [[ai m]|].
        * destruct IH as [H1 [H2 [H3 H4]]]. split; [lia|].
          replace (ai - pos) with ((ai - (pos + 1)) + 1) by lia. rewrite nthN_cons_succ.
          split; [exact H2|]. split; [exact H3|].
          intros j m' Hj Hm'. destruct (N.eq_dec j 0) as [->|Hn].
          -- rewrite nthN_cons_0 in Hm'. inversion Hm'; subst; exact E.
          -- replace j with ((j - 1) + 1) in Hm' by lia. rewrite nthN_cons_succ in Hm'.
             apply (H4 (j - 1)); [lia|exact Hm'].
        * intros j m' Hm'. destruct (N.eq_dec j 0) as [->|Hn].
          -- rewrite nthN_cons_0 in Hm'. inversion Hm'; subst; exact E.
          -- replace j with ((j - 1) + 1) in Hm' by lia. rewrite nthN_cons_succ in Hm'. exact (IH (j - 1) m' Hm').
  Qed.

  (* branch "sorted by time, filters": no order of msg.index or of the times is used (linear search); only
     filtered_msgs ascending (from [inv]) for the binary search of the found position *)
  Theorem lookup_index_sorted_with_first_not_before bsF idx : keeps_contract bsF ->
    match lookup_index_sorted_with index_of bsF all s idx with
    | Some p =>
        exists ai m, nthN all ai = Some m /\ index_of m = idx /\
          (forall j m', j < ai -> nthN all j = Some m' -> index_of m' <> idx) /\
          p <= slen /\
          (forall q a, q < p -> all_pos q = Some a -> a < ai) /\
          (forall q a, p <= q -> all_pos q = Some a -> ai <= a)
    | None => forall j m, nthN all j = Some m -> index_of m <> idx
    end.
  Proof.
    intros HF. unfold lookup_index_sorted_with. pose proof (find_index_spec idx all 0) as Hf.
    destruct (find_index index_of all idx 0) as [[ai m]|]; [|exact Hf].
    destruct Hf as [_ [H2 [H3 H4]]]. rewrite N.sub_0_r in *.
    exists ai, m. split; [exact H2|]. split; [exact H3|]. split; [exact H4|].
    apply (stream_pos_first_not_before _ ai HF). apply nthN_some_lt in H2. lia.
  Qed.

  Theorem lookup_index_sorted_first_not_before idx :
    match lookup_index_sorted index_of all s idx with
    | Some p =>
        exists ai m, nthN all ai = Some m /\ index_of m = idx /\
          (forall j m', j < ai -> nthN all j = Some m' -> index_of m' <> idx) /\
          p <= slen /\
          (forall q a, q < p -> all_pos q = Some a -> a < ai) /\
          (forall q a, p <= q -> all_pos q = Some a -> ai <= a)
    | None => forall j m, nthN all j = Some m -> index_of m <> idx
    end.
  Proof. exact (lookup_index_sorted_with_first_not_before _ idx std_keeps_contract). Qed.

  (* branch "sorted by time, no filters": nothing is assumed at all; the answer is the position of the first
     message with that index *)
  Theorem lookup_index_sorted_unfiltered_exact bsF idx : s_filters_active s = false ->
    match lookup_index_sorted_with index_of bsF all s idx with
    | Some p => exists m, nthN all p = Some m /\ index_of m = idx /\
                          (forall j m', j < p -> nthN all j = Some m' -> index_of m' <> idx)
    | None => forall j m, nthN all j = Some m -> index_of m <> idx
    end.
  Proof.
    intros Ea. unfold lookup_index_sorted_with, stream_pos_with. rewrite Ea.
    pose proof (find_index_spec idx all 0) as Hf.
    destruct (find_index index_of all idx 0) as [[ai m]|]; [|exact Hf].
    destruct Hf as [_ [H2 [H3 H4]]]. rewrite N.sub_0_r in *. eauto.
  Qed.
End Lookups.

(* the lookups before the repairs did not have the property (checked documentation of the defects):
   three messages with the same time, the lookup by that time answered the LAST of them; an index lookup in a
   stream without filters answered 0 *)
Section LookupRefuted.
  Definition t_all : list (N * N) := [(1, 0); (2, 1); (2, 2); (2, 3); (3, 4)].   (* (time, index) *)
  Definition t_s : sctx (N * N) := set_progress (new_ctx 1 true true fs_none 0 10) [] 5.
  Lemma lookup_time_prefix_returned_last_of_equal :
    lookup_time_prefix fst t_all t_s 2 = 3 /\ lookup_time fst t_all t_s 2 = 1.
  Proof. split; vm_compute; reflexivity. Qed.
  Lemma lookup_index_prefix_unfiltered_returned_0 :
    lookup_index_prefix snd t_all t_s 3 = Some 0 /\ lookup_index snd t_all t_s 3 = Some 3.
  Proof. split; vm_compute; reflexivity. Qed.
  (* a stream over the messages with time 2, sorted file: the message with index 1 is at stream position 0 *)
  Definition t_fs : fset (N * N) := {| f_pos := [fun m => fst m =? 2]; f_neg := []; f_ev := [] |}.
  Definition t_sf : sctx (N * N) := set_progress (new_ctx 1 true true t_fs 0 10) [1; 2; 3] 5.
  Lemma lookup_index_sorted_prefix_returned_last_of_equal :
    lookup_index_sorted_prefix fst snd t_all t_sf 1 = Some 2 /\ lookup_index_sorted snd t_all t_sf 1 = Some 0.
  Proof. split; vm_compute; reflexivity. Qed.
  (* searching a filtered stream of a time-sorted file by msg.index (instead of by the all_msgs position):
     all_msgs in time order has the indices 1,0,3,2,5,4; the stream holds the indices 0 and 3 (positions 1, 2);
     the first stream message not before index 1 (position 0) is stream position 0, not 1 *)
  Definition r_all : list (N * N) := [(10, 1); (11, 0); (12, 3); (13, 2); (14, 5); (15, 4)].   (* (time, index) *)
  Definition r_fs : fset (N * N) := {| f_pos := [fun m => snd m mod 3 =? 0]; f_neg := []; f_ev := [] |}.
  Definition r_s : sctx (N * N) := set_progress (new_ctx 1 true true r_fs 0 10) [1; 2] 6.
  Lemma search_by_index_in_time_order_is_wrong :
    lookup_index_sorted_by_index snd r_all r_s 1 = Some 1 /\ lookup_index_sorted snd r_all r_s 1 = Some 0 /\
    lookup_index_sorted_by_index snd r_all r_s 2 = Some 1 /\ lookup_index_sorted snd r_all r_s 2 = Some 2.
  Proof. repeat split; vm_compute; reflexivity. Qed.
End LookupRefuted.
