(* Proofs about Remote/Stream.v, part 2: stream_search paging, std binary search, the lookups *)
From Coq Require Import List NArith Bool Lia Arith.
From AdltV Require Import Base.Res Base.MachInt Remote.Stream Remote.StreamProofs.
Import ListNotations.
Open Scope N_scope.

(* [a; a+1; ...] of length n *)
Fixpoint rangeN (a : N) (n : nat) : list N :=
  match n with O => [] | S k => a :: rangeN (a + 1) k end.
Definition range (a b : N) : list N := rangeN a (N.to_nat (b - a)).

Lemma range_empty a b : b <= a -> range a b = [].
Proof. intros H. unfold range. replace (N.to_nat (b - a)) with 0%nat by lia. reflexivity. Qed.
Lemma range_cons a b : a < b -> range a b = a :: range (a + 1) b.
Proof.
  intros H. unfold range. replace (N.to_nat (b - a)) with (S (N.to_nat (b - (a + 1)))) by lia. reflexivity.
Qed.
Lemma rangeN_app a n m : rangeN a (n + m) = rangeN a n ++ rangeN (a + N.of_nat n) m.
Proof.
  revert a. induction n as [|n IH]; intros a; cbn [rangeN Nat.add app].
  - rewrite N.add_0_r. reflexivity.
  - rewrite IH. do 3 f_equal. rewrite Nat2N.inj_succ. lia.
Qed.
Lemma range_split a b c : a <= b -> b <= c -> range a c = range a b ++ range b c.
Proof.
  intros H1 H2. unfold range.
  replace (N.to_nat (c - a)) with (N.to_nat (b - a) + N.to_nat (c - b))%nat by lia.
  rewrite rangeN_app. do 2 f_equal. lia.
Qed.
Lemma rangeN_in a n x : In x (rangeN a n) <-> a <= x < a + N.of_nat n.
Proof.
  revert a. induction n as [|n IH]; intros a; cbn [rangeN In].
  - split; [contradiction|lia].
  - rewrite IH. split; [intros [H|H]; lia|intros H]. destruct (N.eq_dec a x); [left; assumption|right; lia].
Qed.
Lemma range_in a b x : In x (range a b) <-> a <= x < b.
Proof. unfold range. rewrite rangeN_in. lia. Qed.

Section Search.
  Context {M : Type}.
  Notation sctx := (sctx M).
  Notation fset := (fset M).

  Variable all : list M.
  Variable s : sctx.
  Let slen := stream_len s (len all).

  (* every stream position has a message (no index panics): follows from the index invariant, see below *)
  Definition stream_ok : Prop := forall i, i < slen -> exists m, stream_msg all s i = Ok m.

  Variable fs : fset.       (* the search's filters *)
  Definition hit (i : N) : bool :=
    match stream_msg all s i with Ok m => match_filters fs m | _ => false end.
  (* matching stream positions in [a, b) *)
  Definition hits (a b : N) : list N := filter hit (range a b).

  Lemma hits_empty a b : b <= a -> hits a b = [].
  Proof. intros H. unfold hits. rewrite range_empty by exact H. reflexivity. Qed.
  Lemma hits_cons a b : a < b -> hits a b = if hit a then a :: hits (a + 1) b else hits (a + 1) b.
  Proof. intros H. unfold hits. rewrite range_cons by exact H. reflexivity. Qed.
  Lemma hits_split a b c : a <= b -> b <= c -> hits a c = hits a b ++ hits b c.
  Proof. intros H1 H2. unfold hits. rewrite (range_split a b c H1 H2). apply filter_app. Qed.

  Variable maxr : N.

  Lemma search_loop_spec : stream_ok -> forall fuel i acc,
    (N.to_nat (slen - i) <= fuel)%nat ->
    exists j, search_loop fuel all s fs maxr slen i acc = Ok (acc ++ hits i j, j) /\
              i <= j /\ (j <= slen \/ j = i) /\
              (slen <= j \/ (maxr <= len (acc ++ hits i j) /\ i < j)).
  Proof.
    intros Hok. induction fuel as [|f IH]; intros i acc Hf.
    - exists i. cbn [search_loop]. rewrite hits_empty, app_nil_r by lia. repeat split; try lia; try (left; lia).
    - cbn [search_loop]. destruct (i <? slen) eqn:El.
      + apply N.ltb_lt in El. destruct (Hok i El) as [m Hm]. rewrite Hm. cbn [bind].
        assert (Hh : hit i = match_filters fs m) by (unfold hit; rewrite Hm; reflexivity).
        destruct (match_filters fs m) eqn:Em.
        * destruct (maxr <=? len (acc ++ [i])) eqn:Ef.
          -- apply N.leb_le in Ef. exists (i + 1).
             rewrite (hits_cons i (i + 1)) by lia. rewrite Hh, hits_empty by lia.
             repeat split; try lia. right. split; [exact Ef|lia].
          -- destruct (IH (i + 1) (acc ++ [i])) as [j [Hj [H1 [H2 H3]]]]; [lia|].
             exists j. rewrite Hj. rewrite (hits_cons i j) by lia. rewrite Hh, <- app_assoc. cbn [app].
             repeat split; try lia.
             rewrite <- app_assoc in H3. cbn [app] in H3. destruct H3 as [H3|[H3 H4]]; [left; exact H3|right; split; [exact H3|lia]].
        * destruct (IH (i + 1) acc) as [j [Hj [H1 [H2 H3]]]]; [lia|].
          exists j. rewrite Hj.
          destruct (N.eq_dec j i) as [->|Hn]; [lia|].
          rewrite (hits_cons i j) by lia. rewrite Hh.
          repeat split; try lia. destruct H3 as [H3|[H3 H4]]; [left; exact H3|right; split; [exact H3|lia]].
      + apply N.ltb_ge in El. exists i. rewrite hits_empty, app_nil_r by lia. repeat split; try lia; try (left; lia).
  Qed.

  (* one page: the matching positions of the examined range [start, j), and the continuation *)
  Lemma stream_search_spec : stream_ok -> forall start,
    exists j, stream_search all s start maxr fs = Ok (hits start j, if j <? slen then Some j else None) /\
              start <= j /\ (j <= slen \/ j = start) /\ (slen <= j \/ (maxr <= len (hits start j) /\ start < j)).
  Proof.
    intros Hok start. unfold stream_search. fold slen.
    destruct (search_loop_spec Hok (N.to_nat (slen - start)) start [] (le_n _)) as [j [Hj [H1 [H2 H3]]]].
    rewrite Hj. cbn [bind app]. exists j. cbn [app] in H3. auto.
  Qed.

  (* the pages obtained by following next_search_idx: consecutive examined ranges *)
  Fixpoint chain (a : N) (pages : list (list N * (N * N))) (b : N) : Prop :=
    match pages with
    | [] => False
    | [(_, (f, t))] => f = a /\ f <= t /\ t = b
    | (_, (f, t)) :: r => f = a /\ f < t /\ chain t r b
    end.

  Theorem search_pages_partition : stream_ok -> forall fuel start,
    (N.to_nat (slen - start) < fuel)%nat ->
    exists pages,
      search_pages fuel all s start maxr fs = Ok pages /\
      (* every position of [start, stream length) is examined by exactly one page, in order *)
      chain start pages (N.max start slen) /\
      (* each page returns the matching positions of the range it examined *)
      Forall (fun p => fst p = hits (fst (snd p)) (snd (snd p))) pages /\
      (* so the union of the pages is exactly the set of matching positions *)
      concat (map fst pages) = hits start (N.max start slen).
  Proof.
    intros Hok. induction fuel as [|f IH]; intros start Hf; [lia|].
    cbn [search_pages]. destruct (stream_search_spec Hok start) as [j [Hs [H1 [H2 H3]]]].
    rewrite Hs. cbn [bind fst snd]. fold slen.
    destruct (j <? slen) eqn:Ej.
    - apply N.ltb_lt in Ej. destruct H3 as [H3|[H3 H4]]; [lia|].
      destruct (IH j) as [pages [Hp [Hc [Hall Hu]]]]; [lia|].
      rewrite Hp. cbn [bind]. exists ((hits start j, (start, j)) :: pages).
      split; [reflexivity|].
      assert (Em : N.max start slen = N.max j slen) by lia.
      split; [|split].
      + cbn [chain]. destruct pages as [|p r]; [contradiction|]. rewrite Em. auto.
      + constructor; [reflexivity|exact Hall].
      + cbn [map concat fst]. rewrite Hu, Em. symmetry. apply hits_split; lia.
    - apply N.ltb_ge in Ej.
      exists [(hits start j, (start, N.max start slen))]. split; [reflexivity|].
      assert (Eh : hits start j = hits start (N.max start slen)).
      { destruct H2 as [H2|H2]; [replace (N.max start slen) with j by lia; reflexivity|].
        subst j. rewrite !hits_empty by lia. reflexivity. }
      split; [|split].
      + cbn [chain]. repeat split; lia.
      + constructor; [exact Eh|constructor].
      + cbn [map concat fst]. rewrite app_nil_r. exact Eh.
  Qed.
End Search.

(* the behaviour before the repairs 536fc54 / fe9ae21 did not have the property: one position per page was
   skipped, and nothing was found in a stream without filters (kept as checked documentation of the defects) *)
Section SearchRefuted.
  Definition d_all : list N := [1; 1; 1; 1].
  Definition d_fs : fset N := {| f_pos := [fun m => m =? 1]; f_neg := []; f_ev := [] |}.
  Definition d_filtered : sctx N := set_progress (new_ctx 1 true true d_fs 0 10) [0; 1; 2; 3] 4.
  Definition d_unfiltered : sctx N := set_progress (new_ctx 1 true true fs_none 0 10) [] 4.

  Lemma search_prefix_skipped_a_position :
    stream_search_prefix d_all d_filtered 0 1 d_fs = Ok ([0], Some 2) /\
    stream_search_prefix d_all d_filtered 2 1 d_fs = Ok ([2], None) /\
    hits d_all d_filtered d_fs 0 4 = [0; 1; 2; 3].
  Proof. repeat split; vm_compute; reflexivity. Qed.

  Lemma search_prefix_found_nothing_without_filters :
    stream_search_prefix d_all d_unfiltered 0 100 d_fs = Ok ([], None) /\
    hits d_all d_unfiltered d_fs 0 4 = [0; 1; 2; 3].
  Proof. repeat split; vm_compute; reflexivity. Qed.
End SearchRefuted.
