(* Model of how the "filters" array of a command becomes the FilterKindContainer that match_filters reads.
   - src/utils/remote_utils.rs : StreamContext::from            (commands `stream` / `query`)
   - src/bin/adlt/remote.rs    : process_stream_search_params   (command `stream_search`)
   Both run the same loop over the array:
       let filter_struct = Filter::from_json(..)?;
       if filter_struct.enabled { filters[filter_struct.kind].push(filter_struct); }
   i.e. only ENABLED filters are sorted into the list of their kind, in the order of the array.  match_filters
   (Remote/Stream.v) then decides "no positive filter" / "no event filter" with is_empty() on those lists, which is
   why the guard matters: Filter::matches of a disabled filter is false, so a disabled filter inside a list would
   turn "no filter of that kind -> pass" into "a filter of that kind that never matches -> nothing passes".
   A filter is (kind, enabled, truth function of its criteria); Filter::matches = enabled && criteria (C11's subject).
   No proofs in this file. *)
From Coq Require Import List NArith Bool.
From AdltV Require Import Base.Res Base.MachInt Remote.Stream.
Import ListNotations.
Open Scope N_scope.

(* FilterKind: "type" 0 positive, 1 negative, 2 marker, 3 event *)
Inductive fkind := KPos | KNeg | KMarker | KEvent.
Definition fkind_eqb (a b : fkind) : bool :=
  match a, b with KPos, KPos | KNeg, KNeg | KMarker, KMarker | KEvent, KEvent => true | _, _ => false end.

Section Filters.
  Context {M : Type}.

  Record pfilter := { pf_kind : fkind; pf_enabled : bool; pf_crit : M -> bool }.

  (* Filter::matches: `if !self.enabled { return false; }`, then the criteria *)
  Definition pf_matches (f : pfilter) (m : M) : bool := pf_enabled f && pf_crit f m.

  (* the enabled filters of kind k, in array order: what `filters[k]` holds after the loop *)
  Definition is_en (k : fkind) (f : pfilter) : bool := pf_enabled f && fkind_eqb (pf_kind f) k.
  Definition of_kind (k : fkind) (l : list pfilter) : list (M -> bool) := map pf_matches (filter (is_en k) l).

  (* the container match_filters reads (the marker list is never read by it) *)
  Definition fset_of (l : list pfilter) : fset M :=
    {| f_pos := of_kind KPos l; f_neg := of_kind KNeg l; f_ev := of_kind KEvent l |}.

  (* the same loop WITHOUT the `enabled` guard (what a parser that forgets it would build); kept for a checked
     counter-example only *)
  Definition of_kind_unguarded (k : fkind) (l : list pfilter) : list (M -> bool) :=
    map pf_matches (filter (fun f => fkind_eqb (pf_kind f) k) l).
  Definition fset_of_unguarded (l : list pfilter) : fset M :=
    {| f_pos := of_kind_unguarded KPos l; f_neg := of_kind_unguarded KNeg l; f_ev := of_kind_unguarded KEvent l |}.

  (* ---------------------------------------------------------------- the set semantics, stated on the array *)
  (* some enabled filter of kind k exists / matches m *)
  Definition has_kind (k : fkind) (l : list pfilter) : bool := existsb (is_en k) l.
  Definition kind_hits (k : fkind) (l : list pfilter) (m : M) : bool := existsb (fun f => is_en k f && pf_crit f m) l.

  (* positive: OR (none = pass); negative: veto; event: at least one matches when any exist *)
  Definition selects (l : list pfilter) (m : M) : bool :=
    (negb (has_kind KPos l) || kind_hits KPos l m) &&
    negb (kind_hits KNeg l m) &&
    (negb (has_kind KEvent l) || kind_hits KEvent l m).

  (* the event rule with "every event filter matches" instead of "at least one": differs from [selects] as soon as
     two enabled event filters exist and a message matches one but not the other; kept for a checked counter-example *)
  Definition kind_all (k : fkind) (l : list pfilter) (m : M) : bool := forallb (fun f => negb (is_en k f) || pf_crit f m) l.
  Definition selects_event_all (l : list pfilter) (m : M) : bool :=
    (negb (has_kind KPos l) || kind_hits KPos l m) && negb (kind_hits KNeg l m) && kind_all KEvent l m.

  (* positions (counted from off) of the messages satisfying p: the "filtered message sequence" of a predicate *)
  Fixpoint idxs_where (p : M -> bool) (msgs : list M) (off : N) : list N :=
    match msgs with
    | [] => []
    | m :: r => if p m then off :: idxs_where p r (off + 1) else idxs_where p r (off + 1)
    end.
End Filters.
