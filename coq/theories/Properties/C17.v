(* C17 — Embedded file transfers are reassembled bit-exactly or not at all.
   Statements only; proofs are in FileTransfer/FtProofs.v, the model (FileTransferPlugin of
   /repo/src/plugins/file_transfer.rs, after the two `fix:` commits listed in known_findings.d/C17.json)
   is FileTransfer/Ft.v.

   Vocabulary: [run c (init_st fs) ms] processes the messages [ms] with configuration [c] starting with
   the files [fs] (Ok = no panic); [ops_for c k ms] are the (package number, payload) pairs of the FLDA
   messages of [ms] for the transfer key k = (ecu, lifecycle, serial), in log order; [flst_of c m = Some (k, f)]
   says that m is an announcement for k with the values f; [msg_key c m] is the key a transfer message
   addresses; [saved_bytes s i] are the bytes the save command writes for transfer number i; [s_fs s] is the
   file system (path -> content); [s_pub s] the published tree items. *)
From Coq Require Import List NArith Bool.
From AdltV Require Import Base.Res Base.MachInt FileTransfer.Ft FileTransfer.FtProofs FileTransfer.FtRecover FileTransfer.FtSave FileTransfer.FtReannounce FileTransfer.FtLabel Exec.C17.
Import ListNotations.
Open Scope N_scope.

(* (1) All packages in order => complete and bit-exact.  [pre] is anything (even an older transfer with the
   same key), [mflst] the announcement, [post] the rest of the log: relative to the key it consists of
   messages that do not address the key (other transfers with distinct keys, unrelated messages),
   duplicates of packages that were already sent, and the packages [chunks] numbered 1, 2, .. in this
   order; after the last package anything may follow (the end marker, more duplicates, a new announcement).
   Then, if processing does not panic (see C17_no_panic), the transfer is Complete, is reported as Complete,
   has the announced name, the file's size, and the save command delivers exactly the file. *)
Theorem C17_inorder_complete_exact : forall c fs pre mflst post k f chunks s rets,
  flst_of c mflst = Some (k, f) ->
  chunks <> [] -> N.of_nat (length chunks) = f_nr f -> chunks_ok (f_bs f) (f_nr f) 1 chunks ->
  (f_size f = 0 \/ f_size f = lenN (concat chunks)) ->
  InOrder c k 1 chunks post ->
  run c (init_st fs) (pre ++ mflst :: post) = Ok (s, rets) ->
  exists i t, nth_error (s_transfers s) i = Some t /\ t_key t = k /\ t_state t = Complete /\ t_name t = f_name f /\
              t_size t = lenN (concat chunks) /\
              (c_allow_save c = true -> concat chunks <> [] -> saved_bytes s i = Some (concat chunks)) /\
              nth_error (map (fun t => (t_key t, t_state t)) (s_pub s)) i = Some (k, Complete).
Proof. exact inorder_complete_exact. Qed.

(* (1L) The contract with the lifecycle stage.  The key of a transfer is (ecu, LIFECYCLE, serial) and the lifecycle id of a
   message is written by the stage that runs directly before the plugin (parse_lifecycles_buffered_from_stream, in `adlt
   convert` and in the remote server).  (1) read with the key taken apart: [flst_content], [flda_content], [content_key] are what
   a message SAYS (ecu, serial, package number and payload, announced values) -- they do not depend on its lifecycle field --
   and [m_lc] is the LABEL it carries.  [InOrderU c e sr lc 1 chunks post]: relative to (e, sr), [post] consists of messages
   about something else, messages about (e, sr) under ANOTHER label (for the plugin: another key), duplicates and the packages
   1, 2, .. in order, the latter two all carrying the label lc of the announcement.  Then the transfer is Complete, reported
   Complete and saved bit-exactly.  The hypothesis "all packages of the transfer carry the announcement's label" is what the
   plugin needs from the lifecycle stage: every message forwarded with its final lifecycle id. *)
Theorem C17_inorder_complete_exact_uniform_lifecycle : forall c fs pre mflst post e sr lc f chunks s rets,
  flst_content c mflst = Some (e, sr, f) -> m_lc mflst = lc ->
  chunks <> [] -> N.of_nat (length chunks) = f_nr f -> chunks_ok (f_bs f) (f_nr f) 1 chunks ->
  (f_size f = 0 \/ f_size f = lenN (concat chunks)) ->
  InOrderU c e sr lc 1 chunks post ->
  run c (init_st fs) (pre ++ mflst :: post) = Ok (s, rets) ->
  exists i t, nth_error (s_transfers s) i = Some t /\ t_key t = (e, lc, sr) /\ t_state t = Complete /\ t_name t = f_name f /\
              t_size t = lenN (concat chunks) /\
              (c_allow_save c = true -> concat chunks <> [] -> saved_bytes s i = Some (concat chunks)) /\
              nth_error (map (fun t => (t_key t, t_state t)) (s_pub s)) i = Some ((e, lc, sr), Complete).
Proof. exact inorder_uniform. Qed.

(* (1L') ... and the hypothesis is needed for every single package: if every copy of package j (1 <= j <= announced number)
   that follows the announcement carries another label -- say the id of an interim lifecycle that was merged away -- the
   package is not counted for the transfer the announcement opened: that transfer is not Complete and has nothing to save,
   whatever else the log holds (all other packages in order, duplicates, the end marker, other transfers). *)
Theorem C17_mislabelled_package_not_counted : forall c fs pre m post e sr lc f j s rets,
  flst_content c m = Some (e, sr, f) -> m_lc m = lc -> 1 <= j -> j <= f_nr f ->
  (forall x raw, In x post -> flda_content c x = Some (e, sr, (j, raw)) -> m_lc x <> lc) ->
  run c (init_st fs) (pre ++ m :: post) = Ok (s, rets) ->
  exists s0 r0, run c (init_st fs) pre = Ok (s0, r0) /\
  exists t, nth_error (s_transfers s) (length (s_transfers s0)) = Some t /\ t_key t = (e, lc, sr) /\ t_name t = f_name f /\
            t_state t <> Complete /\ saved_bytes s (length (s_transfers s0)) = None.
Proof. exact mislabelled_not_complete. Qed.

(* The clause "all packages in order => complete" read MODULO the lifecycle field is refuted by the model (and by the code: the
   history of seeded change C17-7): announcement of 4+4+2 bytes, packages 1, 2, 3 in order, end marker, all from ecu 7 with
   serial 4711.  Labelled 3,3,3,3,3 the hypotheses of (1L) hold and the file is delivered; labelled 3,3,4,3,3 (package 2
   forwarded with the id of a lifecycle that was merged into 3) the same messages end "Incomplete, missed package 2" and
   nothing can be saved.  The lifecycle labelling is a genuine input of the property, not a detail of the key. *)
Example C17_inorder_modulo_lifecycle_refuted :
  let c := mkCfg true true false None None None None in
  let ext n := Some (1, 2, 65, n) in
  let ann l := expand_msg (7, l, ext 8, BFlst false 2 4711 [97] 10 3 4) in
  let pk l j d := expand_msg (7, l, ext 5, BFlda false 2 6 4711 j TI_RAWD d) in
  let fin l := expand_msg (7, l, ext 3, BFlfi false 2 4711) in
  let chunks := [[48; 49; 50; 51]; [52; 53; 54; 55]; [56; 57]] in
  let post l2 := [pk 3 1 [48; 49; 50; 51]; pk l2 2 [52; 53; 54; 55]; pk 3 3 [56; 57]; fin 3] in
  map (set_lc 0) (ann 3 :: post 4) = map (set_lc 0) (ann 3 :: post 3) /\
  (exists f s rets, flst_content c (ann 3) = Some (7, 4711, f) /\ f_nr f = 3 /\ InOrderU c 7 4711 3 1 chunks (post 3) /\
     run c (init_st []) (ann 3 :: post 3) = Ok (s, rets) /\ saved_bytes s 0 = Some (concat chunks)) /\
  (exists s rets t, run c (init_st []) (ann 3 :: post 4) = Ok (s, rets) /\ s_transfers s = [t] /\
     t_state t = Incomplete /\ t_next t = 2 /\ saved_bytes s 0 = None).
Proof.
  cbv zeta. split; [vm_compute; reflexivity|]. split.
  - eexists. eexists. eexists. split; [vm_compute; reflexivity|]. split; [vm_compute; reflexivity|]. split.
    + eapply iu_pkg; [vm_compute; reflexivity|reflexivity|]. eapply iu_pkg; [vm_compute; reflexivity|reflexivity|].
      eapply iu_pkg; [vm_compute; reflexivity|reflexivity|]. apply iu_done.
    + split; [vm_compute; reflexivity|]. vm_compute. reflexivity.
  - eexists. eexists. eexists. split; [vm_compute; reflexivity|]. split; [vm_compute; reflexivity|].
    vm_compute. repeat split; reflexivity.
Qed.

(* (1') The same without announcement (single fault "FLST lost"): no earlier message addressed the key; package 1,
   then packages 2..n in this order, all of the size of the first one (interleaved with messages that do not
   address the key and with duplicates of packages already sent), then the end marker for the key, then
   anything.  Whatever the sizes (the 512 of the recovery buffer is a flag, not a bound): the transfer is
   Complete, reported Complete, its size is the file's and the save command delivers exactly the file. *)
Theorem C17_recovered_complete_exact : forall c fs pre m1 post k p1 chunks s rets,
  Forall (fun m => msg_key c m <> Some k) pre ->
  flda_op c m1 = Some (k, (1, p1)) -> 0 < lenN p1 ->
  Forall (fun p => lenN p = lenN p1) chunks -> N.of_nat (length chunks) + 4 < u64max ->
  InRec c k 2 chunks post ->
  run c (init_st fs) (pre ++ m1 :: post) = Ok (s, rets) ->
  exists i t, nth_error (s_transfers s) i = Some t /\ t_key t = k /\ t_state t = Complete /\
              t_size t = lenN (p1 ++ concat chunks) /\
              (c_allow_save c = true -> saved_bytes s i = Some (p1 ++ concat chunks)) /\
              nth_error (map (fun t => (t_key t, t_state t)) (s_pub s)) i = Some (k, Complete).
Proof. exact recovered_complete_exact. Qed.

(* (2) Whatever the package sequence (drops, swaps, resized packages, duplicates, other transfers, lost
   announcement): a transfer that is Complete holds exactly the packages numbered 1, 2, .., n, taken in
   this order from the log (a sub-sequence of the key's FLDA messages: nothing invented, nothing
   reordered); for an announced transfer n is the announced number of packages, every package has the
   announced size (the last may be shorter) and the total is the announced file size (if one was
   announced); the bytes handed to the save command and the auto-saved file are their concatenation.
   Hence no drop / swap / resize of a package yields a damaged file that is reported complete. *)
Theorem C17_complete_implies_exact : forall c fs ms s rets i t,
  run c (init_st fs) ms = Ok (s, rets) ->
  nth_error (s_transfers s) i = Some t -> t_state t = Complete ->
  exists pk : list (N * list N),
    sublist pk (ops_for c (t_key t) ms) /\
    map fst pk = nums 1 (length pk) /\
    t_size t = lenN (concat (map snd pk)) /\
    (forall d, saved_bytes s i = Some d -> d = concat (map snd pk)) /\
    (forall p, t_saved t = Some p -> lookup_path p (s_fs s) = Some (concat (map snd pk))) /\
    (t_data t = [] \/ t_data t = concat (map snd pk)) /\
    ((exists m f, In m ms /\ flst_of c m = Some (t_key t, f) /\ t_name t = f_name f /\
                  N.of_nat (length pk) = f_nr f /\ sizes_ok (f_bs f) (f_nr f) pk /\
                  (f_size f = 0 \/ f_size f = lenN (concat (map snd pk))))
     \/ (t_name t = MISSING_FLST /\ Forall (fun op => lenN (snd op) <= t_bs t) pk)).
Proof. exact complete_implies_exact. Qed.

(* (2') read as "a missing or resized package prevents completion": for a Complete announced transfer every
   package number 1..n occurs in the log for this key with the announced size (the n-th may be shorter) *)
Theorem C17_complete_needs_every_package : forall c fs ms s rets i t,
  run c (init_st fs) ms = Ok (s, rets) ->
  nth_error (s_transfers s) i = Some t -> t_state t = Complete ->
  (exists m f, In m ms /\ flst_of c m = Some (t_key t, f) /\ t_name t = f_name f /\
     forall j, 1 <= j -> j <= f_nr f ->
       exists raw, In (j, raw) (ops_for c (t_key t) ms) /\
                   (if j =? f_nr f then lenN raw <= f_bs f else lenN raw = f_bs f))
  \/ t_name t = MISSING_FLST.
Proof. exact complete_needs_every_package. Qed.

(* (2'') what the state machine COUNTS is what it STORES, for every package sequence, with or without announcement
   (modelling assumption: the buffer grows on demand, capacities are flags, never bounds): a running transfer that
   keeps data has stored as many bytes as it counted; a Complete transfer reports the counted payload as file size
   and the save command / the auto-saved file deliver exactly that many bytes (their content is given by (2)) *)
Theorem C17_stored_equals_counted : forall c fs ms s rets i t,
  run c (init_st fs) ms = Ok (s, rets) -> nth_error (s_transfers s) i = Some t ->
  (is_active (t_state t) = true -> 0 < t_cap t -> lenN (t_data t) = t_payload t) /\
  (t_state t = Complete ->
     t_size t = t_payload t /\
     (forall d, saved_bytes s i = Some d -> lenN d = t_size t) /\
     (forall p, t_saved t = Some p -> exists d, lookup_path p (s_fs s) = Some d /\ lenN d = t_size t) /\
     (t_data t = [] \/ lenN (t_data t) = t_size t)).
Proof. exact stored_equals_counted. Qed.

(* (2s) The save command (apply_command "save", the entry point of the remote plugin_cmd) in the file system it runs in.
   File-system interface (Ft.v): File::create truncates, so a successful save makes the WHOLE content of the path
   the data; [cr] is the oracle "create + write succeed at p".  After ANY log and for ANY prior file system [fs]
   (the target absent, empty, shorter, longer, an earlier save of another transfer ...): a save reported successful
   leaves exactly the packages 1..n of a Complete transfer at p (one binding, nothing of the old content), every
   other path untouched; a save reported failed changes nothing. *)
Theorem C17_save_writes_exact : forall c fs ms s rets cr i p s',
  run c (init_st fs) ms = Ok (s, rets) -> save_cmd cr s i p = (s', true) ->
  exists t pk, nth_error (s_transfers s) i = Some t /\ t_state t = Complete /\
    sublist pk (ops_for c (t_key t) ms) /\ map fst pk = nums 1 (length pk) /\
    t_size t = lenN (concat (map snd pk)) /\
    lookup_path p (s_fs s') = Some (concat (map snd pk)) /\
    (forall q x, In (q, x) (s_fs s') -> q = p -> x = concat (map snd pk)) /\
    (forall q, q <> p -> lookup_path q (s_fs s') = lookup_path q (s_fs s)).
Proof. exact save_writes_exact. Qed.

Theorem C17_save_refused_changes_nothing : forall cr s i p s',
  save_cmd cr s i p = (s', false) -> s' = s.
Proof. intros cr s i p s' H. exact (proj2 (save_cmd_spec cr s i p s' false H) eq_refl). Qed.

(* the content after a successful save is independent of the prior content of the path (and of the rest of the file system) *)
Theorem C17_save_independent_of_prior_content : forall s1 s2 i p s1' s2' b2,
  s_completed s1 = s_completed s2 ->
  save_cmd true s1 i p = (s1', true) -> save_cmd true s2 i p = (s2', b2) ->
  b2 = true /\ lookup_path p (s_fs s1') = lookup_path p (s_fs s2').
Proof. exact save_independent_of_prior_content. Qed.

(* the save command only delivers data of transfers that are Complete *)
Theorem C17_saved_only_complete : forall c fs ms s rets i d,
  run c (init_st fs) ms = Ok (s, rets) -> saved_bytes s i = Some d ->
  exists t, nth_error (s_transfers s) i = Some t /\ t_state t = Complete.
Proof. exact saved_only_complete. Qed.


(* (2r) Several transfers over time under ONE key (the same file sent again, a recycled serial, a retry after a broken
   transfer).  Every announcement opens a new transfer and `transfers_idx.insert` OVERWRITES the key's binding.
   [opens c k m]: m is an announcement that opens a transfer for k; [own_part c k post]: the log after an
   announcement for k up to (not including) the next announcement for k.

   (a) After an announcement for k -- whatever older transfers with this key exist, in whatever state -- and as long
   as no further announcement for k follows, k is bound to the transfer THIS announcement opened (its number is the
   number of transfers that existed before): that is the one the following packages and the end marker go to. *)
Theorem C17_reannounce_routes_to_newest : forall c fs pre m seg k f s rets,
  flst_of c m = Some (k, f) -> Forall (fun x => opens c k x = false) seg ->
  run c (init_st fs) (pre ++ m :: seg) = Ok (s, rets) ->
  exists s0 r0, run c (init_st fs) pre = Ok (s0, r0) /\
    lookup_key k (s_idx s) = Some (length (s_transfers s0)) /\
    exists t, nth_error (s_transfers s) (length (s_transfers s0)) = Some t /\ t_key t = k /\ t_name t = f_name f.
Proof. exact reannounce_routes_to_newest. Qed.

(* (b) The transfer opened by the announcement m, if it is Complete at the end of ANY log, consists of packages 1..n
   found after m and before the next announcement for its key (sub-sequence of THAT part of the log only), with the
   sizes m announced; the save command and the auto-saved file deliver their concatenation.  So a Complete transfer
   never mixes bytes sent under two announcements, and a re-sent file never "repairs" the damaged earlier transfer. *)
Theorem C17_complete_from_own_announcement : forall c fs pre m post k f s rets,
  flst_of c m = Some (k, f) ->
  run c (init_st fs) (pre ++ m :: post) = Ok (s, rets) ->
  exists s0 r0, run c (init_st fs) pre = Ok (s0, r0) /\
  exists t, nth_error (s_transfers s) (length (s_transfers s0)) = Some t /\ t_key t = k /\ t_name t = f_name f /\ t_nr t = f_nr f /\
    (t_state t = Complete ->
       exists pk : list (N * list N),
         sublist pk (ops_for c k (own_part c k post)) /\
         map fst pk = nums 1 (length pk) /\ N.of_nat (length pk) = f_nr f /\ sizes_ok (f_bs f) (f_nr f) pk /\
         (f_size f = 0 \/ f_size f = lenN (concat (map snd pk))) /\
         t_size t = lenN (concat (map snd pk)) /\
         (forall d, saved_bytes s (length (s_transfers s0)) = Some d -> d = concat (map snd pk)) /\
         (forall p, t_saved t = Some p -> lookup_path p (s_fs s) = Some (concat (map snd pk))) /\
         (t_data t = [] \/ t_data t = concat (map snd pk))).
Proof. exact complete_from_own_announcement. Qed.

(* (c) Once its key is announced again (by m), the older transfer (opened by m0) never changes any more, whatever follows:
   same state, counters and data as right after m, same bytes from the save command, and the key never points to it again. *)
Theorem C17_superseded_frozen : forall c fs pre0 m0 mid m post k f0 f s rets,
  flst_of c m0 = Some (k, f0) -> flst_of c m = Some (k, f) ->
  run c (init_st fs) (pre0 ++ m0 :: mid ++ m :: post) = Ok (s, rets) ->
  exists s0 r0 s2 r2,
    run c (init_st fs) pre0 = Ok (s0, r0) /\ run c (init_st fs) (pre0 ++ m0 :: mid ++ [m]) = Ok (s2, r2) /\
    nth_error (s_transfers s) (length (s_transfers s0)) = nth_error (s_transfers s2) (length (s_transfers s0)) /\
    saved_bytes s (length (s_transfers s0)) = saved_bytes s2 (length (s_transfers s0)) /\
    lookup_key k (s_idx s) <> Some (length (s_transfers s0)).
Proof. exact superseded_frozen_announced. Qed.

(* non-vacuity / the history of the class: a file of 4+4+4+2 bytes is announced under key (7, 0, 17), its last package is
   lost (end marker arrives); the same key is announced again with a file of the same size and other content, which
   arrives completely.  Transfer 0 stays Started (3 of 4 packages) and has nothing to save, transfer 1 is Complete with
   exactly the second file; the key points to transfer 1. *)
Example C17_reannounce_nonvacuous :
  let c := mkCfg true true false None None None None in
  let ext n := Some (1, 2, 65, n) in
  let ann := expand_msg (7, 0, ext 8, BFlst false 2 17 [97] 14 4 4) in
  let pk j d := expand_msg (7, 0, ext 5, BFlda false 2 6 17 j TI_RAWD d) in
  let fin := expand_msg (7, 0, ext 3, BFlfi false 2 17) in
  let first := [pk 1 [65; 65; 65; 65]; pk 2 [66; 66; 66; 66]; pk 3 [67; 67; 67; 67]; fin] in
  let second := [pk 1 [97; 97; 97; 97]; pk 2 [98; 98; 98; 98]; pk 3 [99; 99; 99; 99]; pk 4 [100; 100]; fin] in
  exists f s rets t0 t1,
    flst_of c ann = Some ((7, 0, 17), f) /\ Forall (fun x => opens c (7, 0, 17) x = false) second /\
    run c (init_st []) ((ann :: first) ++ ann :: second) = Ok (s, rets) /\
    s_transfers s = [t0; t1] /\ t_state t0 = Started /\ t_next t0 = 4 /\ saved_bytes s 0 = None /\
    t_state t1 = Complete /\ lookup_key (7, 0, 17) (s_idx s) = Some 1%nat /\
    saved_bytes s 1 = Some [97; 97; 97; 97; 98; 98; 98; 98; 99; 99; 99; 99; 100; 100].
Proof.
  cbv zeta. eexists. eexists. eexists. eexists. eexists.
  split; [vm_compute; reflexivity|]. split; [repeat constructor|].
  split; [vm_compute; reflexivity|]. split; [vm_compute; reflexivity|].
  vm_compute. repeat split; reflexivity.
Qed.

(* what is reported (the tree items published by the last update_state) shows the current state of every transfer *)
Theorem C17_published_states_current : forall c fs ms s rets,
  run c (init_st fs) ms = Ok (s, rets) ->
  map (fun t => (t_key t, t_state t)) (s_pub s) = map (fun t => (t_key t, t_state t)) (s_transfers s).
Proof. exact published_states_current. Qed.

(* (3) automatic saving never writes outside the configured directory: every file that exists after the run
   existed before or is  dir / <one normal component>  (not empty, no separator, neither "." nor "..") *)
Theorem C17_autosave_confined : forall c fs ms s rets p,
  run c (init_st fs) ms = Ok (s, rets) -> path_exists (s_fs s) p = true ->
  path_exists fs p = true \/
  exists base, single_normal base /\
    ((save_dir c = [] /\ p = base) \/
     (last (save_dir c) 0 = SLASH /\ p = save_dir c ++ base) \/
     p = save_dir c ++ SLASH :: base).
Proof.
  intros c fs ms s rets p H Hp. destruct (autosave_confined c fs ms s rets p H Hp) as [Ho|[base [Hb ->]]]; [left; exact Ho|].
  right. exists base. split; [exact Hb|].
  destruct (path_join_single (save_dir c) base Hb) as [[E1 E2]|[[_ [E1 E2]]|[_ [_ E2]]]].
  - left. split; [exact E2|exact E1].
  - right. left. split; [exact E1|exact E2].
  - right. right. exact E2.
Qed.

(* (4) automatic saving never overwrites: every file that existed keeps its content *)
Theorem C17_autosave_no_overwrite : forall c fs ms s rets p d,
  run c (init_st fs) ms = Ok (s, rets) -> lookup_path p fs = Some d -> lookup_path p (s_fs s) = Some d.
Proof. exact autosave_no_overwrite. Qed.

(* (5) no panic in the modelled arithmetic / indexing / unwrap for any log of fewer than 2^32 - 1 messages
   whose arguments respect DLT's 16 bit length field (generation counter u32, package counters u64,
   payload sum usize, `next_package - 1`, `transfers.get_mut(idx).unwrap()`, Vec::with_capacity) *)
Theorem C17_no_panic : forall c fs ms,
  N.of_nat (length ms) + 1 <= u32max -> Forall wf_msg ms -> exists s rets, run c (init_st fs) ms = Ok (s, rets).
Proof. exact no_panic. Qed.

(* ... and the buffer requested from the announced sizes is bounded, whatever was announced *)
Theorem C17_prealloc_bounded : forall c fs ms s rets t,
  run c (init_st fs) ms = Ok (s, rets) -> In t (s_transfers s) -> t_cap t <= MAX_PREALLOC.
Proof. exact prealloc_bounded. Qed.

(* process_msg drops (returns false for) FLDA messages only, and only when keepFLDA is off (used by C19) *)
Theorem C17_drops_only_flda : forall c s m s',
  step c s m = Ok (s', false) -> classify c m = KFlda /\ c_keep_flda c = false.
Proof. exact drops_only_flda. Qed.

(* The defect repaired by the first `fix:` commit, on the model of the code before the repair
   ([add_flda_gen false]): announcement of 3 packages of 2 bytes, packages 1,2,2,3 -> Incomplete;
   the code as it is now ([add_flda_gen true] = add_flda) completes with the exact bytes. *)
Fixpoint feed (dupfix : bool) (t : transfer) (ops : list (N * list N)) : res transfer :=
  match ops with
  | [] => Ok t
  | (pnr, raw) :: r => match add_flda_gen dupfix t pnr raw with Ok (t', _) => feed dupfix t' r | Panic s => Panic s | OutOfFuel => OutOfFuel end
  end.
Theorem C17_duplicate_defect_before_fix :
  let t0 := mkT (1, 0, 17) [] 3 Started 6 2 1 0 0 6 [] None in
  let ops := [(1, [1; 2]); (2, [3; 4]); (2, [3; 4]); (3, [5; 6])] in
  (exists t, feed false t0 ops = Ok t /\ t_state t = Incomplete) /\
  (exists t, feed true t0 ops = Ok t /\ t_state t = Complete /\ t_data t = [1; 2; 3; 4; 5; 6]).
Proof. cbv zeta. split; eexists; (split; [vm_compute; reflexivity|]); vm_compute; auto. Qed.

(* non-vacuity of (1): a concrete log (an announcement of 2 packages of 2 bytes; package 1, a message of
   another transfer, a duplicate of package 1, package 2, the end marker) meets every hypothesis *)
Example C17_nonvacuous :
  let c := mkCfg true true false None None None None in
  let ext n := Some (1, 2, 65, n) in
  let mflst := expand_msg (7, 0, ext 8, BFlst false 2 17 [97] 4 2 2) in
  let p1 := expand_msg (7, 0, ext 5, BFlda false 2 6 17 1 TI_RAWD [1; 2]) in
  let other := expand_msg (8, 0, ext 5, BFlda false 2 6 17 1 TI_RAWD [9]) in
  let p2 := expand_msg (7, 0, ext 5, BFlda false 2 6 17 2 TI_RAWD [3; 4]) in
  let fin := expand_msg (7, 0, ext 3, BFlfi false 2 17) in
  let post := [p1; other; p1; p2; fin] in
  exists f s rets,
    flst_of c mflst = Some ((7, 0, 17), f) /\ N.of_nat (length [[1; 2]; [3; 4]]) = f_nr f /\
    chunks_ok (f_bs f) (f_nr f) 1 [[1; 2]; [3; 4]] /\ f_size f = lenN (concat [[1; 2]; [3; 4]]) /\
    InOrder c (7, 0, 17) 1 [[1; 2]; [3; 4]] post /\
    run c (init_st []) ([other] ++ mflst :: post) = Ok (s, rets) /\
    saved_bytes s 1 = Some [1; 2; 3; 4].
Proof.
  cbv zeta. eexists. eexists. eexists.
  split; [vm_compute; reflexivity|]. split; [vm_compute; reflexivity|]. split; [vm_compute; repeat split; try reflexivity; intros Hc; discriminate Hc|].
  split; [vm_compute; reflexivity|]. split.
  - eapply io_pkg; [vm_compute; reflexivity|]. eapply io_other; [vm_compute; discriminate|].
    eapply io_dup; [vm_compute; reflexivity|reflexivity|reflexivity|]. eapply io_pkg; [vm_compute; reflexivity|]. apply io_done.
  - split; [vm_compute; reflexivity|]. vm_compute. reflexivity.
Qed.

(* non-vacuity of (1'): three packages of 300 bytes (900 > 512) without announcement, a foreign message, a duplicate, the end marker *)
Example C17_recovered_nonvacuous :
  let c := mkCfg true true false None None None None in
  let ext n := Some (1, 2, 65, n) in
  let pk j a := expand_msg (7, 0, ext 5, BFldaPat false 2 6 17 j TI_RAWD a 3 300) in
  let other := expand_msg (8, 0, ext 5, BFlda false 2 6 17 2 TI_RAWD [9]) in
  let fin := expand_msg (7, 0, ext 3, BFlfi false 2 17) in
  let post := [other; pk 2 50; pk 1 10; pk 3 90; fin; other] in
  exists s rets,
    Forall (fun m => msg_key c m <> Some (7, 0, 17)) [other] /\
    flda_op c (pk 1 10) = Some ((7, 0, 17), (1, pat 10 3 300)) /\
    InRec c (7, 0, 17) 2 [pat 50 3 300; pat 90 3 300] post /\
    run c (init_st []) ([other] ++ pk 1 10 :: post) = Ok (s, rets) /\
    saved_bytes s 0 = Some (pat 10 3 300 ++ pat 50 3 300 ++ pat 90 3 300).
Proof.
  cbv zeta. eexists. eexists.
  split; [constructor; [vm_compute; discriminate|constructor]|].
  split; [vm_compute; reflexivity|]. split.
  - eapply ir_other; [vm_compute; discriminate|]. eapply ir_pkg; [vm_compute; reflexivity|].
    eapply ir_dup; [vm_compute; reflexivity|reflexivity|reflexivity|]. eapply ir_pkg; [vm_compute; reflexivity|].
    apply ir_end; vm_compute; reflexivity.
  - split; [vm_compute; reflexivity|]. vm_compute. reflexivity.
Qed.

Print Assumptions C17_inorder_complete_exact.
Print Assumptions C17_inorder_complete_exact_uniform_lifecycle.
Print Assumptions C17_mislabelled_package_not_counted.
Print Assumptions C17_inorder_modulo_lifecycle_refuted.
Print Assumptions C17_recovered_complete_exact.
Print Assumptions C17_complete_implies_exact.
Print Assumptions C17_complete_needs_every_package.
Print Assumptions C17_reannounce_routes_to_newest.
Print Assumptions C17_complete_from_own_announcement.
Print Assumptions C17_superseded_frozen.
Print Assumptions C17_reannounce_nonvacuous.
Print Assumptions C17_stored_equals_counted.
Print Assumptions C17_save_writes_exact.
Print Assumptions C17_save_refused_changes_nothing.
Print Assumptions C17_save_independent_of_prior_content.
Print Assumptions C17_saved_only_complete.
Print Assumptions C17_published_states_current.
Print Assumptions C17_autosave_confined.
Print Assumptions C17_autosave_no_overwrite.
Print Assumptions C17_no_panic.
Print Assumptions C17_prealloc_bounded.
Print Assumptions C17_drops_only_flda.
Print Assumptions C17_duplicate_defect_before_fix.
Print Assumptions C17_nonvacuous.
Print Assumptions C17_recovered_nonvacuous.
