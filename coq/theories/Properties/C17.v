(* C17 — Embedded file transfers are reassembled bit-exactly or not at all.  (statements follow) *)
From Coq Require Import List NArith Bool.
From AdltV Require Import Base.Res Base.MachInt FileTransfer.Ft Exec.C17.
Import ListNotations.
Open Scope N_scope.
