(* C17 — Embedded file transfers are reassembled bit-exactly or not at all.
   Statements only; proofs are in FileTransfer/FtProofs.v, the model (FileTransferPlugin of
   /repo/src/plugins/file_transfer.rs) is FileTransfer/Ft.v.

   Vocabulary: [run c (init_st fs) ms] processes the messages [ms] with configuration [c] starting with
   the files [fs]; [ops_for c k ms] are the (package number, payload) pairs of the FLDA messages of [ms]
   for the transfer key k = (ecu, lifecycle, serial), in log order; [flst_of c m = Some (k, f)] says that m
   is an announcement for k with the values f; [saved_bytes s i] are the bytes the save command writes for
   transfer number i; [s_fs s] is the file system (path -> content). *)
From Coq Require Import List NArith Bool.
From AdltV Require Import Base.Res Base.MachInt FileTransfer.Ft FileTransfer.FtProofs Exec.C17.
Import ListNotations.
Open Scope N_scope.

(* Whatever the package sequence (drops, swaps, resized packages, duplicates, other transfers, lost
   announcement): a transfer that is Complete holds exactly the packages numbered 1, 2, .., n, taken in
   this order from the log (a sub-sequence of the key's FLDA messages: nothing invented, nothing
   reordered); for an announced transfer n is the announced number of packages, every package has the
   announced size (the last may be shorter) and the total is the announced file size (if one was
   announced); the bytes handed to the save command and the auto-saved file are their concatenation. *)
Theorem C17_complete_implies_exact : forall c fs ms s rets i t,
  run c (init_st fs) ms = Ok (s, rets) ->
  nth_error (s_transfers s) i = Some t -> t_state t = Complete ->
  exists pk : list (N * list N),
    sublist pk (ops_for c (t_key t) ms) /\
    map fst pk = nums 1 (length pk) /\
    t_size t = lenN (concat (map snd pk)) /\
    (forall d, saved_bytes s i = Some d -> d = concat (map snd pk)) /\
    (forall p, t_saved t = Some p -> lookup_path p (s_fs s) = Some (concat (map snd pk))) /\
    (t_data t = [] \/ t_data t = concat (map snd pk)) /\
    ((exists m f, In m ms /\ flst_of c m = Some (t_key t, f) /\ t_name t = f_name f /\
                  N.of_nat (length pk) = f_nr f /\ sizes_ok (f_bs f) (f_nr f) pk /\
                  (f_size f = 0 \/ f_size f = lenN (concat (map snd pk))))
     \/ (t_name t = MISSING_FLST /\ Forall (fun op => lenN (snd op) <= t_bs t) pk)).
Proof. exact complete_implies_exact. Qed.

(* the save command only delivers data of transfers that are Complete *)
Theorem C17_saved_only_complete : forall c fs ms s rets i d,
  run c (init_st fs) ms = Ok (s, rets) -> saved_bytes s i = Some d ->
  exists t, nth_error (s_transfers s) i = Some t /\ t_state t = Complete.
Proof. exact saved_only_complete. Qed.

(* what is reported (the tree items published by the last update_state) shows the current state of every transfer *)
Theorem C17_published_states_current : forall c fs ms s rets,
  run c (init_st fs) ms = Ok (s, rets) ->
  map (fun t => (t_key t, t_state t)) (s_pub s) = map (fun t => (t_key t, t_state t)) (s_transfers s).
Proof. exact published_states_current. Qed.

Print Assumptions C17_complete_implies_exact.
Print Assumptions C17_saved_only_complete.
Print Assumptions C17_published_states_current.
