(* C10 — Time sorting is a permutation, and ordered under bounded delay.
   Statements only; proofs are in Sort/BufferSortProofs.v.  The model is Sort/BufferSort.v:
   [run pick w mind lcs input] is the sequence handed to the outflow closure of
   buffer_sort_messages(inflow = input, lcs_r = lcs, windows_size_secs = w, min_buffer_delay_us = mind)
   as a value of the panic monad; [pick] resolves the BinaryHeap's freedom among entries with equal
   (calculated time, index) and every theorem quantifies over all [pick].  [lcs : tables] is the lifecycle table
   as a function of the moment of the lookup (it may change while the function runs); [fixed t] is the table [t]
   that does not change.  [calc_spec t m] is the calculated time of the property text (lifecycle start +
   timestamp capped at the reception time; the reception time for control requests; start 0 for ids the table
   does not know). *)
From Coq Require Import List NArith Bool Permutation Sorted Lia.
From AdltV Require Import Base.Res Base.MachInt Sort.BufferSort Sort.BufferSortProofs Exec.C10.
Import ListNotations.
Open Scope N_scope.

(* nothing lost, duplicated or altered: whenever the function returns — for EVERY stream, table, window size,
   minimum delay and heap behaviour — the delivered sequence is a permutation of the input (the very same records) *)
Theorem C10_sort_perm pick w mind (lcs : tables) input out :
  run pick w mind lcs input = Ok out -> Permutation out input.
Proof. exact (run_perm pick w mind lcs input out). Qed.

(* ... and it does return (no panic, fuel never exhausted) for every window size >= 1 as long as the u64 sums the
   code forms cannot overflow: reception times <= B with 2B + min_delay + 1000 s + w s within u64, and
   lifecycle start + timestamp within u64 for the non-control messages (whatever version of the table is seen) *)
Theorem C10_sort_no_panic pick w mind B (lcs : tables) input :
  1 <= w ->
  2 * B + mind + YOUNG_DELAY + w * US_PER_SEC <= u64max ->
  Forall (fun m => m_rt m <= B /\
                   (m_ctrl m = false -> forall i np, lc_start (lcs i np) (m_lc m) + m_ts m * 100 <= u64max)) input ->
  exists out, run pick w mind lcs input = Ok out /\ Permutation out input.
Proof.
  intros Hw Hov Hin. destruct (run_ok w mind B Hw Hov lcs pick input Hin) as [out Ho].
  exists out. split; [exact Ho|exact (run_perm _ _ _ _ _ _ Ho)].
Qed.

(* ordered under bounded delay: reception times never decrease, indices increase, no calculated time lies more
   than the minimum delay before the reception time  ==>  delivered in (calculated time, index) order *)
Theorem C10_sort_ordered_under_bound pick w mind (lcs : table) input out :
  StronglySorted (fun a b => m_rt a <= m_rt b) input ->
  StronglySorted (fun a b => m_index a < m_index b) input ->
  Forall (fun m => m_rt m - calc_spec lcs m <= mind) input ->
  run pick w mind (fixed lcs) input = Ok out ->
  StronglySorted (before lcs) out.
Proof. exact (run_sorted pick w mind lcs input out). Qed.

(* ties in original order, spelled out: two messages with the same calculated time leave in the order they came *)
Theorem C10_sort_ties_in_original_order pick w mind (lcs : table) input out l1 a l2 b l3 :
  StronglySorted (fun a b => m_rt a <= m_rt b) input ->
  StronglySorted (fun a b => m_index a < m_index b) input ->
  Forall (fun m => m_rt m - calc_spec lcs m <= mind) input ->
  run pick w mind (fixed lcs) input = Ok out ->
  out = l1 ++ a :: l2 ++ b :: l3 -> calc_spec lcs a = calc_spec lcs b ->
  exists i1 i2 i3, input = i1 ++ a :: i2 ++ b :: i3.
Proof. exact (run_ties_original_order pick w mind lcs input out l1 a l2 b l3). Qed.

(* the release threshold (max_buffer_time_us) never falls below the configured minimum, after any prefix *)
Theorem C10_threshold_ge_min pick w mind (lcs : tables) input o s :
  run_state pick w mind lcs (init mind) input = Ok (o, s) -> mind <= s_thr s.
Proof. intros H. eapply run_state_thr; [exact H|]. cbn. lia. Qed.

(* hence whatever is released while message m is processed is older than m by more than the minimum delay *)
Theorem C10_released_older_than_min_delay pick w mind (lcs : tables) input o s m out s' :
  run_state pick w mind lcs (init mind) input = Ok (o, s) ->
  process pick w mind lcs s m = Ok (out, s') ->
  Forall (fun x => fst x + mind < m_rt m) out.
Proof.
  intros H Hp. eapply process_released_old; [exact Hp|]. eapply run_state_thr; [exact H|]. cbn. lia.
Qed.

(* distinct indices leave the heap no freedom: the output does not depend on the tie-breaking *)
Theorem C10_sort_deterministic_if_indices_distinct p1 p2 w mind (lcs : tables) input :
  NoDup (map m_index input) -> run p1 w mind lcs input = run p2 w mind lcs input.
Proof. exact (run_unique p1 p2 w mind lcs input). Qed.

(* outside the quantifier (documented): window size 0 panics on the very first message —
   `entry.1.front().unwrap()` on the empty deque at utils/mod.rs:734, before `windows_size_secs - 1` can underflow *)
Theorem C10_window_size_zero_panics pick mind (lcs : tables) m r :
  (m_ctrl m = false -> lc_start (lcs 0%nat 0%nat) (m_lc m) + m_ts m * 100 <= u64max) ->
  run pick 0 mind lcs (m :: r) = Panic site_unwrap.
Proof. exact (run_window_zero_panics pick mind lcs m r). Qed.

(* outside the quantifier (documented): u64 sums overflow in a debug build.  A table entry with
   start_time = u64::MAX (the marker Lifecycle::merge leaves in a merged lifecycle) plus any timestamp > 0,
   and a minimum delay within 1000 s of u64::MAX *)
Theorem C10_u64_overflow_panics :
  run pick_first 3 0 (fixed (table_of (plain_table [(1, u64max)]))) (tag_msgs 0 [(0, 1000000, 1, 1, 0, 1)]) = Panic site_add_overflow /\
  run pick_first 3 (u64max - 5) (fixed (table_of (plain_table []))) (tag_msgs 0 [(0, 1000000, 1, 1, 0, 1)]) = Panic site_add_overflow.
Proof. split; vm_compute; reflexivity. Qed.

(* what the function takes from a lifecycle table entry: the field start_time and nothing else.  Two (changing) tables
   whose entries agree on start_time (and on presence) under the lifecycle ids of the stream's messages — whatever
   else differs: being a resume, resume_start_time(), resume_time(), end_time(), suspend_duration(), message counts —
   give the same run for every heap behaviour: the same delivered sequence, or the same panic *)
Theorem C10_sort_reads_only_start_time pick w mind (t1 t2 : nat -> nat -> item_table) input :
  (forall m, In m input -> m_ctrl m = false -> forall i np,
     option_map li_start (t1 i np (m_lc m)) = option_map li_start (t2 i np (m_lc m))) ->
  run pick w mind (fun i np => table_of_items (t1 i np)) input =
  run pick w mind (fun i np => table_of_items (t2 i np)) input.
Proof.
  intros H. apply run_ext. intros m Hm Hc i np. specialize (H m Hm Hc i np).
  unfold lc_start, table_of_items, table_by.
  destruct (t1 i np (m_lc m)) as [a|], (t2 i np (m_lc m)) as [b|]; cbn in H; try discriminate; [|reflexivity].
  inversion H. reflexivity.
Qed.

(* the sort key of every delivered message (fixed table) is a function of (start_time of the entry under the
   message's lifecycle id — 0 without entry —, timestamp, reception time): start_time + timestamp capped at the
   reception time; the reception time for control requests *)
Theorem C10_sort_key_from_start_time pick w mind (t : item_table) input o :
  run_entries pick w mind (fixed (table_of_items t)) input = Ok o ->
  Forall (fun e => let m := snd e in
            fst e = if m_ctrl m then m_rt m
                    else N.min (match t (m_lc m) with Some it => li_start it | None => 0 end + m_ts m * 100) (m_rt m)) o.
Proof.
  intros H. apply run_entries_key_spec in H. eapply Forall_impl; [|exact H]. cbn beta zeta. intros e He. rewrite He.
  unfold calc_spec, lc_start, table_of_items, table_by. destruct (t (m_lc (snd e))); reflexivity.
Qed.

(* ... and it matters: a table with a RESUMED lifecycle (id 1, ECU 1) whose start_time (91 s) was moved to before the
   start recorded for the lifecycle it resumes (100 s; so resume_start_time() = 100 s + 1 us) and a second ECU's
   lifecycle (id 2, start 50 s).  Both messages are within the 2 s bound; sorted by start_time + timestamp the later
   received message (200.0 s) leaves first; keyed by resume_start_time() it would be capped at its reception time and
   leave last *)
Definition rs_items : item_table :=
  items_of (Some [(1, (91000000, 1, 100000001, 96000000, 200000000, 0, 3)); (2, (50000000, 0, 50000000, 50000000, 200500000, 0, 2))]).
Definition rs_input := tag_msgs 0 [(0, 200600000, 2, 1505000, 0, 2); (1, 201500000, 1, 1090000, 0, 1)].
Example C10_resume_start_time_is_not_the_key :
  StronglySorted (fun a b => m_rt a <= m_rt b) rs_input /\
  StronglySorted (fun a b => m_index a < m_index b) rs_input /\
  Forall (fun m => m_rt m - calc_spec (table_of_items rs_items) m <= 2000000) rs_input /\
  (exists out, run pick_first 3 2000000 (fixed (table_of_items rs_items)) rs_input = Ok out /\ map m_tag out = [1; 0]) /\
  (exists out, run pick_first 3 2000000 (fixed (table_by li_resume_start rs_items)) rs_input = Ok out /\ map m_tag out = [0; 1]).
Proof.
  split; [repeat constructor; vm_compute; discriminate|].
  split; [repeat constructor; vm_compute; reflexivity|].
  split; [repeat constructor; vm_compute; discriminate|].
  split.
  - destruct (run pick_first 3 2000000 (fixed (table_of_items rs_items)) rs_input) as [out| |] eqn:E; try (vm_compute in E; discriminate).
    exists out. split; [reflexivity|]. vm_compute in E. inversion E. reflexivity.
  - destruct (run pick_first 3 2000000 (fixed (table_by li_resume_start rs_items)) rs_input) as [out| |] eqn:E; try (vm_compute in E; discriminate).
    exists out. split; [reflexivity|]. vm_compute in E. inversion E. reflexivity.
Qed.

(* the acceptor of the correspondence check only accepts outputs of runs of the model *)
Lemma list_N_eqb_eq a : forall b, list_N_eqb a b = true -> a = b.
Proof.
  induction a as [|x r IH]; intros [|y s] H; try discriminate; [reflexivity|].
  cbn in H. apply andb_true_iff in H. destruct H as [H1 H2]. apply N.eqb_eq in H1. subst. rewrite (IH s H2). reflexivity.
Qed.
Theorem C10_acceptor_sound w mind (lcs : tables) input tags :
  accepts w mind lcs input tags = true ->
  exists pick out, run pick w mind lcs input = Ok out /\ map m_tag out = tags.
Proof.
  unfold accepts. intros H. exists (pick_obs tags).
  destruct (run (pick_obs tags) w mind lcs input) as [out| |]; try discriminate.
  exists out. split; [reflexivity|apply list_N_eqb_eq; exact H].
Qed.

(* non-vacuity: two ECUs with one lifecycle each in parallel, a control request, delays up to 0.4 s under a
   0.5 s bound, a window of 2 s that matures: the hypotheses hold, the run returns and really reorders *)
Definition nv_lcs := table_of (plain_table [(1, 1000000000); (2, 1000200000)]).
Definition nv_input := tag_msgs 0
  [(0, 1001000000, 1, 9000, 0, 1); (1, 1001100000, 2, 6000, 0, 2); (2, 1001200000, 1, 5, 23, 1);
   (3, 1002300000, 2, 19000, 0, 2); (4, 1002400000, 1, 20000, 0, 1); (5, 1009000000, 1, 90000, 0, 1)].
Example C10_nonvacuous :
  StronglySorted (fun a b => m_rt a <= m_rt b) nv_input /\
  StronglySorted (fun a b => m_index a < m_index b) nv_input /\
  Forall (fun m => m_rt m - calc_spec nv_lcs m <= 500000) nv_input /\
  exists out, run pick_first 2 500000 (fixed nv_lcs) nv_input = Ok out /\ map m_tag out = [1; 0; 2; 4; 3; 5] /\
              StronglySorted (before nv_lcs) out.
Proof.
  assert (H1 : StronglySorted (fun a b => m_rt a <= m_rt b) nv_input)
    by (repeat constructor; vm_compute; discriminate).
  assert (H2 : StronglySorted (fun a b => m_index a < m_index b) nv_input)
    by (repeat constructor; vm_compute; reflexivity).
  assert (H3 : Forall (fun m => m_rt m - calc_spec nv_lcs m <= 500000) nv_input)
    by (repeat constructor; vm_compute; discriminate).
  split; [exact H1|]. split; [exact H2|]. split; [exact H3|].
  destruct (run pick_first 2 500000 (fixed nv_lcs) nv_input) as [out| |] eqn:E; try (vm_compute in E; discriminate).
  exists out. split; [reflexivity|]. split.
  - vm_compute in E. inversion E. reflexivity.
  - exact (C10_sort_ordered_under_bound _ _ _ _ _ _ H1 H2 H3 E).
Qed.

Print Assumptions C10_sort_perm.
Print Assumptions C10_sort_no_panic.
Print Assumptions C10_sort_ordered_under_bound.
Print Assumptions C10_sort_ties_in_original_order.
Print Assumptions C10_threshold_ge_min.
Print Assumptions C10_released_older_than_min_delay.
Print Assumptions C10_sort_deterministic_if_indices_distinct.
Print Assumptions C10_window_size_zero_panics.
Print Assumptions C10_u64_overflow_panics.
Print Assumptions C10_sort_reads_only_start_time.
Print Assumptions C10_sort_key_from_start_time.
Print Assumptions C10_resume_start_time_is_not_the_key.
Print Assumptions C10_acceptor_sound.
Print Assumptions C10_nonvacuous.
