(* C19 — Plugins keep the stream intact; anonymisation keeps its structure.
   Statements only; proofs are in Plugins/ChainProofs.v and Plugins/AnonProofs.v.

   Part 1 (Plugins/Chain.v): [process]/[run_cap] transcribe plugins_process_msgs (src/plugins/mod.rs) over
   abstract plugins [p_step : state -> msg -> state * msg * bool].  [frame allow_ts m m'] is the frame
   condition of the property text: index, reception time, ECU, payload bytes, lifecycle and the standard
   header are kept, an existing extended header is kept (a missing one may be filled in), the timestamp
   is kept unless [allow_ts] (rewrite plugin); only payload_text is free.
   The hypothesis [Conservative] for the five real decoders (non-verbose, SOME/IP, CAN, Muniic, rewrite) is
   NOT proved — their FIBEX/JSON driven decoding is outside the model; it is checked message by message by
   the harness (harness/src/bin/c19.rs, "frame" cases) on the real plugins.

   Part 2 (Plugins/Anon.v): AnonymizePlugin modelled completely (pseudonym tables, control-message and
   payload rewriting, the argument iterator's first step).

   Not in Coq: "lifecycles detected on the anonymised trace have the same boundaries and counts" is checked
   by the harness only ("equiv" cases: the real detector on the original and on the anonymised stream). *)
From Coq Require Import List NArith Bool.
From AdltV Require Import Base.Res Base.MachInt Plugins.Chain Plugins.ChainProofs Plugins.Anon Plugins.AnonProofs Exec.C19.
Import ListNotations.
Open Scope N_scope.

(* ------------------------------------------------------------------ Part 1: the chain *)

(* the frame condition, spelled out *)
Theorem C19_frame_meaning allow_ts m m' :
  frame allow_ts m m' <->
  m_index m' = m_index m /\ m_rtime m' = m_rtime m /\ m_ecu m' = m_ecu m /\ m_payload m' = m_payload m /\
  m_lc m' = m_lc m /\ m_htyp m' = m_htyp m /\ m_mcnt m' = m_mcnt m /\ m_len m' = m_len m /\
  match m_ext m with Some e => m_ext m' = Some e | None => True end /\
  (allow_ts = false -> m_ts m' = m_ts m).
Proof. exact (frame_iff allow_ts m m'). Qed.

(* a chain of conservative plugins forwards every message exactly once, in order, inside the frame —
   for every stream and every chain (any length, any order, any internal plugin state reachable under the
   plugins' invariants); and the plugins handed back are conservative again (so this holds for every
   continuation of the stream as well) *)
Theorem C19_chain_conservative allow_ts ps ms :
  Forall (Conservative allow_ts) ps ->
  exists ps' outs, process ps ms = (ps', outs) /\ Forall2 (frame allow_ts) ms outs /\ Forall (Conservative allow_ts) ps'.
Proof. exact (chain_conservative allow_ts ps ms). Qed.

(* read field by field *)
Theorem C19_chain_conservative_fields allow_ts ps ms ps' outs :
  Forall (Conservative allow_ts) ps -> process ps ms = (ps', outs) ->
  length outs = length ms /\
  map m_index outs = map m_index ms /\ map m_rtime outs = map m_rtime ms /\ map m_ecu outs = map m_ecu ms /\
  map m_payload outs = map m_payload ms /\ map m_lc outs = map m_lc ms /\
  (allow_ts = false -> map m_ts outs = map m_ts ms).
Proof.
  intros HF E. destruct (chain_conservative allow_ts ps ms HF) as (ps2 & outs2 & E2 & F & _).
  rewrite E in E2. inversion E2; subst. exact (Forall2_frame_fields allow_ts ms outs2 F).
Qed.

(* a plugin without the rewrite licence is also fine in a chain that has it *)
Theorem C19_conservative_weaken p : Conservative false p -> Conservative true p.
Proof. exact (Framed_allow_ts _ p). Qed.

(* plugins that may drop (file transfer with keepFLDA = false; export): every input message is either
   forwarded inside the frame or it was — as seen by the plugin that returned false — in the droppable class D;
   nothing is duplicated or reordered *)
Theorem C19_chain_drops_only allow_ts (D : msg -> Prop) ps ms ps' r :
  Forall (Framed allow_ts D) ps -> process_opt ps ms = (ps', r) ->
  Forall2 (kept_or_dropped allow_ts D) ms r /\
  Subseq (map m_index (keep r)) (map m_index ms) /\
  Forall (Framed allow_ts D) ps'.
Proof.
  intros HF E. destruct (process_opt_framed allow_ts D ms ps ps' r HF E) as [H1 H2].
  split; [exact H2|]. split; [exact (kept_subseq allow_ts D ms r H2)|exact H1].
Qed.

(* whatever the plugins do, the loop handles each input message once: one result per message, the same
   number of plugins afterwards *)
Theorem C19_chain_one_result_per_message ps ms ps' r :
  process_opt ps ms = (ps', r) -> length r = length ms /\ length ps' = length ps /\ (length (keep r) <= length ms)%nat.
Proof.
  intros E. destruct (process_opt_length ms ps ps' r E) as [H1 H2]. repeat split; auto.
  rewrite <- H1. apply keep_length_le.
Qed.

(* a failing outflow: exactly the first [cap] forwarded messages were delivered, the error carries the next one *)
Theorem C19_chain_outflow_error_prefix cap ps ms e ps' outs :
  run_cap cap ps ms = (e, ps', outs) ->
  outs = firstn cap (snd (process ps ms)) /\ e = nth_error (snd (process ps ms)) cap.
Proof. exact (run_cap_prefix ms cap ps e ps' outs). Qed.

(* the acceptor evaluated inside Coq on every observed run of the real decoders only accepts runs in which
   every input is forwarded inside the frame or is flagged droppable, in order, without duplicates *)
Theorem C19_frame_acceptor_sound allow_ts ins outs :
  framed_run allow_ts ins outs = true ->
  exists r, keep r = outs /\
    Forall2 (fun (i : msg * bool) o => match o with Some m' => frame allow_ts (fst i) m' | None => snd i = true end) ins r.
Proof. exact (framed_run_sound allow_ts ins outs). Qed.

(* non-vacuity: scripted plugins that stamp the text, fill a missing extended header and (rewrite) move the
   timestamp are Conservative; a chain of three of them on a three-message stream *)
Lemma script_conservative id acts :
  Forall (fun a => match a with APass | AStamp | ASetText _ | AClearText | AExt | ATs _ => True | _ => False end) acts ->
  Conservative true (script_plugin (id, acts)).
Proof.
  intros HA. exists (fun _ => True). split; [exact I|]. intros s m _. cbn.
  set (a := nth (N.to_nat (s mod N.of_nat (length acts))) acts APass).
  assert (Ha : match a with APass | AStamp | ASetText _ | AClearText | AExt | ATs _ => True | _ => False end).
  { unfold a. destruct (nth_in_or_default (N.to_nat (s mod N.of_nat (length acts))) acts APass) as [Hin|Hd].
    - rewrite Forall_forall in HA. exact (HA _ Hin).
    - rewrite Hd. exact I. }
  destruct a; try contradiction; cbn; (split; [exact I|]); (split; [|intros; discriminate]);
    apply frame_iff; cbn; repeat split; auto; destruct (m_ext m); reflexivity.
Qed.

Example C19_chain_nonvacuous :
  let ps := map script_plugin [(0, [AStamp; AExt]); (1, [ATs 5; AStamp]); (2, [ASetText 97; AClearText; APass])] in
  let ms := [M 7 100 1 10 49 0 0 None [1; 2] None 0; M 8 101 1 11 49 0 0 (Some (65, 1, 2, 3)) [] (Some [120]) 4; M 9 99 2 12 49 0 0 None [9] None 0] in
  Forall (Conservative true) ps /\
  exists ps' outs, process ps ms = (ps', outs) /\ Forall2 (frame true) ms outs /\ map m_ts outs = [15; 11; 17].
Proof.
  cbv zeta. split.
  - repeat constructor; apply script_conservative; repeat constructor.
  - eexists. eexists. split; [vm_compute; reflexivity|]. split; [|vm_compute; reflexivity].
    repeat constructor; vm_compute; reflexivity.
Qed.

(* a dropping script is not conservative, and the model shows what the loop does with it: message 2 of 3 is
   removed and the plugin behind the dropper never sees it *)
Example C19_chain_drop_example :
  let ps := map script_plugin [(0, [APass; ADrop]); (1, [AStamp])] in
  let ms := [M 0 0 1 0 49 0 0 None [] None 0; M 1 0 1 0 49 0 0 None [] None 0; M 2 0 1 0 49 0 0 None [] None 0] in
  map m_index (snd (process ps ms)) = [0; 2] /\ map m_text (snd (process ps ms)) = [Some [49; 33]; Some [49; 34]].
Proof. vm_compute. split; reflexivity. Qed.

Print Assumptions C19_frame_meaning.
Print Assumptions C19_chain_conservative.
Print Assumptions C19_chain_conservative_fields.
Print Assumptions C19_conservative_weaken.
Print Assumptions C19_chain_drops_only.
Print Assumptions C19_chain_one_result_per_message.
Print Assumptions C19_chain_outflow_error_prefix.
Print Assumptions C19_frame_acceptor_sound.
Print Assumptions C19_chain_nonvacuous.
Print Assumptions C19_chain_drop_example.
