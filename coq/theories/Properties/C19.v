(* C19 — Plugins keep the stream intact; anonymisation keeps its structure.
   Statements only; proofs are in Plugins/ChainProofs.v and Plugins/AnonProofs.v.

   Part 1 (Plugins/Chain.v): [process]/[run_cap] transcribe plugins_process_msgs (src/plugins/mod.rs) over
   abstract plugins [p_step : state -> msg -> state * msg * bool].  [frame allow_ts m m'] is the frame
   condition of the property text: index, reception time, ECU, payload bytes, lifecycle and the standard
   header are kept, an existing extended header is kept (a missing one may be filled in), the timestamp
   is kept unless [allow_ts] (rewrite plugin); only payload_text is free.
   The hypothesis [Conservative] is PROVED for the process_msg wrappers of the five real decoders
   (Plugins/Decoders.v: which fields are written under which condition, transcribed from the Rust control
   flow) for EVERY behaviour of the FIBEX/JSON/regex driven decoding, which stays abstract (an arbitrary
   "answer" function); what remains trusted is that the decoding functions themselves (afibex/asomeip,
   process_msg_arg_iter, Filter::matches, fancy-regex) do not write to the message — they only get `&DltMessage`
   or slices — and the harness checks the frame condition message by message on the real plugins
   ("frame" cases) and that the wrapper models reproduce the real plugins' written fields ("dec" cases).

   Part 2 (Plugins/Anon.v): AnonymizePlugin modelled completely (pseudonym tables, control-message and
   payload rewriting, the argument iterator's first step).

   Part 3 (Plugins/LcEquiv.v, Plugins/AnonLc.v): the lifecycle detector MODEL of Lifecycle/Model.v (the
   transcription of parse_lifecycles_buffered_from_stream used by C05-C08, tied to the code by their
   correspondence checks) commutes with every ECU renaming that is injective on the ids of the stream — proved
   outright from the model's definition, not assumed — and the anonymiser induces such a renaming below the
   capacity.  The real detector is additionally run on original vs anonymised streams by the harness
   ("equiv" cases).

   Part 4 (Plugins/MuniicCfg.v): a `process_msg` that panics.  The loop does not catch: the message in work and
   every later one is lost.  MuniicPlugin's configuration-message recogniser (regex + three
   `captures.get(k).unwrap()`) transcribed with a small regex matcher: with the regex of the source every group
   takes part in every match, so the unwraps cannot fail; with an optional group they can. *)
From Coq Require Import List NArith Bool.
From Coq Require Strings.String.
Import String.StringSyntax.
From AdltV Require Import Base.Res Base.MachInt Plugins.Chain Plugins.ChainProofs Plugins.Anon Plugins.AnonProofs Plugins.AnonLc Plugins.Decoders Plugins.DecodersProofs Exec.C19.
From AdltV Require Import Plugins.MuniicCfg Plugins.MuniicCfgProofs.
From AdltV Require Lifecycle.Model Plugins.LcEquiv.
Import ListNotations.
Open Scope N_scope.

(* ------------------------------------------------------------------ Part 1: the chain *)

(* the frame condition, spelled out *)
Theorem C19_frame_meaning allow_ts m m' :
  frame allow_ts m m' <->
  m_index m' = m_index m /\ m_rtime m' = m_rtime m /\ m_ecu m' = m_ecu m /\ m_payload m' = m_payload m /\
  m_lc m' = m_lc m /\ m_htyp m' = m_htyp m /\ m_mcnt m' = m_mcnt m /\ m_len m' = m_len m /\
  match m_ext m with Some e => m_ext m' = Some e | None => True end /\
  (allow_ts = false -> m_ts m' = m_ts m).
Proof. exact (frame_iff allow_ts m m'). Qed.

(* a chain of conservative plugins forwards every message exactly once, in order, inside the frame —
   for every stream and every chain (any length, any order, any internal plugin state reachable under the
   plugins' invariants); and the plugins handed back are conservative again (so this holds for every
   continuation of the stream as well) *)
Theorem C19_chain_conservative allow_ts ps ms :
  Forall (Conservative allow_ts) ps ->
  exists ps' outs, process ps ms = (ps', outs) /\ Forall2 (frame allow_ts) ms outs /\ Forall (Conservative allow_ts) ps'.
Proof. exact (chain_conservative allow_ts ps ms). Qed.

(* read field by field *)
Theorem C19_chain_conservative_fields allow_ts ps ms ps' outs :
  Forall (Conservative allow_ts) ps -> process ps ms = (ps', outs) ->
  length outs = length ms /\
  map m_index outs = map m_index ms /\ map m_rtime outs = map m_rtime ms /\ map m_ecu outs = map m_ecu ms /\
  map m_payload outs = map m_payload ms /\ map m_lc outs = map m_lc ms /\
  (allow_ts = false -> map m_ts outs = map m_ts ms).
Proof.
  intros HF E. destruct (chain_conservative allow_ts ps ms HF) as (ps2 & outs2 & E2 & F & _).
  rewrite E in E2. inversion E2; subst. exact (Forall2_frame_fields allow_ts ms outs2 F).
Qed.

(* a plugin without the rewrite licence is also fine in a chain that has it *)
Theorem C19_conservative_weaken p : Conservative false p -> Conservative true p.
Proof. exact (Framed_allow_ts _ p). Qed.

(* plugins that may drop (file transfer with keepFLDA = false; export): every input message is either
   forwarded inside the frame or it was — as seen by the plugin that returned false — in the droppable class D;
   nothing is duplicated or reordered *)
Theorem C19_chain_drops_only allow_ts (D : msg -> Prop) ps ms ps' r :
  Forall (Framed allow_ts D) ps -> process_opt ps ms = (ps', r) ->
  Forall2 (kept_or_dropped allow_ts D) ms r /\
  Subseq (map m_index (keep r)) (map m_index ms) /\
  Forall (Framed allow_ts D) ps'.
Proof.
  intros HF E. destruct (process_opt_framed allow_ts D ms ps ps' r HF E) as [H1 H2].
  split; [exact H2|]. split; [exact (kept_subseq allow_ts D ms r H2)|exact H1].
Qed.

(* whatever the plugins do, the loop handles each input message once: one result per message, the same
   number of plugins afterwards *)
Theorem C19_chain_one_result_per_message ps ms ps' r :
  process_opt ps ms = (ps', r) -> length r = length ms /\ length ps' = length ps /\ (length (keep r) <= length ms)%nat.
Proof.
  intros E. destruct (process_opt_length ms ps ps' r E) as [H1 H2]. repeat split; auto.
  rewrite <- H1. apply keep_length_le.
Qed.

(* a failing outflow: exactly the first [cap] forwarded messages were delivered, the error carries the next one *)
Theorem C19_chain_outflow_error_prefix cap ps ms e ps' outs :
  run_cap cap ps ms = (e, ps', outs) ->
  outs = firstn cap (snd (process ps ms)) /\ e = nth_error (snd (process ps ms)) cap.
Proof. exact (run_cap_prefix ms cap ps e ps' outs). Qed.

(* the acceptor evaluated inside Coq on every observed run of the real decoders only accepts runs in which
   every input is forwarded inside the frame or is flagged droppable, in order, without duplicates *)
Theorem C19_frame_acceptor_sound allow_ts ins outs :
  framed_run allow_ts ins outs = true ->
  exists r, keep r = outs /\
    Forall2 (fun (i : msg * bool) o => match o with Some m' => frame allow_ts (fst i) m' | None => snd i = true end) ins r.
Proof. exact (framed_run_sound allow_ts ins outs). Qed.

(* non-vacuity: scripted plugins that stamp the text, fill a missing extended header and (rewrite) move the
   timestamp are Conservative; a chain of three of them on a three-message stream *)
Lemma script_conservative id acts :
  Forall (fun a => match a with APass | AStamp | ASetText _ | AClearText | AExt | ATs _ => True | _ => False end) acts ->
  Conservative true (script_plugin (id, acts)).
Proof.
  intros HA. exists (fun _ => True). split; [exact I|]. intros s m _. cbn.
  set (a := nth (N.to_nat (s mod N.of_nat (length acts))) acts APass).
  assert (Ha : match a with APass | AStamp | ASetText _ | AClearText | AExt | ATs _ => True | _ => False end).
  { unfold a. destruct (nth_in_or_default (N.to_nat (s mod N.of_nat (length acts))) acts APass) as [Hin|Hd].
    - rewrite Forall_forall in HA. exact (HA _ Hin).
    - rewrite Hd. exact I. }
  destruct a; try contradiction; cbn; (split; [exact I|]); (split; [|intros; discriminate]);
    apply frame_iff; cbn; repeat split; auto; try (intros; discriminate); unfold ext_fill_ok; cbn; destruct (m_ext m); reflexivity.
Qed.

Example C19_chain_nonvacuous :
  let ps := map script_plugin [(0, [AStamp; AExt]); (1, [ATs 5; AStamp]); (2, [ASetText 97; AClearText; APass])] in
  let ms := [M 7 100 1 10 49 0 0 None [1; 2] None 0; M 8 101 1 11 49 0 0 (Some (65, 1, 2, 3)) [] (Some [120]) 4; M 9 99 2 12 49 0 0 None [9] None 0] in
  Forall (Conservative true) ps /\
  exists ps' outs, process ps ms = (ps', outs) /\ Forall2 (frame true) ms outs /\ map m_ts outs = [15; 11; 17].
Proof.
  cbv zeta. split.
  - repeat constructor; apply script_conservative; repeat constructor.
  - eexists. eexists. split; [vm_compute; reflexivity|]. split; [|vm_compute; reflexivity].
    repeat constructor; vm_compute; reflexivity.
Qed.

(* a dropping script is not conservative, and the model shows what the loop does with it: message 2 of 3 is
   removed and the plugin behind the dropper never sees it *)
Example C19_chain_drop_example :
  let ps := map script_plugin [(0, [APass; ADrop]); (1, [AStamp])] in
  let ms := [M 0 0 1 0 49 0 0 None [] None 0; M 1 0 1 0 49 0 0 None [] None 0; M 2 0 1 0 49 0 0 None [] None 0] in
  map m_index (snd (process ps ms)) = [0; 2] /\ map m_text (snd (process ps ms)) = [Some [49; 33]; Some [49; 34]].
Proof. vm_compute. split; reflexivity. Qed.

(* ------------------------------------------------------------------ Part 1b: the five real decoders *)

(* every wrapper returns true and stays inside the frame (the four decoders without, rewrite with the timestamp
   licence) whatever the abstract decoding answers *)
Theorem C19_decoder_wrappers_in_frame :
  (forall enabled ans m, snd (nv_wrap enabled ans m) = true /\ frame false m (fst (nv_wrap enabled ans m))) /\
  (forall ans m, snd (someip_wrap ans m) = true /\ frame false m (fst (someip_wrap ans m))) /\
  (forall ans m, snd (can_wrap ans m) = true /\ frame false m (fst (can_wrap ans m))) /\
  (forall ans m, snd (muniic_wrap ans m) = true /\ frame false m (fst (muniic_wrap ans m))) /\
  (forall enabled acts m, snd (rewrite_wrap enabled acts m) = true /\ frame true m (fst (rewrite_wrap enabled acts m))) /\
  (forall enabled acts m, Forall (fun x => match x with RwText _ => True | RwTs _ => False end) acts ->
                          frame false m (fst (rewrite_wrap enabled acts m))).
Proof.
  split; [intros; apply nv_wrap_ok|]. split; [intros; apply someip_wrap_ok|]. split; [intros; apply can_wrap_ok|].
  split; [intros; apply muniic_wrap_ok|]. split; [intros; apply rewrite_wrap_ok|].
  intros enabled acts m H. exact (proj2 (rewrite_wrap_text_only enabled acts m H)).
Qed.

(* hence each of the five plugins — any plugin state, any state transition, any decoding behaviour — is Conservative *)
Theorem C19_real_decoder_conservative allow_ts p : real_decoder allow_ts p -> Conservative allow_ts p.
Proof. exact (real_decoder_conservative allow_ts p). Qed.

(* and any chain of them (any subset, order, multiplicity) forwards every message of every stream exactly once,
   in order, inside the frame; without a rewrite plugin ([allow_ts = false]) the timestamp is intact as well *)
Theorem C19_real_decoders_conservative allow_ts ps ms :
  Forall (real_decoder allow_ts) ps ->
  exists ps' outs, process ps ms = (ps', outs) /\ Forall2 (frame allow_ts) ms outs /\ Forall (Conservative allow_ts) ps'.
Proof. exact (real_decoders_chain allow_ts ps ms). Qed.

(* spelled out for a chain without the rewrite plugin — whatever state the plugins carry from earlier messages
   (SOME/IP segment bookkeeping, CAN channel map, Muniic configuration and cache): every output message equals its
   input message in index, reception time, ECU, TIMESTAMP, standard header (htyp, mcnt, len), payload and
   lifecycle, and in the extended header when it had one *)
Theorem C19_real_decoders_keep_all_but_text ps ms ps' outs :
  Forall (real_decoder false) ps -> process ps ms = (ps', outs) ->
  Forall2 (fun m o => m_index o = m_index m /\ m_rtime o = m_rtime m /\ m_ecu o = m_ecu m /\ m_ts o = m_ts m /\
                      m_htyp o = m_htyp m /\ m_mcnt o = m_mcnt m /\ m_len o = m_len m /\
                      m_payload o = m_payload m /\ m_lc o = m_lc m /\
                      match m_ext m with Some e => m_ext o = Some e | None => True end) ms outs.
Proof.
  intros H E. destruct (real_decoders_chain false ps ms H) as (ps2 & outs2 & E2 & F & _).
  rewrite E in E2. inversion E2; subst. clear E2 E.
  induction F as [|m o ms outs Hf F IH]; constructor; [|exact IH].
  apply frame_iff in Hf. destruct Hf as (A1 & A2 & A3 & A4 & A5 & A6 & A7 & A8 & A9 & A10).
  repeat split; auto.
Qed.

(* the plugins the correspondence check runs (answers scripted from the observed real run) are instances *)
Theorem C19_checked_decoders_are_instances chain : Forall (real_decoder true) (map dec_plugin chain).
Proof.
  apply Forall_forall. intros p Hp. apply in_map_iff in Hp. destruct Hp as [d [E _]]. subst p.
  destruct d; cbn; constructor.
Qed.

(* non-vacuity / what the wrappers do: the non-verbose plugin installs the described header only when the
   message has none, keeps an existing one, and leaves verbose messages alone; CAN keeps an existing text on a
   decoding error; rewrite moves the timestamp *)
Example C19_decoders_nonvacuous :
  let h := EH 64 0 1212957696 1296123214 in
  let nv := DNv true [NvFrame [70] (Some h); NvFrame [71] (Some h); NvFrame [72] (Some h)] in
  let can := DCan [CanErr [1]; CanErr [2]; CanOk [3]] in
  let rw := DRewrite true [[]; [RwText (Some [9]); RwTs 77]; []] in
  let ms := [M 0 10 1 5 48 0 0 None [1; 2; 3; 4] None 0;
             M 1 11 1 6 49 0 0 (Some (64, 0, 7, 8)) [1; 2; 3; 4; 5] (Some [88]) 2;
             M 2 12 1 7 49 0 0 (Some (37, 2, 7, ctid_TC)) [1; 2; 3; 4] (Some [88]) 0] in
  map (fun m => (m_ext m, m_text m, m_ts m)) (snd (process (map dec_plugin [nv; can; rw]) ms)) =
  [(Some h, Some [70], 5); (Some (EH 64 0 7 8), Some [9], 77); (Some (EH 37 2 7 ctid_TC), Some [3], 7)].
Proof. vm_compute. reflexivity. Qed.

(* ------------------------------------------------------------------ Part 2: the anonymiser *)

(* AnonymizePlugin::process_msg (repaired code) returns normally for every message in every state: none of the
   modelled slices / unwraps can fail; a stream of n messages yields n messages *)
Theorem C19_anon_no_panic st ms :
  exists st' outs, anon_run true st ms = Ok (st', outs) /\ length outs = length ms.
Proof. exact (anon_run_ok ms st). Qed.

(* the defect that was repaired in /repo (fix: anonymize: do not panic on a control response whose first
   argument is shorter than 4 bytes): verbose control response, noar 1, payload 11 00 00 00 01 *)
Theorem C19_anon_unwrap_refuted_before_fix :
  exists m, anon_step false anon_init m = Panic site_unwrap /\ is_ok (anon_step true anon_init m) = true.
Proof. eexists. exact anon_step_before_fix_panics. Qed.

(* equal ids -> equal pseudonyms: the whole stream is renamed by ONE table (the final one): ECU by the ECU
   table, APID by the table of its (new) ECU, CTID by the table of its (new) ECU and (old) APID;
   message type and noar are kept *)
Theorem C19_anon_is_table_lookup ms st' outs :
  anon_run true anon_init ms = Ok (st', outs) -> Forall2 (renamed_by st') ms outs.
Proof. intros E. exact (proj1 (proj2 (anon_run_renamed true ms anon_init st' outs E))). Qed.

(* distinct ids -> distinct pseudonyms while a table holds at most [capacity] = 999 ids *)
Theorem C19_anon_injective ms st' outs :
  anon_run true anon_init ms = Ok (st', outs) ->
  (blen (a_ecus st') <= capacity -> tbl_injective (a_ecus st')) /\
  (forall E, blen (apid_tbl st' E) <= capacity -> tbl_injective (apid_tbl st' E)) /\
  (forall E A, blen (ctid_tbl st' E A) <= capacity -> tbl_injective (ctid_tbl st' E A)).
Proof. exact (anon_tables_injective true ms st' outs). Qed.

(* the ECU table has exactly one entry per distinct ECU id of the stream (so its size is the ECU population) *)
Theorem C19_anon_ecu_population ms st' outs :
  anon_run true anon_init ms = Ok (st', outs) ->
  NoDup (map fst (a_ecus st')) /\ forall e, In e (map fst (a_ecus st')) <-> In e (map m_ecu ms).
Proof.
  intros E. destruct (anon_run_renamed true ms anon_init st' outs E) as (_ & _ & _ & K & D).
  split; [apply D; constructor|]. intros e. rewrite K. cbn. intuition.
Qed.

(* both directions for two messages of one stream *)
Theorem C19_anon_pairwise ms st' outs i j mi mj oi oj :
  anon_run true anon_init ms = Ok (st', outs) ->
  nth_error ms i = Some mi -> nth_error ms j = Some mj -> nth_error outs i = Some oi -> nth_error outs j = Some oj ->
  (m_ecu mi = m_ecu mj -> m_ecu oi = m_ecu oj) /\
  (blen (a_ecus st') <= capacity -> m_ecu oi = m_ecu oj -> m_ecu mi = m_ecu mj) /\
  forall ei ej ei' ej', m_ext mi = Some ei -> m_ext mj = Some ej -> m_ext oi = Some ei' -> m_ext oj = Some ej' ->
    m_ecu mi = m_ecu mj ->
    (e_apid ei = e_apid ej -> e_apid ei' = e_apid ej') /\
    (blen (apid_tbl st' (m_ecu oi)) <= capacity -> e_apid ei' = e_apid ej' -> e_apid ei = e_apid ej) /\
    (e_apid ei = e_apid ej ->
       (e_ctid ei = e_ctid ej -> e_ctid ei' = e_ctid ej') /\
       (blen (ctid_tbl st' (m_ecu oi) (e_apid ei)) <= capacity -> e_ctid ei' = e_ctid ej' -> e_ctid ei = e_ctid ej)).
Proof. exact (anon_pairwise true ms st' outs i j mi mj oi oj). Qed.

(* the capacity is exactly 999: with 1000 distinct ECU ids the 1000th gets "E100" again (format!("E{:03}", 1000)
   = "E1000", DltChar4::from_str keeps four bytes) — outside the property's quantifier, shown for tightness *)
Theorem C19_anon_capacity_tight :
  match anon_run true anon_init (pop_stream 1000 1 1 1000) with
  | Ok (st', outs) =>
      blen (a_ecus st') = 1000 /\
      option_map m_ecu (nth_error (pop_stream 1000 1 1 1000) 99) <> option_map m_ecu (nth_error (pop_stream 1000 1 1 1000) 999) /\
      option_map m_ecu (nth_error outs 99) = option_map m_ecu (nth_error outs 999)
  | _ => False
  end.
Proof. vm_compute. split; [reflexivity|]. split; [discriminate|reflexivity]. Qed.

(* AT AND ABOVE the capacity, for every table level (ECUs; APIDs of one ECU; CTIDs of one ECU/APID) and every
   population: nothing but injectivity is lost, and it is lost in exactly one way.
   - [C19_anon_no_panic], [C19_anon_is_table_lookup], [C19_anon_keeps_times] above have no capacity hypothesis:
     no panic, every message forwarded once in order, equal ids -> equal pseudonyms, all non-id fields intact.
   - entry number n >= 1000 of a table gets the pseudonym of entry n / 10 ("X" + the first three digits of n:
     `{:03}` is a minimum width and DltChar4::from_str keeps four bytes; the `unwrap_or_else(.. b"X99A")`
     fallback of the source is unreachable because format! yields ASCII), and two entries share a pseudonym
     exactly when their numbers have the same leading three digits. *)
Theorem C19_pseudonym_of_large_entry letter n :
  1000 <= n -> n < ten20 -> pseudo letter n = pseudo letter (n / 10).
Proof. exact (pseudo_div10 letter n). Qed.

Theorem C19_anon_collisions_as_stated ms st' outs :
  anon_run true anon_init ms = Ok (st', outs) ->
  (blen (a_ecus st') < ten20 -> collisions_as_stated (a_ecus st')) /\
  (forall E, blen (apid_tbl st' E) < ten20 -> collisions_as_stated (apid_tbl st' E)) /\
  (forall E A, blen (ctid_tbl st' E A) < ten20 -> collisions_as_stated (ctid_tbl st' E A)).
Proof. exact (anon_tables_collisions true ms st' outs). Qed.

Theorem C19_collisions_meaning t :
  collisions_as_stated t <->
  forall i j k1 p1 k2 p2, nth_error t i = Some (k1, p1) -> nth_error t j = Some (k2, p2) ->
    (p1 = p2 <-> lead3 (N.of_nat i + 1) = lead3 (N.of_nat j + 1)).
Proof. reflexivity. Qed.

(* [lead3 n] = n below 1000, else the number made of the three leading digits *)
Example C19_lead3_examples :
  map lead3 [1; 999; 1000; 1009; 1010; 1234; 9999; 10000; 123456; 18446744073709551615] = [1; 999; 100; 100; 101; 123; 999; 100; 123; 184].
Proof. vm_compute. reflexivity. Qed.

(* non-vacuity above the capacity, at the CTID level with a mixture: 1005 context ids under one application id,
   3 under another one of the same ECU, arriving in reverse order: all 1008 messages come out, entry 1000..1005
   of the first table repeat the pseudonym of entry 100, the second table is unaffected *)
Example C19_anon_above_capacity_nonvacuous :
  let ms := segs_stream 0 [(1005, (7, 1), (21, 1), (5000, 1005), true); (3, (7, 1), (22, 1), (5000, 3), false)] in
  match anon_run true anon_init ms with
  | Ok (st', outs) =>
      length outs = 1008%nat /\
      blen (ctid_tbl st' (pseudo letter_E 1) 21) = 1005 /\ blen (ctid_tbl st' (pseudo letter_E 1) 22) = 3 /\
      option_map (fun m => option_map e_ctid (m_ext m)) (nth_error outs 999) = Some (Some (pseudo letter_C 100)) /\
      option_map (fun m => option_map e_ctid (m_ext m)) (nth_error outs 99) = Some (Some (pseudo letter_C 100)) /\
      option_map (fun m => option_map e_ctid (m_ext m)) (nth_error outs 1007) = Some (Some (pseudo letter_C 3))
  | _ => False
  end.
Proof. vm_compute. repeat split. Qed.

(* all times (and index, lifecycle, standard header, text, message type, noar, presence of the extended header)
   are untouched; hence also the control-request / control-response / verbose classification and the
   timestamp-presence flag the lifecycle detection looks at *)
Theorem C19_anon_keeps_times st ms st' outs :
  anon_run true st ms = Ok (st', outs) ->
  Forall2 (fun m m' => m_index m' = m_index m /\ m_rtime m' = m_rtime m /\ m_ts m' = m_ts m /\
                       m_htyp m' = m_htyp m /\ m_mcnt m' = m_mcnt m /\ m_len m' = m_len m /\
                       m_lc m' = m_lc m /\ m_text m' = m_text m /\ ext_kind_kept (m_ext m) (m_ext m')) ms outs.
Proof. exact (anon_run_keeps true ms st st' outs). Qed.

Theorem C19_anon_keeps_classification st m st' m' :
  anon_step true st m = Ok (st', m') ->
  is_ctrl_request m' = is_ctrl_request m /\ is_ctrl_response m' = is_ctrl_response m /\
  is_verbose m' = is_verbose m /\ has_timestamp m' = has_timestamp m.
Proof.
  intros E. destruct (anon_step_keeps true st m st' m' E) as (_ & _ & _ & Hh & _ & _ & _ & _ & Hx).
  destruct (ext_kind_kept_class m m' Hx) as (A & B & C). unfold has_timestamp. rewrite Hh. auto.
Qed.

(* non-vacuity: two ECUs, a repeated APID, a software-version response, a non-verbose message *)
Example C19_anon_nonvacuous :
  let ms := [M 0 5000 11 1 49 0 0 (Some (65, 1, 21, 31)) [0; 2; 0; 0; 2; 0; 104; 0] None 0;
             M 1 6000 12 2 49 0 0 (Some (65, 1, 21, 32)) [] None 0;
             M 2 7000 11 3 49 0 0 (Some (38, 1, 21, 31)) [19; 0; 0; 0; 0; 1; 0; 0; 0; 65] None 0;
             M 3 8000 11 4 48 0 0 None [1; 2; 3; 4; 5] None 0] in
  exists st' outs, anon_run true anon_init ms = Ok (st', outs) /\
    map m_ecu outs = [pseudo letter_E 1; pseudo letter_E 2; pseudo letter_E 1; pseudo letter_E 1] /\
    map (fun m => option_map e_ctid (m_ext m)) outs = [Some (pseudo letter_C 1); Some (pseudo letter_C 1); Some (pseudo letter_C 1); None] /\
    map m_rtime outs = [5000; 6000; 7000; 8000] /\
    nth_error (map m_payload outs) 3 = Some [1; 2; 3; 4; 8; 0; 0; 0; 0; 0; 0; 0].
Proof. cbv zeta. eexists. eexists. split; [vm_compute; reflexivity|]. vm_compute. repeat split. Qed.

(* ------------------------------------------------------------------ Part 3: lifecycles of the anonymised trace *)

(* the detector model commutes with any renaming [f] of ECU ids that is injective on the ids [S] of the stream:
   deliveries (message + published table at that instant) and the final table are the renamed ones *)
Theorem C19_detector_equivariant (f : N -> N) (S : N -> Prop) first_id ms :
  (forall a b, S a -> S b -> f a = f b -> a = b) ->
  Forall (fun m => S (Model.m_ecu m)) ms ->
  Model.detect first_id [] (map (LcEquiv.ren_m f) ms) =
  (map (LcEquiv.ren_del f) (fst (Model.detect first_id [] ms)), LcEquiv.ren_tbl f (snd (Model.detect first_id [] ms))).
Proof. intros Hinj. exact (LcEquiv.detect_equivariant f S Hinj first_id ms). Qed.

(* what the renaming does: nothing but the ECU label of messages and lifecycles *)
Theorem C19_renaming_meaning f :
  (forall m, LcEquiv.ren_m f m = {| Model.m_index := Model.m_index m; Model.m_ecu := f (Model.m_ecu m); Model.m_rt := Model.m_rt m;
                                    Model.m_ts := Model.m_ts m; Model.m_has_ts := Model.m_has_ts m; Model.m_creq := Model.m_creq m;
                                    Model.m_lc := Model.m_lc m |}) /\
  (forall L, LcEquiv.ren_l f L = {| Model.l_id := Model.l_id L; Model.l_ecu := f (Model.l_ecu L); Model.l_nr := Model.l_nr L;
                                    Model.l_nr_creq := Model.l_nr_creq L; Model.l_start := Model.l_start L; Model.l_min_ts := Model.l_min_ts L;
                                    Model.l_max_ts := Model.l_max_ts L; Model.l_last_rt := Model.l_last_rt L; Model.l_resume := Model.l_resume L |}) /\
  (forall t, LcEquiv.ren_tbl f t = map (fun kv => (fst kv, LcEquiv.ren_l f (snd kv))) t) /\
  (forall x, LcEquiv.ren_del f x = (LcEquiv.ren_m f (fst x), LcEquiv.ren_tbl f (snd x))).
Proof. repeat split. Qed.

(* the anonymised stream, as the detector sees it ([lc_view]: index, ecu, reception time, timestamp, timestamp
   presence, control-request flag), yields the detection result of the original stream with the ECU labels
   replaced by their pseudonyms — for every stream whose ECU population is within the capacity *)
Theorem C19_lifecycles_equivariant ms st' outs first_id :
  anon_run true anon_init ms = Ok (st', outs) ->
  blen (a_ecus st') <= capacity ->
  Model.detect first_id [] (map lc_view outs) =
  (map (LcEquiv.ren_del (ecu_renaming st')) (fst (Model.detect first_id [] (map lc_view ms))),
   LcEquiv.ren_tbl (ecu_renaming st') (snd (Model.detect first_id [] (map lc_view ms)))).
Proof. exact (anon_lifecycles_equivariant ms st' outs first_id). Qed.

(* hence: the same (index, lifecycle id) per delivered message, and in the final table as well as in every
   table published along the way the same (id, start, end, message count, control-request count, resume origin) *)
Theorem C19_lifecycles_same_boundaries ms st' outs first_id :
  anon_run true anon_init ms = Ok (st', outs) ->
  blen (a_ecus st') <= capacity ->
  map delivery_key (fst (Model.detect first_id [] (map lc_view outs))) =
  map delivery_key (fst (Model.detect first_id [] (map lc_view ms))) /\
  map lc_boundaries (snd (Model.detect first_id [] (map lc_view outs))) =
  map lc_boundaries (snd (Model.detect first_id [] (map lc_view ms))) /\
  map (fun x => map lc_boundaries (snd x)) (fst (Model.detect first_id [] (map lc_view outs))) =
  map (fun x => map lc_boundaries (snd x)) (fst (Model.detect first_id [] (map lc_view ms))).
Proof. exact (anon_same_boundaries ms st' outs first_id). Qed.

(* non-vacuity: two ECUs, a reboot of the first one (three lifecycles), a control request; the hypotheses hold and
   the detector really finds three lifecycles with the counts 2 / 2 / 2 *)
Example C19_lifecycles_nonvacuous :
  let rho := 1000000000000 in
  let ms := [M 0 rho 11 100000 49 0 0 (Some (65, 1, 21, 31)) [] None 0;
             M 1 (rho + 1000000) 12 50000 49 1 0 (Some (65, 1, 21, 31)) [] None 0;
             M 2 (rho + 2000000) 11 120000 49 2 0 (Some (22, 1, 21, 31)) [19; 0; 0; 0] None 0;
             M 3 (rho + 200000000) 11 10000 49 3 0 None [] None 0;
             M 4 (rho + 201000000) 12 2050000 49 4 0 None [1] None 0;
             M 5 (rho + 202000000) 11 30000 49 5 0 None [] None 0] in
  exists st' outs, anon_run true anon_init ms = Ok (st', outs) /\ blen (a_ecus st') <= capacity /\
    map (fun kv => Model.l_nr (snd kv)) (snd (Model.detect 1 [] (map lc_view outs))) = [2; 2; 2] /\
    map (fun kv => Model.l_ecu (snd kv)) (snd (Model.detect 1 [] (map lc_view outs))) = [pseudo letter_E 1; pseudo letter_E 1; pseudo letter_E 2] /\
    map (fun kv => Model.l_ecu (snd kv)) (snd (Model.detect 1 [] (map lc_view ms))) = [11; 11; 12].
Proof.
  cbv zeta. eexists. eexists. split; [vm_compute; reflexivity|]. split; [vm_compute; discriminate|].
  vm_compute. repeat split.
Qed.

(* ------------------------------------------------------------------ Part 4: a process_msg that panics; Muniic's config recogniser *)

(* plugins_process_msgs does not catch a panic of process_msg.  If the run ended by a panic, the stream splits into
   the messages before the fatal one — they were treated exactly as in a run over them alone — the fatal message and
   the rest; nothing of the fatal message or of anything after it reaches the outflow, whatever follows *)
Theorem C19_dead_plugin_loses_the_rest ps ms outs site :
  rprocess ps ms = (outs, Some site) ->
  exists pre m post, ms = pre ++ m :: post /\ rprocess ps pre = (outs, None) /\
    forall post', rprocess ps (pre ++ m :: post') = (outs, Some site).
Proof. exact (rprocess_dead ms ps outs site). Qed.

(* plugins that do not panic on the states they reach: the loop returns; for total plugins it is the loop of Part 1
   (so all of Part 1 applies to the delivered messages) *)
Theorem C19_panic_free_chain_returns ps ms : Forall PanicFree ps -> snd (rprocess ps ms) = None.
Proof. intros H. exact (rprocess_panic_free ms ps H). Qed.

Theorem C19_total_plugins_same_loop ps ms : rprocess (map lift_plugin ps) ms = (snd (process ps ms), None).
Proof. exact (rprocess_lift ms ps). Qed.

(* the regex matcher: a capture group that is not below an optional takes part in every match *)
Theorem C19_regex_mandatory_groups_participate r t c g :
  rsearch r t = Some c -> In g (mand r) -> c g <> None.
Proof. intros H Hin. exact (rsearch_sets r t c H g Hin). Qed.

(* the regex of MuniicPlugin::from_json as the model has it: its source text, and all three groups mandatory *)
Theorem C19_muniic_cfg_regex_pinned :
  re_src cfg_re = bytes_of_string "Version: (\d+.\d+), git: (\w+), model hash: (\d+)" /\
  mand cfg_re = [1; 2; 3]%nat.
Proof. split; vm_compute; reflexivity. Qed.

(* hence process_cfg_msg's three `captures.get(k).unwrap()` cannot fail: for every text, every state of the per-ECU
   table and the warnings, every JSON configuration *)
Theorem C19_muniic_cfg_no_panic known st ecu disp dbg ptext :
  exists st', process_cfg (rsearch cfg_re) known st ecu disp dbg ptext = Ok st'.
Proof. exact (process_cfg_ok _ known cfg_re_all_participate st ecu disp dbg ptext). Qed.

(* the same for every regex all of whose matches have the three groups *)
Theorem C19_muniic_cfg_no_panic_if_groups_participate regex known st ecu disp dbg ptext :
  (forall t c, regex t = Some c -> c 1%nat <> None /\ c 2%nat <> None /\ c 3%nat <> None) ->
  exists st', process_cfg regex known st ecu disp dbg ptext = Ok st'.
Proof. intros H. exact (process_cfg_ok regex known H st ecu disp dbg ptext). Qed.

(* MuniicPlugin::process_msg as a whole: it is the wrapper of Part 1 (configuration messages pass untouched) and
   does not panic; alone in the loop it forwards every message of every stream once, in order *)
Theorem C19_muniic_process_msg_is_wrapper known a disp dbg ptext st m :
  exists st', muniic_process (rsearch cfg_re) known a disp dbg ptext st m = Ok (st', muniic_wrap a m).
Proof. exact (muniic_process_ok _ known cfg_re_all_participate a disp dbg ptext st m). Qed.

Theorem C19_muniic_forwards_every_message known ans disp dbg ptext ms st0 :
  rprocess [muniic_rplugin (rsearch cfg_re) known ans disp dbg ptext st0] ms =
  (map (fun m => fst (muniic_wrap (ans m) m)) ms, None).
Proof. exact (muniic_rplugin_run _ known ans disp dbg ptext cfg_re_all_participate ms st0). Qed.

(* with an optional group the same handler panics: the text matches, group 2 does not take part *)
Theorem C19_muniic_cfg_optional_group_refuted :
  re_src cfg_re_optional_git = bytes_of_string "Version: (\d+.\d+)(?:, git: (\w+))?, model hash: (\d+)" /\
  exists t, forall known st ecu disp dbg,
    process_cfg (rsearch cfg_re_optional_git) known st ecu disp dbg (Some t) = Panic (site_cfg_unwrap 2).
Proof.
  split; [vm_compute; reflexivity|].
  exists (bytes_of_string "Version: 21.10, model hash: 2874425776"). intros known st ecu disp dbg.
  unfold process_cfg.
  assert (match rsearch cfg_re_optional_git (bytes_of_string "Version: 21.10, model hash: 2874425776") with
          | Some c => match c 1%nat, c 2%nat with Some _, None => true | _, _ => false end
          | None => false
          end = true) as H by (vm_compute; reflexivity).
  destruct (rsearch cfg_re_optional_git (bytes_of_string "Version: 21.10, model hash: 2874425776")) as [c|]; [|discriminate].
  unfold get_unwrap. destruct (c 1%nat); [|discriminate]. destruct (c 2%nat); [discriminate|]. reflexivity.
Qed.

(* non-vacuity: a configuration message between two log messages.  With the regex of the source all three are
   delivered and the table has the entry; with the optional group the loop dies at the second message *)
Example C19_muniic_cfg_nonvacuous :
  let cfgt := bytes_of_string "Version: 21.10, model hash: 2874425776" in
  let cfgm t := M 1 2000 11 20 49 1 0 (Some (65, 1, 21, ctid_MDLT)) [] (Some t) 0 in
  let m0 := M 0 1000 11 10 49 0 0 (Some (65, 1, 21, 31)) [] None 0 in
  let m2 := M 2 3000 11 30 49 2 0 (Some (65, 1, 21, 31)) [] None 0 in
  let plug re := muniic_rplugin (rsearch re) (fun _ => true) (fun _ => TNone) (fun _ => [69]) (fun _ => [69]) m_text
                   {| s_cfgs := []; s_warns := []; s_gen := 1 |} in
  rprocess [plug cfg_re] [m0; cfgm cfgt; m2] =
    ([m0; cfgm cfgt; m2], None) /\
  rprocess [plug cfg_re_optional_git] [m0; cfgm cfgt; m2] =
    ([m0], Some (site_cfg_unwrap 2)) /\
  option_map (fun st => map cfg_label (s_cfgs st))
    (match process_cfg (rsearch cfg_re) (fun _ => true) {| s_cfgs := []; s_warns := []; s_gen := 1 |} 11 [69] [69]
             (Some (bytes_of_string "x Version: 20.48, git: 12_a, model hash: 5 y")) with Ok st => Some st | _ => None end) =
    Some [bytes_of_string "E: version:20.48, git:12_a, model_hash:5"].
Proof. cbv zeta. repeat split; vm_compute; reflexivity. Qed.

Print Assumptions C19_frame_meaning.
Print Assumptions C19_chain_conservative.
Print Assumptions C19_chain_conservative_fields.
Print Assumptions C19_conservative_weaken.
Print Assumptions C19_chain_drops_only.
Print Assumptions C19_chain_one_result_per_message.
Print Assumptions C19_chain_outflow_error_prefix.
Print Assumptions C19_frame_acceptor_sound.
Print Assumptions C19_chain_nonvacuous.
Print Assumptions C19_chain_drop_example.
Print Assumptions C19_anon_no_panic.
Print Assumptions C19_anon_unwrap_refuted_before_fix.
Print Assumptions C19_anon_is_table_lookup.
Print Assumptions C19_anon_injective.
Print Assumptions C19_anon_ecu_population.
Print Assumptions C19_anon_pairwise.
Print Assumptions C19_anon_capacity_tight.
Print Assumptions C19_anon_keeps_times.
Print Assumptions C19_anon_keeps_classification.
Print Assumptions C19_anon_nonvacuous.
Print Assumptions C19_detector_equivariant.
Print Assumptions C19_renaming_meaning.
Print Assumptions C19_lifecycles_equivariant.
Print Assumptions C19_lifecycles_same_boundaries.
Print Assumptions C19_lifecycles_nonvacuous.
Print Assumptions C19_decoder_wrappers_in_frame.
Print Assumptions C19_real_decoder_conservative.
Print Assumptions C19_real_decoders_conservative.
Print Assumptions C19_checked_decoders_are_instances.
Print Assumptions C19_decoders_nonvacuous.
Print Assumptions C19_real_decoders_keep_all_but_text.
Print Assumptions C19_pseudonym_of_large_entry.
Print Assumptions C19_anon_collisions_as_stated.
Print Assumptions C19_collisions_meaning.
Print Assumptions C19_lead3_examples.
Print Assumptions C19_anon_above_capacity_nonvacuous.
Print Assumptions C19_dead_plugin_loses_the_rest.
Print Assumptions C19_panic_free_chain_returns.
Print Assumptions C19_total_plugins_same_loop.
Print Assumptions C19_regex_mandatory_groups_participate.
Print Assumptions C19_muniic_cfg_regex_pinned.
Print Assumptions C19_muniic_cfg_no_panic.
Print Assumptions C19_muniic_cfg_no_panic_if_groups_participate.
Print Assumptions C19_muniic_process_msg_is_wrapper.
Print Assumptions C19_muniic_forwards_every_message.
Print Assumptions C19_muniic_cfg_optional_group_refuted.
Print Assumptions C19_muniic_cfg_nonvacuous.
