(* C08 — Cleanly separated power cycles are detected exactly.
   [boot x] = reception time - timestamp = (boot time + transport delay) the message testifies to.
   [CleanStream ms]: every message has a timestamp (<= its reception time), is no control request, and compared with
   every EARLIER message y of the same ECU either belongs to the same boot (same boot value: same boot time and
   same delay) or to a later boot that starts at least 1 ms after y was generated (boot y + timestamp y + 1000 us).
   Nothing is assumed about the interleaving of ECUs, the order of messages inside a boot, reception gaps or density. *)
From Coq Require Import List NArith Bool Lia.
From AdltV Require Import Lifecycle.Model Lifecycle.CountProofs Lifecycle.TableProofs Lifecycle.CleanProofs Exec.Lifecycle.
Import ListNotations.
Open Scope N_scope.

Theorem C08_clean_boots_exact : forall first_id ms,
  0 < first_id -> CleanStream ms ->
  let dl := map fst (fst (detect first_id [] ms)) in
  let t := snd (detect first_id [] ms) in
  (* every message is assigned to the listed lifecycle of its own boot: same ECU, start = boot time plus delay,
     end = start + the largest timestamp of that boot *)
  (forall x, In x dl ->
     exists L, tbl_get (m_lc x) t = Some L /\ l_ecu L = m_ecu x /\ l_start L = boot x /\
               end_time L = l_start L + l_max_ts L /\
               (forall y, In y ms -> m_ecu y = m_ecu x -> boot y = boot x -> m_ts y <= l_max_ts L) /\
               (exists y, In y ms /\ m_ecu y = m_ecu x /\ boot y = boot x /\ m_ts y = l_max_ts L)) /\
  (* every reported lifecycle is the lifecycle of some boot (nothing is split off) *)
  (forall i L, tbl_get i t = Some L -> exists y, In y ms /\ m_ecu y = l_ecu L /\ boot y = l_start L) /\
  (* exactly one lifecycle per boot per ECU (nothing is split) *)
  (forall i1 L1 i2 L2, tbl_get i1 t = Some L1 -> tbl_get i2 t = Some L2 ->
                       l_ecu L1 = l_ecu L2 -> l_start L1 = l_start L2 -> i1 = i2).
Proof. exact clean_boots_exact. Qed.

(* non-vacuity: two ECUs, ECU 1 with two boots (off-time exactly 1 ms, messages of the first boot out of order,
   first timestamp 0), ECU 2 interleaved; the stream is clean and yields 3 lifecycles *)
Definition c08_example : list msg := mk_msgs 0
  [(1, 1000000500000, 500000, true, false); (2, 1000000100000, 0, true, false); (1, 1000000000000, 0, true, false);
   (1, 1000000501000, 0, true, false); (2, 1000000300000, 200000, true, false); (1, 1000012501000, 12000000, true, false)].

Example C08_nonvacuous :
  CleanStream c08_example /\ length (snd (detect 1 [] c08_example)) = 3%nat.
Proof.
  split; [|vm_compute; reflexivity].
  unfold CleanStream, c08_example. cbn [mk_msgs CleanFrom app].
  repeat split; cbn; try discriminate;
    try (intros y Hy; repeat (destruct Hy as [<-|Hy]; [cbn; intros; first [left; reflexivity | right; vm_compute; discriminate | discriminate]|]); contradiction).
Qed.

(* ---- the boundary of the time domain: boot time plus transport delay = 0 (reception time = timestamp) ----
   [CleanStream] admits timestamp = reception time ([m_ts x <= m_rt x]) and any order inside a boot, so the theorem above
   already speaks about these traces; the statements below pin that boundary explicitly. *)

(* Lifecycle::new keeps the first message's timestamp exactly when it does not exceed the reception time
   (the code's test is the strict `tmsp > reception_time_us`; equality is a valid timestamp) ... *)
Theorem C08_first_timestamp_kept_iff : forall id m, m_creq m = false ->
  (l_max_ts (new_lc id m) = m_ts m <-> m_ts m <= m_rt m).
Proof. exact new_lc_keeps_ts_iff. Qed.

(* ... and then the lifecycle created from that single message starts at reception time minus timestamp (0 when they are
   equal) and ends at the reception time = start + timestamp *)
Theorem C08_first_message_exact : forall id m, m_creq m = false -> m_ts m <= m_rt m ->
  l_start (new_lc id m) = m_rt m - m_ts m /\ l_min_ts (new_lc id m) = m_ts m /\ l_max_ts (new_lc id m) = m_ts m /\
  end_time (new_lc id m) = m_rt m.
Proof. exact new_lc_boundary. Qed.

(* every clean trace, the boots with boot time plus delay = 0: whatever message of such a boot comes first (the one with
   the largest timestamp, the only one, ...), the lifecycle is reported with start 0 and end = the largest timestamp *)
Theorem C08_zero_boot_exact : forall first_id ms,
  0 < first_id -> CleanStream ms ->
  forall x, In x (map fst (fst (detect first_id [] ms))) -> m_rt x = m_ts x ->
  exists L, tbl_get (m_lc x) (snd (detect first_id [] ms)) = Some L /\ l_ecu L = m_ecu x /\ l_start L = 0 /\
            end_time L = l_max_ts L /\
            (forall y, In y ms -> m_ecu y = m_ecu x -> m_rt y = m_ts y -> m_ts y <= l_max_ts L) /\
            (exists y, In y ms /\ m_ecu y = m_ecu x /\ m_rt y = m_ts y /\ m_ts y = l_max_ts L).
Proof. exact clean_zero_boot_exact. Qed.

(* non-vacuity at the boundary: ECU 1 boots at absolute time 0 and its first message carries the largest timestamp of
   the boot (5 s before 3 s), ECU 2 boots at 0 with a single message (timestamp 2 s), ECU 1 reboots after an off-time of
   exactly 1 ms (messages out of order).  The stream is clean and the model reports (id, ecu, start, end, messages): *)
Definition c08_example_zero : list msg := mk_msgs 0
  [(1, 5000000, 5000000, true, false); (2, 2000000, 2000000, true, false); (1, 3000000, 3000000, true, false);
   (1, 5001700, 700, true, false); (1, 5001000, 0, true, false)].

Example C08_nonvacuous_zero_boot :
  CleanStream c08_example_zero /\
  (exists x, In x c08_example_zero /\ 0 < m_ts x /\ m_rt x = m_ts x) /\
  map (fun kv => (fst kv, l_ecu (snd kv), l_start (snd kv), end_time (snd kv), l_nr (snd kv)))
      (sort_by_id (snd (detect 1 [] c08_example_zero)))
  = [(1, 1, 0, 5000000, 2); (2, 2, 0, 2000000, 1); (3, 1, 5001000, 5001700, 2)] /\
  map (fun x => (m_index (fst x), m_lc (fst x))) (fst (detect 1 [] c08_example_zero))
  = [(0, 1); (1, 2); (2, 1); (3, 3); (4, 3)].
Proof.
  split; [|split; [|split; vm_compute; reflexivity]].
  - unfold CleanStream, c08_example_zero. cbn [mk_msgs CleanFrom app].
    repeat split; cbn; try discriminate;
      try (intros y Hy; repeat (destruct Hy as [<-|Hy]; [cbn; intros; first [left; reflexivity | right; vm_compute; discriminate | discriminate]|]); contradiction).
  - eexists. split; [left; reflexivity|]. cbn. split; reflexivity.
Qed.

Print Assumptions C08_clean_boots_exact.
Print Assumptions C08_nonvacuous.
Print Assumptions C08_first_timestamp_kept_iff.
Print Assumptions C08_first_message_exact.
Print Assumptions C08_zero_boot_exact.
Print Assumptions C08_nonvacuous_zero_boot.
