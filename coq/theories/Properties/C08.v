(* C08 — Cleanly separated power cycles are detected exactly.
   [boot x] = reception time - timestamp = (boot time + transport delay) the message testifies to.
   [CleanStream ms]: every message has a timestamp (<= its reception time), is no control request, and compared with
   every EARLIER message y of the same ECU either belongs to the same boot (same boot value: same boot time and
   same delay) or to a later boot that starts at least 1 ms after y was generated (boot y + timestamp y + 1000 us).
   Nothing is assumed about the interleaving of ECUs, the order of messages inside a boot, reception gaps or density. *)
From Coq Require Import List NArith Bool Lia.
From AdltV Require Import Lifecycle.Model Lifecycle.CountProofs Lifecycle.TableProofs Lifecycle.CleanProofs Exec.Lifecycle.
Import ListNotations.
Open Scope N_scope.

Theorem C08_clean_boots_exact : forall first_id ms,
  0 < first_id -> CleanStream ms ->
  let dl := map fst (fst (detect first_id [] ms)) in
  let t := snd (detect first_id [] ms) in
  (* every message is assigned to the listed lifecycle of its own boot: same ECU, start = boot time plus delay,
     end = start + the largest timestamp of that boot *)
  (forall x, In x dl ->
     exists L, tbl_get (m_lc x) t = Some L /\ l_ecu L = m_ecu x /\ l_start L = boot x /\
               end_time L = l_start L + l_max_ts L /\
               (forall y, In y ms -> m_ecu y = m_ecu x -> boot y = boot x -> m_ts y <= l_max_ts L) /\
               (exists y, In y ms /\ m_ecu y = m_ecu x /\ boot y = boot x /\ m_ts y = l_max_ts L)) /\
  (* every reported lifecycle is the lifecycle of some boot (nothing is split off) *)
  (forall i L, tbl_get i t = Some L -> exists y, In y ms /\ m_ecu y = l_ecu L /\ boot y = l_start L) /\
  (* exactly one lifecycle per boot per ECU (nothing is split) *)
  (forall i1 L1 i2 L2, tbl_get i1 t = Some L1 -> tbl_get i2 t = Some L2 ->
                       l_ecu L1 = l_ecu L2 -> l_start L1 = l_start L2 -> i1 = i2).
Proof. exact clean_boots_exact. Qed.

(* non-vacuity: two ECUs, ECU 1 with two boots (off-time exactly 1 ms, messages of the first boot out of order,
   first timestamp 0), ECU 2 interleaved; the stream is clean and yields 3 lifecycles *)
Definition c08_example : list msg := mk_msgs 0
  [(1, 1000000500000, 500000, true, false); (2, 1000000100000, 0, true, false); (1, 1000000000000, 0, true, false);
   (1, 1000000501000, 0, true, false); (2, 1000000300000, 200000, true, false); (1, 1000012501000, 12000000, true, false)].

Example C08_nonvacuous :
  CleanStream c08_example /\ length (snd (detect 1 [] c08_example)) = 3%nat.
Proof.
  split; [|vm_compute; reflexivity].
  unfold CleanStream, c08_example. cbn [mk_msgs CleanFrom app].
  repeat split; cbn; try discriminate;
    try (intros y Hy; repeat (destruct Hy as [<-|Hy]; [cbn; intros; first [left; reflexivity | right; vm_compute; discriminate | discriminate]|]); contradiction).
Qed.

Print Assumptions C08_clean_boots_exact.
Print Assumptions C08_nonvacuous.
