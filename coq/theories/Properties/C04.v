(* C04 — Parsing depends only on the bytes, not on read chunking or position.
   Statements only; proofs are in Reader/LowMarkProofs.v and Dlt/ChunkProofs.v.

   Reader/LowMark.v models LowMarkBufReader over a scripted source = (bytes, read-size schedule); every
   `Read` implementation that hands out its bytes in order is such a source (a scheduled size is clipped to
   [1, room]; 0 only at the end).  Reader/LowMarkSpec.v judges a run from its events only
   (operation, result, `buffer()` afterwards): [trace_ok data low P B evs].
   Dlt/Chunk.v runs the iterator of Dlt/Iter.v (C01's model) over that reader. *)
From Coq Require Import List NArith ZArith Bool Lia.
From AdltV Require Import Base.Res Base.MachInt Dlt.Frame Dlt.Iter Dlt.IterProofs Reader.LowMark Reader.LowMarkSpec
  Reader.LowMarkProofs Dlt.Chunk Dlt.ChunkProofs Exec.C04.
Import ListNotations.
Open Scope N_scope.

(* ---- the reader alone: every source, schedule, admissible capacity, sequence of fill/consume/read/seek *)

(* new() succeeds, no operation panics, and every event satisfies the client-level specification:
   what is buffered is always the source's content at the logical position; fill_buf shows >= low_mark bytes or
   all that is left; read returns the next bytes; an accepted seek moves the logical position to its target;
   a seek into the buffered window is never refused *)
Theorem C04_reader_refines_stream data sched capacity low ops :
  0 < low -> low + 4096 <= capacity -> capacity <= usizemax -> nlen data <= usizemax ->
  Forall (op_wf capacity) ops ->
  exists r0 evs r', new_reader {| s_rest := data; s_sched := sched |} capacity low = Ok r0 /\
                    run_now r0 ops = Ok (evs, r') /\ map e_op evs = ops /\
                    trace_ok data low 0 0 evs /\ stream_pos r' = final_pos 0 0 evs.
Proof. exact (reader_refines_stream data sched capacity low ops). Qed.

(* without seeks: the bytes handed out (consumed parts of the windows shown + results of read) are exactly the
   first [stream_pos] bytes of the source: each once, in order *)
Theorem C04_delivered_once_in_order data sched capacity low ops :
  0 < low -> low + 4096 <= capacity -> capacity <= usizemax -> nlen data <= usizemax ->
  Forall (op_wf capacity) ops -> (forall o, In o ops -> is_seek o = false) ->
  exists r0 evs r', new_reader {| s_rest := data; s_sched := sched |} capacity low = Ok r0 /\
                    run_now r0 ops = Ok (evs, r') /\
                    delivered [] evs = ntake (stream_pos r') data.
Proof. exact (delivered_once_in_order data sched capacity low ops). Qed.

Section Reachable.
  Variables (data sched : list N) (capacity low : N) (r : reader).
  Hypothesis Hu : capacity <= usizemax.
  Hypothesis Hd : nlen data <= usizemax.
  Hypothesis HR : Reachable data sched capacity low r.

  (* after fill_buf: the slice is the source's content at the position, and it holds >= low_mark bytes unless
     it holds everything that is left *)
  Theorem C04_lookahead :
    exists r', fill_buf_now r = Ok r' /\ Reachable data sched capacity low r' /\
               stream_pos r' = stream_pos r /\ slice_of data (stream_pos r) (window r') /\
               nlen (window r) <= nlen (window r') /\
               (low <= nlen (window r') \/ stream_pos r + nlen (window r') = nlen data).
  Proof. exact (reach_fill data sched capacity low r Hu Hd HR). Qed.

  (* the empty slice / a read of 0 bytes only when every source byte has been passed *)
  Theorem C04_no_early_eof r' :
    fill_buf_now r = Ok r' -> window r' = [] -> stream_pos r = nlen data.
  Proof. exact (reach_no_early_eof data sched capacity low r Hu Hd HR r'). Qed.

  Theorem C04_read_exact k :
    exists bs r', read compact r k = Ok (bs, r') /\ bs = ntake (nlen bs) (ndrop (stream_pos r) data) /\
                  stream_pos r' = stream_pos r + nlen bs /\ nlen bs <= k /\
                  N.min k (N.min low (nlen data - stream_pos r)) <= nlen bs.
  Proof. exact (reach_read data sched capacity low r Hu Hd HR k). Qed.

  (* seek(Start(n)): when accepted, the position is n, what is buffered is data[n..] and every following read
     returns data[n..]; a target inside the buffered window is never refused *)
  Theorem C04_seek_within_buffer n :
    exists x r', seek_start compact r n = Ok (x, r') /\
                 match x with
                 | Some m => m = n /\ stream_pos r' = n /\ slice_of data n (window r') /\
                             (forall k, exists bs r2, read compact r' k = Ok (bs, r2) /\
                                                      bs = ntake (nlen bs) (ndrop n data) /\
                                                      N.min k (N.min low (nlen data - n)) <= nlen bs)
                 | None => ~ (0 < nlen (window r) /\ stream_pos r <= n <= stream_pos r + nlen (window r))
                 end.
  Proof. exact (reach_seek data sched capacity low r Hu Hd HR n). Qed.
End Reachable.

(* ---- the parsers: a result obtained with LOOKAHEAD = 65551 + 4 bytes in view is final *)
Theorem C04_parse_stable idx d e :
  wf_bytes d -> LOOKAHEAD <= blen d ->
  parse_storage idx (d ++ e) = parse_storage idx d /\ parse_serial idx (d ++ e) = parse_serial idx d.
Proof. intros H1 H2. split; [exact (parse_storage_stable idx d e H1 H2)|exact (parse_serial_stable idx d e H1 H2)]. Qed.

(* ---- the iterator over the reader: for every byte stream, schedule, capacity and low mark >= LOOKAHEAD the
   messages and the final counters / latches are those of the iterator over the whole buffer *)
Theorem C04_iter_chunk_independent data sched capacity low start :
  wf_bytes data -> LOOKAHEAD <= low -> low + 4096 <= capacity -> capacity <= usizemax ->
  nlen data <= usizemax ->
  iter_result (run_iter_rd start capacity low data sched) = iter_result (run_iter start data).
Proof. exact (iter_chunk_independent data sched capacity low start). Qed.

(* the same from every reader state (any buffer position / compaction history) and iterator state: only the
   bytes from the logical position on matter *)
Theorem C04_iter_independent_of_reader_state data (Hwf : wf_bytes data) fuel nfuel st r :
  Inv data r -> LOOKAHEAD <= r_low r ->
  iter_result (drain_rd fuel nfuel st r) = iter_result (drain_fuel fuel nfuel st (ndrop (stream_pos r) data)) /\
  (forall ms st' r', drain_rd fuel nfuel st r = Ok (ms, st', r') ->
     exists rest, drain_fuel fuel nfuel st (ndrop (stream_pos r) data) = Ok (ms, st', rest) /\
                  rest = ndrop (stream_pos r') data /\ Inv data r').
Proof. exact (drain_rd_cursor data Hwf fuel nfuel st r). Qed.

Theorem C04_reachable_inv data sched capacity low r :
  capacity <= usizemax -> nlen data <= usizemax ->
  Reachable data sched capacity low r -> Inv data r /\ r_low r = low /\ nlen (r_buf r) = capacity.
Proof. exact (reachable_inv data sched capacity low r). Qed.


(* ---- position: how many whole messages precede a suffix does not matter *)

(* the iterator's counters are only carried along: started with index / bytes_processed / bytes_skipped advanced
   by (di, dp, dk) it yields the same messages with indices advanced by di and ends in the same state advanced
   by (di, dp, dk), leaving the same rest (as long as the u32 index does not overflow) *)
Theorem C04_counters_do_not_matter di dp dk fuel nfuel st d ms st' rest :
  drain_fuel fuel nfuel st d = Ok (ms, st', rest) -> i_index st' + di <= u32max ->
  drain_fuel fuel nfuel (ist_shift di dp dk st) d = Ok (map (msg_shift di) ms, ist_shift di dp dk st', rest).
Proof. exact (drain_shift di dp dk fuel nfuel st d ms st' rest). Qed.

(* [l] whole messages of framing f in front of an arbitrary suffix s (garbage, markers, truncated frames ...),
   each accepted where it stands (prefix_ok: C01's acceptance condition): the stream yields those messages and
   then exactly what the iterator with the framing latched yields on s alone, with index and bytes_processed
   advanced by the prefix; skipped bytes, latches and the unconsumed rest are those of s alone *)
Theorem C04_position_independent f l s st fuel nfuel ms st' rest :
  st_ok f st -> prefix_ok f l s -> (l <> [] \/ own_detected f st = true) ->
  drain_fuel fuel (S nfuel) (latched f st) s = Ok (ms, st', rest) ->
  i_index st + N.of_nat (length l) + i_index st' <= u32max ->
  drain_fuel (length l + fuel) (S nfuel) st (encs f l ++ s) =
  Ok (expect_from f (i_index st) l ++ map (msg_shift (i_index st + N.of_nat (length l))) ms,
      ist_shift (i_index st + N.of_nat (length l)) (i_processed st + blen (encs f l)) (i_skipped st) st',
      rest).
Proof. exact (position_independent f l s st fuel nfuel ms st' rest). Qed.

(* non-vacuity of C04_position_independent: two messages in front of a suffix made of garbage, a message and
   a truncated frame *)
Definition pos_msg (p : bytes) : amsg :=
  {| a_secs := 5; a_micros := 6; a_secu := (69, 67, 85, 49); a_htyp := 32; a_mcnt := 1;
     a_ecu := (0, 0, 0, 0); a_sid := (0, 0, 0, 0); a_ts := 0; a_vmm := 0; a_noar := 0;
     a_apid := (0, 0, 0, 0); a_ctid := (0, 0, 0, 0); a_payload := p |}.
Definition pos_suffix : bytes :=
  enc_storage (pos_msg [7]) ++ [1; 2; 3] ++ enc_storage (pos_msg [8; 9]) ++ [68; 76; 84; 1; 0; 0].
Example C04_position_nonvacuous :
  let l := [pos_msg [1; 2; 3]; pos_msg []] in
  st_ok Storage (ist_new 10) /\ prefix_ok Storage l pos_suffix /\ l <> [] /\
  exists ms st' rest,
    drain_fuel 40 (S 200) (latched Storage (ist_new 10)) pos_suffix = Ok (ms, st', rest) /\
    (length ms = 2)%nat /\ i_skipped st' = 3 /\ rest = [68; 76; 84; 1; 0; 0] /\
    i_index (ist_new 10) + N.of_nat (length l) + i_index st' <= u32max.
Proof.
  cbv zeta. split; [reflexivity|]. split.
  - cbn [prefix_ok]. split; [vm_compute; intuition discriminate|]. split; [right; left; vm_compute; reflexivity|].
    split; [vm_compute; intuition discriminate|]. split; [right; left; vm_compute; reflexivity|exact I].
  - split; [discriminate|].
    destruct (drain_fuel 40 (S 200) (latched Storage (ist_new 10)) pos_suffix) as [[[ms st'] rest]| |] eqn:E;
      vm_compute in E; try discriminate.
    exists ms, st', rest. inversion E; subst. split; [reflexivity|]. vm_compute. intuition discriminate.
Qed.

(* a FRESH iterator (nothing latched) on a byte string of one framing f that does not contain the other framing's
   marker yields exactly the messages an iterator with f already latched yields; as soon as one message was
   yielded the two runs coincide completely.  (With the marker of the other framing in s a fresh iterator may
   legitimately latch that framing instead: detection is by first success.) *)
Theorem C04_fresh_like_latched f fuel nfuel st s ms st' rest :
  i_det_storage st = false -> i_det_serial st = false -> no_other_marker f s ->
  drain_fuel fuel nfuel st s = Ok (ms, st', rest) ->
  exists st'' rest'', drain_fuel fuel nfuel (latch f st) s = Ok (ms, st'', rest'') /\
                      i_index st'' = i_index st' /\
                      (ms <> [] -> st'' = st' /\ rest'' = rest).
Proof. exact (fresh_like_latched f fuel nfuel st s ms st' rest). Qed.

(* the position clause without the latch in the statement: what a fresh iterator (start index 0) recognises in a
   suffix s is what the iterator recognises there when it arrives behind k >= 1 whole messages of the same framing,
   indices advanced by the prefix; if s yields a message at all, also state and unconsumed rest agree (shifted) *)
Theorem C04_position_independent_fresh f l s st fuel nfuel ms st' rest :
  st_ok f st -> prefix_ok f l s -> l <> [] -> no_other_marker f s ->
  drain_fuel fuel (S nfuel) (ist_new 0) s = Ok (ms, st', rest) ->
  i_index st + N.of_nat (length l) + i_index st' <= u32max ->
  exists st'' rest'',
    drain_fuel (length l + fuel) (S nfuel) st (encs f l ++ s) =
    Ok (expect_from f (i_index st) l ++ map (msg_shift (i_index st + N.of_nat (length l))) ms, st'', rest'') /\
    (ms <> [] ->
     st'' = ist_shift (i_index st + N.of_nat (length l)) (i_processed st + blen (encs f l)) (i_skipped st) st' /\
     rest'' = rest).
Proof. exact (position_independent_fresh f l s st fuel nfuel ms st' rest). Qed.

(* ---- witnesses of the defects repaired in /repo *)

(* (a) before commit bfc66da: `copy_within(pos..cap, offset)` left buf[0..offset] stale although abs_pos claimed
   it.  Capacity 3*4096, low mark 4096, source byte i = i mod 251: consume 12188, refill, seek(Start(12187)) is
   accepted and the next byte read is source[3995] = 230 instead of source[12187] = 139. *)
Definition stale_witness (compact_fn : reader -> res reader) : list out :=
  match new_reader {| s_rest := expand [SRamp 0 1 20000]; s_sched := [] |} 12288 4096 with
  | Ok r => match run compact_fn r [OFill; OConsume 12188; OFill; OSeekStart 12187; ORead 1] with
            | Ok (evs, _) => map e_out (skipn 3 evs)
            | _ => []
            end
  | _ => []
  end.
Theorem C04_seek_stale_before_fix :
  stale_witness compact_unfixed = [RSeek (Some 12187); RRead [230]] /\
  stale_witness compact = [RSeek (Some 12187); RRead [139]] /\
  nth 3995 (expand [SRamp 0 1 20000]) 0 = 230 /\ nth 12187 (expand [SRamp 0 1 20000]) 0 = 139.
Proof. vm_compute. auto. Qed.

(* (b) before commit 5647f17 the call sites used low mark = 65551 = one maximum frame < LOOKAHEAD.  A maximum
   frame with an embedded frame (ending where the outer one ends), 8 garbage bytes and a small frame: under the
   schedule [65551, rest] the outer frame is accepted (payload 65531); with everything in view the parser
   resynchronises on the embedded one (payload 65411).  With low mark = LOOKAHEAD both agree. *)
Definition max_frame_witness : list N :=
  expand [SLit [68; 76; 84; 1; 0; 0; 0; 0; 0; 0; 0; 0; 69; 67; 85; 49; 32; 0; 255; 255];
          SRep 65 100;
          SLit [68; 76; 84; 1; 1; 0; 0; 0; 2; 0; 0; 0; 69; 67; 85; 57; 32; 7; 255; 135];
          SRep 66 65411;
          SLit [1; 2; 3; 4; 5; 6; 7; 8];
          SLit [68; 76; 84; 1; 0; 0; 0; 0; 0; 0; 0; 0; 69; 67; 85; 50; 32; 1; 0; 9; 9; 9; 9; 9; 9]].
Definition payload_sizes {R} (x : res (list msg * ist * R)) : option (list N) :=
  match x with Ok (ms, _, _) => Some (map (fun m => nlen (m_payload m)) ms) | _ => None end.
Theorem C04_chunk_dependence_below_lookahead :
  wf_bytesb max_frame_witness = true /\
  payload_sizes (run_iter_rd 0 (65551 + 4096) 65551 max_frame_witness [65551]) = Some [65531; 5] /\
  payload_sizes (run_iter 0 max_frame_witness) = Some [65411; 5] /\
  payload_sizes (run_iter_rd 0 (LOOKAHEAD + 4096) LOOKAHEAD max_frame_witness [65551]) = Some [65411; 5].
Proof. vm_compute. auto. Qed.

(* (c) repaired by /repo commit 9045554 (found by the suffix oracle of the harness; introduced by the earlier repair
   47301c0 of the tiny-serial-stream defect): a storage header whose length field claims more bytes than remain
   stopped an iterator with the storage framing latched, while a fresh iterator fell through to the serial attempt,
   skipped on and recognised the frame behind it.  On the witness (20-byte frame ++ header announcing 0x2004 bytes
   ++ 24-byte frame) the fresh iterator on the suffix now stops like the latched one; the general statement is
   C04_fresh_like_latched below. *)
Definition short_frame_witness_suffix : bytes :=
  [68; 76; 84; 1; 0; 0; 0; 0; 0; 0; 0; 0; 69; 67; 85; 49; 32; 0; 32; 4] ++
  [68; 76; 84; 1; 0; 0; 0; 0; 0; 0; 0; 0; 69; 67; 85; 49; 32; 1; 0; 8; 9; 9; 9; 9].
Definition short_frame_witness_prefix : bytes :=
  [68; 76; 84; 1; 0; 0; 0; 0; 0; 0; 0; 0; 69; 67; 85; 49; 32; 0; 0; 4].
Theorem C04_fresh_suffix_stops_like_latched :
  payload_sizes (run_iter 0 (short_frame_witness_prefix ++ short_frame_witness_suffix)) = Some [0] /\
  payload_sizes (run_iter 1 short_frame_witness_suffix) = Some [] /\
  payload_sizes (drain_fuel 50 50 (latched Storage (ist_new 0)) short_frame_witness_suffix) = Some [].
Proof. vm_compute. auto. Qed.


(* ---- non-vacuity: a concrete source with short reads, several compactions, a backward and a forward seek
   satisfies the hypotheses of C04_reader_refines_stream, and the run really compacts (abs_pos > 0) *)
Example C04_nonvacuous :
  let data := expand [SRamp 3 7 30000] in
  let ops := [OFill; OConsume 5000; ORead 300; OFill; OSeekCur (zn 200); ORead 16; OConsume 9000; OFill;
              OSeekStart 14200; ORead 5; OConsume 20000; OFill; ORead 7] in
  0 < 4096 /\ 4096 + 4096 <= 8292 /\ 8292 <= usizemax /\ nlen data <= usizemax /\ Forall (op_wf 8292) ops /\
  match new_reader {| s_rest := data; s_sched := [1; 2; 3; 5000; 1; 100] |} 8292 4096 with
  | Ok r0 => match run_now r0 ops with
             | Ok (evs, r') => 4096 < r_abs r' /\ stream_pos r' = 21697 /\ length evs = 13%nat
             | _ => False
             end
  | _ => False
  end.
Proof.
  cbv zeta. split; [lia|]. split; [lia|]. split; [vm_compute; discriminate|]. split; [vm_compute; discriminate|].
  split; [repeat constructor; vm_compute; discriminate|].
  vm_compute. split; [reflexivity|]. split; reflexivity.
Qed.

Print Assumptions C04_reader_refines_stream.
Print Assumptions C04_delivered_once_in_order.
Print Assumptions C04_lookahead.
Print Assumptions C04_no_early_eof.
Print Assumptions C04_read_exact.
Print Assumptions C04_seek_within_buffer.
Print Assumptions C04_parse_stable.
Print Assumptions C04_iter_chunk_independent.
Print Assumptions C04_iter_independent_of_reader_state.
Print Assumptions C04_reachable_inv.
Print Assumptions C04_counters_do_not_matter.
Print Assumptions C04_position_independent.
Print Assumptions C04_position_nonvacuous.
Print Assumptions C04_seek_stale_before_fix.
Print Assumptions C04_chunk_dependence_below_lookahead.
Print Assumptions C04_fresh_suffix_stops_like_latched.
Print Assumptions C04_fresh_like_latched.
Print Assumptions C04_position_independent_fresh.
Print Assumptions C04_nonvacuous.
