(* C04 — Parsing depends only on the bytes, not on read chunking or position.  Statements only. *)
From Coq Require Import List NArith ZArith Bool.
From AdltV Require Import Base.Res Base.MachInt Reader.LowMark Exec.C04.
Import ListNotations.
Open Scope N_scope.

(* what was wrong before the repair (commit bfc66da in /repo): with `copy_within(pos..cap, offset)` the bytes
   buf[0..offset] keep old content although abs_pos claims them.  Capacity 3*4096, low mark 4096, source
   byte i = i mod 251: consume 12188, refill, seek(Start(12187)) is accepted and the next byte read is
   source[3995] = 230 instead of source[12187] = 139.  With the repaired compaction it is 139. *)
Definition stale_witness (compact_fn : reader -> res reader) : list out :=
  match new_reader {| s_rest := expand [SRamp 0 1 20000]; s_sched := [] |} 12288 4096 with
  | Ok r => match run compact_fn r [OFill; OConsume 12188; OFill; OSeekStart 12187; ORead 1] with
            | Ok (evs, _) => map e_out (skipn 3 evs)
            | _ => []
            end
  | _ => []
  end.
Theorem C04_seek_stale_before_fix :
  stale_witness compact_unfixed = [RSeek (Some 12187); RRead [230]] /\
  stale_witness compact = [RSeek (Some 12187); RRead [139]] /\
  nth 3995 (expand [SRamp 0 1 20000]) 0 = 230 /\ nth 12187 (expand [SRamp 0 1 20000]) 0 = 139.
Proof. vm_compute. auto. Qed.

Print Assumptions C04_seek_stale_before_fix.
