(* C04 — Parsing depends only on the bytes, not on read chunking or position.  Statements only. *)
From Coq Require Import List NArith ZArith Bool.
From AdltV Require Import Base.Res Base.MachInt Reader.LowMark Exec.C04.
Import ListNotations.
Open Scope N_scope.

(* what was wrong before the repair (commit bfc66da in /repo): with `copy_within(pos..cap, offset)` the bytes
   buf[0..offset] keep old content although abs_pos claims them; capacity 3*4096, low mark 4096,
   consume 12188, refill, seek(Start(12187)) is accepted and the next byte read is source[3995] *)
Theorem C04_seek_stale_before_fix :
  exists data r evs r',
    new_reader {| s_rest := data; s_sched := [] |} 12288 4096 = Ok r /\
    run compact_unfixed r [OFill; OConsume 12188; OFill; OSeekStart 12187; ORead 1] = Ok (evs, r') /\
    map e_out (skipn 3 evs) = [RSeek (Some 12187); RRead [nth 3995 data 0]] /\
    nth 3995 data 0 <> nth 12187 data 0.
Proof.
  exists (expand [SRamp 0 1 20000]).
  destruct (new_reader {| s_rest := expand [SRamp 0 1 20000]; s_sched := [] |} 12288 4096) as [r| |] eqn:E;
    [|vm_compute in E; discriminate|vm_compute in E; discriminate].
  exists r.
  destruct (run compact_unfixed r [OFill; OConsume 12188; OFill; OSeekStart 12187; ORead 1]) as [[evs r']| |] eqn:E2.
  - exists evs, r'. split; [reflexivity|]. split; [reflexivity|].
    revert E2. inversion E; subst r. clear E. intros E2.
    vm_compute in E2. inversion E2; subst. vm_compute. split; [reflexivity|discriminate].
  - exfalso. inversion E; subst r. vm_compute in E2. discriminate.
  - exfalso. inversion E; subst r. vm_compute in E2. discriminate.
Qed.

Print Assumptions C04_seek_stale_before_fix.
