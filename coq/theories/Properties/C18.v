(* C18 — Verbose payloads: encode/decode agreement and canonical text.
   Statements only; proofs are in Dlt/ArgsProofs.v and Dlt/TextProofs.v.

   Model (Dlt/Args.v, Dlt/Text.v):
     [msg_args verbose be payload]      the items of `for arg in &msg` (DltMessageArgIterator up to the first None)
     [arg_next payload it]              one call of Iterator::next with the iterator state afterwards
     [payload_from_args args]           utils::payload_from_args
     [dlt_args vals]                    dlt_args! / serde_verb_payload::Serializer
     [payload_text .. be payload]       DltMessage::payload_as_text of a verbose message
   [res] = Ok | Panic | OutOfFuel: every slice, index and usize addition of the Rust code is checked in the
   model, so "= Ok .." includes "does not panic / never reads outside the payload".
   [fits p]: the payload is at most isize::MAX bytes (guaranteed for every Vec<u8>).
   [value]: the typed values of the statement; [wf_value] their ranges.  Float Display, UTF-8-lossy and
   Windows-1252 decoding are the Section variables of Dlt/Text.v (external code, not modelled): the
   theorems hold for every such function.
   Producers inside the crate (Dlt/Producers.v): [bmsg] = the flags, noar and payload of a message the crate
   built around a payload it encoded itself (export plugin info messages, blf AppText, anonymize plugin, text
   converters); [bmsg_args m] decodes it with the flags the message carries. *)
From Coq Require Import List NArith ZArith Bool Lia.
From AdltV Require Import Base.Res Base.MachInt Dlt.Args Dlt.ArgsProofs Dlt.Text Dlt.TextProofs Dlt.Producers Dlt.ProducersProofs.
Import ListNotations.
Open Scope N_scope.

(* decode (encode args) = args: same number of arguments, same type words, same raw bytes, both byte orders *)
Theorem C18_decode_encode (be : bool) (vals : list value) :
  Forall wf_value vals -> fits (payload_from_args (map (value_arg be) vals)) ->
  msg_args true be (payload_from_args (map (value_arg be) vals)) = Ok (map (value_arg be) vals).
Proof. intros H F. rewrite payload_from_values in *. apply decode_encode; [apply wf_values_args, H|exact F]. Qed.

(* the same for every DltArg the iterator accepts (any type word: TYLE 128 bit, bool with TYLE 0, extra
   ARAY/TRAI/STRU/SCOD bits ...), [wf_arg] being the decidable description of "accepted" *)
Theorem C18_decode_encode_any_type_word (be : bool) (args : list arg) :
  Forall (fun a => wf_arg be a = true) args -> fits (payload_from_args args) ->
  msg_args true be (payload_from_args args) = Ok args.
Proof.
  intros H F. rewrite (payload_from_args_uniform be) in *.
  - apply decode_encode; assumption.
  - eapply Forall_impl; [|exact H]. intros a Ha. apply (wf_arg_inv _ _ Ha).
  - eapply Forall_impl; [|exact H]. intros a Ha. apply (wf_arg_inv _ _ Ha).
Qed.

(* the serde serializer (dlt_args!) accepts every supported value, counts the arguments and writes exactly the
   layout of payload_from_args in host (little-endian) order; decoding gives the values back *)
Theorem C18_serde_decode_encode (vals : list sval) :
  Forall wf_sval vals -> fits (payload_from_args (map sval_arg_d vals)) ->
  dlt_args vals = SOk (N.of_nat (length vals), payload_from_args (map sval_arg_d vals)) /\
  msg_args true false (payload_from_args (map sval_arg_d vals)) = Ok (map sval_arg_d vals).
Proof.
  intros H F. destruct (dlt_args_layout vals H) as [E W].
  assert (U : payload_from_args (map sval_arg_d vals) = enc_args false (map sval_arg_d vals)).
  { apply payload_from_args_uniform. eapply Forall_impl; [|exact W]. intros a Ha. apply (wf_arg_inv _ _ Ha). }
  rewrite U in *. split; [exact E|]. apply decode_encode; assumption.
Qed.

(* truncation: for every cut k the decoded list is exactly the arguments whose encoding is complete,
   hence a prefix of the original arguments *)
Theorem C18_truncation_prefix (be : bool) (vals : list value) (k : nat) :
  Forall wf_value vals -> fits (payload_from_args (map (value_arg be) vals)) ->
  msg_args true be (firstn k (payload_from_args (map (value_arg be) vals)))
  = Ok (firstn (n_complete be k (map (value_arg be) vals)) (map (value_arg be) vals)).
Proof. intros H F. rewrite payload_from_values in *. apply truncation_prefix; [apply wf_values_args, H|exact F]. Qed.

Theorem C18_truncation_is_prefix (be : bool) (vals : list value) (k : nat) :
  Forall wf_value vals -> fits (payload_from_args (map (value_arg be) vals)) ->
  exists decoded rest, msg_args true be (firstn k (payload_from_args (map (value_arg be) vals))) = Ok decoded /\
                       map (value_arg be) vals = decoded ++ rest.
Proof.
  intros H F. eexists _, _. split; [apply C18_truncation_prefix; assumption|].
  symmetry. apply firstn_skipn.
Qed.

(* corruption / malformed tail: whatever bytes follow the intact encodings of the first arguments, those
   arguments are decoded unchanged (and nothing panics) *)
Theorem C18_corruption_keeps_prefix (be : bool) (vals : list value) (tail : bytes) :
  Forall wf_value vals ->
  fits (payload_from_args (map (value_arg be) vals) ++ tail) ->
  wf_bytes (payload_from_args (map (value_arg be) vals) ++ tail) ->
  exists more, msg_args true be (payload_from_args (map (value_arg be) vals) ++ tail) = Ok (map (value_arg be) vals ++ more).
Proof. intros H F W. rewrite payload_from_values in *. apply decode_encode_app; [apply wf_values_args, H|exact F|exact W]. Qed.

(* ARBITRARY payload bytes, either mode and byte order (noar is not an input of the iterator): the loop
   terminates without a panic and every yielded raw slice lies inside the payload *)
Theorem C18_decode_in_bounds (verbose be : bool) (p : bytes) :
  fits p -> wf_bytes p ->
  exists args, msg_args verbose be p = Ok args /\
    Forall (fun a => sub_slice p (a_raw a) /\ a_be a = be) args.
Proof.
  intros F W. destruct (msg_args_st_total verbose be p F W) as [l [it' [E [A [B _]]]]].
  exists l. unfold msg_args. rewrite E. split; [reflexivity|].
  apply Forall_forall. intros a Ha. split.
  - exact (proj1 (Forall_forall _ _) A a Ha).
  - exact (proj1 (Forall_forall _ _) B a Ha).
Qed.

(* every single call of next() — also after a None (the iterator is not fused and "advances in any case") —
   returns without a panic, a yielded slice is inside the payload, and the index stays within 65541 of the end *)
Theorem C18_next_never_panics (p : bytes) (it : iter) :
  fits p -> wf_bytes p -> it_index it <= plen p + slack ->
  exists o it', arg_next p it = Ok (o, it') /\ it_index it' <= plen p + slack /\
    match o with
    | Some a => it_index it < it_index it' <= plen p /\ sub_slice p (a_raw a)
    | None => True
    end.
Proof.
  intros F W HI. destruct (arg_next_step p it F W HI) as [o [it' [E [[_ [_ [S1 S2]]] _]]]].
  exists o, it'. split; [exact E|]. split; [exact S1|].
  destruct o as [a|]; [|exact I]. destruct S2 as [A [B [C _]]]. auto.
Qed.

Section TextStatements.
  (* external code: Display of f32/f64 from the bit pattern, String::from_utf8_lossy, WINDOWS_1252 decoding *)
  Variable fdisp32 fdisp64 : N -> bytes.
  Variable lossy w1252 : bytes -> bytes.

  (* the text of an encoded argument list is the space-separated canonical form: true/false, decimal
     (two's complement for signed), lower-case hex bytes separated by spaces for raw data, strings with one
     trailing NUL removed and CR/LF/TAB replaced by a space, floats by their Display *)
  Theorem C18_text_canonical (be : bool) (vals : list value) :
    Forall wf_value vals -> fits (payload_from_args (map (value_arg be) vals)) ->
    payload_text fdisp32 fdisp64 lossy w1252 be (payload_from_args (map (value_arg be) vals))
    = Ok (canon_text fdisp32 fdisp64 lossy w1252 vals).
  Proof. apply text_canonical. Qed.

  Theorem C18_text_canonical_truncated (be : bool) (vals : list value) (k : nat) :
    Forall wf_value vals -> fits (payload_from_args (map (value_arg be) vals)) ->
    payload_text fdisp32 fdisp64 lossy w1252 be (firstn k (payload_from_args (map (value_arg be) vals)))
    = Ok (canon_text fdisp32 fdisp64 lossy w1252 (firstn (n_complete be k (map (value_arg be) vals)) vals)).
  Proof. apply text_canonical_truncated. Qed.

  (* payload_as_text of a verbose message never panics, whatever the payload *)
  Theorem C18_text_never_panics (be : bool) (p : bytes) :
    fits p -> wf_bytes p -> exists t, payload_text fdisp32 fdisp64 lossy w1252 be p = Ok t.
  Proof. apply payload_text_total. Qed.
End TextStatements.

(* the decimal printer used by the canonical form is the usual one: only digits, the right value, no leading zero *)
Theorem C18_dec_canonical (n : N) :
  Forall is_digit (dec n) /\ dval (dec n) 0 = n /\
  (n = 0 -> dec n = [48]) /\ (0 < n -> exists d r, dec n = d :: r /\ d <> 48).
Proof. exact (dec_canonical n). Qed.

(* signed values are printed from their two's complement encoding *)
Theorem C18_signed_text (k : nat) (z : Z) : (0 < k)%nat ->
  (- 2 ^ (Z.of_nat (8 * k) - 1) <= z < 2 ^ (Z.of_nat (8 * k) - 1))%Z ->
  sdec (8 * N.of_nat k) (twos k z) = zdec z.
Proof. exact (sdec_twos k z). Qed.

(* the width table (TYLE 1..5 = 8..128 bit; anything else has no width) and the wire layout on a literal:
   type word, then for strings/raw a 16-bit length, then the bytes; both byte orders *)
Theorem C18_width_table (t : N) :
  tyle_len 1 = 1 /\ tyle_len 2 = 2 /\ tyle_len 3 = 4 /\ tyle_len 4 = 8 /\ tyle_len 5 = 16 /\
  (t = 0 \/ 5 < t -> tyle_len t = 0).
Proof.
  repeat split; try reflexivity. intros [->|H]; [reflexivity|].
  destruct t as [|q]; [reflexivity|]. destruct q as [[[q|q|]|[q|q|]|]|[[q|q|]|[q|q|]|]|]; try reflexivity; lia.
Qed.

Example C18_wire_layout :
  payload_from_args (map (value_arg false) [VUInt 3 70000; VStr true [104; 105; 0]; VBool true])
    = [67; 0; 0; 0;  112; 17; 1; 0;   0; 130; 0; 0;  3; 0;  104; 105; 0;   17; 0; 0; 0;  1] /\
  payload_from_args (map (value_arg true) [VSInt 2 (-2)%Z; VRaw [9]; VFloat 3 1069547520])
    = [0; 0; 0; 34;  255; 254;   0; 0; 4; 0;  0; 1;  9;   0; 0; 0; 131;  63; 192; 0; 0].
Proof. split; vm_compute; reflexivity. Qed.

(* exactly ONE trailing NUL is dropped, nothing else *)
Theorem C18_strip_one_nul (s : bytes) (x : N) :
  strip_nul (s ++ [0]) = s /\ (x <> 0 -> strip_nul (s ++ [x]) = s ++ [x]) /\ strip_nul [] = [].
Proof. split; [apply strip_nul_spec|split; [apply strip_nul_no_nul|reflexivity]]. Qed.

(* with the executable models of the two charset decoders (Dlt/Text.v, compared with std / encoding_rs by the
   correspondence check) an ASCII string is shown as its own bytes, NUL dropped, CR/LF/TAB as spaces *)
Theorem C18_text_ascii_string (fd32 fd64 : N -> bytes) (utf8 : bool) (s : bytes) :
  ascii s ->
  canon_value fd32 fd64 utf8_lossy_model w1252_model (VStr utf8 s) = map nl2sp (strip_nul s).
Proof. apply canon_ascii_string. Qed.

(* the defect repaired by /repo commit "fix: payload_from_args always writes the length ...": the previous
   encoder omitted the length field of an EMPTY string/raw argument; with it the round trip fails *)
Definition enc_arg_before_fix (be : bool) (a : arg) : bytes :=
  word_bytes be 4 (a_ti a)
  ++ (if is_lenpref (a_ti a) && (0 <? trunc 16 (plen (a_raw a))) then word_bytes be 2 (trunc 16 (plen (a_raw a))) else [])
  ++ a_raw a.
Example C18_encoder_before_fix_refuted :
  exists vals, Forall wf_value vals /\
    msg_args true false (flat_map (enc_arg_before_fix false) (map (value_arg false) vals)) <> Ok (map (value_arg false) vals).
Proof.
  exists [VRaw []; VUInt 1 7]. split.
  - apply Forall_cons; [vm_compute; discriminate|]. apply Forall_cons; [split; reflexivity|]. apply Forall_nil.
  - vm_compute. discriminate.
Qed.

(* ---- the byte-order flag is part of the encoding.  Typed values written in one order and decoded in the other:
   NOTHING comes back (every type word of a typed value is below 2^16, so read in the other order its low half is
   zero: no type bit, the iterator stops) — in particular not the arguments *)
Theorem C18_decode_other_order_yields_nothing (be : bool) (v : value) (vals : list value) :
  wf_value v -> fits (payload_from_args (map (value_arg be) (v :: vals))) ->
  msg_args true (negb be) (payload_from_args (map (value_arg be) (v :: vals))) = Ok [] /\
  msg_args true (negb be) (payload_from_args (map (value_arg be) (v :: vals))) <> Ok (map (value_arg (negb be)) (v :: vals)).
Proof. apply values_other_order. Qed.

(* the witness on a one-string payload: "Filters used: none" as the serializer writes it (host order), read as
   big endian: zero arguments, empty text *)
Example C18_decode_other_order_refuted :
  let text := [70; 105; 108; 116; 101; 114; 115; 32; 117; 115; 101; 100; 58; 32; 110; 111; 110; 101] in
  exists n p, dlt_args [SStr text] = SOk (n, p) /\ n = 1 /\
    msg_args true false p = Ok [sval_arg_d (SStr text)] /\
    msg_args true true p = Ok [] /\
    payload_text (fun _ => []) (fun _ => []) (fun s => s) (fun s => s) true p = Ok [].
Proof. cbv zeta. eexists _, _. split; [vm_compute; reflexivity|]. repeat split; vm_compute; reflexivity. Qed.

(* decode (flag f) (encode f args) = args instantiated for the encoder that has no choice: dlt_args! writes host
   order, so whoever builds a message around its output must announce host order — with it the values come back,
   with the other flag nothing does *)
Theorem C18_serde_flag_must_be_host_order (v : sval) (vals : list sval) :
  Forall wf_sval (v :: vals) -> fits (payload_from_args (map sval_arg_d (v :: vals))) ->
  exists n p, dlt_args (v :: vals) = SOk (n, p) /\
    msg_args true host_be p = Ok (map sval_arg_d (v :: vals)) /\
    msg_args true (negb host_be) p = Ok [].
Proof.
  intros H F. destruct (serde_other_order v vals H F) as [n [p [E [A B]]]]. exists n, p. auto.
Qed.

(* ---- the producers inside the crate build messages that decode (with the flags THEY carry) to what was encoded *)
(* export plugin: the head of the export file for every list of info texts, whatever the byte order of the message
   that triggered the export; one info text that fits gives exactly one string argument, noar 1, canonical text *)
Theorem C18_export_info_msgs_decode (from_be : bool) (created : bytes) (texts : list bytes) :
  export_info_msgs from_be created texts = export_info_msgs (negb from_be) created texts /\
  Forall (fun m => m_verbose m = true /\ m_be m = host_be /\
                   exists args, bmsg_args m = Ok args /\ m_noar m = N.of_nat (length args) /\
                                Forall (fun a => a_be a = m_be m) args)
         (export_info_msgs from_be created texts).
Proof. split; [destruct from_be; reflexivity|apply export_info_msgs_decode]. Qed.

Theorem C18_export_info_text_decodes (from_be : bool) (text : bytes)
        (fdisp32 fdisp64 : N -> bytes) (lossy w1252 : bytes -> bytes) :
  (0 < plen text <= 65510 ->
     exists m, export_info_text_msg from_be text = Some m /\ m_verbose m = true /\ m_noar m = 1 /\
       bmsg_args m = Ok [value_arg (m_be m) (VStr true (text ++ [0]))] /\
       payload_text fdisp32 fdisp64 lossy w1252 (m_be m) (m_payload m)
         = Ok (canon_text fdisp32 fdisp64 lossy w1252 [VStr true (text ++ [0])])) /\
  (plen text = 0 \/ 65510 < plen text -> export_info_text_msg from_be text = None).
Proof.
  split; [|apply export_info_text_skipped].
  intros H. destruct (export_info_text_decodes from_be text H) as [m [E [V [D [Nn _]]]]].
  exists m. split; [exact E|]. split; [exact V|]. split; [exact Nn|]. split; [exact D|].
  unfold export_info_text_msg in E. destruct (plen text =? 0); [discriminate|].
  destruct (_ && _); [|discriminate]. inversion E as [Em]. cbn [m_be m_payload export_get_info_msg].
  destruct (dlt_args_str text) as [E2 _]; [lia|].
  unfold dlt_args_or_default. rewrite E2. cbn [snd].
  change (enc_args false [str_arg false text]) with (enc_args host_be (map (value_arg host_be) [VStr true (text ++ [0])])).
  rewrite <- payload_from_values. apply text_canonical.
  - constructor; [|constructor]. cbn [wf_value]. rewrite ArgsProofs.plen_app. change (plen [0]) with 1. lia.
  - rewrite payload_from_values. unfold fits, isizemax.
    change (enc_args host_be (map (value_arg host_be) [VStr true (text ++ [0])])) with (enc_args false [str_arg false text]).
    rewrite plen_enc_str. lia.
Qed.

(* blf AppText (every text: no panic; a text too long for one message is carried as far as it fits), the anonymize
   plugin's sample string (written in the order of the message it replaces, for both orders), the text
   converters' log message (no argument, noar 0) *)
Theorem C18_producers_decode :
  (forall text, exists m rest, blf_apptext_msg text = Ok m /\ m_verbose m = true /\ m_noar m = 1 /\
       bmsg_args m = Ok [value_arg (m_be m) (VStr true (blf_cut text ++ [0]))] /\
       text = blf_cut text ++ rest /\ (plen text <= 65506 -> rest = [])) /\
  (forall m rt, m_verbose m = true -> rt < 2 ^ 64 ->
       bmsg_args (anon_msg m rt) = Ok [value_arg (m_be m) (VStr true (anon_text rt ++ [0]))] /\
       m_be (anon_msg m rt) = m_be m /\ m_verbose (anon_msg m rt) = true) /\
  (bmsg_args textline_log_msg = Ok [] /\ m_noar textline_log_msg = 0).
Proof.
  split; [|split].
  - intros text. destruct (blf_apptext_decodes text) as [m [E [V [D [Nn _]]]]].
    destruct (blf_cut_prefix text) as [rest [P Q]]. exists m, rest. repeat split; assumption.
  - apply anon_verbose_decodes.
  - split; reflexivity.
Qed.

(* non-vacuity of the producer statements: the demonstration's info text behind a big-endian first message *)
Example C18_producers_nonvacuous :
  let text := [70; 105; 108; 116; 101; 114; 115; 32; 117; 115; 101; 100; 58; 32; 110; 111; 110; 101] in
  export_info_text_msg true text
    = Some {| m_be := false; m_verbose := true; m_noar := 1;
              m_payload := [0; 130; 0; 0; 19; 0] ++ text ++ [0] |} /\
  bmsg_args (anon_msg {| m_be := true; m_verbose := true; m_noar := 2; m_payload := [] |} 1234567)
    = Ok [value_arg true (VStr true ([45; 45; 97; 110; 111; 110; 44; 114; 101; 99; 101; 112; 116; 105; 111; 110; 95; 116; 105; 109; 101; 58;
                                      49; 50; 51; 52; 109; 115; 0]))].
Proof. cbv zeta. split; vm_compute; reflexivity. Qed.

(* non-vacuity: a mixed list in both byte orders satisfies the hypotheses; its decoding and text *)
Example C18_nonvacuous :
  let vals := [VBool true; VSInt 2 (-2)%Z; VUInt 3 70000; VStr true [104; 105; 10; 0]; VRaw [0; 255]; VSInt 5 (- 2 ^ 127)%Z] in
  Forall wf_value vals /\
  fits (payload_from_args (map (value_arg true) vals)) /\
  msg_args true true (payload_from_args (map (value_arg true) vals)) = Ok (map (value_arg true) vals) /\
  payload_text (fun _ => []) (fun _ => []) (fun s => s) (fun s => s) true (payload_from_args (map (value_arg true) vals))
    = Ok ([116; 114; 117; 101; 32; 45; 50; 32; 55; 48; 48; 48; 48; 32; 104; 105; 32; 32; 48; 48; 32; 102; 102; 32; 45]
          ++ dec (2 ^ 127)) /\
  msg_args true false (firstn 12 (payload_from_args (map (value_arg false) vals))) = Ok (map (value_arg false) (firstn 2 vals)).
Proof.
  cbv zeta. split; [|split; [|split; [|split]]].
  - repeat (apply Forall_cons || apply Forall_nil); cbn [wf_value].
    + exact I.
    + split; [reflexivity|]. vm_compute. split; [discriminate|reflexivity].
    + split; reflexivity.
    + vm_compute. discriminate.
    + vm_compute. discriminate.
    + split; [reflexivity|]. vm_compute. split; [discriminate|reflexivity].
  - vm_compute. discriminate.
  - vm_compute. reflexivity.
  - vm_compute. reflexivity.
  - vm_compute. reflexivity.
Qed.

Print Assumptions C18_decode_encode.
Print Assumptions C18_decode_encode_any_type_word.
Print Assumptions C18_serde_decode_encode.
Print Assumptions C18_truncation_prefix.
Print Assumptions C18_truncation_is_prefix.
Print Assumptions C18_corruption_keeps_prefix.
Print Assumptions C18_decode_in_bounds.
Print Assumptions C18_next_never_panics.
Print Assumptions C18_text_canonical.
Print Assumptions C18_text_canonical_truncated.
Print Assumptions C18_text_never_panics.
Print Assumptions C18_dec_canonical.
Print Assumptions C18_signed_text.
Print Assumptions C18_width_table.
Print Assumptions C18_wire_layout.
Print Assumptions C18_strip_one_nul.
Print Assumptions C18_text_ascii_string.
Print Assumptions C18_encoder_before_fix_refuted.
Print Assumptions C18_nonvacuous.
Print Assumptions C18_decode_other_order_yields_nothing.
Print Assumptions C18_decode_other_order_refuted.
Print Assumptions C18_serde_flag_must_be_host_order.
Print Assumptions C18_export_info_msgs_decode.
Print Assumptions C18_export_info_text_decodes.
Print Assumptions C18_producers_decode.
Print Assumptions C18_producers_nonvacuous.
