(* C18 — Verbose payloads: encode/decode agreement and canonical text.  Statements only. *)
From Coq Require Import List NArith ZArith Bool.
From AdltV Require Import Base.Res Base.MachInt Dlt.Args Dlt.Text.
Import ListNotations.
Open Scope N_scope.

Example C18_nonvacuous :
  let vals := [VBool true; VSInt 2 (-2)%Z; VUInt 3 70000; VStr true [104; 105; 10; 0]; VRaw [0; 255]] in
  msg_args true true (payload_from_args (map (value_arg true) vals)) = Ok (map (value_arg true) vals) /\
  payload_text (fun _ => []) (fun _ => []) (fun s => s) (fun s => s) true (payload_from_args (map (value_arg true) vals))
    = Ok [116; 114; 117; 101; 32; 45; 50; 32; 55; 48; 48; 48; 48; 32; 104; 105; 32; 32; 48; 48; 32; 102; 102].
Proof. split; vm_compute; reflexivity. Qed.

Print Assumptions C18_nonvacuous.
