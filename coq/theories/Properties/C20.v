(* C20 — Archives: volumes read as one file; extraction is faithful and confined.  (work in progress) *)
From Coq Require Import List NArith ZArith Bool.
From AdltV Require Import Base.Res Base.MachInt Archive.Chain Exec.C20.
Import ListNotations.
Open Scope N_scope.

Example C20_witness_empty_volume_repaired :
  chain_session [[97; 98]; []; [99; 100]] [ReadFull u64max] = Ok [RBytes [97; 98; 99; 100]].
Proof. vm_compute. reflexivity. Qed.
Print Assumptions C20_witness_empty_volume_repaired.
