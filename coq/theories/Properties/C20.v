(* C20 — Archives: volumes read as one file; extraction is faithful and confined.
   Statements only; proofs are in Archive/ChainProofs.v and Archive/PathsProofs.v.

   Part 1 (SeekableChain, model Archive/Chain.v of the code including its three `fix:` commits).
   [chain_session datas ops] opens the volumes [datas] (any number, empty ones anywhere) and runs
   [ops]; [Refines D p ops rs] says that [rs] is an answer of ONE file with contents [D] at position
   [p]: `Seek` answers the file position of the target clamped into [0, len] (the chain never keeps a
   position outside its data; inside [0, len] that is exactly std::io::Cursor, theorem
   C20_reference_is_file_in_range), `ReadFull n` (the caller's fill loop: read_exact, read_to_end,
   io::copy) answers exactly the next n bytes of the file, and one `Read n` call answers a prefix of
   them that is empty only if n = 0 or the position is at the end (the `Read` contract; the chain is
   short at volume boundaries). *)
From Coq Require Import List NArith ZArith Bool Lia.
From AdltV Require Import Base.Res Base.MachInt Archive.Chain Archive.ChainProofs Archive.Paths Archive.PathsProofs Exec.C20.
Import ListNotations.
Open Scope N_scope.

(* every split into volumes (including empty ones), every finite sequence of operations *)
Theorem C20_chain_refines_concat : forall (datas : list (list N)) (ops : list op),
  N.of_nat (length (concat datas)) <= u64max ->
  exists rs, chain_session datas ops = Ok rs /\ Refines (concat datas) 0 ops rs.
Proof. exact chain_refines_concat. Qed.

(* with filling reads only, the answers are a function of the concatenation: those of the reference cursor *)
Theorem C20_chain_equals_reference_on_full_reads : forall datas ops,
  N.of_nat (length (concat datas)) <= u64max -> full_reads_only ops ->
  chain_session datas ops = Ok (ref_run (concat datas) 0 ops).
Proof.
  intros datas ops Hb Hf. destruct (chain_refines_concat datas ops Hb) as (rs & Hr & Href).
  rewrite Hr. f_equal. apply refines_full_reads; assumption.
Qed.

(* the reference is std::io::Cursor / a regular file as long as the seek targets stay inside [0, len] *)
Theorem C20_reference_is_file_in_range : forall D ops p,
  in_range D p ops -> map Some (ref_run D p ops) = map res_of_file (file_run D p ops).
Proof. exact ref_is_file. Qed.

Theorem C20_chain_is_cursor_in_range : forall datas ops,
  N.of_nat (length (concat datas)) <= u64max -> full_reads_only ops -> in_range (concat datas) 0 ops ->
  exists rs, chain_session datas ops = Ok rs /\ map Some rs = map res_of_file (file_run (concat datas) 0 ops).
Proof.
  intros datas ops Hb Hf Hr. exists (ref_run (concat datas) 0 ops). split.
  - apply C20_chain_equals_reference_on_full_reads; assumption.
  - apply ref_is_file. exact Hr.
Qed.

(* the position reported by a seek is the position the next read delivers from *)
Theorem C20_seek_reports_next_read_position : forall datas ops s n rs,
  chain_session datas (ops ++ [Seek s; ReadFull n]) = Ok rs ->
  exists pre q, rs = pre ++ [RPos q; RBytes (slice (concat datas) q n)] /\ length pre = length ops.
Proof.
  intros datas ops s n rs H.
  destruct (N.le_gt_cases (N.of_nat (length (concat datas))) u64max) as [Hb|Hb].
  - destruct (chain_refines_concat datas (ops ++ [Seek s; ReadFull n]) Hb) as (rs' & Hr & Href).
    rewrite H in Hr. inversion Hr; subst rs'. eapply refines_seek_then_read_full. exact Href.
  - destruct (chain_new_overflow datas Hb) as [st Hp]. unfold chain_session in H. rewrite Hp in H. discriminate.
Qed.

Theorem C20_seek_reports_next_single_read_position : forall datas ops s n rs,
  chain_session datas (ops ++ [Seek s; Read n]) = Ok rs ->
  exists pre q out, rs = pre ++ [RPos q; RBytes out] /\ length pre = length ops /\
     out = slice (concat datas) q (N.of_nat (length out)) /\ N.of_nat (length out) <= n /\
     (out = [] -> n = 0 \/ N.of_nat (length (concat datas)) <= q).
Proof.
  intros datas ops s n rs H.
  destruct (N.le_gt_cases (N.of_nat (length (concat datas))) u64max) as [Hb|Hb].
  - destruct (chain_refines_concat datas (ops ++ [Seek s; Read n]) Hb) as (rs' & Hr & Href).
    rewrite H in Hr. inversion Hr; subst rs'. eapply refines_seek_then_read. exact Href.
  - destruct (chain_new_overflow datas Hb) as [st Hp]. unfold chain_session in H. rewrite Hp in H. discriminate.
Qed.

(* the specification is not empty: the deterministic reference is one of the allowed answers *)
Theorem C20_reference_is_an_answer : forall D ops p, Refines D p ops (ref_run D p ops).
Proof. exact ref_run_refines. Qed.

(* the only failure of the model is the overflow of the u64 sum of the sizes in `new` *)
Theorem C20_chain_fails_only_on_size_overflow : forall datas,
  u64max < N.of_nat (length (concat datas)) -> exists s, chain_new datas = Panic s.
Proof. exact chain_new_overflow. Qed.

(* non-vacuity + the three repaired witnesses (DESIGN Appendix A, C20-1), evaluated on the model *)
Example C20_chain_nonvacuous :
  chain_session [[104; 105]; []; []; [33]; [1; 2; 3]; []]
                [Read 5; Seek (Current 0%Z); ReadFull 3; Seek (End (-2)%Z); Read 9; Seek (Start 1); ReadFull u64max]
  = Ok [RBytes [104; 105]; RPos 2; RBytes [33; 1; 2]; RPos 4; RBytes [2; 3]; RPos 1; RBytes [105; 33; 1; 2; 3]].
Proof. vm_compute. reflexivity. Qed.
Example C20_witness_empty_volume_repaired :
  chain_session [[97; 98]; []; [99; 100]] [ReadFull u64max] = Ok [RBytes [97; 98; 99; 100]].
Proof. vm_compute. reflexivity. Qed.
Example C20_witness_seek_end_positive_repaired :
  chain_session [[97; 98]; [99; 100]] [Seek (Start 1); Seek (End 3%Z); Read 1] = Ok [RPos 1; RPos 4; RBytes []].
Proof. vm_compute. reflexivity. Qed.
Example C20_witness_seek_min_offset_repaired :
  chain_session [[97; 98]; [99; 100]] [Seek (Start 1); Seek (Current (-9223372036854775808)%Z); Read 1]
  = Ok [RPos 1; RPos 0; RBytes [97]].
Proof. vm_compute. reflexivity. Qed.

(* ------------------------------------------------------------------------------------------------
   Part 2 (extraction path logic, model Archive/Paths.v; zip decoding, glob matching and the file
   system are trusted inputs/assumptions of the model — this half is "partial").
   [fs] is any file-system state in which the target directory [T] exists ([target_ok]); member names,
   filter names and the archive are arbitrary; the values of a rename map must be enclosed names
   (extract_archives only ever uses the archive's file stem). *)

(* whatever the member names, and whether the run ends with Ok or Err: no location outside the target
   directory (nor the directory entry itself) is created or changed *)
Theorem C20_extract_confined : forall fs T flt rn ms,
  target_ok fs T -> rn_ok rn ->
  forall l, strictly_inside T l = false -> lookup (out_fs (extract_to_dir fs T flt rn ms)) l = lookup fs l.
Proof. intros fs T flt rn ms HT Hrn. exact (extract_to_dir_confined fs T flt rn ms HT Hrn). Qed.

Theorem C20_extract_archives_confined : forall fs T pattern entries stem sm ms o,
  target_ok fs T -> enclosed stem = true ->
  extract_archives fs T pattern entries stem sm ms = Some o ->
  forall l, strictly_inside T l = false -> lookup (out_fs o) l = lookup fs l.
Proof. intros fs T pattern entries stem sm ms o HT Hs H. exact (extract_archives_confined fs T pattern entries stem sm ms o HT Hs H). Qed.

(* the reported list is exactly: the filter names that already are files inside T, then, in archive order,
   the (renamed) names of the members that are enclosed, requested, regular files *)
Theorem C20_extract_exact_set : forall fs T flt rn ms fs' out,
  extract_to_dir fs T flt rn ms = Done fs' out ->
  out = found_before fs T rn flt ++
        map (fun m => renamed rn (m_name m)) (filter (selected (remaining fs T rn flt)) ms).
Proof. exact extract_to_dir_exact_set. Qed.

(* no reported name leads outside the target directory *)
Theorem C20_extract_reports_only_enclosed : forall fs T flt rn ms fs' out,
  rn_ok rn -> extract_to_dir fs T flt rn ms = Done fs' out -> Forall (fun n => enclosed n = true) out.
Proof. exact extract_to_dir_reports_enclosed. Qed.

(* extract_archives into a fresh temp dir: exactly the members that match the pattern (or equal its text),
   are no directory entries, and whose names are enclosed *)
Theorem C20_extract_archives_exact_set : forall fs T pattern entries stem sm ms fs' out,
  (forall n, path_is_file fs T n = false) ->
  (forall b, entries <> [(c_data, b)]) ->
  extract_archives fs T pattern entries stem sm ms = Some (Done fs' out) ->
  out = map m_name (filter (selected (Some (matching pattern entries))) ms) /\
  forall n, In n (matching pattern entries) <->
            exists b, In (n, b) entries /\ (n = pattern \/ b = true) /\ ends_with_slash n = false.
Proof.
  intros fs T pattern entries stem sm ms fs' out Hf Hn H. split; [|apply matching_spec].
  rewrite (extract_archives_exact_set fs T pattern entries stem sm ms fs' out _ _ Hf (select_members_plain pattern entries stem sm Hn) H).
  apply map_ext. intros m. reflexivity.
Qed.

(* contents: after a complete run the file of the last selected member holds exactly its bytes *)
Theorem C20_extract_last_member_faithful : forall fs T flt rn ms m fs' out,
  extract_to_dir fs T flt rn (ms ++ [m]) = Done fs' out ->
  selected (remaining fs T rn flt) m = true ->
  read_file fs' T (renamed rn (m_name m)) = Some (m_data m).
Proof. exact extract_to_dir_last_member_faithful. Qed.

(* no invented bytes: whatever the names (aliases of one path included) and however the run ends, every file
   in the final state is a file that was there before or holds exactly the bytes of a selected member *)
Theorem C20_extract_files_are_member_bytes : forall fs T flt rn ms l c,
  lookup (out_fs (extract_to_dir fs T flt rn ms)) l = Some (F c) ->
  lookup fs l = Some (F c) \/ exists m, In m ms /\ selected (remaining fs T rn flt) m = true /\ c = m_data m.
Proof. exact extract_to_dir_files_are_member_bytes. Qed.

(* KNOWN FINDING (class stale_alias_reported_as_already_extracted): into a target dir that already holds
   d/x.dlt (extracted for the member of that name), a request for the member d/./x.dlt — another string,
   the same path — is answered "already extracted" although the file holds the other member's bytes. *)
Definition KnownClass_found_before (fs : fsys) (T : loc) (rn : list (str * str)) (flt : option (list str)) : Prop :=
  found_before fs T rn flt <> [].
Theorem C20_already_extracted_alias_refuted :
  let dx := [100; 47; 120; 46; 100; 108; 116] in            (* d/x.dlt *)
  let ddx := [100; 47; 46; 47; 120; 46; 100; 108; 116] in   (* d/./x.dlt *)
  let fs := init_fs T0 [([[100]], D); ([[100]; [120; 46; 100; 108; 116]], F [1; 1])] in
  exists fs' out,
    extract_to_dir fs T0 (Some [ddx]) [] [mm dx false [1; 1]; mm ddx false [2; 2; 2]] = Done fs' out /\
    In ddx out /\ read_file fs' T0 ddx = Some [1; 1] /\ [1; 1] <> [2; 2; 2].
Proof. cbv zeta. eexists. eexists. split; [vm_compute; reflexivity|]. split; [left; reflexivity|]. split; [vm_compute; reflexivity|discriminate]. Qed.
(* outside that class (no requested name is found as a file in the target dir) every reported name is the
   name of a member selected and written by THIS run, in archive order *)
Theorem C20_extract_reports_written_unless_found_before : forall fs T flt rn ms fs' out,
  ~ KnownClass_found_before fs T rn flt ->
  extract_to_dir fs T flt rn ms = Done fs' out ->
  out = map (fun m => renamed rn (m_name m)) (filter (selected (remaining fs T rn flt)) ms).
Proof.
  intros fs T flt rn ms fs' out Hk H. rewrite (extract_to_dir_exact_set _ _ _ _ _ _ _ H).
  unfold KnownClass_found_before in Hk. destruct (found_before fs T rn flt); [reflexivity|exfalso; apply Hk; discriminate].
Qed.
(* members are selected by their name STRING: of d/x.dlt, d/./x.dlt, d//x.dlt only the requested one is
   extracted and reported, with its own bytes *)
Example C20_alias_names_selected_by_string :
  let dx := [100; 47; 120; 46; 100; 108; 116] in
  exists fs',
    extract_to_dir (init_fs T0 []) T0 (Some [dx]) []
      [mm dx false [1]; mm [100; 47; 46; 47; 120; 46; 100; 108; 116] false [2]; mm [100; 47; 47; 120; 46; 100; 108; 116] false [3]]
    = Done fs' [dx] /\ read_file fs' T0 dx = Some [1].
Proof. cbv zeta. eexists. split; vm_compute; reflexivity. Qed.

(* the start state of the correspondence runs satisfies the hypothesis of the theorems *)
Theorem C20_start_state_ok : forall T inside,
  Forall (fun e => fst e <> []) inside -> target_ok (init_fs T inside) T.
Proof. exact init_fs_target_ok. Qed.

(* non-vacuity: hostile names are rejected, odd ones kept; a run with both *)
Example C20_enclosed_examples :
  enclosed [46; 46; 47; 120] = false (* ../x *) /\ enclosed [47; 120] = false (* /x *) /\
  enclosed [97; 47; 46; 46; 47; 46; 46; 47; 120] = false (* a/../../x *) /\
  enclosed [97; 47; 46; 46; 47; 120] = true (* a/../x *) /\ enclosed [46; 47; 120] = true (* ./x *) /\
  enclosed [46; 46; 92; 120] = true (* ..\x is one ordinary component on Unix *).
Proof. vm_compute. repeat split. Qed.
Example C20_extract_nonvacuous :
  extract_to_dir (init_fs T0 []) T0 None []
    [mm [102] false [1]; mm [46; 46; 47; 101] false [9]; mm [47; 97] false [9];
     mm [103; 47; 46; 46; 47; 104] false [2]; mm [100; 47] false []; mm [108] false [3]]
  = Done [(T0 ++ [[108]], F [3]); (T0 ++ [[100]], D); (T0 ++ [[104]], F [2]); (T0 ++ [[103]], D);
          (T0 ++ [[102]], F [1]); ([], D); ([[116; 109; 112]], D); (T0, D)]
         [[102]; [103; 47; 46; 46; 47; 104]; [108]].
Proof. vm_compute. reflexivity. Qed.

Print Assumptions C20_chain_refines_concat.
Print Assumptions C20_chain_equals_reference_on_full_reads.
Print Assumptions C20_reference_is_file_in_range.
Print Assumptions C20_chain_is_cursor_in_range.
Print Assumptions C20_seek_reports_next_read_position.
Print Assumptions C20_seek_reports_next_single_read_position.
Print Assumptions C20_reference_is_an_answer.
Print Assumptions C20_chain_fails_only_on_size_overflow.
Print Assumptions C20_extract_confined.
Print Assumptions C20_extract_archives_confined.
Print Assumptions C20_extract_exact_set.
Print Assumptions C20_extract_reports_only_enclosed.
Print Assumptions C20_extract_archives_exact_set.
Print Assumptions C20_extract_last_member_faithful.
Print Assumptions C20_start_state_ok.
Print Assumptions C20_extract_files_are_member_bytes.
Print Assumptions C20_already_extracted_alias_refuted.
Print Assumptions C20_extract_reports_written_unless_found_before.
