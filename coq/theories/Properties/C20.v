(* C20 — Archives: volumes read as one file; extraction is faithful and confined.
   Statements only; proofs are in Archive/ChainProofs.v and Archive/PathsProofs.v.

   Part 1 (SeekableChain, model Archive/Chain.v of the code including its three `fix:` commits).
   [chain_session datas ops] opens the volumes [datas] (any number, empty ones anywhere) and runs
   [ops]; [Refines D p ops rs] says that [rs] is an answer of ONE file with contents [D] at position
   [p]: `Seek` answers the file position of the target clamped into [0, len] (the chain never keeps a
   position outside its data; inside [0, len] that is exactly std::io::Cursor, theorem
   C20_reference_is_file_in_range), `ReadFull n` (the caller's fill loop: read_exact, read_to_end,
   io::copy) answers exactly the next n bytes of the file, and one `Read n` call answers a prefix of
   them that is empty only if n = 0 or the position is at the end (the `Read` contract; the chain is
   short at volume boundaries). *)
From Coq Require Import List NArith ZArith Bool Lia.
From AdltV Require Import Base.Res Base.MachInt Archive.Chain Archive.ChainProofs Exec.C20.
Import ListNotations.
Open Scope N_scope.

(* every split into volumes (including empty ones), every finite sequence of operations *)
Theorem C20_chain_refines_concat : forall (datas : list (list N)) (ops : list op),
  N.of_nat (length (concat datas)) <= u64max ->
  exists rs, chain_session datas ops = Ok rs /\ Refines (concat datas) 0 ops rs.
Proof. exact chain_refines_concat. Qed.

(* with filling reads only, the answers are a function of the concatenation: those of the reference cursor *)
Theorem C20_chain_equals_reference_on_full_reads : forall datas ops,
  N.of_nat (length (concat datas)) <= u64max -> full_reads_only ops ->
  chain_session datas ops = Ok (ref_run (concat datas) 0 ops).
Proof.
  intros datas ops Hb Hf. destruct (chain_refines_concat datas ops Hb) as (rs & Hr & Href).
  rewrite Hr. f_equal. apply refines_full_reads; assumption.
Qed.

(* the reference is std::io::Cursor / a regular file as long as the seek targets stay inside [0, len] *)
Theorem C20_reference_is_file_in_range : forall D ops p,
  in_range D p ops -> map Some (ref_run D p ops) = map res_of_file (file_run D p ops).
Proof. exact ref_is_file. Qed.

Theorem C20_chain_is_cursor_in_range : forall datas ops,
  N.of_nat (length (concat datas)) <= u64max -> full_reads_only ops -> in_range (concat datas) 0 ops ->
  exists rs, chain_session datas ops = Ok rs /\ map Some rs = map res_of_file (file_run (concat datas) 0 ops).
Proof.
  intros datas ops Hb Hf Hr. exists (ref_run (concat datas) 0 ops). split.
  - apply C20_chain_equals_reference_on_full_reads; assumption.
  - apply ref_is_file. exact Hr.
Qed.

(* the position reported by a seek is the position the next read delivers from *)
Theorem C20_seek_reports_next_read_position : forall datas ops s n rs,
  chain_session datas (ops ++ [Seek s; ReadFull n]) = Ok rs ->
  exists pre q, rs = pre ++ [RPos q; RBytes (slice (concat datas) q n)] /\ length pre = length ops.
Proof.
  intros datas ops s n rs H.
  destruct (N.le_gt_cases (N.of_nat (length (concat datas))) u64max) as [Hb|Hb].
  - destruct (chain_refines_concat datas (ops ++ [Seek s; ReadFull n]) Hb) as (rs' & Hr & Href).
    rewrite H in Hr. inversion Hr; subst rs'. eapply refines_seek_then_read_full. exact Href.
  - destruct (chain_new_overflow datas Hb) as [st Hp]. unfold chain_session in H. rewrite Hp in H. discriminate.
Qed.

Theorem C20_seek_reports_next_single_read_position : forall datas ops s n rs,
  chain_session datas (ops ++ [Seek s; Read n]) = Ok rs ->
  exists pre q out, rs = pre ++ [RPos q; RBytes out] /\ length pre = length ops /\
     out = slice (concat datas) q (N.of_nat (length out)) /\ N.of_nat (length out) <= n /\
     (out = [] -> n = 0 \/ N.of_nat (length (concat datas)) <= q).
Proof.
  intros datas ops s n rs H.
  destruct (N.le_gt_cases (N.of_nat (length (concat datas))) u64max) as [Hb|Hb].
  - destruct (chain_refines_concat datas (ops ++ [Seek s; Read n]) Hb) as (rs' & Hr & Href).
    rewrite H in Hr. inversion Hr; subst rs'. eapply refines_seek_then_read. exact Href.
  - destruct (chain_new_overflow datas Hb) as [st Hp]. unfold chain_session in H. rewrite Hp in H. discriminate.
Qed.

(* the specification is not empty: the deterministic reference is one of the allowed answers *)
Theorem C20_reference_is_an_answer : forall D ops p, Refines D p ops (ref_run D p ops).
Proof. exact ref_run_refines. Qed.

(* the only failure of the model is the overflow of the u64 sum of the sizes in `new` *)
Theorem C20_chain_fails_only_on_size_overflow : forall datas,
  u64max < N.of_nat (length (concat datas)) -> exists s, chain_new datas = Panic s.
Proof. exact chain_new_overflow. Qed.

(* non-vacuity + the three repaired witnesses (DESIGN Appendix A, C20-1), evaluated on the model *)
Example C20_chain_nonvacuous :
  chain_session [[104; 105]; []; []; [33]; [1; 2; 3]; []]
                [Read 5; Seek (Current 0%Z); ReadFull 3; Seek (End (-2)%Z); Read 9; Seek (Start 1); ReadFull u64max]
  = Ok [RBytes [104; 105]; RPos 2; RBytes [33; 1; 2]; RPos 4; RBytes [2; 3]; RPos 1; RBytes [105; 33; 1; 2; 3]].
Proof. vm_compute. reflexivity. Qed.
Example C20_witness_empty_volume_repaired :
  chain_session [[97; 98]; []; [99; 100]] [ReadFull u64max] = Ok [RBytes [97; 98; 99; 100]].
Proof. vm_compute. reflexivity. Qed.
Example C20_witness_seek_end_positive_repaired :
  chain_session [[97; 98]; [99; 100]] [Seek (Start 1); Seek (End 3%Z); Read 1] = Ok [RPos 1; RPos 4; RBytes []].
Proof. vm_compute. reflexivity. Qed.
Example C20_witness_seek_min_offset_repaired :
  chain_session [[97; 98]; [99; 100]] [Seek (Start 1); Seek (Current (-9223372036854775808)%Z); Read 1]
  = Ok [RPos 1; RPos 0; RBytes [97]].
Proof. vm_compute. reflexivity. Qed.

Print Assumptions C20_chain_refines_concat.
Print Assumptions C20_chain_equals_reference_on_full_reads.
Print Assumptions C20_reference_is_file_in_range.
Print Assumptions C20_chain_is_cursor_in_range.
Print Assumptions C20_seek_reports_next_read_position.
Print Assumptions C20_seek_reports_next_single_read_position.
Print Assumptions C20_reference_is_an_answer.
Print Assumptions C20_chain_fails_only_on_size_overflow.
