(* C06 — A message's lifecycle is published before the message is delivered.
   The evmap is modelled as (vis, pend): `update`/`empty` append to pend, `refresh` applies pend to vis;
   readers see vis.  Every delivery is recorded together with vis at that instant. *)
From Coq Require Import List NArith Bool.
From AdltV Require Import Lifecycle.Model Lifecycle.ForwardProofs Lifecycle.PublishProofs Lifecycle.MonotoneProofs Exec.Lifecycle.
Import ListNotations.
Open Scope N_scope.

(* at every delivery point of every run (any stream, any admissible initial table) the assigned lifecycle is
   in the readers' view of the table, with the message's ECU *)
Theorem C06_published_before_delivery : forall first_id pre ms,
  PreOk first_id pre ->
  Forall (fun x : msg * table =>
            exists L, tbl_get (m_lc (fst x)) (snd x) = Some L /\ l_ecu L = m_ecu (fst x))
         (fst (detect first_id pre ms)).
Proof.
  intros f pre ms H. eapply Forall_impl; [|exact (detect_published f pre ms H)]. cbn. intros x [_ Hx]. exact Hx.
Qed.

(* the invariant behind it, for every reachable detector state: every lifecycle of the per-ECU lists that is no
   longer buffered is visible to readers with its ECU, and pending evmap operations only remove merged ids *)
Theorem C06_invariant_reachable : forall first_id pre ms d o,
  PreOk first_id pre -> run (init first_id pre) ms = (d, o) ->
  forall L, In L (all_lcs (emap d)) -> inb (l_id L) (buffered d) = false ->
            exists L0, tbl_get (l_id L) (vis d) = Some L0 /\ l_ecu L0 = l_ecu L.
Proof.
  intros f pre ms d o Hpre Hrun L HL Hb.
  destruct (run_ok _ _ _ _ (Inv6_init _ _ Hpre) Hrun) as [HI _]. exact (i_pub d HI L HL Hb).
Qed.

(* ... and it stays so: in EVERY later state of the run (whatever else arrives, merges or is refreshed afterwards) the
   lifecycle of every message delivered so far is visible to readers with that message's ECU - a reader in another thread
   or a slow consumer that looks the id up later still finds it (runs from an empty table) *)
Theorem C06_visible_monotone : forall first_id ms d o,
  0 < first_id -> run (init first_id []) ms = (d, o) ->
  forall x, In x (map fst o) -> exists L0, tbl_get (m_lc x) (vis d) = Some L0 /\ l_ecu L0 = m_ecu x.
Proof. exact delivered_stay_visible. Qed.

(* non-vacuity: in the example stream of C05 a lifecycle is published by a mid-stream confirmation while
   messages are still queued; all six deliveries see their lifecycle *)
Example C06_nonvacuous :
  map published_ok (fst (detect 1 [] (mk_msgs 0
     [(1, 1000000000000, 20000000, true, false); (2, 1000000200000, 0, true, false);
      (1, 1000000500000, 0, true, false); (1, 999999000000, 0, true, false);
      (3, 1000060100000, 0, true, false); (1, 999995000000, 0, true, false)])))
  = [true; true; true; true; true; true].
Proof. vm_compute. reflexivity. Qed.

Print Assumptions C06_published_before_delivery.
Print Assumptions C06_invariant_reachable.
Print Assumptions C06_visible_monotone.
Print Assumptions C06_nonvacuous.
