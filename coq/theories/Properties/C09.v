(* C09 — Merging message sources loses nothing and keeps per-source order.
   Statements only; proofs are in Merge/MultiProofs.v.
   The model (Merge/Multi.v) is generic in the message type [A]; [rt] is the reception time,
   [set_index]/[get_index] the index field.  [Run rt set_index start heap out] is the set of ALL runs of
   SortingMultiReaderIterator: any entry with minimal reception time may be popped (BinaryHeap
   leaves the choice among equal keys unspecified). *)
From Coq Require Import List NArith Bool Permutation Sorted Lia.
From AdltV Require Import Base.Res Base.MachInt Merge.Multi Merge.MultiProofs Merge.AcceptComplete Exec.C09.
Import ListNotations.
Open Scope N_scope.

Section Statements.
  Context {A : Type} (rt : A -> N) (set_index : N -> A -> A) (get_index : A -> N).
  Hypothesis rt_set : forall i m, rt (set_index i m) = rt m.
  Hypothesis get_set : forall i m, get_index (set_index i m) = i.

  (* every message of every source exactly once (modulo the index field) *)
  Theorem C09_merge_perm {B} (f : A -> B) (f_set : forall i m, f (set_index i m) = f m) start its out :
    Run rt set_index start (new_heap its) out ->
    Permutation (map f out) (map f (concat its)).
  Proof. intros H. rewrite <- (contents_new_heap its). exact (run_perm_gen rt set_index f f_set _ _ _ H). Qed.

  (* relative order inside each source is kept: the messages of source j appear in source order *)
  Theorem C09_merge_keeps_source_order {B} (src : A -> nat) (strip : A -> B)
      (src_set : forall i m, src (set_index i m) = src m)
      (strip_set : forall i m, strip (set_index i m) = strip m) start its out j :
    its_tagged src 0 its ->
    Run rt set_index start (new_heap its) out ->
    map strip (filter (fun x => Nat.eqb (src x) j) out) = map strip (nth j its []).
  Proof. exact (merge_keeps_source_order_gen rt set_index src src_set strip strip_set start its out j). Qed.

  (* numbered consecutively from the start index, without overflow of the u32 index *)
  Theorem C09_merge_indices_consecutive start h out :
    Run rt set_index start h out ->
    map get_index out = nseq start (length out) /\ (start + N.of_nat (length out) <= u32max \/ out = []).
  Proof. intros H. split; [exact (run_indices rt set_index get_index get_set _ _ _ H)|exact (run_index_bound rt set_index _ _ _ H)]. Qed.

  (* ordered sources give an ordered merge *)
  Theorem C09_merge_sorted_if_sources_sorted start its out :
    Forall (sorted_rt rt) its ->
    Run rt set_index start (new_heap its) out ->
    sorted_rt rt out.
  Proof. intros Hs Hr. exact (run_sorted rt set_index rt_set _ _ _ Hr (HeapSorted_new rt its Hs)). Qed.

  (* the set of runs is not empty: whenever the index cannot overflow some run exists (and is computed by run_first) *)
  Theorem C09_merge_total start its :
    start + N.of_nat (length (concat its)) <= u32max ->
    exists out, run_first rt set_index (length (concat its)) start (new_heap its) = Ok out /\
                Run rt set_index start (new_heap its) out.
  Proof.
    intros Hb. apply run_first_ok; [|exact Hb]. unfold hsize. rewrite contents_new_heap. reflexivity.
  Qed.

  (* the acceptor used by the correspondence check only accepts runs *)
  Theorem C09_acceptor_sound (same_msg : A -> A -> bool)
      (same_msg_eq : forall a b, same_msg a b = true -> a = b) start h obs :
    accepts rt set_index same_msg start h obs = true -> Run rt set_index start h obs.
  Proof. exact (accepts_sound rt set_index same_msg same_msg_eq obs start h). Qed.

  (* ... and it accepts EVERY run of a family whose messages carry their source (the families the check generates):
     the correspondence check cannot raise a false alarm on an implementation whose output is a run, whatever
     tie-breaking choices its heap makes *)
  Theorem C09_acceptor_complete (src : A -> nat) (src_set : forall i m, src (set_index i m) = src m)
      (same_msg : A -> A -> bool)
      (same_msg_eq : forall a b, same_msg a b = true -> a = b) (same_msg_refl : forall a, same_msg a a = true)
      start its out :
    its_tagged src 0 its ->
    Run rt set_index start (new_heap its) out ->
    accepts rt set_index same_msg start (new_heap its) out = true.
  Proof.
    intros Ht Hr. apply (accepts_complete rt set_index src src_set same_msg same_msg_eq same_msg_refl _ _ _ Hr).
    rewrite new_heap_flat. exact (proj1 (tagged_flat src its 0 Ht)).
  Qed.

  (* sequential chaining = concatenation, numbered from the start index, empty sources anywhere *)
  Theorem C09_chain_concat start its :
    start + N.of_nat (length (concat its)) <= u32max ->
    seq_run set_index start its = Ok (number set_index start (concat its)).
  Proof. exact (seq_run_concat set_index start its). Qed.

  Theorem C09_chain_indices start l :
    map get_index (number set_index start l) = nseq start (length l).
  Proof. exact (number_indices set_index get_index get_set l start). Qed.

  (* new_or_single_it: the documented exception — exactly one source is passed through untouched,
     every other family is the numbered merge *)
  Theorem C09_single_source_identity start its out :
    SortRunOrSingle rt set_index start its out ->
    (exists it, its = [it] /\ out = it) \/ (length its <> 1%nat /\ Run rt set_index start (new_heap its) out).
  Proof. intros H. destruct H as [it E|out Hl Hr]; [left; exists it; auto|right; auto]. Qed.

  Theorem C09_chain_single_source_identity start its :
    (exists it, its = [it] /\ seq_run_or_single set_index start its = Ok it) \/
    (length its <> 1%nat /\ seq_run_or_single set_index start its = seq_run set_index start its).
  Proof.
    destruct its as [|it [|it2 r]]; [right|left|right]; cbn; try (split; [discriminate|reflexivity]).
    exists it. auto.
  Qed.

  (* the same for ANY outer iterator of sources (filter, peekable, chain ...: inexact size hints): as long as the hint
     is truthful (the std contract) no source is ever dropped -- the result is the numbered concatenation unless the
     hint is exactly (1, Some 1), in which case the family is the single source, passed through *)
  Theorem C09_chain_any_size_hint hint start its :
    hint_truthful hint its ->
    (exists it, hint = (1, Some 1) /\ its = [it] /\ seq_run_or_single_h set_index hint start its = Ok it) \/
    (hint <> (1, Some 1) /\ seq_run_or_single_h set_index hint start its = seq_run set_index start its).
  Proof.
    intros [Hlo Hhi]. destruct hint as [lo hi]. cbn [fst snd] in Hlo, Hhi.
    destruct (N.eq_dec lo 1) as [El|Nl].
    - subst lo. destruct hi as [h|].
      + destruct (N.eq_dec h 1) as [Eh|Nh].
        * subst h. left. destruct its as [|it [|it2 r]]; cbn [length] in Hlo, Hhi; try lia.
          exists it. cbn. auto.
        * right. split; [intros E; inversion E; congruence|].
          unfold seq_run_or_single_h. destruct h as [|[q|q|]]; try reflexivity. congruence.
      + right. split; [discriminate|reflexivity].
    - right. split; [intros E; inversion E; congruence|].
      unfold seq_run_or_single_h. destruct lo as [|[q|q|]]; try reflexivity. congruence.
  Qed.
End Statements.

(* the concrete message type used by the correspondence check meets the section's hypotheses *)
Lemma cm_rt_set i m : c_rt (cm_set_index i m) = c_rt m. Proof. reflexivity. Qed.
Lemma cm_get_set i m : c_idx (cm_set_index i m) = i. Proof. reflexivity. Qed.
Lemma cm_eqb_eq a b : cm_eqb a b = true -> a = b.
Proof.
  destruct a, b. unfold cm_eqb. cbn. rewrite !andb_true_iff, !N.eqb_eq. intros [[[? ?] ?] ?]. subst. reflexivity.
Qed.

Definition cm_src (m : cm) : nat := N.to_nat (c_src m).
Lemma cm_src_set i m : cm_src (cm_set_index i m) = cm_src m. Proof. reflexivity. Qed.
Lemma cm_eqb_refl a : cm_eqb a a = true.
Proof. unfold cm_eqb. rewrite !N.eqb_refl. reflexivity. Qed.
Lemma tag_src_src s l : forall p, Forall (fun x => cm_src x = N.to_nat s) (tag_src s p l).
Proof. induction l as [|[r i] t IH]; intros p; cbn [tag_src]; constructor; [reflexivity|apply IH]. Qed.
Lemma tag_its_tagged raw : forall s, its_tagged cm_src (N.to_nat s) (tag_its s raw).
Proof.
  induction raw as [|it r IH]; intros s; cbn [tag_its its_tagged]; [exact I|].
  split; [apply tag_src_src|]. replace (S (N.to_nat s)) with (N.to_nat (s + 1)) by lia. apply IH.
Qed.
(* for the families of the correspondence check (any raw sources, tagged by tag_its) the acceptor decides exactly
   "is a run": no missed deviation (sound), no false alarm (complete) *)
Theorem C09_acceptor_exact_on_generated : forall start raw out,
  accepts c_rt cm_set_index cm_eqb start (new_heap (tag_its 0 raw)) out = true <->
  Run c_rt cm_set_index start (new_heap (tag_its 0 raw)) out.
Proof.
  intros start raw out. split.
  - apply (C09_acceptor_sound c_rt cm_set_index cm_eqb cm_eqb_eq).
  - apply (C09_acceptor_complete c_rt cm_set_index cm_src cm_src_set cm_eqb cm_eqb_eq cm_eqb_refl).
    exact (tag_its_tagged raw 0).
Qed.

(* non-vacuity: a family with ties, an empty source and unordered times has a run, and it is accepted *)
Example C09_nonvacuous :
  let its := tag_its 0 [[(5, 0); (5, 1); (9, 2)]; []; [(5, 0); (3, 1)]; [(7, 0)]] in
  exists out, Run c_rt cm_set_index 10 (new_heap its) out /\ length out = 6%nat /\
              accepts c_rt cm_set_index cm_eqb 10 (new_heap its) out = true.
Proof.
  cbv zeta.
  destruct (C09_merge_total c_rt cm_set_index 10 (tag_its 0 [[(5, 0); (5, 1); (9, 2)]; []; [(5, 0); (3, 1)]; [(7, 0)]]))
    as [out [Ho Hr]]; [vm_compute; discriminate|].
  exists out. split; [exact Hr|]. vm_compute in Ho. inversion Ho; subst out. split; vm_compute; reflexivity.
Qed.

Print Assumptions C09_merge_perm.
Print Assumptions C09_merge_keeps_source_order.
Print Assumptions C09_merge_indices_consecutive.
Print Assumptions C09_merge_sorted_if_sources_sorted.
Print Assumptions C09_merge_total.
Print Assumptions C09_acceptor_sound.
Print Assumptions C09_acceptor_complete.
Print Assumptions C09_acceptor_exact_on_generated.
Print Assumptions C09_chain_concat.
Print Assumptions C09_chain_indices.
Print Assumptions C09_single_source_identity.
Print Assumptions C09_chain_single_source_identity.
Print Assumptions C09_chain_any_size_hint.
Print Assumptions C09_nonvacuous.
