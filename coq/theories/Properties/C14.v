(* C14 — convert selects exactly what its options say, and writes what it selected.
   Statements only; proofs are in Convert/SelectProofs.v and Convert/OrderProofs.v.  The model is Convert/Select.v:

     Convert sorter args o res   every run of `adlt convert <args> <options o>` :
                                 files_ok / partition by ECU set / per-stream sort by first reception time + dedup /
                                 streams ordered by first reception time / chain (C09) / heap merge (C09, all
                                 tie-breaks) / lifecycle detection (C05..C08 model, ids from 1) / optional sort
                                 (relation [sorter], C10) / filter thread (C12 model) / output thread
     Input args inp              the unfiltered input as convert numbers and labels it (merged + lifecycle ids);
                                 it is what convert prints when no selection option is given
     selected o x                index window on c_index, lifecycle-id set on c_lc, keep rule of the filter set
     emitted o r em              em is what reaches the screen (if a style is given) and the -o file (if -o is given)
     InRange args                fewer than 2^32 input messages (u32 index arithmetic does not overflow)

   A message [cmsg] carries the fields the pipeline reads, a tag [c_uid] for everything else, and the verdict of
   Filter::matches for every filter of the filter vector (C11 is not repeated here). *)
From Coq Require Import List NArith Bool Permutation Sorted.
From AdltV Require Import Base.Res Base.MachInt Merge.Multi Merge.MultiProofs Filter.Sets Lifecycle.Model
     Convert.Select Convert.SelectProofs Convert.OrderProofs Convert.DetProofs Convert.SortInstance Exec.C14.
From AdltV Require Dlt.Frame Dlt.Iter Dlt.Write Dlt.WriteProofs Properties.C02.
From AdltV Require Filter.Match Convert.VerdictProofs Convert.ElabProofs Convert.PartitionProofs.
Import ListNotations.
Open Scope N_scope.

Section Statements.
  (* the --sort stage: any relation that only permutes (instance: buffer_sort_messages, C10, below) *)
  Variable sorter : list cmsg -> list cmsg -> Prop.
  Hypothesis sorter_perm : forall l out, sorter l out -> Permutation out l.

  (* For every option combination and every input: what is emitted is exactly the sub-sequence of the unfiltered
     input that satisfies all selections (indices and lifecycle ids being those of the unfiltered input), in input
     order without --sort, a permutation of it with --sort; each message at most once; screen and file get the same
     sequence; the counters agree. *)
  Theorem C14_convert_selects_exactly : forall args o r,
    InRange args -> Convert sorter args o (Some r) ->
    exists inp em,
      Input args inp /\ emitted o r em /\
      (o_sort o = false -> em = filter (selected o) inp) /\
      Permutation em (filter (selected o) inp) /\
      NoDup (map c_index em) /\
      r_processed r = N.of_nat (length inp) /\
      map c_index inp = nseq 0 (length inp).
  Proof. exact (convert_selects_exactly sorter sorter_perm). Qed.

  (* the unfiltered input is what convert itself shows when no selection option is given *)
  Theorem C14_no_selection_shows_input : forall args style r,
    InRange args -> style <> 0 ->
    Convert sorter args (mko 0 u32max [] [] false style false) (Some r) ->
    Input args (r_screen r) /\ r_file r = None.
  Proof. exact (convert_no_selection_shows_input sorter sorter_perm). Qed.

  (* the written file: the concatenation of to_write of exactly the emitted messages (re-reading it: C01 + C02) *)
  Theorem C14_written_file_is_selected : forall (to_write : cmsg -> list N) o r em,
    emitted o r em ->
    option_map (fun l => concat (map to_write l)) (r_file r) =
    (if o_file o then Some (concat (map to_write em)) else None) /\
    (r_screen r = if has_style o then em else []).
  Proof. intros tw o r em [H1 [H2 _]]. rewrite H2. split; [destruct (o_file o); reflexivity|exact H1]. Qed.
End Statements.

(* ... and re-reading that file gives exactly those messages (composition with C02: DltMessage::to_write per
   message in order, read back by DltMessageIterator).  [full x] is the complete DLT message the abstract message x
   stands for; input messages come out of the parser, i.e. are "parsed" messages in the sense of C02. *)
Theorem C14_written_file_rereads : forall (full : cmsg -> Frame.msg) o r em,
  emitted o r em -> o_file o = true ->
  Forall (fun x => C02.parsed (full x)) em -> N.of_nat (length em) <= u32max ->
  r_file r = Some em /\
  exists bytes ms' st,
    Write.write_all (map full em) = Ok (Write.WOk bytes) /\
    Iter.run_iter 0 bytes = Ok (ms', st, []) /\
    Forall2 WriteProofs.same_fields (map full em) ms' /\
    length ms' = length em.
Proof.
  intros full o r em [_ [H2 _]] Ho Hp Hb. rewrite Ho in H2. split; [exact H2|].
  destruct (C02.C02_export_roundtrip 0 (map full em)) as [bytes [ms' [st [Hw [Hr [Hs _]]]]]].
  - rewrite Forall_map. exact Hp.
  - rewrite map_length. exact Hb.
  - exists bytes, ms', st. split; [exact Hw|]. split; [exact Hr|]. split; [exact Hs|].
    clear -Hs. rewrite <- (map_length full em). induction Hs; cbn; congruence.
Qed.

(* The output-file contract: after a run with -o the WHOLE content of the path is the concatenation of to_write of
   exactly the emitted messages -- independent of what the path held before (absent, empty, junk, a longer or shorter
   DLT file, the output of an earlier run with another window / filter / sort flag); in particular writing the same
   path twice leaves the result of the second run only.  Without -o, and when no input file can be opened, the path
   is not touched.  ([path_after]: Convert/Select.v, File::create truncates.) *)
Theorem C14_output_path_independent_of_prior_content :
  forall {byte} (to_write : cmsg -> list byte) sorter args o res (prior prior' : option (list byte)),
    Convert sorter args o res ->
    (forall r em, res = Some r -> emitted o r em ->
       o_file o = true ->
       path_after to_write prior res = Some (concat (map to_write em)) /\
       path_after to_write prior res = path_after to_write prior' res) /\
    (o_file o = false \/ res = None -> path_after to_write prior res = prior).
Proof.
  intros byte tw sorter args o res prior prior' C. split.
  - intros r em -> [_ [H2 _]] Ho. rewrite Ho in H2. unfold path_after. rewrite H2. cbn. auto.
  - intros [Ho| ->]; [|reflexivity]. inversion C as [|merged sorted Hne Hm Hs]; subst; [reflexivity|].
    destruct (t4_spec o merged (filter_stage (o_filters o) sorted)) as [_ [H2 _]].
    unfold path_after. rewrite H2, Ho. reflexivity.
Qed.

(* what [selected] says, in words of the property: inside the window, lifecycle chosen (or no --lcs), and
   (no enabled positive filter or one matches) and no enabled negative filter matches *)
Theorem C14_selected_meaning : forall o x,
  selected o x = true <->
  (o_first o <= c_index x <= o_last o) /\
  (o_lcs o = [] \/ In (c_lc x) (o_lcs o)) /\
  ((~ (exists f, In f (o_filters o) /\ f_enabled f = true /\ f_kind f = Positive) \/
    (exists f, In f (o_filters o) /\ f_enabled f = true /\ f_kind f = Positive /\ fmatches f x = true)) /\
   ~ (exists f, In f (o_filters o) /\ f_enabled f = true /\ f_kind f = Negative /\ fmatches f x = true)).
Proof. exact selected_meaning. Qed.

(* the unfiltered input: numbered by position from 0, no index twice, and it consists of exactly the messages of
   the files that are merged (every file once: see C14_streams_files), each once, whatever the heap does on ties *)
Theorem C14_input_is_the_files : forall args inp,
  InRange args -> Input args inp ->
  map c_index inp = nseq 0 (length inp) /\ NoDup (map c_index inp) /\
  Permutation (map c_uid inp) (map c_uid (all_msgs args)).
Proof. exact Input_spec. Qed.

(* ... and under [DistinctFirst] the streams that are merged contain every named file that has a message (as the
   pair of its first reception time and the file) exactly once -- a file named twice, or under two spellings of
   its path, is read once -- and nothing else *)
Theorem C14_streams_files : forall args,
  DistinctFirst args ->
  NoDup (concat (streams_of args)) /\
  (forall e, In e (concat (streams_of args)) <->
             exists f m, In f (files_ok args) /\ first_msg f = Some m /\ e = (c_rt m, f)).
Proof.
  intros args Hd. destruct (streams_files args Hd) as [H1 H2]. split; [exact H1|].
  intros e. rewrite H2. apply in_entries.
Qed.

(* no file that can be opened: an error, nothing is emitted *)
Theorem C14_no_input_file : forall sorter args o res,
  files_ok args = [] -> Convert sorter args o res -> res = None.
Proof.
  intros sorter args o res H C. inversion C as [|m s Hne]; [reflexivity|]. contradiction.
Qed.

(* the executable instance used by the correspondence check is a run of the model *)
Theorem C14_executable_run_is_a_run : forall sorter args o r,
  InRange args -> o_sort o = false -> convert_first args o = Ok (Some r) -> Convert sorter args o (Some r).
Proof. exact convert_first_Convert. Qed.

(* --sort is buffer_sort_messages(.., 3, 20 s) (model of C10, any lifecycle table contents, any heap tie-breaking):
   it only permutes, so the selection theorem applies to it *)
Theorem C14_sort_stage_is_buffer_sort : forall l out, sorter_bs l out -> Permutation out l.
Proof. exact sorter_bs_perm. Qed.

Theorem C14_convert_selects_exactly_buffer_sort : forall args o r,
  InRange args -> Convert sorter_bs args o (Some r) ->
  exists inp em,
    Input args inp /\ emitted o r em /\
    (o_sort o = false -> em = filter (selected o) inp) /\
    Permutation em (filter (selected o) inp) /\ NoDup (map c_index em) /\
    r_processed r = N.of_nat (length inp) /\ map c_index inp = nseq 0 (length inp).
Proof. exact (convert_selects_exactly sorter_bs sorter_bs_perm). Qed.

(* Naming the input files in a different order gives the same result when the files' first messages have distinct
   reception times ([DistinctFirst]: two named files whose first messages have the same reception time are the
   same file).  No hypothesis about later reception-time ties is needed: the list of streams handed to the heap
   merge is literally the same list (same streams, same order, each with the same files in the same order), so
   every run of the one command line is a run of the other and vice versa; the binary heap of std is a
   deterministic data structure, i.e. the same list gives the same run (trusted, and compared by the harness). *)
Theorem C14_file_order_irrelevant : forall args args',
  Permutation args args' -> DistinctFirst args ->
  streams_of args = streams_of args' /\
  (forall merged, Merged args merged <-> Merged args' merged) /\
  (forall sorter o res, Convert sorter args o res <-> Convert sorter args' o res).
Proof.
  intros args args' P Hd. pose proof (file_order_irrelevant _ _ P Hd) as E. split; [exact E|]. split.
  - intros m. unfold Merged. rewrite E. reflexivity.
  - intros sorter o res. exact (convert_file_order_irrelevant sorter _ _ o res P Hd).
Qed.

(* ... and when no two messages of different streams have the same reception time the heap has no choice at all:
   the merged stream is a function of the arguments (no appeal to the determinism of std's BinaryHeap), hence
   literally the same for every order of the file arguments *)
Theorem C14_merge_deterministic_without_cross_stream_ties : forall args m1 m2,
  InRange args -> NoCrossStreamTies args -> Merged args m1 -> Merged args m2 -> m1 = m2.
Proof. exact merged_unique. Qed.

Theorem C14_file_order_irrelevant_no_ties : forall args args' m m',
  Permutation args args' -> DistinctFirst args -> InRange args -> NoCrossStreamTies args ->
  Merged args m -> Merged args' m' -> m = m'.
Proof.
  intros args args' m m' P Hd Hb Hn H H'. apply (merged_unique args); auto.
  apply (proj1 (proj2 (C14_file_order_irrelevant _ _ P Hd))). exact H'.
Qed.

(* Before the repair (commit 8cea3e4) the streams went into the merge in the order in which the partition created
   them, i.e. in the order of the file arguments: two files of different ECUs, first messages at different times. *)
Definition streams_unordered (args : list arg) : list fstream := map normalize (partition_files (files_ok args)).
Theorem C14_unordered_streams_depend_on_arg_order :
  exists args args', Permutation args args' /\ DistinctFirst args /\
                     streams_unordered args <> streams_unordered args' /\ streams_of args = streams_of args'.
Proof.
  set (fa := mk_file (0, 1, [(1, 1, 1000, 0, true, false, [])])). set (fb := mk_file (1, 1, [(2, 2, 2000, 0, true, false, [])])).
  exists [Some fa; Some fb], [Some fb; Some fa].
  assert (P : Permutation [Some fa; Some fb] [Some fb; Some fa]) by apply perm_swap.
  assert (Hd : DistinctFirst [Some fa; Some fb]).
  { intros f g mf mg Hf Hg Ef Eg Hrt. cbn in Hf, Hg.
    destruct Hf as [<-|[<-|[]]], Hg as [<-|[<-|[]]]; try reflexivity;
      vm_compute in Ef, Eg; inversion Ef; inversion Eg; subst; vm_compute in Hrt; discriminate. }
  split; [exact P|]. split; [exact Hd|]. split; [vm_compute; discriminate|exact (file_order_irrelevant _ _ P Hd)].
Qed.

(* non-vacuity: three files (ECU 1 in two consecutive files, ECU 2 in a third, named out of order and one of
   them twice), window 1..5, lifecycle 2 only, one positive and one disabled negative filter, -s and -o:
   the hypotheses hold and exactly the messages with index 2 and 5 of the 7 input messages come out (three
   lifecycles: ECU 1 boots again in its second file) *)
Definition nv_files : list file := map mk_file
  [(0, 3, [(10, 1, 1000000000000, 0, true, false, [true; true]); (11, 1, 1000001000000, 1000000, true, false, [false; true]);
           (12, 1, 1000002000000, 2000000, true, false, [true; true])]);
   (1, 2, [(13, 1, 1000030000000, 0, true, false, [true; true]); (14, 1, 1000031000000, 1000000, true, false, [true; false])]);
   (2, 2, [(20, 2, 1000001500000, 0, true, false, [true; true]); (21, 2, 1000030500000, 29000000, true, false, [true; true])])].
Definition nv_args : list arg := mk_args nv_files [Some 1; Some 2; Some 0; Some 1].
Definition nv_opts : opts := mk_opts (1, 5, [2], [(0, true); (1, false)], false, 3, true, Some [7; 7; 7]).
Example C14_nonvacuous :
  InRange nv_args /\ DistinctFirst nv_args /\ NoCrossStreamTies nv_args /\
  exists r, Convert (fun l out => Permutation out l) nv_args nv_opts (Some r) /\
            map (fun x => (c_index x, c_uid x, c_lc x)) (r_screen r) = [(2, 20, 2); (5, 21, 2)] /\
            r_file r = Some (r_screen r) /\ r_processed r = 7.
Proof.
  assert (Hb : InRange nv_args) by (vm_compute; discriminate).
  split; [exact Hb|]. split.
  { intros f g mf mg Hf Hg Ef Eg Hrt. cbn in Hf, Hg.
    destruct Hf as [<-|[<-|[<-|[<-|[]]]]], Hg as [<-|[<-|[<-|[<-|[]]]]]; try reflexivity;
      vm_compute in Ef, Eg; inversion Ef; inversion Eg; subst; vm_compute in Hrt; discriminate. }
  split.
  { exists (fun x => if c_ecu x =? 1 then 0%nat else 1%nat). split.
    - vm_compute. repeat constructor.
    - intros x y Hx Hy. vm_compute in Hx, Hy.
      repeat (destruct Hx as [<-|Hx]); try contradiction; repeat (destruct Hy as [<-|Hy]); try contradiction;
        vm_compute; intros E; first [reflexivity|discriminate]. }
  destruct (convert_first nv_args nv_opts) as [[r|]| |] eqn:E; try (vm_compute in E; discriminate).
  exists r. split; [apply convert_first_Convert; [exact Hb|reflexivity|exact E]|].
  vm_compute in E. inversion E; subst r. vm_compute. auto.
Qed.

(* ---- what the verdicts [fmatches] of the filter vector are (the "ECU/APID/CTID expressions, filter file" part of the
   selection).  The filter vector is loaded by convert's three front ends -- DLF <filter> elements or dlt-convert
   format records of the -f file, then one ECU:APID:CTID expression per --eac value (models of C11, composed in
   Convert/Verdict.v [load_all]) -- and the filter thread asks Filter::matches (C11 model) for every message.
   For EVERY filter so loaded, whatever the regex engine answers ([re], [valid] arbitrary): the verdict is "enabled and
   every criterion the filter has holds for the message" (ids: literal equality of the four bytes or the expression over
   them) -- no front end negates a filter. *)
Theorem C14_filter_verdict_is_criteria : forall valid re srcs fs f m,
  load_all valid srcs = Some fs -> In f fs ->
  Match.matches re f m = Match.f_enabled f && Match.criteria_hold re f m.
Proof. exact VerdictProofs.loaded_verdict_is_criteria. Qed.

(* A message WITHOUT extended header has no APID, no CTID, no message type and no log level: a filter with such a
   criterion -- literal or regular expression -- does not match it.  (So a positive ":APP" / "::CT.*" selection never
   emits it and a negative one never removes it.) *)
Theorem C14_no_ext_header_fails_id_type_level : forall valid re srcs fs f m,
  load_all valid srcs = Some fs -> In f fs ->
  Match.m_ext m = None -> Match.needs_ext_header f = true -> Match.matches re f m = false.
Proof. exact VerdictProofs.loaded_verdict_no_ext. Qed.

(* The link to the selection theorems above: in an elaborated case (Exec/C14.v [elab]: what the correspondence runs)
   the verdict [fmatches] that [selected] / C14_selected_meaning read for the k-th filter of the vector is exactly that
   model verdict of the k-th loaded filter on the message's header parts; kind and enabled flag are the loaded ones. *)
Theorem C14_selection_reads_filter_criteria : forall valid re srcs fs k (sm : src_msg),
  load_all valid srcs = Some fs -> (k < length fs)%nat ->
  let x := mk_cmsg (elab_msg (verdicts re fs) sm) in
  let f := nth k (mk_filters 0 (map kind_enabled fs)) (mkFlt Positive false 0) in
  let g := nth k fs (Match.filter_new 0) in
  let m := msg_of_hdr (snd sm) in
  f_kind f = mk_kind (Match.f_kind g) /\
  f_enabled f = Match.f_enabled g /\
  fmatches f x = Match.matches re g m /\
  fmatches f x = Match.f_enabled g && Match.criteria_hold re g m /\
  (snd (snd sm) = None -> Match.needs_ext_header g = true -> fmatches f x = false).
Proof. exact ElabProofs.elaborated_verdict. Qed.

(* non-vacuity: a DLF negative filter with the CTID expression `C3` (flag enableregexp_Context = 1) followed by
   `--eac=::CT01|CT02`; engine answers for the ids CT01 and C3.  A message without extended header matches neither,
   one with CTID CT01 the second, one with CTID C3 the first. *)
Definition nv_srcs : list fsrc :=
  [FsDlf [(0, [49]); (1, [49]); (9, [49]); (7, [49]); (8, [67; 51])];
   FsEac [58; 58; 67; 84; 48; 49; 124; 67; 84; 48; 50]].
Definition nv_vt : vtable := [([67; 51], true); ([67; 84; 48; 49; 124; 67; 84; 48; 50], true)].
Definition nv_rt : rtable :=
  [([67; 51], [67; 51; 0; 0], true); ([67; 51], [67; 84; 48; 49], false);
   ([67; 84; 48; 49; 124; 67; 84; 48; 50], [67; 84; 48; 49], true);
   ([67; 84; 48; 49; 124; 67; 84; 48; 50], [67; 51; 0; 0], false)].
Example C14_filter_verdict_nonvacuous :
  exists fs, load_all (valid_of nv_vt) nv_srcs = Some fs /\
    map kind_enabled fs = [(1, true); (0, true)] /\
    map Match.needs_ext_header fs = [true; true] /\
    verdicts (re_of nv_rt) fs ([69; 67; 48; 49], None) = [false; false] /\
    verdicts (re_of nv_rt) fs ([69; 67; 48; 49], Some (64, [65; 80; 48; 49], [67; 84; 48; 49])) = [false; true] /\
    verdicts (re_of nv_rt) fs ([69; 67; 48; 49], Some (64, [65; 80; 48; 49], [67; 51])) = [true; false].
Proof. eexists. split; [vm_compute; reflexivity|]. vm_compute. auto 10. Qed.

(* ---- which files share a stream (wave 7).  convert() classifies every input file by the SET of ECU ids of the messages
   inside the first 512 KiB (DltFileInfos::ecus_seen: "the ECU ids within the read_size range") -- the FIRST message
   included, every later one up to the last one inside the range included, nothing behind the range: *)
Theorem C14_ecu_set_of_a_file : forall f,
  (forall x, In x (ecus_seen f) <-> exists m, In m (scanned f) /\ c_ecu m = x) /\
  (forall m, first_msg f = Some m -> In m (scanned f) /\ In (c_ecu m) (ecus_seen f)) /\
  scanned f = firstn (f_scan f) (f_msgs f).
Proof.
  intros f. split; [intros x; apply PartitionProofs.ecus_seen_spec|]. split; [|reflexivity].
  intros m H. split; [apply PartitionProofs.first_msg_scanned|apply PartitionProofs.first_msg_ecu_seen]; exact H.
Qed.

(* ... the streams handed to the merge are exactly the classes of "same ECU set": every stream is not empty, its files
   are chained in the order of their first reception time, and a named file g (with a message) is in the stream of a
   file f if and only if the scanned messages of f and g show the same set of ECUs.  So files with equal sets are read
   one after the other, files with different sets in parallel (merged by reception time: C09). *)
Theorem C14_streams_by_ecu_set : forall args,
  DistinctFirst args ->
  forall s, In s (streams_of args) ->
    s <> [] /\ StronglySorted (fun a b : sentry => fst a <= fst b) s /\
    forall t f, In (t, f) s ->
      forall g m, In g (files_ok args) -> first_msg g = Some m ->
        (In (c_rt m, g) s <->
         forall x, (exists y, In y (scanned f) /\ c_ecu y = x) <-> (exists y, In y (scanned g) /\ c_ecu y = x)).
Proof. exact PartitionProofs.streams_by_scanned_ecus. Qed.

(* ... and when every stream (the chain of its files) is ordered by reception time, so is the merged input, for every
   tie-break of the heap (C09's clause, for convert's streams) *)
Theorem C14_input_ordered_if_streams_ordered : forall args its out,
  all_its (streams_of args) = Ok its ->
  Forall (sorted_rt c_rt) its ->
  Merged args out ->
  sorted_rt c_rt out.
Proof. exact PartitionProofs.merged_sorted_if_streams_sorted. Qed.

(* non-vacuity: a = ECU 1 at 1, 3, 5 s; b = ECU 2 at 2 s, then ECU 1 at 4, 6 s (its first message is the only one of
   ECU 2); c = ONE message of ECU 1 at 5.5 s; d = ECU 1 at 1.5, 3.5, 7 s; e = ECU 1 at 2.5, 4.5 s inside the scanned range
   and ECU 3 at 6.5 s behind it.  a, d, e, c have the set {1} and form one stream in the order of their first messages
   (although they overlap in time); b has {1, 2} and is a stream of its own. *)
Definition nv7_files : list file := map mk_file
  [(0, 3, [(0, 1, 1000000, 0, true, false, []); (1, 1, 3000000, 2000000, true, false, []); (2, 1, 5000000, 4000000, true, false, [])]);
   (1, 3, [(3, 2, 2000000, 0, true, false, []); (4, 1, 4000000, 3000000, true, false, []); (5, 1, 6000000, 5000000, true, false, [])]);
   (2, 1, [(6, 1, 5500000, 4500000, true, false, [])]);
   (3, 3, [(7, 1, 1500000, 500000, true, false, []); (8, 1, 3500000, 2500000, true, false, []); (9, 1, 7000000, 6000000, true, false, [])]);
   (4, 2, [(10, 1, 2500000, 1500000, true, false, []); (11, 1, 4500000, 3500000, true, false, []); (12, 3, 6500000, 0, true, false, [])])].
Definition nv7_args : list arg := mk_args nv7_files [Some 2; Some 1; Some 0; Some 4; Some 3].
Example C14_streams_by_ecu_set_nonvacuous :
  DistinctFirst nv7_args /\
  map (map (fun e : sentry => f_path (snd e))) (streams_of nv7_args) = [[0; 3; 4; 2]; [1]] /\
  map ecus_seen nv7_files = [[1; 1; 1]; [2; 1; 1]; [1]; [1; 1; 1]; [1; 1]].
Proof.
  split; [|split; vm_compute; reflexivity].
  intros f g mf mg Hf Hg Ef Eg Hrt. cbn in Hf, Hg.
  destruct Hf as [<-|[<-|[<-|[<-|[<-|[]]]]]], Hg as [<-|[<-|[<-|[<-|[<-|[]]]]]]; try reflexivity;
    vm_compute in Ef, Eg; inversion Ef; inversion Eg; subst; vm_compute in Hrt; discriminate.
Qed.

Print Assumptions C14_convert_selects_exactly.
Print Assumptions C14_no_selection_shows_input.
Print Assumptions C14_written_file_is_selected.
Print Assumptions C14_written_file_rereads.
Print Assumptions C14_output_path_independent_of_prior_content.
Print Assumptions C14_selected_meaning.
Print Assumptions C14_input_is_the_files.
Print Assumptions C14_streams_files.
Print Assumptions C14_no_input_file.
Print Assumptions C14_executable_run_is_a_run.
Print Assumptions C14_sort_stage_is_buffer_sort.
Print Assumptions C14_convert_selects_exactly_buffer_sort.
Print Assumptions C14_file_order_irrelevant.
Print Assumptions C14_merge_deterministic_without_cross_stream_ties.
Print Assumptions C14_file_order_irrelevant_no_ties.
Print Assumptions C14_unordered_streams_depend_on_arg_order.
Print Assumptions C14_nonvacuous.
Print Assumptions C14_filter_verdict_is_criteria.
Print Assumptions C14_no_ext_header_fails_id_type_level.
Print Assumptions C14_selection_reads_filter_criteria.
Print Assumptions C14_filter_verdict_nonvacuous.
Print Assumptions C14_ecu_set_of_a_file.
Print Assumptions C14_streams_by_ecu_set.
Print Assumptions C14_input_ordered_if_streams_ordered.
Print Assumptions C14_streams_by_ecu_set_nonvacuous.
