(* C01 — DLT framing: complete, faithful recovery of messages between garbage.
   Statements only; proofs are in Dlt/FrameProofs.v and Dlt/IterProofs.v.

   Model: Dlt/Frame.v (both parsers, byte-exact incl. the next-marker heuristic) and Dlt/Iter.v
   (DltMessageIterator over a Cursor).  A stream is  g0 ++ enc m1 ++ g1 ++ ... ++ enc mn ++ gfin,
   given as [segs = [(g0, m1); (g1, m2); ...]] and [gfin]; [enc f] encodes an abstract message [amsg]
   (any htyp byte = all 32 combinations of ECU id / session id / timestamp / extended header x both byte
   orders x all version bits, any counter and id bytes, any payload with len <= 65535) in framing [f];
   [expect f idx a] is the message a reader has to deliver for it (every header field and payload byte);
   [markers_only_at_starts]: neither "DLT\x01" nor "DLS\x01" starts anywhere but at the message starts. *)
From Coq Require Import List NArith Bool Lia.
From AdltV Require Import Base.Res Base.MachInt Dlt.Frame Dlt.FrameProofs Dlt.Iter Dlt.IterProofs Dlt.IterTotal Dlt.IterReader
  Reader.LowMark Reader.LowMarkSpec Dlt.Chunk Dlt.IterSched Dlt.IterFast Dlt.IterFastProofs Dlt.Probe Dlt.ProbeProofs.
Import ListNotations.
Open Scope N_scope.

(* the headline theorem, for both framings at once *)
Theorem C01_iter_recovers_all (f : framing) (start : N) (segs : list seg) (gfin : bytes) :
  Forall (fun s => wf_amsg (snd s)) segs ->
  markers_only_at_starts f segs gfin ->
  start + N.of_nat (length segs) <= u32max ->
  exists st tail,
    (* exactly those messages, in order, numbered from start, fields and payload intact *)
    run_iter start (stream f segs gfin) = Ok (expect_list f start segs, st, tail) /\
    (* what stays unconsumed is a suffix of the trailing run, shorter than a minimal message *)
    (exists consumed, gfin = consumed ++ tail) /\
    blen tail < min_size f /\
    i_index st = start + N.of_nat (length segs) /\
    (* skipped = the garbage (minus the unconsumed tail); processed = input minus tail, never more than the input *)
    i_skipped st + blen tail = garbage_total segs + blen gfin /\
    i_processed st + blen tail = blen (stream f segs gfin) /\
    i_processed st <= blen (stream f segs gfin).
Proof. exact (iter_recovers_all f start segs gfin). Qed.

Theorem C01_iter_recovers_all_storage (start : N) (segs : list seg) (gfin : bytes) :
  Forall (fun s => wf_amsg (snd s)) segs ->
  markers_only_at_starts Storage segs gfin ->
  start + N.of_nat (length segs) <= u32max ->
  exists st tail,
    run_iter start (stream Storage segs gfin) = Ok (expect_list Storage start segs, st, tail) /\
    (exists consumed, gfin = consumed ++ tail) /\ blen tail < 20 /\
    i_index st = start + N.of_nat (length segs) /\
    i_skipped st + blen tail = garbage_total segs + blen gfin /\
    i_processed st + blen tail = blen (stream Storage segs gfin) /\
    i_processed st <= blen (stream Storage segs gfin).
Proof. exact (iter_recovers_all Storage start segs gfin). Qed.

Theorem C01_iter_recovers_all_serial (start : N) (segs : list seg) (gfin : bytes) :
  Forall (fun s => wf_amsg (snd s)) segs ->
  markers_only_at_starts Serial segs gfin ->
  start + N.of_nat (length segs) <= u32max ->
  exists st tail,
    run_iter start (stream Serial segs gfin) = Ok (expect_list Serial start segs, st, tail) /\
    (exists consumed, gfin = consumed ++ tail) /\ blen tail < 8 /\
    i_index st = start + N.of_nat (length segs) /\
    i_skipped st + blen tail = garbage_total segs + blen gfin /\
    i_processed st + blen tail = blen (stream Serial segs gfin) /\
    i_processed st <= blen (stream Serial segs gfin).
Proof. exact (iter_recovers_all Serial start segs gfin). Qed.

(* what "expected message" means, field by field (the definition of [expect] spelled out) *)
Theorem C01_expect_fields (f : framing) (idx : N) (a : amsg) :
  let m := expect f idx a in
  let flag := N.testbit (a_htyp a) in
  m_index m = idx /\
  htyp (m_std m) = a_htyp a /\ mcnt (m_std m) = a_mcnt a /\
  len (m_std m) = std_ext_header_size (m_std m) + blen (a_payload a) /\
  m_payload m = a_payload a /\
  m_timestamp m = (if flag 4%N then a_ts a else 0) /\
  m_ecu m = (if flag 2%N then a_ecu a else match f with Storage => a_secu a | Serial => (68, 76, 83, 0) end) /\
  m_ext m = (if flag 0%N then Some {| verb_mstp_mtin := a_vmm a; noar := a_noar a; apid := a_apid a; ctid := a_ctid a |} else None) /\
  m_reception_us m = match f with Storage => a_secs a * 1000000 + a_micros a | Serial => 1671408000 * 1000000 + 0 end.
Proof. destruct f; cbv zeta; repeat split. Qed.

(* single-message lemmas: a parser accepts exactly the encoding when what follows is absent, a marker, or
   no marker starts at offsets 5 .. end-1 (the heuristic's scan range, including straddling positions) *)
Theorem C01_parse_storage_single (index : N) (a : amsg) (rest : bytes) :
  wf_amsg a ->
  (blen rest < 4 \/ is_storage_pat rest = true \/
   forall i, (5 <= i < N.to_nat (16 + a_len a))%nat -> is_storage_pat (skipn i (enc_storage a ++ rest)) = false) ->
  parse_storage index (enc_storage a ++ rest) = PMsg (16 + a_len a) (expect_storage index a).
Proof. exact (parse_storage_enc index a rest). Qed.

Theorem C01_parse_serial_single (index : N) (a : amsg) (rest : bytes) :
  wf_amsg a ->
  (blen rest < 4 \/ is_serial_pat rest = true \/
   forall i, (5 <= i < N.to_nat (4 + a_len a))%nat -> is_serial_pat (skipn i (enc_serial a ++ rest)) = false) ->
  parse_serial index (enc_serial a ++ rest) = PMsg (4 + a_len a) (expect_serial index a).
Proof. exact (parse_serial_enc index a rest). Qed.

(* both parsers are total: the transcription in which every slice, index, `expect` and usize subtraction of the
   Rust functions can panic never does, on any input, and equals the total model used everywhere else *)
Theorem C01_parse_storage_never_panics (index : N) (data : bytes) :
  parse_storage_chk index data = Ok (parse_storage index data).
Proof. exact (parse_storage_chk_ok index data). Qed.
Theorem C01_parse_serial_never_panics (index : N) (data : bytes) :
  parse_serial_chk index data = Ok (parse_serial index data).
Proof. exact (parse_serial_chk_ok index data). Qed.

(* for EVERY input (no hypothesis on the bytes): the iterator terminates, does not panic unless the u32 index
   would overflow, the bytes reported as processed never exceed the input (processed + unconsumed = input,
   the unconsumed rest is a suffix), skipped <= processed, index advanced by the number of messages *)
Theorem C01_run_total (start : N) (data : bytes) :
  start + N.of_nat (length data) <= u32max ->
  exists ms st rest,
    run_iter start data = Ok (ms, st, rest) /\
    i_processed st + blen rest = blen data /\
    i_processed st <= blen data /\
    i_skipped st <= i_processed st /\
    i_index st = start + N.of_nat (length ms) /\
    (exists consumed, data = consumed ++ rest).
Proof. exact (run_iter_total start data). Qed.

Theorem C01_run_terminates (start : N) (data : bytes) : run_iter start data <> OutOfFuel.
Proof. exact (run_iter_terminates start data). Qed.

(* an incomplete storage-header message (valid header, >= 20 bytes in view, fewer than its length field announces)
   stops the iterator whether or not the storage framing is latched (/repo commit 9045554; before it a fresh
   iterator skipped on byte by byte and recognised frames inside/behind it while a latched one stopped).
   Witness of the repaired position dependence: 20-byte frame ++ header announcing 0x2004 bytes ++ 24-byte frame. *)
Theorem C01_incomplete_storage_frame_stops (fuel : nat) (st : ist) (d : bytes) (k : N) :
  i_det_serial st = false -> 20 <= blen d -> parse_storage (i_index st) d = PNotEnough k ->
  next (S fuel) st d = Ok (None, st, d).
Proof. exact (incomplete_storage_frame_stops fuel st d k). Qed.

Definition short_frame_suffix : bytes :=
  [68; 76; 84; 1; 0; 0; 0; 0; 0; 0; 0; 0; 69; 67; 85; 49; 32; 0; 32; 4] ++
  [68; 76; 84; 1; 0; 0; 0; 0; 0; 0; 0; 0; 69; 67; 85; 49; 32; 1; 0; 8; 9; 9; 9; 9].
Definition short_frame_prefix : bytes := [68; 76; 84; 1; 0; 0; 0; 0; 0; 0; 0; 0; 69; 67; 85; 49; 32; 0; 0; 4].
Example C01_incomplete_storage_frame_witness :
  (exists m st, run_iter 0 (short_frame_prefix ++ short_frame_suffix) = Ok ([m], st, short_frame_suffix)) /\
  run_iter 1 short_frame_suffix = Ok ([], ist_new 1, short_frame_suffix).
Proof. split; [eexists; eexists; vm_compute; reflexivity|vm_compute; reflexivity]. Qed.

(* the boolean form of the marker hypothesis used by the examples is sound *)
Theorem C01_markers_check_sound (f : framing) (segs : list seg) (gfin : bytes) :
  markers_only_at_startsb f segs gfin = true -> markers_only_at_starts f segs gfin.
Proof. exact (markers_only_at_startsb_sound f segs gfin). Qed.

(* the defect repaired in /repo (commit "fix: try the serial header parser when the storage parser lacks
   data ..."): the loop as it was before ([legacy = true]) yields nothing on an 11 byte serial message,
   although that stream satisfies every hypothesis of the theorem; the code as it is now recovers it *)
Definition tiny_msg : amsg :=
  {| a_secs := 0; a_micros := 0; a_secu := (0, 0, 0, 0); a_htyp := 32; a_mcnt := 7;
     a_ecu := (0, 0, 0, 0); a_sid := (0, 0, 0, 0); a_ts := 0; a_vmm := 0; a_noar := 0;
     a_apid := (0, 0, 0, 0); a_ctid := (0, 0, 0, 0); a_payload := [97; 98; 99] |}.

Theorem C01_legacy_tiny_serial_refuted :
  exists segs gfin,
    Forall (fun s => wf_amsg (snd s)) segs /\ markers_only_at_starts Serial segs gfin /\
    stream Serial segs gfin = tiny_serial_witness /\
    run_iter_l true 0 (stream Serial segs gfin) = Ok ([], ist_new 0, tiny_serial_witness) /\
    exists st, run_iter 0 (stream Serial segs gfin) = Ok (expect_list Serial 0 segs, st, []).
Proof.
  exists [([], tiny_msg)], []. split; [|split; [|split; [|split]]].
  - constructor; [|constructor]. cbn. unfold wf_amsg. vm_compute. repeat split; discriminate.
  - apply markers_only_at_startsb_sound. vm_compute. reflexivity.
  - vm_compute. reflexivity.
  - vm_compute. reflexivity.
  - eexists. vm_compute. reflexivity.
Qed.

(* the iterator as the crate wires it: over ANY buffering reader (state R, fill_buf, consume; [rem r] = the input a
   Cursor would still show) whose every fill_buf shows a prefix of the remaining input that is either all of it or
   at least [low] bytes long -- LowMarkBufReader's contract, Properties/C04.v C04_lookahead -- with
   low >= 16 + 65535 = a storage-framed message of maximum length: the recovery theorem holds unchanged.  This is the
   hypothesis DLT_MAX_STORAGE_MSG_SIZE has to meet; the correspondence check compares the crate's constant with
   this bound (Exec/C01.v wiring_ok). *)
Theorem C01_iter_recovers_all_any_reader
    (R : Type) (fill : R -> R * bytes) (consume : N -> R -> R) (rem : R -> bytes) (low : N)
    (fill_spec : forall r, rem (fst (fill r)) = rem r /\ window_ok low (rem r) (snd (fill r)))
    (consume_spec : forall r n, n <= blen (snd (fill r)) -> rem (consume n (fst (fill r))) = skipn (N.to_nat n) (rem r))
    (f : framing) (start : N) (segs : list seg) (gfin : bytes) (r0 : R) :
  16 + 65535 <= low ->
  rem r0 = stream f segs gfin ->
  Forall (fun s => wf_amsg (snd s)) segs ->
  markers_only_at_starts f segs gfin ->
  start + N.of_nat (length segs) <= u32max ->
  let n := S (length (stream f segs gfin)) in
  exists st r',
    drain_gen R fill consume false n n (ist_new start) r0 = Ok (expect_list f start segs, st, r') /\
    (exists consumed, gfin = consumed ++ rem r') /\
    blen (rem r') < min_size f /\
    i_index st = start + N.of_nat (length segs) /\
    i_skipped st + blen (rem r') = garbage_total segs + blen gfin /\
    i_processed st + blen (rem r') = blen (stream f segs gfin) /\
    i_processed st <= blen (stream f segs gfin).
Proof.
  intros Hlow.
  assert (Hmin : MIN_DLT_MSG_SIZE <= low) by (unfold MIN_DLT_MSG_SIZE; lia).
  exact (iter_recovers_all_any_reader R fill consume rem low Hmin fill_spec consume_spec f start segs gfin r0 Hlow).
Qed.

(* the instance for the crate's own wiring under sliced reads: DltMessageIterator over LowMarkBufReader (the reader
   model of property C04, Reader/LowMark.v: fill_buf loop, compaction, consume) over a source that satisfies its
   reads in ARBITRARY slices -- [sched] is the list of read sizes the source chooses, each clipped to [1, room]; the
   empty schedule is the Cursor / regular-file case (every read satisfied completely) -- with any capacity and any
   low mark >= 16 + 65535 that LowMarkBufReader::new accepts: for EVERY schedule the run yields exactly the messages,
   in order, numbered from start, fields intact, and the same counters; what the reader has not handed out is a
   suffix of the trailing run shorter than a minimal message.  Reading in slices (pipe, socket, any `Read`
   adaptor) never changes C01's outcome: the reader keeps refilling until it holds low-mark bytes or the source
   is at its end (C04_lookahead), and on such windows the parsers answer as on the whole rest (stream_stable). *)
Theorem C01_iter_recovers_all_scheduled_reads
    (f : framing) (start : N) (segs : list seg) (gfin : bytes) (sched : list N) (capacity low : N) :
  16 + 65535 <= low -> low + 4096 <= capacity -> capacity <= usizemax ->
  nlen (stream f segs gfin) <= usizemax ->
  Forall (fun s => wf_amsg (snd s)) segs ->
  markers_only_at_starts f segs gfin ->
  start + N.of_nat (length segs) <= u32max ->
  exists st r',
    run_iter_rd start capacity low (stream f segs gfin) sched = Ok (expect_list f start segs, st, r') /\
    let tail := ndrop (stream_pos r') (stream f segs gfin) in
    (exists consumed, gfin = consumed ++ tail) /\
    blen tail < min_size f /\
    i_index st = start + N.of_nat (length segs) /\
    i_skipped st + blen tail = garbage_total segs + blen gfin /\
    i_processed st + blen tail = blen (stream f segs gfin) /\
    i_processed st <= blen (stream f segs gfin).
Proof. exact (iter_recovers_all_scheduled f start segs gfin sched capacity low). Qed.

(* the bound is tight: a reader that keeps the same contract with low = 16 + 65535 - 1 (shows 65550 bytes when more
   remain) loses a maximum-length message and everything after it -- 1 of 3 messages is yielded *)
Definition short_fill (r : bytes) : bytes * bytes := (r, if 65550 <? blen r then firstn (N.to_nat 65550) r else r).
Definition short_consume (n : N) (r : bytes) : bytes := skipn (N.to_nat n) r.
Definition max_msg : amsg :=
  {| a_secs := 1; a_micros := 2; a_secu := (69, 67, 85, 49); a_htyp := 32; a_mcnt := 2;
     a_ecu := (0, 0, 0, 0); a_sid := (0, 0, 0, 0); a_ts := 0; a_vmm := 0; a_noar := 0;
     a_apid := (0, 0, 0, 0); a_ctid := (0, 0, 0, 0); a_payload := repeat 46 (N.to_nat 65531) |}.
Definition tight_segs : list seg := [([], tiny_msg); ([], max_msg); ([], tiny_msg)].

Lemma short_reader_contract :
  (forall r, id (fst (short_fill r)) = id r /\ window_ok 65550 (id r) (snd (short_fill r))) /\
  (forall r n, n <= blen (snd (short_fill r)) -> id (short_consume n (fst (short_fill r))) = skipn (N.to_nat n) (id r)).
Proof.
  split; [|reflexivity]. intros r. split; [reflexivity|]. unfold short_fill, window_ok, id. cbn [snd].
  destruct (N.ltb_spec 65550 (blen r)) as [H|H].
  - split; [exists (skipn (N.to_nat 65550) r); symmetry; apply firstn_skipn|]. left.
    unfold blen in *. rewrite firstn_length. lia.
  - split; [exists []; symmetry; apply app_nil_r|right; reflexivity].
Qed.

Definition short_run_summary (s : bytes) : option (list N * N * N) :=
  match drain_gen bytes short_fill short_consume false (S (length s)) (S (length s)) (ist_new 0) s with
  | Ok (ms, st, r') => Some (map m_index ms, i_processed st, blen r')
  | _ => None
  end.
Definition tight_run_summary : option (list N * N * N) := short_run_summary (stream Storage tight_segs []).

Theorem C01_buffered_low_mark_tight :
  Forall (fun s => wf_amsg (snd s)) tight_segs /\ markers_only_at_starts Storage tight_segs [] /\
  (* only message 0 is yielded; 23 bytes processed; the maximum-length message and its successor stay unread *)
  tight_run_summary = Some ([0], 23, 16 + 65535 + 23) /\
  map m_index (expect_list Storage 0 tight_segs) = [0; 1; 2].
Proof.
  split; [repeat constructor; vm_compute; discriminate|].
  split; [apply markers_only_at_starts_lin_sound; vm_compute; reflexivity|].
  split; [vm_compute; reflexivity|reflexivity].
Qed.

(* non-vacuity: three messages (timestamp+ecu+ext / plain / all optional parts, big endian), garbage on all
   sides incl. a marker prefix, satisfy the hypotheses in both framings; the iterator returns the three *)
Definition ex_msg (h : N) (p : bytes) : amsg :=
  {| a_secs := 1700000000; a_micros := 123456; a_secu := (69, 67, 85, 49); a_htyp := h; a_mcnt := 7;
     a_ecu := (69, 67, 85, 88); a_sid := (0, 0, 0, 9); a_ts := 16909060; a_vmm := 65; a_noar := 1;
     a_apid := (65, 80, 73, 68); a_ctid := (67, 84, 73, 68); a_payload := p |}.
Definition ex_segs : list seg :=
  [([1; 2; 3], ex_msg 53 [97; 98]); ([68; 76; 84], ex_msg 32 []); ([], ex_msg 63 [120; 121; 122])].
Definition ex_gfin : bytes := repeat 0 25.

Example C01_nonvacuous :
  forall f,
    Forall (fun s => wf_amsg (snd s)) ex_segs /\ markers_only_at_starts f ex_segs ex_gfin /\
    10 + N.of_nat (length ex_segs) <= u32max /\
    exists st tail, run_iter 10 (stream f ex_segs ex_gfin) = Ok (expect_list f 10 ex_segs, st, tail) /\
                    length (expect_list f 10 ex_segs) = 3%nat /\ i_skipped st + blen tail = 31.
Proof.
  intros f.
  assert (Hwf : Forall (fun s => wf_amsg (snd s)) ex_segs).
  { repeat constructor; vm_compute; discriminate. }
  assert (Hm : markers_only_at_starts f ex_segs ex_gfin).
  { apply markers_only_at_startsb_sound. destruct f; vm_compute; reflexivity. }
  assert (Hi : 10 + N.of_nat (length ex_segs) <= u32max) by (vm_compute; discriminate).
  split; [exact Hwf|]. split; [exact Hm|]. split; [exact Hi|].
  destruct (C01_iter_recovers_all f 10 ex_segs ex_gfin Hwf Hm Hi) as (st & tail & Hr & _ & _ & _ & Hs & _).
  exists st, tail. split; [exact Hr|]. split; [reflexivity|]. rewrite Hs. reflexivity.
Qed.

(* non-vacuity of the scheduled-reads theorem: the example stream, the crate's constants (512 KiB, 65551 and 65555),
   both framings, under the all-1-byte schedule, 1000-byte slices and an irregular schedule: three messages each *)
Example C01_scheduled_reads_nonvacuous :
  forall f sched low, In sched [repeat 1 200; repeat 1000 5; [7; 1; 65536; 3; 19]] -> In low [65551; 65555] ->
    exists st r', run_iter_rd 10 524288 low (stream f ex_segs ex_gfin) sched = Ok (expect_list f 10 ex_segs, st, r') /\
                  length (expect_list f 10 ex_segs) = 3%nat /\
                  i_skipped st + blen (ndrop (stream_pos r') (stream f ex_segs ex_gfin)) = 31.
Proof.
  intros f sched low _ Hlow.
  destruct (C01_nonvacuous f) as (Hwf & Hm & Hi & _).
  assert (Hl : 16 + 65535 <= low /\ low + 4096 <= 524288).
  { destruct Hlow as [<-|[<-|[]]]; split; vm_compute; discriminate. }
  destruct Hl as [Hl1 Hl2].
  assert (Hu : 524288 <= usizemax) by (vm_compute; discriminate).
  assert (Hn : nlen (stream f ex_segs ex_gfin) <= usizemax) by (destruct f; vm_compute; discriminate).
  destruct (C01_iter_recovers_all_scheduled_reads f 10 ex_segs ex_gfin sched 524288 low Hl1 Hl2 Hu Hn Hwf Hm Hi)
    as (st & r' & Hr & _ & _ & _ & Hs & _).
  exists st, r'. split; [exact Hr|]. split; [reflexivity|]. rewrite Hs. reflexivity.
Qed.


(* ---------------------------------------------------------------------------------------------------------------
   The probe of an input file (wave 7): /repo/src/utils/mod.rs get_dlt_infos_from_read / _from_file, the entry point
   through which `adlt convert` and `adlt remote` look at every input file first (Dlt/Probe.v): ONE read() of at
   most read_size bytes ([first_read] = what the source delivers in that read; a regular file: everything), the
   iterator numbered from 0 over std::io::BufReader::with_capacity(read_size, Cursor(bytes read)), first message +
   the ECU ids of all messages.  [range] = N.min read_size first_read = the bytes the probe looks at. *)

(* the BufReader in between is transparent exactly because its capacity is not smaller than the bytes read:
   the probe's messages are those of the Cursor iterator on the window *)
Theorem C01_probe_buffer_transparent (cap read_size first_read : N) (data : bytes) :
  blen (probe_window read_size first_read data) <= cap ->
  probe_cap cap read_size first_read data =
  ('(ms, _, _) <- run_iter 0 (probe_window read_size first_read data) ;; Ok (probe_of ms))%res.
Proof. exact (probe_cap_cursor cap read_size first_read data). Qed.

(* ... and not otherwise: with a buffer of 64 bytes in between (std's default is 8 KiB) a message behind 100 bytes of
   garbage is not found although it lies well inside the 1000 bytes probed -- the iterator never asks its reader for
   more than fill_buf shows and a std BufReader refills only when empty; the probe as coded finds it *)
Definition probe_tight_data : bytes := repeat 85 100 ++ enc Serial tiny_msg.
Theorem C01_probe_small_buffer_refuted :
  probe_cap 64 1000 1000 probe_tight_data = Ok (None, []) /\
  probe 1000 1000 probe_tight_data = Ok (Some (expect Serial 0 tiny_msg), [(68, 76, 83, 0)]).
Proof. split; vm_compute; reflexivity. Qed.

(* the first message of an in-domain stream that ends within the probed range IS the probe's first message (all
   fields, index 0), however long the garbage in front of it and however large it is, wherever the range ends after
   it (inside a later message, inside garbage); its ECU id is among the ECU ids collected *)
Theorem C01_probe_finds_first_message (f : framing) (g : bytes) (a : amsg) (r : list seg) (gfin : bytes)
    (read_size first_read : N) :
  Forall (fun s => wf_amsg (snd s)) ((g, a) :: r) ->
  markers_only_at_starts f ((g, a) :: r) gfin ->
  N.min read_size first_read < u32max ->
  blen g + blen (enc f a) <= N.min read_size first_read ->
  exists ecus,
    probe read_size first_read (stream f ((g, a) :: r) gfin) = Ok (Some (expect f 0 a), ecus) /\
    In (m_ecu (expect f 0 a)) ecus.
Proof. exact (probe_first f g a r gfin read_size first_read). Qed.

(* the ECU ids collected are exactly those of the messages that lie completely inside the probed range -- [s1] -- in
   order; the next message [s2 = (g, a) :: _], cut anywhere (in the garbage in front of it, in its headers, in its
   payload), and everything behind the range contribute nothing; no message inside the range is lost *)
Theorem C01_probe_ecus_exact (f : framing) (s1 s2 : list seg) (gfin : bytes) (read_size first_read : N) :
  Forall (fun s => wf_amsg (snd s)) (s1 ++ s2) ->
  markers_only_at_starts f (s1 ++ s2) gfin ->
  N.of_nat (length s1) + 1 <= u32max ->
  blen (stream f s1 []) <= N.min read_size first_read ->
  (s2 = [] \/ exists g a r, s2 = (g, a) :: r /\
                            N.min read_size first_read < blen (stream f s1 []) + blen g + blen (enc f a)) ->
  probe read_size first_read (stream f (s1 ++ s2) gfin)
  = Ok (hd_error (expect_list f 0 s1), map m_ecu (expect_list f 0 s1)).
Proof. exact (probe_exact f s1 s2 gfin read_size first_read). Qed.

(* the same for the iterator itself on the first n bytes of a stream, any start index *)
Theorem C01_window_recovers_complete_messages (f : framing) (start : N) (s1 s2 : list seg) (gfin : bytes) (n : nat) :
  Forall (fun s => wf_amsg (snd s)) (s1 ++ s2) ->
  markers_only_at_starts f (s1 ++ s2) gfin ->
  (length (stream f s1 []) <= n)%nat ->
  (s2 = [] \/ exists g a r, s2 = (g, a) :: r /\ (n < length (stream f s1 []) + length g + length (enc f a))%nat) ->
  start + N.of_nat (length s1) + 1 <= u32max ->
  exists st rest, run_iter start (firstn n (stream f (s1 ++ s2) gfin)) = Ok (expect_list f start s1, st, rest).
Proof. exact (window_run f start s1 s2 gfin n). Qed.

(* the correspondence shards evaluate the accelerated forms (Dlt/IterFast.v: jump to the next frame marker instead of
   re-measuring the input at every garbage byte; Dlt/Probe.v probe_exec): equal on EVERY input *)
Theorem C01_fast_iter_equal (start : N) (data : bytes) : run_fast start data = run_iter start data.
Proof. exact (run_fast_eq start data). Qed.
Theorem C01_probe_exec_equal (read_size first_read : N) (data : bytes) :
  probe read_size first_read data = probe_exec read_size first_read data.
Proof. exact (probe_exec_eq read_size first_read data). Qed.

(* non-vacuity: the example stream probed with read_size = 70 -- the range ends inside the third message in both
   framings: first message = the stream's first message, ECU ids of the first two messages *)
Example C01_probe_nonvacuous :
  forall f,
    probe 70 1099511627776 (stream f ex_segs ex_gfin)
    = Ok (Some (expect f 0 (ex_msg 53 [97; 98])),
          [(69, 67, 85, 88); match f with Storage => (69, 67, 85, 49) | Serial => (68, 76, 83, 0) end]).
Proof.
  intros f. destruct (C01_nonvacuous f) as (Hwf & Hm & _).
  change ex_segs with (firstn 2 ex_segs ++ skipn 2 ex_segs) in Hwf, Hm |- *.
  rewrite (C01_probe_ecus_exact f (firstn 2 ex_segs) (skipn 2 ex_segs) ex_gfin 70 1099511627776 Hwf Hm).
  - destruct f; reflexivity.
  - vm_compute. discriminate.
  - destruct f; vm_compute; discriminate.
  - right. eexists. eexists. eexists. split; [reflexivity|]. destruct f; vm_compute; reflexivity.
Qed.

Print Assumptions C01_iter_recovers_all.
Print Assumptions C01_iter_recovers_all_storage.
Print Assumptions C01_iter_recovers_all_serial.
Print Assumptions C01_expect_fields.
Print Assumptions C01_parse_storage_single.
Print Assumptions C01_parse_serial_single.
Print Assumptions C01_parse_storage_never_panics.
Print Assumptions C01_parse_serial_never_panics.
Print Assumptions C01_run_total.
Print Assumptions C01_run_terminates.
Print Assumptions C01_iter_recovers_all_any_reader.
Print Assumptions C01_iter_recovers_all_scheduled_reads.
Print Assumptions C01_scheduled_reads_nonvacuous.
Print Assumptions C01_buffered_low_mark_tight.
Print Assumptions C01_incomplete_storage_frame_stops.
Print Assumptions C01_incomplete_storage_frame_witness.
Print Assumptions C01_markers_check_sound.
Print Assumptions C01_legacy_tiny_serial_refuted.
Print Assumptions C01_nonvacuous.
Print Assumptions C01_probe_buffer_transparent.
Print Assumptions C01_probe_small_buffer_refuted.
Print Assumptions C01_probe_finds_first_message.
Print Assumptions C01_probe_ecus_exact.
Print Assumptions C01_window_recovers_complete_messages.
Print Assumptions C01_fast_iter_equal.
Print Assumptions C01_probe_exec_equal.
Print Assumptions C01_probe_nonvacuous.
