(* C03 — No input content can crash ingestion and analysis.     Level: proof (PARTIAL).
   Statements only.

   C03 is a statement about the compiled Rust program (panics, aborts, arithmetic overflow, allocation).
   What is PROVED (for all inputs) is the arithmetic / indexing core that has a model:
     (A) the time arithmetic of the lifecycle detector (src/lifecycle/mod.rs), re-stated in
         Crash/LifecycleChk.v with every non-saturating `-` and every time `+` as a checked operation
         exactly where the source has it: for every message sequence in the machine ranges and every start
         table in range the checked detector never returns Panic and computes what the model computes;
         the range invariant (min timestamp <= max timestamp, bounded start / last reception time) is
         preserved by new / update / merge and by whole runs;
     (A') the parsers of control-message bodies (src/dlt/control_msgs.rs), modelled byte-exactly in
         Crash/ControlMsgs.v with every get(..).unwrap(), slice, index, Option::unwrap, usize + and - as a
         possible Panic: for ALL body byte strings, both byte orders and all status values they return without
         Panic; and on well-formed bodies GET_LOG_INFO / GET_SOFTWARE_VERSION parsing gives back what was encoded;
     (A'') the string helpers of src/utils/mod.rs that the text converters call for every line, modelled byte-exactly
         in Crash/TextUtils.v (strings = UTF-8 byte lists; is_char_boundary, slicing, chars(), trim(), to_string,
         format! padding, DltChar4::from_str, the tag -> apid map; every unwrap, slice, `end -= 1`, `4 - len`,
         `iteration += 1`, `acc + 1` as a possible Panic; loops on fuel): get_4digit_str never panics and slices at a
         char boundary; get_apid_for_tag, as repaired, returns for EVERY map and tag within 10000 turns of its loop,
         unique unless all 10000 candidates are in use, stable for a repeated tag; the loop before fix 7a6b3d3 panics
         (never returns) whenever the 10000 candidates of a tag are in use; the u32 counters before fix bf09881 overflow
         for a tag of 2^32 underscores; hex_to_bytes never panics and its value is characterised exactly;
     (A''') the time and length arithmetic of the asc and logcat converters as repaired (Crash/TextTime.v):
         parse_signed_time_str / parse_time_str for every &str of the regexes' shape (digit strings of any length),
         timestamp_dms_from, the date line, one CAN line (data slice, payload cut, u16 len), the GET_LOG_INFO len;
     (B) the no-panic / in-bounds theorems of the other properties' developments, re-exported below
         under C03_reexport_* names (framing parsers and reader loop C01, writer C02, argument iterator C18,
         time sort C10, file-transfer plugin incl. its allocation bound C17, remote dispatcher C15,
         low-mark reader C04, archive volume chain C20).
   What is only SEARCHED (harness/src/bin/c03.rs, isolated worker processes, whole chain): text rendering,
   control-message decoding, ECU/APID/CTID statistics, the non-verbose / SOME/IP / CAN / rewrite / muniic /
   anonymize plugins, the rest of the ASC / logcat / generic-log converters (regex matching, chrono, the threadtime
   format, CANFD lines), filters' regex engines, real allocation behaviour.  u32 message counters are outside (bounded by the u32 message index, C01).

   Ranges: [msg_ok B m] = reception time <= B and timestamp_us <= u32::MAX * 100; [lc_ok B L] = the range
   invariant; B is any bound with B + u32::MAX*100 + 60 s <= u64::MAX (instance: B = 2^63; the storage header
   gives at most 2^32 * 10^6 + 2^32 < 2^53, the repaired text converters at most i64::MAX + 8.3e18). *)
From Coq Require Import List NArith Bool Lia.
From AdltV Require Import Base.Res Base.MachInt Lifecycle.Model Crash.LifecycleChk Crash.LifecycleChkProofs.
From AdltV Require Crash.ControlMsgs Crash.ControlMsgsProofs.
From AdltV Require Crash.TextUtils Crash.TextUtilsProofs Crash.TextTime Crash.TextTimeProofs.
From Coq Require Import ZArith.
From AdltV Require Properties.C01 Properties.C02 Properties.C04 Properties.C10 Properties.C15 Properties.C17 Properties.C18 Properties.C20.
Import ListNotations.
Open Scope N_scope.

(* ------------------------------------------------------------------ (A) lifecycle detector arithmetic *)
(* the whole detector loop, any number of messages, empty or pre-populated table: no arithmetic panic,
   and the checked run is the model's run *)
Theorem C03_detector_arith_no_panic (B : N) (first : N) (pre : list lcy) (ms : list msg) :
  B + TSMAX + 60000000 <= MachInt.u64max ->
  Forall (lc_ok B) pre -> Forall (msg_ok B) ms ->
  run_chk (init first pre) ms = Ok (run (init first pre) ms).
Proof. intros HB. exact (detector_arith_no_panic B HB first pre ms). Qed.

(* afterwards every lifecycle held is in range again: the next run, the listing and resume_time() are safe *)
Theorem C03_detector_keeps_ranges (B : N) (first : N) (pre : list lcy) (ms : list msg) :
  B + TSMAX + 60000000 <= MachInt.u64max ->
  Forall (lc_ok B) pre -> Forall (msg_ok B) ms ->
  Forall (lc_ok B) (all_lcs (emap (fst (run (init first pre) ms)))).
Proof. intros HB. exact (detector_keeps_ranges B HB first pre ms). Qed.

(* instance: reception times below 2^63 *)
Theorem C03_detector_arith_no_panic_2pow63 (ms : list msg) :
  Forall (fun m => m_rt m <= 2 ^ 63 /\ m_ts m <= 4294967295 * 100) ms ->
  run_chk (init 1 []) ms = Ok (run (init 1 []) ms).
Proof.
  intros H. apply (C03_detector_arith_no_panic (2 ^ 63) 1 [] ms); [vm_compute; discriminate|constructor|].
  exact H.
Qed.

(* the single functions: the checked transcription equals the model (never Panic) *)
Theorem C03_new_refines (id : N) (m : msg) : new_lc_chk id m = Ok (new_lc id m).
Proof. refine (new_lc_chk_ok 0 _ id m). vm_compute. discriminate. Qed.

Theorem C03_update_refines (B : N) (L : lcy) (m : msg) (fresh : N) :
  B + TSMAX + 60000000 <= MachInt.u64max -> lc_ok B L -> msg_ok B m ->
  update_chk L m fresh = Ok (update L m fresh).
Proof. intros HB. exact (update_chk_ok B HB L m fresh). Qed.

Theorem C03_end_time_refines (B : N) (L : lcy) :
  B + TSMAX + 60000000 <= MachInt.u64max -> lc_ok B L -> end_time_chk L = Ok (end_time L).
Proof. intros HB. exact (end_time_chk_ok B HB L). Qed.

Theorem C03_merge_test_refines (B : N) (P L : lcy) :
  B + TSMAX + 60000000 <= MachInt.u64max -> lc_ok B P -> lc_ok B L -> needs_merge_chk P L = Ok (needs_merge P L).
Proof. intros HB. exact (needs_merge_chk_ok B HB P L). Qed.

(* the confirmation test, under the guard the code evaluates first (rt > ts + 60 s): in particular
   `lc.max_timestamp_us - lc.min_timestamp_us` cannot underflow because min <= max is invariant *)
Theorem C03_confirmation_refines (B : N) (m : msg) (L : lcy) :
  B + TSMAX + 60000000 <= MachInt.u64max -> lc_ok B L -> msg_ok B m ->
  m_ts m + MAX_BUFFERING_DELAY < m_rt m ->
  confirmable_chk m L (m_ts m + MAX_BUFFERING_DELAY) = Ok (confirmable m L).
Proof. intros HB. exact (confirmable_chk_ok B HB m L). Qed.

(* ... and the invariant IS needed: with min > max the subtraction panics (so the theorem is about the code's
   guards/invariants, not about a totalised model) *)
Theorem C03_confirmation_needs_invariant :
  exists (m : msg) (L : lcy),
    m_ts m + MAX_BUFFERING_DELAY < m_rt m /\ l_max_ts L < l_min_ts L /\
    confirmable_chk m L (m_ts m + MAX_BUFFERING_DELAY) = Panic site_sub_overflow.
Proof.
  exists {| m_index := 0; m_ecu := 1; m_rt := 100000000; m_ts := 0; m_has_ts := true; m_creq := false; m_lc := 0 |},
         {| l_id := 1; l_ecu := 2; l_nr := 1; l_nr_creq := 0; l_start := 90000000; l_min_ts := 5; l_max_ts := 4;
            l_last_rt := 90000000; l_resume := None |}.
  vm_compute. repeat split; reflexivity.
Qed.

(* the range invariant is established by Lifecycle::new and preserved by update (both results) and merge *)
Theorem C03_ranges_new (B : N) (id : N) (m : msg) :
  B + TSMAX + 60000000 <= MachInt.u64max -> msg_ok B m -> lc_ok B (new_lc id m).
Proof. intros HB. exact (new_lc_ok B HB id m). Qed.
Theorem C03_ranges_update (B : N) (L : lcy) (m : msg) (fresh : N) :
  B + TSMAX + 60000000 <= MachInt.u64max -> lc_ok B L -> msg_ok B m ->
  lc_ok B (fst (update L m fresh)) /\ (forall Ln, snd (update L m fresh) = Some Ln -> lc_ok B Ln).
Proof. intros HB. exact (update_ok B HB L m fresh). Qed.
Theorem C03_ranges_merge (B : N) (P L : lcy) :
  B + TSMAX + 60000000 <= MachInt.u64max -> lc_ok B P -> lc_ok B L -> lc_ok B (merge P L).
Proof. intros HB. exact (merge_ok B HB P L). Qed.

(* what `adlt convert` computes for every listed lifecycle *)
Theorem C03_resume_time_no_panic (B : N) (L : lcy) :
  B + TSMAX + 60000000 <= MachInt.u64max -> lc_ok B L -> is_ok (resume_time_chk L) = true.
Proof. intros HB. exact (resume_time_chk_total B HB L). Qed.

(* index arithmetic of the detector's periodic refresh (u32 message indices; repaired by fix 4811f3c): the saturating
   test is total and equals the test of Lifecycle/Model.v (unbounded N) for EVERY index pair; the former checked
   `+ 100_000` panicked for indices within 100 000 of u32::MAX and agreed with the repaired test everywhere else *)
Theorem C03_refresh_index_arith_total (lastreg lastidx : N) :
  lastidx <= MachInt.u32max -> refresh_due_sat lastreg lastidx = (lastreg + 100000 <? lastidx).
Proof. exact (refresh_due_sat_is_model lastreg lastidx). Qed.
Theorem C03_refresh_index_arith_before_fix_refuted :
  exists lastreg lastidx, lastreg <= lastidx /\ lastidx <= MachInt.u32max /\
    refresh_due_before_fix lastreg lastidx = Panic MachInt.site_add_overflow.
Proof. exact refresh_due_before_fix_panics. Qed.
Theorem C03_refresh_index_arith_fix_conservative (lastreg lastidx : N) :
  lastreg + 100000 <= MachInt.u32max -> refresh_due_before_fix lastreg lastidx = Ok (refresh_due_sat lastreg lastidx).
Proof. exact (refresh_due_before_fix_ok_below lastreg lastidx). Qed.

(* non-vacuity: the witness of the repaired assert defect (a confirmed lifecycle merged while its predecessor is
   still buffered; DESIGN Appendix A, C03-2) satisfies the hypotheses; the checked run succeeds, performs a merge
   (2 lifecycles for ECU 1 collapse into 1) and delivers all 5 messages at the end of the stream *)
Definition nv_msgs : list msg :=
  let mk i e rt ts := {| m_index := i; m_ecu := e; m_rt := rt; m_ts := ts; m_has_ts := true; m_creq := false; m_lc := 0 |} in
  [mk 0 1 1000000000000 20000000; mk 1 1 1000000500000 0; mk 2 1 999999000000 0; mk 3 2 1000060000000 0; mk 4 1 999995000000 0].
Example C03_nonvacuous :
  Forall (msg_ok (2 ^ 63)) nv_msgs /\
  (exists d o, run_chk (init 1 []) nv_msgs = Ok (d, o) /\
               length (all_lcs (emap d)) = 2%nat /\ length (o ++ snd (finish d)) = 5%nat).
Proof.
  split.
  - unfold nv_msgs. repeat constructor; vm_compute; discriminate.
  - eexists. eexists. split; [vm_compute; reflexivity|]. split; vm_compute; reflexivity.
Qed.

(* ------------------------------------------------------------------ (A') control-message body parsers *)
(* [fits p]: |p| + 65535 <= usize::MAX (every slice in memory).  Model conventions: a description / version string
   is the raw byte slice handed to the WINDOWS-1252 decoder; i8 / i32 values are kept as unsigned bytes. *)
Theorem C03_ctrl_log_info_no_panic (status : N) (be : bool) (p : Crash.ControlMsgs.bytes) :
  Crash.ControlMsgsProofs.fits p -> exists apps, Crash.ControlMsgs.parse_log_info status be p = Ok apps.
Proof. exact (Crash.ControlMsgsProofs.log_info_no_panic status be p). Qed.

Theorem C03_ctrl_sw_version_no_panic (be : bool) (p : Crash.ControlMsgs.bytes) :
  exists r, Crash.ControlMsgs.parse_sw_version be p = Ok r.
Proof. exact (Crash.ControlMsgsProofs.sw_version_no_panic be p). Qed.

Theorem C03_ctrl_unregister_context_no_panic (p : Crash.ControlMsgs.bytes) :
  exists r, Crash.ControlMsgs.parse_unregister_context p = Ok r.
Proof. exact (Crash.ControlMsgsProofs.unregister_context_no_panic p). Qed.

Theorem C03_ctrl_connection_info_no_panic (p : Crash.ControlMsgs.bytes) :
  exists r, Crash.ControlMsgs.parse_connection_info p = Ok r.
Proof. exact (Crash.ControlMsgsProofs.connection_info_no_panic p). Qed.

Theorem C03_ctrl_timezone_no_panic (be : bool) (p : Crash.ControlMsgs.bytes) :
  exists r, Crash.ControlMsgs.parse_timezone be p = Ok r.
Proof. exact (Crash.ControlMsgsProofs.timezone_no_panic be p). Qed.

(* parse_payload_int: never a panic; Some exactly when the integer lies inside the payload *)
Theorem C03_ctrl_parse_int_total (w : N) (be : bool) (p : Crash.ControlMsgs.bytes) (off : N) :
  off + w <= usizemax -> exists o, Crash.ControlMsgs.parse_payload_int w be p off = Ok o.
Proof. exact (Crash.ControlMsgsProofs.ppi_total w be p off). Qed.

(* the bookkeeping invariant offset + avail = |payload| is what keeps every access in bounds: one turn of the
   context loop preserves it (this is the lemma a dropped `avail -= ..` breaks) *)
Theorem C03_ctrl_context_step_keeps_invariant (hl hts hd be : bool) (p : Crash.ControlMsgs.bytes) (off av : N) :
  Crash.ControlMsgsProofs.fits p -> Crash.ControlMsgsProofs.Inv p off av ->
  exists r, Crash.ControlMsgs.ctx_step hl hts hd be p off av = Ok r /\
            forall c o' a', r = Some (c, o', a') -> Crash.ControlMsgsProofs.Inv p o' a'.
Proof. intros Hf. exact (Crash.ControlMsgsProofs.ctx_step_ok hl hts hd be p Hf off av). Qed.

(* functional sanity (the model is not degenerate): for every status 3..7, both byte orders, every list of
   well-formed applications / contexts (4 byte ids, level / trace status present exactly when the status says so,
   descriptions of 1..65535 bytes or absent, present only for status 7): parse (encode apps) = apps *)
Theorem C03_ctrl_log_info_decode_encode (status : N) (be : bool) (apps : list Crash.ControlMsgs.app) :
  3 <= status <= 7 ->
  N.of_nat (length apps) < 65536 ->
  Forall (Crash.ControlMsgsProofs.wf_app (Crash.ControlMsgs.has_ll status) (Crash.ControlMsgs.has_ts status)
            (Crash.ControlMsgs.has_d status)) apps ->
  Crash.ControlMsgsProofs.fits (Crash.ControlMsgsProofs.enc_log_info (Crash.ControlMsgs.has_d status) be apps) ->
  Crash.ControlMsgs.parse_log_info status be (Crash.ControlMsgsProofs.enc_log_info (Crash.ControlMsgs.has_d status) be apps)
  = Ok apps.
Proof. exact (Crash.ControlMsgsProofs.log_info_decode_encode status be apps). Qed.

Theorem C03_ctrl_sw_version_decode_encode (be : bool) (s tail : Crash.ControlMsgs.bytes) :
  Crash.ControlMsgs.blen s < 256 ->
  Crash.ControlMsgs.parse_sw_version be (Crash.ControlMsgsProofs.len4 be (Crash.ControlMsgs.blen s) ++ s ++ tail) = Ok (Some s).
Proof. exact (Crash.ControlMsgsProofs.sw_version_decode_encode be s tail). Qed.

(* non-vacuity of the round trip: status 7, little endian, one application "APID" with description "ad" and one
   context "CTID" (level 4, trace status 1, description "cd"); 24 body bytes *)
Example C03_ctrl_nonvacuous :
  let c := {| Crash.ControlMsgs.c_id := [67; 84; 73; 68]; Crash.ControlMsgs.c_ll := Some 4;
              Crash.ControlMsgs.c_ts := Some 1; Crash.ControlMsgs.c_desc := Some [99; 100] |} in
  let a := {| Crash.ControlMsgs.a_id := [65; 80; 73; 68]; Crash.ControlMsgs.a_ctxs := [c];
              Crash.ControlMsgs.a_desc := Some [97; 100] |} in
  Forall (Crash.ControlMsgsProofs.wf_app true true true) [a] /\
  Crash.ControlMsgsProofs.enc_log_info true false [a] =
    [1; 0; 65; 80; 73; 68; 1; 0; 67; 84; 73; 68; 4; 1; 2; 0; 99; 100; 2; 0; 97; 100] /\
  Crash.ControlMsgs.parse_log_info 7 false (Crash.ControlMsgsProofs.enc_log_info true false [a]) = Ok [a].
Proof.
  cbv zeta. split; [|split; vm_compute; reflexivity].
  constructor; [|constructor]. unfold Crash.ControlMsgsProofs.wf_app. cbn.
  repeat split; try lia; try (eexists; reflexivity).
  constructor; [|constructor]. unfold Crash.ControlMsgsProofs.wf_ctx. cbn. repeat split; try lia; eexists; reflexivity.
Qed.

(* ------------------------------------------------------------------ (A'') string helpers of src/utils/mod.rs *)
Module TU := Crash.TextUtils.
Module TUP := Crash.TextUtilsProofs.
Module TT := Crash.TextTime.
Module TTP := Crash.TextTimeProofs.

(* get_4digit_str(a_str, iteration): for EVERY byte string (valid UTF-8 or not) and EVERY iteration: no panic; the
   result is a_str (iteration 0), a_str + the zero-padded number (short a_str), or a prefix of a_str + the number where
   the prefix `&a_str[0..end]` is cut at a char boundary end <= 3, end <= len -- the slice never panics *)
Theorem C03_get_4digit_str_no_panic (s : TU.bytes) (it : N) :
  exists r, TU.get_4digit_str s it = Ok r /\
    ((it = 0 /\ r = s) \/
     (it <> 0 /\ TU.blen s < 4 /\ r = s ++ TU.pad0 (4 - TU.blen s) (TU.dec it)) \/
     (it <> 0 /\ exists e, e <= 3 /\ e <= TU.blen s /\ TU.is_char_boundary s e = true /\
                         TU.str_slice s 0 e = Ok (firstn (N.to_nat e) s) /\ r = firstn (N.to_nat e) s ++ TU.dec it)).
Proof. exact (TUP.get_4digit_str_spec s it). Qed.

(* one turn of the loop: the candidate is computed without panic for every trimmed tag and iteration (the blank,
   short, snake_case and CamelCase branches, the eager NoAs fallback) *)
Theorem C03_apid_candidate_no_panic (t : TU.bytes) (it : N) :
  TU.blen t <= usizemax -> exists a, TU.candidate t it = Ok a.
Proof. exact (TUP.candidate_total t it). Qed.

(* get_apid_for_tag as repaired (4e6600d, c5fa240, 7a6b3d3, bf09881): for EVERY map (any size, any content) and EVERY
   tag: Ok (no Panic, the fuel 10001 is never exhausted), at an iteration <= 9999; a tag of the map keeps its apid; a
   new tag gets a candidate of its trimmed form that no other tag uses -- unless iteration 9999 was reached -- and
   every earlier candidate was in use *)
Theorem C03_apid_for_tag_terminates (m : TU.amap) (tag : TU.bytes) : TU.blen tag <= usizemax ->
  exists a it m', TU.get_apid_for_tag m tag = Ok (a, it, m') /\ it <= TU.LAST_ITERATION /\
    (forall e, TU.map_get tag m = Some e -> a = e /\ it = 0 /\ m' = m) /\
    (TU.map_get tag m = None ->
       m' = TU.map_insert tag a m /\ TU.candidate (TU.trim tag) it = Ok a /\
       (TU.values_contain m a = true -> it = TU.LAST_ITERATION) /\
       (forall j b, j < it -> TU.candidate (TU.trim tag) j = Ok b -> TU.values_contain m b = true)).
Proof. exact (TUP.get_apid_for_tag_ok m tag). Qed.

(* the same tag asked twice gives the same apid (and no turn of the loop); other tags keep theirs *)
Theorem C03_apid_for_tag_idempotent (m m' : TU.amap) (tag : TU.bytes) (a it : N) :
  TU.get_apid_for_tag m tag = Ok (a, it, m') -> TU.get_apid_for_tag m' tag = Ok (a, 0, m').
Proof. exact (TUP.get_apid_for_tag_idempotent m m' tag a it). Qed.
Theorem C03_apid_for_tag_keeps_others (m m' : TU.amap) (tag other : TU.bytes) (a it : N) :
  TU.get_apid_for_tag m tag = Ok (a, it, m') -> other <> tag -> TU.map_get other m' = TU.map_get other m.
Proof. exact (TUP.get_apid_for_tag_keeps_others m m' tag other a it). Qed.

(* with the namespace table in front, and any sequence of calls *)
Theorem C03_apid_for_tag_ns_no_panic (g : TU.nsmap) (ns : N) (tag : TU.bytes) : TU.blen tag <= usizemax ->
  exists a it g', TU.get_apid_for_tag_ns g ns tag = Ok (a, it, g') /\ it <= TU.LAST_ITERATION.
Proof. exact (TUP.get_apid_for_tag_ns_ok g ns tag). Qed.
Theorem C03_apid_sequence_no_panic (tags : list TU.bytes) (m : TU.amap) :
  Forall (fun t => TU.blen t <= usizemax) tags ->
  exists r m', TU.apids_of_tags m tags = Ok (r, m') /\ length r = length tags.
Proof. exact (TUP.apids_of_tags_ok tags m). Qed.

(* before fix 7a6b3d3 (no bound on the iteration): for EVERY map and tag, if the candidates of the iterations 0..9999
   are all in use, the five-digit iterations repeat the candidates 1000..6553 and the loop runs until `iteration += 1`
   overflows the u16 -- a panic in a debug build, no return at all otherwise *)
Theorem C03_apid_before_fix_panics_when_exhausted (m : TU.amap) (tag : TU.bytes) : TU.blen tag <= usizemax ->
  TU.map_get tag m = None ->
  (forall it a, it <= 9999 -> TU.candidate (TU.trim tag) it = Ok a -> TU.values_contain m a = true) ->
  forall fuel, (N.to_nat 65536 <= fuel)%nat -> TU.get_apid_for_tag_before_fix fuel m tag = Panic MachInt.site_add_overflow.
Proof. exact (TUP.before_fix_panics_when_exhausted m tag). Qed.
(* ... and such a map exists: tag "x", its 10000 candidates held by the tags "xx0" .. "xx9999" (on the real code: the
   corpus witness w_apid_exhausted) *)
Theorem C03_apid_before_fix_refuted :
  exists (m : TU.amap) (tag : TU.bytes), TU.utf8_valid tag = true /\ TU.map_get tag m = None /\
    (forall fuel, (N.to_nat 65536 <= fuel)%nat -> TU.get_apid_for_tag_before_fix fuel m tag = Panic MachInt.site_add_overflow) /\
    (forall fuel r, TU.get_apid_for_tag_before_fix fuel m tag <> Ok r).
Proof. exact TUP.get_apid_for_tag_before_fix_panics. Qed.
(* before fix bf09881 the '_' / capital counters were u32: a (valid UTF-8) tag of 2^32 underscores overflows them *)
Theorem C03_apid_count_u32_before_fix_refuted :
  exists t : TU.bytes, TU.utf8_valid t = true /\ TU.blen t = 4294967296 /\
    TU.count_chk_gen u32max TU.is_underscore (TU.chars t) = Panic MachInt.site_add_overflow.
Proof. exact TUP.count_u32_before_fix_panics. Qed.

(* hex_to_bytes: for EVERY &str no panic -- `s.len() - 2` is guarded, every `&s[i..i + 2]` is in range and on char
   boundaries (the string is ASCII there) -- and the value: Some exactly for ASCII strings made of groups of two
   characters that u8::from_str_radix(_, 16) accepts, separated by ONE character that is not looked at *)
Theorem C03_hex_to_bytes_spec (s : TU.bytes) : TU.blen s + 2 <= usizemax ->
  TU.hex_to_bytes s = Ok (if TU.all_ascii s then TUP.hex_groups s else None).
Proof. exact (TUP.hex_to_bytes_spec s). Qed.
Theorem C03_hex_to_bytes_no_panic (s : TU.bytes) : TU.blen s + 2 <= usizemax -> exists o, TU.hex_to_bytes s = Ok o.
Proof. exact (TUP.hex_to_bytes_total s). Qed.
(* what from_str_radix accepts for a group: two hex digits of either case, or '+' and ONE hex digit *)
Theorem C03_hex_group_accepted (a b v : N) :
  TU.u8_from_str_radix16 [a; b] = Some v <->
  (exists x y, TU.hex_digit a = Some x /\ TU.hex_digit b = Some y /\ v = 16 * x + y) \/
  (a = 43 /\ exists y, TU.hex_digit b = Some y /\ v = y).
Proof. exact (TUP.u8_radix16_pair a b v). Qed.

(* non-vacuity / the model is not degenerate: the tags "Abcd", "Abcd " (trailing blank), "éé" and "  " in one
   namespace get "Abcd", "Abc1", "NoAs" and " " (iterations 0, 1, 0, 0); "+f ab" is the bytes 0x0f 0xab; "a b" is None *)
Example C03_text_utils_nonvacuous :
  TU.apids_of_tags [] [[65; 98; 99; 100]; [65; 98; 99; 100; 32]; [195; 169; 195; 169]; [32; 32]] =
    Ok ([1096967012; 1096966961; 1315914099; 536870912],
        [([32; 32], 536870912); ([195; 169; 195; 169], 1315914099); ([65; 98; 99; 100; 32], 1096966961); ([65; 98; 99; 100], 1096967012)]) /\
  TU.hex_to_bytes [43; 102; 32; 97; 98] = Ok (Some [15; 171]) /\ TU.hex_to_bytes [97; 32; 98] = Ok None.
Proof. vm_compute. repeat split; reflexivity. Qed.

(* high iterations are reached from the EMPTY map by calls of the function itself: after the 1000 tags Wxyz, Wxy1..Wxy9,
   Wx10..Wx99, W100..W999 (each gets itself as apid) the tag "Wxyze" runs through the candidates Wxyz, Wxy1, .., W999 and
   gets "1000" at iteration 1000 (evaluated; the exhausted family of 10 000 tags is evaluated by the thorough tier) *)
Example C03_apid_iteration_1000_reachable :
  let num := fun (pre : TU.bytes) (lo : N) (n : nat) => map (fun k => pre ++ TU.dec (lo + N.of_nat k)) (seq 0 n) in
  let tags := [[87; 120; 121; 122]] ++ num [87; 120; 121] 1 9%nat ++ num [87; 120] 10 90%nat ++ num [87] 100 900%nat in
  match TU.apids_of_tags [] tags with
  | Ok (r, m) => length r = 1000%nat /\
                 exists m', TU.get_apid_for_tag m [87; 120; 121; 122; 101] = Ok (TU.c4_of (TU.dec 1000), 1000, m')
  | _ => False
  end.
Proof. vm_compute. split; [reflexivity|eexists; reflexivity]. Qed.

(* ------------------------------------------------------------------ (A''') time / length arithmetic of the converters *)
(* asc, parse_signed_time_str: for every &str of the shape the regexes capture (at most one leading '-'; digit strings
   of ANY length, non-ASCII digits: parse errors become 0): no panic, and the value can be negated *)
Theorem C03_asc_parse_time_no_panic (ts : TU.bytes) :
  TU.utf8_valid ts = true -> TU.blen ts + 1 <= usizemax -> TTP.ts_shape ts ->
  exists v, TT.parse_signed_time_str ts = Ok v /\ (TT.i64min < v <= TT.i64max)%Z.
Proof. exact (TTP.parse_signed_time_str_total ts). Qed.
(* the shape IS needed: "--9223372036854775808.0" makes the unary minus overflow *)
Theorem C03_asc_parse_time_needs_shape :
  exists ts, TU.utf8_valid ts = true /\ ~ TTP.ts_shape ts /\ TT.parse_signed_time_str ts = Panic TT.site_neg_overflow.
Proof. exact TTP.parse_signed_time_str_needs_shape. Qed.
Theorem C03_asc_timestamp_dms_no_panic (st : TT.asc_st) (ts : BinNums.Z) : (TT.i64min < ts)%Z ->
  exists d, TT.timestamp_dms_from st ts = Ok d.
Proof. exact (TTP.timestamp_dms_from_total st ts). Qed.
Theorem C03_asc_date_line_no_panic (st : TT.asc_st) (reference : option N) (nt : BinNums.Z) :
  exists st', TT.asc_date_line st reference nt = Ok st'.
Proof. exact (TTP.asc_date_line_total st reference nt). Qed.
(* one CAN line after the regex matched (captures on char boundaries, timestamp of its shape): whatever the line and the
   data length field are: no panic, standard_header.len <= u16::MAX (the payload is cut), reception time in u64 *)
Theorem C03_asc_can_line_no_panic (st : TT.asc_st) (line ts_s d_s : TU.bytes) (ts_a ts_b d_a d_b : N) :
  TU.str_slice line ts_a ts_b = Ok ts_s -> TU.utf8_valid ts_s = true -> TTP.ts_shape ts_s ->
  TU.str_slice line d_a d_b = Ok d_s -> d_b <= TU.blen line -> TU.blen line + 200000 <= usizemax ->
  exists st' rt tdms len data, TT.asc_can_line st line ts_a ts_b d_a d_b = Ok (st', (rt, tdms, len, data)) /\
    len <= u16max /\ rt <= u64max /\ TU.blen data + 4 + TT.LEN_WO_PAYLOAD <= u16max.
Proof. exact (TTP.asc_can_line_total st line ts_s d_s ts_a ts_b d_a d_b). Qed.
(* `len` of the GET_LOG_INFO message of a BusMapping line / a new logcat or genlog tag: never above u16::MAX *)
Theorem C03_info_msg_len_no_overflow (n : N) : exists l, TT.info_msg_len n = Ok l /\ l <= u16max.
Proof. exact (TTP.info_msg_len_ok n). Qed.
(* logcat, parse_time_str and one monotonic line: for EVERY &str: no panic; reception time <= i64::MAX *)
Theorem C03_logcat_parse_time_no_panic (ts : TU.bytes) : TU.utf8_valid ts = true -> TU.blen ts + 1 <= usizemax ->
  exists v, TT.parse_time_str ts = Ok v /\ v <= u64max.
Proof. exact (TTP.parse_time_str_total ts). Qed.
Theorem C03_logcat_line_no_panic (start : N) (ts : TU.bytes) : TU.utf8_valid ts = true -> TU.blen ts + 1 <= usizemax ->
  exists rt tdms, TT.logcat_mono_line start ts = Ok (rt, tdms) /\ rt <= TT.i64max_n /\ tdms <= u32max.
Proof. exact (TTP.logcat_mono_line_total start ts). Qed.
(* the operations the fixes 21ad8ac, 9d724de, be7e6d2 removed do panic on the witnesses of those defects *)
Theorem C03_text_time_before_fixes_refuted :
  TT.i64_mul_chk 99999999999999 1000000 = Panic MachInt.site_mul_overflow /\
  mul_chk u64max 99999999999999 1000000 = Panic MachInt.site_mul_overflow /\
  add_chk u16max TT.LEN_WO_PAYLOAD (trunc 16 (4 + 65510)) = Panic MachInt.site_add_overflow.
Proof.
  split; [exact TTP.asc_secs_mul_before_fix_refuted|]. split; [exact TTP.logcat_secs_mul_before_fix_refuted|exact TTP.u16_len_before_fix_refuted].
Qed.
(* non-vacuity: the line "   -0.985210 1  36f             Rx   d 5 f2 f7 fe ff 14 " (the code takes the data only if something
   follows them) after a date line of 12.4.2022 with a
   reference time 100 s earlier: reception time date - 0.98521 s, timestamp (1 000 000 - 9852) * 0.1 ms, len 22 + 4 + 5 *)
Example C03_text_time_nonvacuous :
  let line := [32; 32; 32; 45; 48; 46; 57; 56; 53; 50; 49; 48; 32; 49; 32; 32; 51; 54; 102; 32; 32; 32; 32; 32; 32; 32; 32; 32; 32; 32; 32; 32;
               82; 120; 32; 32; 32; 100; 32; 53; 32; 102; 50; 32; 102; 55; 32; 102; 101; 32; 102; 102; 32; 49; 52; 32] in
  exists st, TT.asc_date_line {| TT.a_date_us := 0; TT.a_offset_dms := 0; TT.a_first_neg := 0%Z |} (Some 1649753637000000) 1649753737000000%Z = Ok st /\
    TT.asc_can_line st line 3 12 39 40 =
      Ok ({| TT.a_date_us := 1649753737000000; TT.a_offset_dms := 1000000; TT.a_first_neg := (-985210)%Z |},
          (1649753736014790, 990148, 31, [242; 247; 254; 255; 20])).
Proof.
  cbv zeta. exists {| TT.a_date_us := 1649753737000000; TT.a_offset_dms := 1000000; TT.a_first_neg := 0%Z |}.
  split; vm_compute; reflexivity.
Qed.

(* ------------------------------------------------------------------ (B) re-exported no-panic theorems *)
(* C01: both framing parsers, with every slice / index / expect / usize subtraction checked, never panic *)
Theorem C03_reexport_parse_storage_never_panics (index : N) (data : Dlt.Frame.bytes) :
  Dlt.Frame.parse_storage_chk index data = Ok (Dlt.Frame.parse_storage index data).
Proof. exact (Properties.C01.C01_parse_storage_never_panics index data). Qed.
Theorem C03_reexport_parse_serial_never_panics (index : N) (data : Dlt.Frame.bytes) :
  Dlt.Frame.parse_serial_chk index data = Ok (Dlt.Frame.parse_serial index data).
Proof. exact (Properties.C01.C01_parse_serial_never_panics index data). Qed.
(* C01: the reader loop (skip-one-byte resynchronisation) terminates without panic on EVERY byte string
   (the u32 message index aside) *)
Theorem C03_reexport_iterator_no_panic (start : N) (data : Dlt.Frame.bytes) :
  start + N.of_nat (length data) <= u32max ->
  exists ms st rest, Dlt.Iter.run_iter start data = Ok (ms, st, rest).
Proof.
  intros H. destruct (Properties.C01.C01_run_total start data H) as (ms & st & rest & E & _).
  exists ms, st, rest. exact E.
Qed.
(* C02: re-serialising a message that came out of a parser neither panics nor hits the length error (WOk) *)
Theorem C03_reexport_write_no_panic (m : Dlt.Frame.msg) :
  Properties.C02.parsed m -> exists bytes, Dlt.Write.msg_to_write m = Ok (Dlt.Write.WOk bytes).
Proof. exact (Properties.C02.C02_write_ok m). Qed.
(* C18: argument iteration over ARBITRARY payload bytes terminates without panic, every raw slice in bounds *)
Theorem C03_reexport_args_in_bounds (verbose be : bool) (p : Dlt.Args.bytes) :
  Dlt.ArgsProofs.fits p -> Dlt.ArgsProofs.wf_bytes p ->
  exists args, Dlt.Args.msg_args verbose be p = Ok args /\
    Forall (fun a => Dlt.ArgsProofs.sub_slice p (Dlt.Args.a_raw a) /\ Dlt.Args.a_be a = be) args.
Proof. exact (Properties.C18.C18_decode_in_bounds verbose be p). Qed.
(* C10: the time sort returns (no panic) whenever the u64 sums it forms fit *)
Theorem C03_reexport_sort_no_panic pick w mind B (lcs : Sort.BufferSort.tables) input :
  1 <= w ->
  2 * B + mind + Sort.BufferSort.YOUNG_DELAY + w * Sort.BufferSort.US_PER_SEC <= MachInt.u64max ->
  Forall (fun m => Sort.BufferSort.m_rt m <= B /\
                   (Sort.BufferSort.m_ctrl m = false -> forall i np,
                      Sort.BufferSort.lc_start (lcs i np) (Sort.BufferSort.m_lc m) + Sort.BufferSort.m_ts m * 100 <= MachInt.u64max)) input ->
  exists out, Sort.BufferSort.run pick w mind lcs input = Ok out.
Proof.
  intros Hw Hov Hin. destruct (Properties.C10.C10_sort_no_panic pick w mind B lcs input Hw Hov Hin) as (out & E & _).
  exists out. exact E.
Qed.
(* C17: the file-transfer plugin never panics and never requests more than the cap, whatever was announced *)
Theorem C03_reexport_file_transfer_no_panic (c : FileTransfer.Ft.cfg) fs (ms : list FileTransfer.Ft.msg) :
  N.of_nat (length ms) + 1 <= u32max -> Forall FileTransfer.FtProofs.wf_msg ms ->
  exists s rets, FileTransfer.Ft.run c (FileTransfer.Ft.init_st fs) ms = Ok (s, rets).
Proof. exact (Properties.C17.C17_no_panic c fs ms). Qed.
Theorem C03_reexport_file_transfer_alloc_bounded (c : FileTransfer.Ft.cfg) fs ms s rets t :
  FileTransfer.Ft.run c (FileTransfer.Ft.init_st fs) ms = Ok (s, rets) -> In t (FileTransfer.Ft.s_transfers s) ->
  FileTransfer.Ft.t_cap t <= FileTransfer.Ft.MAX_PREALLOC.
Proof. exact (Properties.C17.C17_prealloc_bounded c fs ms s rets t). Qed.
(* C15: the remote dispatcher answers every command of every history without a panic *)
Theorem C03_reexport_remote_no_crash (st : Remote.Dispatch.state) (h : list Remote.Dispatch.item) :
  exists st' ws, Remote.Dispatch.run st h = Ok (st', ws) /\ length ws = length h.
Proof.
  destruct (Properties.C15.C15_one_reply_no_crash st h) as (st' & ws & E & El & _). exists st', ws. split; assumption.
Qed.

(* C04: the low-mark buffered reader: construction and every sequence of fill_buf/consume/read/seek, under every
   read-size schedule of the source, without panic (indexing, copy_within, usize arithmetic) *)
Theorem C03_reexport_reader_no_panic data sched capacity low (ops : list Reader.LowMark.op) :
  0 < low -> low + 4096 <= capacity -> capacity <= usizemax -> Reader.LowMark.nlen data <= usizemax ->
  Forall (Reader.LowMarkSpec.op_wf capacity) ops ->
  exists r0 evs r',
    Reader.LowMark.new_reader {| Reader.LowMark.s_rest := data; Reader.LowMark.s_sched := sched |} capacity low = Ok r0 /\
    Reader.LowMark.run_now r0 ops = Ok (evs, r').
Proof.
  intros H1 H2 H3 H4 H5.
  destruct (Properties.C04.C04_reader_refines_stream data sched capacity low ops H1 H2 H3 H4 H5) as (r0 & evs & r' & E1 & E2 & _).
  exists r0, evs, r'. split; assumption.
Qed.
(* C20: the chain of archive volumes: every session of reads and seeks, without panic *)
Theorem C03_reexport_volume_chain_no_panic (datas : list (list N)) (ops : list Archive.Chain.op) :
  N.of_nat (length (concat datas)) <= MachInt.u64max ->
  exists rs, Archive.Chain.chain_session datas ops = Ok rs.
Proof.
  intros H. destruct (Properties.C20.C20_chain_refines_concat datas ops H) as (rs & E & _). exists rs. exact E.
Qed.

Print Assumptions C03_detector_arith_no_panic.
Print Assumptions C03_detector_keeps_ranges.
Print Assumptions C03_detector_arith_no_panic_2pow63.
Print Assumptions C03_new_refines.
Print Assumptions C03_update_refines.
Print Assumptions C03_end_time_refines.
Print Assumptions C03_merge_test_refines.
Print Assumptions C03_confirmation_refines.
Print Assumptions C03_confirmation_needs_invariant.
Print Assumptions C03_ranges_new.
Print Assumptions C03_ranges_update.
Print Assumptions C03_ranges_merge.
Print Assumptions C03_resume_time_no_panic.
Print Assumptions C03_refresh_index_arith_total.
Print Assumptions C03_refresh_index_arith_before_fix_refuted.
Print Assumptions C03_refresh_index_arith_fix_conservative.
Print Assumptions C03_nonvacuous.
Print Assumptions C03_reexport_parse_storage_never_panics.
Print Assumptions C03_reexport_parse_serial_never_panics.
Print Assumptions C03_reexport_iterator_no_panic.
Print Assumptions C03_reexport_write_no_panic.
Print Assumptions C03_reexport_args_in_bounds.
Print Assumptions C03_reexport_sort_no_panic.
Print Assumptions C03_reexport_file_transfer_no_panic.
Print Assumptions C03_reexport_file_transfer_alloc_bounded.
Print Assumptions C03_reexport_remote_no_crash.
Print Assumptions C03_reexport_reader_no_panic.
Print Assumptions C03_reexport_volume_chain_no_panic.
Print Assumptions C03_ctrl_log_info_no_panic.
Print Assumptions C03_ctrl_sw_version_no_panic.
Print Assumptions C03_ctrl_unregister_context_no_panic.
Print Assumptions C03_ctrl_connection_info_no_panic.
Print Assumptions C03_ctrl_timezone_no_panic.
Print Assumptions C03_ctrl_parse_int_total.
Print Assumptions C03_ctrl_context_step_keeps_invariant.
Print Assumptions C03_ctrl_log_info_decode_encode.
Print Assumptions C03_ctrl_sw_version_decode_encode.
Print Assumptions C03_ctrl_nonvacuous.
Print Assumptions C03_get_4digit_str_no_panic.
Print Assumptions C03_apid_candidate_no_panic.
Print Assumptions C03_apid_for_tag_terminates.
Print Assumptions C03_apid_for_tag_idempotent.
Print Assumptions C03_apid_for_tag_keeps_others.
Print Assumptions C03_apid_for_tag_ns_no_panic.
Print Assumptions C03_apid_sequence_no_panic.
Print Assumptions C03_apid_before_fix_panics_when_exhausted.
Print Assumptions C03_apid_before_fix_refuted.
Print Assumptions C03_apid_count_u32_before_fix_refuted.
Print Assumptions C03_hex_to_bytes_spec.
Print Assumptions C03_hex_to_bytes_no_panic.
Print Assumptions C03_hex_group_accepted.
Print Assumptions C03_text_utils_nonvacuous.
Print Assumptions C03_apid_iteration_1000_reachable.
Print Assumptions C03_asc_parse_time_no_panic.
Print Assumptions C03_asc_parse_time_needs_shape.
Print Assumptions C03_asc_timestamp_dms_no_panic.
Print Assumptions C03_asc_date_line_no_panic.
Print Assumptions C03_asc_can_line_no_panic.
Print Assumptions C03_info_msg_len_no_overflow.
Print Assumptions C03_logcat_parse_time_no_panic.
Print Assumptions C03_logcat_line_no_panic.
Print Assumptions C03_text_time_before_fixes_refuted.
Print Assumptions C03_text_time_nonvacuous.
