(* C03 — No input content can crash ingestion and analysis.     Level: proof (PARTIAL).
   Statements only.

   C03 is a statement about the compiled Rust program (panics, aborts, arithmetic overflow, allocation).
   What is PROVED (for all inputs) is the arithmetic / indexing core that has a model:
     (A) the time arithmetic of the lifecycle detector (src/lifecycle/mod.rs), re-stated in
         Crash/LifecycleChk.v with every non-saturating `-` and every time `+` as a checked operation
         exactly where the source has it: for every message sequence in the machine ranges and every start
         table in range the checked detector never returns Panic and computes what the model computes;
         the range invariant (min timestamp <= max timestamp, bounded start / last reception time) is
         preserved by new / update / merge and by whole runs;
     (A') the parsers of control-message bodies (src/dlt/control_msgs.rs), modelled byte-exactly in
         Crash/ControlMsgs.v with every get(..).unwrap(), slice, index, Option::unwrap, usize + and - as a
         possible Panic: for ALL body byte strings, both byte orders and all status values they return without
         Panic; and on well-formed bodies GET_LOG_INFO / GET_SOFTWARE_VERSION parsing gives back what was encoded;
     (B) the no-panic / in-bounds theorems of the other properties' developments, re-exported below
         under C03_reexport_* names (framing parsers and reader loop C01, writer C02, argument iterator C18,
         time sort C10, file-transfer plugin incl. its allocation bound C17, remote dispatcher C15,
         low-mark reader C04, archive volume chain C20).
   What is only SEARCHED (harness/src/bin/c03.rs, isolated worker processes, whole chain): text rendering,
   control-message decoding, ECU/APID/CTID statistics, the non-verbose / SOME/IP / CAN / rewrite / muniic /
   anonymize plugins, the ASC / logcat / generic-log converters, filters' regex engines, real allocation
   behaviour.  u32 message counters are outside (bounded by the u32 message index, C01).

   Ranges: [msg_ok B m] = reception time <= B and timestamp_us <= u32::MAX * 100; [lc_ok B L] = the range
   invariant; B is any bound with B + u32::MAX*100 + 60 s <= u64::MAX (instance: B = 2^63; the storage header
   gives at most 2^32 * 10^6 + 2^32 < 2^53, the repaired text converters at most i64::MAX + 8.3e18). *)
From Coq Require Import List NArith Bool Lia.
From AdltV Require Import Base.Res Base.MachInt Lifecycle.Model Crash.LifecycleChk Crash.LifecycleChkProofs.
From AdltV Require Crash.ControlMsgs Crash.ControlMsgsProofs.
From AdltV Require Properties.C01 Properties.C02 Properties.C04 Properties.C10 Properties.C15 Properties.C17 Properties.C18 Properties.C20.
Import ListNotations.
Open Scope N_scope.

(* ------------------------------------------------------------------ (A) lifecycle detector arithmetic *)
(* the whole detector loop, any number of messages, empty or pre-populated table: no arithmetic panic,
   and the checked run is the model's run *)
Theorem C03_detector_arith_no_panic (B : N) (first : N) (pre : list lcy) (ms : list msg) :
  B + TSMAX + 60000000 <= MachInt.u64max ->
  Forall (lc_ok B) pre -> Forall (msg_ok B) ms ->
  run_chk (init first pre) ms = Ok (run (init first pre) ms).
Proof. intros HB. exact (detector_arith_no_panic B HB first pre ms). Qed.

(* afterwards every lifecycle held is in range again: the next run, the listing and resume_time() are safe *)
Theorem C03_detector_keeps_ranges (B : N) (first : N) (pre : list lcy) (ms : list msg) :
  B + TSMAX + 60000000 <= MachInt.u64max ->
  Forall (lc_ok B) pre -> Forall (msg_ok B) ms ->
  Forall (lc_ok B) (all_lcs (emap (fst (run (init first pre) ms)))).
Proof. intros HB. exact (detector_keeps_ranges B HB first pre ms). Qed.

(* instance: reception times below 2^63 *)
Theorem C03_detector_arith_no_panic_2pow63 (ms : list msg) :
  Forall (fun m => m_rt m <= 2 ^ 63 /\ m_ts m <= 4294967295 * 100) ms ->
  run_chk (init 1 []) ms = Ok (run (init 1 []) ms).
Proof.
  intros H. apply (C03_detector_arith_no_panic (2 ^ 63) 1 [] ms); [vm_compute; discriminate|constructor|].
  exact H.
Qed.

(* the single functions: the checked transcription equals the model (never Panic) *)
Theorem C03_new_refines (id : N) (m : msg) : new_lc_chk id m = Ok (new_lc id m).
Proof. refine (new_lc_chk_ok 0 _ id m). vm_compute. discriminate. Qed.

Theorem C03_update_refines (B : N) (L : lcy) (m : msg) (fresh : N) :
  B + TSMAX + 60000000 <= MachInt.u64max -> lc_ok B L -> msg_ok B m ->
  update_chk L m fresh = Ok (update L m fresh).
Proof. intros HB. exact (update_chk_ok B HB L m fresh). Qed.

Theorem C03_end_time_refines (B : N) (L : lcy) :
  B + TSMAX + 60000000 <= MachInt.u64max -> lc_ok B L -> end_time_chk L = Ok (end_time L).
Proof. intros HB. exact (end_time_chk_ok B HB L). Qed.

Theorem C03_merge_test_refines (B : N) (P L : lcy) :
  B + TSMAX + 60000000 <= MachInt.u64max -> lc_ok B P -> lc_ok B L -> needs_merge_chk P L = Ok (needs_merge P L).
Proof. intros HB. exact (needs_merge_chk_ok B HB P L). Qed.

(* the confirmation test, under the guard the code evaluates first (rt > ts + 60 s): in particular
   `lc.max_timestamp_us - lc.min_timestamp_us` cannot underflow because min <= max is invariant *)
Theorem C03_confirmation_refines (B : N) (m : msg) (L : lcy) :
  B + TSMAX + 60000000 <= MachInt.u64max -> lc_ok B L -> msg_ok B m ->
  m_ts m + MAX_BUFFERING_DELAY < m_rt m ->
  confirmable_chk m L (m_ts m + MAX_BUFFERING_DELAY) = Ok (confirmable m L).
Proof. intros HB. exact (confirmable_chk_ok B HB m L). Qed.

(* ... and the invariant IS needed: with min > max the subtraction panics (so the theorem is about the code's
   guards/invariants, not about a totalised model) *)
Theorem C03_confirmation_needs_invariant :
  exists (m : msg) (L : lcy),
    m_ts m + MAX_BUFFERING_DELAY < m_rt m /\ l_max_ts L < l_min_ts L /\
    confirmable_chk m L (m_ts m + MAX_BUFFERING_DELAY) = Panic site_sub_overflow.
Proof.
  exists {| m_index := 0; m_ecu := 1; m_rt := 100000000; m_ts := 0; m_has_ts := true; m_creq := false; m_lc := 0 |},
         {| l_id := 1; l_ecu := 2; l_nr := 1; l_nr_creq := 0; l_start := 90000000; l_min_ts := 5; l_max_ts := 4;
            l_last_rt := 90000000; l_resume := None |}.
  vm_compute. repeat split; reflexivity.
Qed.

(* the range invariant is established by Lifecycle::new and preserved by update (both results) and merge *)
Theorem C03_ranges_new (B : N) (id : N) (m : msg) :
  B + TSMAX + 60000000 <= MachInt.u64max -> msg_ok B m -> lc_ok B (new_lc id m).
Proof. intros HB. exact (new_lc_ok B HB id m). Qed.
Theorem C03_ranges_update (B : N) (L : lcy) (m : msg) (fresh : N) :
  B + TSMAX + 60000000 <= MachInt.u64max -> lc_ok B L -> msg_ok B m ->
  lc_ok B (fst (update L m fresh)) /\ (forall Ln, snd (update L m fresh) = Some Ln -> lc_ok B Ln).
Proof. intros HB. exact (update_ok B HB L m fresh). Qed.
Theorem C03_ranges_merge (B : N) (P L : lcy) :
  B + TSMAX + 60000000 <= MachInt.u64max -> lc_ok B P -> lc_ok B L -> lc_ok B (merge P L).
Proof. intros HB. exact (merge_ok B HB P L). Qed.

(* what `adlt convert` computes for every listed lifecycle *)
Theorem C03_resume_time_no_panic (B : N) (L : lcy) :
  B + TSMAX + 60000000 <= MachInt.u64max -> lc_ok B L -> is_ok (resume_time_chk L) = true.
Proof. intros HB. exact (resume_time_chk_total B HB L). Qed.

(* index arithmetic of the detector's periodic refresh (u32 message indices; repaired by fix 4811f3c): the saturating
   test is total and equals the test of Lifecycle/Model.v (unbounded N) for EVERY index pair; the former checked
   `+ 100_000` panicked for indices within 100 000 of u32::MAX and agreed with the repaired test everywhere else *)
Theorem C03_refresh_index_arith_total (lastreg lastidx : N) :
  lastidx <= MachInt.u32max -> refresh_due_sat lastreg lastidx = (lastreg + 100000 <? lastidx).
Proof. exact (refresh_due_sat_is_model lastreg lastidx). Qed.
Theorem C03_refresh_index_arith_before_fix_refuted :
  exists lastreg lastidx, lastreg <= lastidx /\ lastidx <= MachInt.u32max /\
    refresh_due_before_fix lastreg lastidx = Panic MachInt.site_add_overflow.
Proof. exact refresh_due_before_fix_panics. Qed.
Theorem C03_refresh_index_arith_fix_conservative (lastreg lastidx : N) :
  lastreg + 100000 <= MachInt.u32max -> refresh_due_before_fix lastreg lastidx = Ok (refresh_due_sat lastreg lastidx).
Proof. exact (refresh_due_before_fix_ok_below lastreg lastidx). Qed.

(* non-vacuity: the witness of the repaired assert defect (a confirmed lifecycle merged while its predecessor is
   still buffered; DESIGN Appendix A, C03-2) satisfies the hypotheses; the checked run succeeds, performs a merge
   (2 lifecycles for ECU 1 collapse into 1) and delivers all 5 messages at the end of the stream *)
Definition nv_msgs : list msg :=
  let mk i e rt ts := {| m_index := i; m_ecu := e; m_rt := rt; m_ts := ts; m_has_ts := true; m_creq := false; m_lc := 0 |} in
  [mk 0 1 1000000000000 20000000; mk 1 1 1000000500000 0; mk 2 1 999999000000 0; mk 3 2 1000060000000 0; mk 4 1 999995000000 0].
Example C03_nonvacuous :
  Forall (msg_ok (2 ^ 63)) nv_msgs /\
  (exists d o, run_chk (init 1 []) nv_msgs = Ok (d, o) /\
               length (all_lcs (emap d)) = 2%nat /\ length (o ++ snd (finish d)) = 5%nat).
Proof.
  split.
  - unfold nv_msgs. repeat constructor; vm_compute; discriminate.
  - eexists. eexists. split; [vm_compute; reflexivity|]. split; vm_compute; reflexivity.
Qed.

(* ------------------------------------------------------------------ (A') control-message body parsers *)
(* [fits p]: |p| + 65535 <= usize::MAX (every slice in memory).  Model conventions: a description / version string
   is the raw byte slice handed to the WINDOWS-1252 decoder; i8 / i32 values are kept as unsigned bytes. *)
Theorem C03_ctrl_log_info_no_panic (status : N) (be : bool) (p : Crash.ControlMsgs.bytes) :
  Crash.ControlMsgsProofs.fits p -> exists apps, Crash.ControlMsgs.parse_log_info status be p = Ok apps.
Proof. exact (Crash.ControlMsgsProofs.log_info_no_panic status be p). Qed.

Theorem C03_ctrl_sw_version_no_panic (be : bool) (p : Crash.ControlMsgs.bytes) :
  exists r, Crash.ControlMsgs.parse_sw_version be p = Ok r.
Proof. exact (Crash.ControlMsgsProofs.sw_version_no_panic be p). Qed.

Theorem C03_ctrl_unregister_context_no_panic (p : Crash.ControlMsgs.bytes) :
  exists r, Crash.ControlMsgs.parse_unregister_context p = Ok r.
Proof. exact (Crash.ControlMsgsProofs.unregister_context_no_panic p). Qed.

Theorem C03_ctrl_connection_info_no_panic (p : Crash.ControlMsgs.bytes) :
  exists r, Crash.ControlMsgs.parse_connection_info p = Ok r.
Proof. exact (Crash.ControlMsgsProofs.connection_info_no_panic p). Qed.

Theorem C03_ctrl_timezone_no_panic (be : bool) (p : Crash.ControlMsgs.bytes) :
  exists r, Crash.ControlMsgs.parse_timezone be p = Ok r.
Proof. exact (Crash.ControlMsgsProofs.timezone_no_panic be p). Qed.

(* parse_payload_int: never a panic; Some exactly when the integer lies inside the payload *)
Theorem C03_ctrl_parse_int_total (w : N) (be : bool) (p : Crash.ControlMsgs.bytes) (off : N) :
  off + w <= usizemax -> exists o, Crash.ControlMsgs.parse_payload_int w be p off = Ok o.
Proof. exact (Crash.ControlMsgsProofs.ppi_total w be p off). Qed.

(* the bookkeeping invariant offset + avail = |payload| is what keeps every access in bounds: one turn of the
   context loop preserves it (this is the lemma a dropped `avail -= ..` breaks) *)
Theorem C03_ctrl_context_step_keeps_invariant (hl hts hd be : bool) (p : Crash.ControlMsgs.bytes) (off av : N) :
  Crash.ControlMsgsProofs.fits p -> Crash.ControlMsgsProofs.Inv p off av ->
  exists r, Crash.ControlMsgs.ctx_step hl hts hd be p off av = Ok r /\
            forall c o' a', r = Some (c, o', a') -> Crash.ControlMsgsProofs.Inv p o' a'.
Proof. intros Hf. exact (Crash.ControlMsgsProofs.ctx_step_ok hl hts hd be p Hf off av). Qed.

(* functional sanity (the model is not degenerate): for every status 3..7, both byte orders, every list of
   well-formed applications / contexts (4 byte ids, level / trace status present exactly when the status says so,
   descriptions of 1..65535 bytes or absent, present only for status 7): parse (encode apps) = apps *)
Theorem C03_ctrl_log_info_decode_encode (status : N) (be : bool) (apps : list Crash.ControlMsgs.app) :
  3 <= status <= 7 ->
  N.of_nat (length apps) < 65536 ->
  Forall (Crash.ControlMsgsProofs.wf_app (Crash.ControlMsgs.has_ll status) (Crash.ControlMsgs.has_ts status)
            (Crash.ControlMsgs.has_d status)) apps ->
  Crash.ControlMsgsProofs.fits (Crash.ControlMsgsProofs.enc_log_info (Crash.ControlMsgs.has_d status) be apps) ->
  Crash.ControlMsgs.parse_log_info status be (Crash.ControlMsgsProofs.enc_log_info (Crash.ControlMsgs.has_d status) be apps)
  = Ok apps.
Proof. exact (Crash.ControlMsgsProofs.log_info_decode_encode status be apps). Qed.

Theorem C03_ctrl_sw_version_decode_encode (be : bool) (s tail : Crash.ControlMsgs.bytes) :
  Crash.ControlMsgs.blen s < 256 ->
  Crash.ControlMsgs.parse_sw_version be (Crash.ControlMsgsProofs.len4 be (Crash.ControlMsgs.blen s) ++ s ++ tail) = Ok (Some s).
Proof. exact (Crash.ControlMsgsProofs.sw_version_decode_encode be s tail). Qed.

(* non-vacuity of the round trip: status 7, little endian, one application "APID" with description "ad" and one
   context "CTID" (level 4, trace status 1, description "cd"); 24 body bytes *)
Example C03_ctrl_nonvacuous :
  let c := {| Crash.ControlMsgs.c_id := [67; 84; 73; 68]; Crash.ControlMsgs.c_ll := Some 4;
              Crash.ControlMsgs.c_ts := Some 1; Crash.ControlMsgs.c_desc := Some [99; 100] |} in
  let a := {| Crash.ControlMsgs.a_id := [65; 80; 73; 68]; Crash.ControlMsgs.a_ctxs := [c];
              Crash.ControlMsgs.a_desc := Some [97; 100] |} in
  Forall (Crash.ControlMsgsProofs.wf_app true true true) [a] /\
  Crash.ControlMsgsProofs.enc_log_info true false [a] =
    [1; 0; 65; 80; 73; 68; 1; 0; 67; 84; 73; 68; 4; 1; 2; 0; 99; 100; 2; 0; 97; 100] /\
  Crash.ControlMsgs.parse_log_info 7 false (Crash.ControlMsgsProofs.enc_log_info true false [a]) = Ok [a].
Proof.
  cbv zeta. split; [|split; vm_compute; reflexivity].
  constructor; [|constructor]. unfold Crash.ControlMsgsProofs.wf_app. cbn.
  repeat split; try lia; try (eexists; reflexivity).
  constructor; [|constructor]. unfold Crash.ControlMsgsProofs.wf_ctx. cbn. repeat split; try lia; eexists; reflexivity.
Qed.

(* ------------------------------------------------------------------ (B) re-exported no-panic theorems *)
(* C01: both framing parsers, with every slice / index / expect / usize subtraction checked, never panic *)
Theorem C03_reexport_parse_storage_never_panics (index : N) (data : Dlt.Frame.bytes) :
  Dlt.Frame.parse_storage_chk index data = Ok (Dlt.Frame.parse_storage index data).
Proof. exact (Properties.C01.C01_parse_storage_never_panics index data). Qed.
Theorem C03_reexport_parse_serial_never_panics (index : N) (data : Dlt.Frame.bytes) :
  Dlt.Frame.parse_serial_chk index data = Ok (Dlt.Frame.parse_serial index data).
Proof. exact (Properties.C01.C01_parse_serial_never_panics index data). Qed.
(* C01: the reader loop (skip-one-byte resynchronisation) terminates without panic on EVERY byte string
   (the u32 message index aside) *)
Theorem C03_reexport_iterator_no_panic (start : N) (data : Dlt.Frame.bytes) :
  start + N.of_nat (length data) <= u32max ->
  exists ms st rest, Dlt.Iter.run_iter start data = Ok (ms, st, rest).
Proof.
  intros H. destruct (Properties.C01.C01_run_total start data H) as (ms & st & rest & E & _).
  exists ms, st, rest. exact E.
Qed.
(* C02: re-serialising a message that came out of a parser neither panics nor hits the length error (WOk) *)
Theorem C03_reexport_write_no_panic (m : Dlt.Frame.msg) :
  Properties.C02.parsed m -> exists bytes, Dlt.Write.msg_to_write m = Ok (Dlt.Write.WOk bytes).
Proof. exact (Properties.C02.C02_write_ok m). Qed.
(* C18: argument iteration over ARBITRARY payload bytes terminates without panic, every raw slice in bounds *)
Theorem C03_reexport_args_in_bounds (verbose be : bool) (p : Dlt.Args.bytes) :
  Dlt.ArgsProofs.fits p -> Dlt.ArgsProofs.wf_bytes p ->
  exists args, Dlt.Args.msg_args verbose be p = Ok args /\
    Forall (fun a => Dlt.ArgsProofs.sub_slice p (Dlt.Args.a_raw a) /\ Dlt.Args.a_be a = be) args.
Proof. exact (Properties.C18.C18_decode_in_bounds verbose be p). Qed.
(* C10: the time sort returns (no panic) whenever the u64 sums it forms fit *)
Theorem C03_reexport_sort_no_panic pick w mind B (lcs : Sort.BufferSort.tables) input :
  1 <= w ->
  2 * B + mind + Sort.BufferSort.YOUNG_DELAY + w * Sort.BufferSort.US_PER_SEC <= MachInt.u64max ->
  Forall (fun m => Sort.BufferSort.m_rt m <= B /\
                   (Sort.BufferSort.m_ctrl m = false -> forall i np,
                      Sort.BufferSort.lc_start (lcs i np) (Sort.BufferSort.m_lc m) + Sort.BufferSort.m_ts m * 100 <= MachInt.u64max)) input ->
  exists out, Sort.BufferSort.run pick w mind lcs input = Ok out.
Proof.
  intros Hw Hov Hin. destruct (Properties.C10.C10_sort_no_panic pick w mind B lcs input Hw Hov Hin) as (out & E & _).
  exists out. exact E.
Qed.
(* C17: the file-transfer plugin never panics and never requests more than the cap, whatever was announced *)
Theorem C03_reexport_file_transfer_no_panic (c : FileTransfer.Ft.cfg) fs (ms : list FileTransfer.Ft.msg) :
  N.of_nat (length ms) + 1 <= u32max -> Forall FileTransfer.FtProofs.wf_msg ms ->
  exists s rets, FileTransfer.Ft.run c (FileTransfer.Ft.init_st fs) ms = Ok (s, rets).
Proof. exact (Properties.C17.C17_no_panic c fs ms). Qed.
Theorem C03_reexport_file_transfer_alloc_bounded (c : FileTransfer.Ft.cfg) fs ms s rets t :
  FileTransfer.Ft.run c (FileTransfer.Ft.init_st fs) ms = Ok (s, rets) -> In t (FileTransfer.Ft.s_transfers s) ->
  FileTransfer.Ft.t_cap t <= FileTransfer.Ft.MAX_PREALLOC.
Proof. exact (Properties.C17.C17_prealloc_bounded c fs ms s rets t). Qed.
(* C15: the remote dispatcher answers every command of every history without a panic *)
Theorem C03_reexport_remote_no_crash (st : Remote.Dispatch.state) (h : list Remote.Dispatch.item) :
  exists st' ws, Remote.Dispatch.run st h = Ok (st', ws) /\ length ws = length h.
Proof.
  destruct (Properties.C15.C15_one_reply_no_crash st h) as (st' & ws & E & El & _). exists st', ws. split; assumption.
Qed.

(* C04: the low-mark buffered reader: construction and every sequence of fill_buf/consume/read/seek, under every
   read-size schedule of the source, without panic (indexing, copy_within, usize arithmetic) *)
Theorem C03_reexport_reader_no_panic data sched capacity low (ops : list Reader.LowMark.op) :
  0 < low -> low + 4096 <= capacity -> capacity <= usizemax -> Reader.LowMark.nlen data <= usizemax ->
  Forall (Reader.LowMarkSpec.op_wf capacity) ops ->
  exists r0 evs r',
    Reader.LowMark.new_reader {| Reader.LowMark.s_rest := data; Reader.LowMark.s_sched := sched |} capacity low = Ok r0 /\
    Reader.LowMark.run_now r0 ops = Ok (evs, r').
Proof.
  intros H1 H2 H3 H4 H5.
  destruct (Properties.C04.C04_reader_refines_stream data sched capacity low ops H1 H2 H3 H4 H5) as (r0 & evs & r' & E1 & E2 & _).
  exists r0, evs, r'. split; assumption.
Qed.
(* C20: the chain of archive volumes: every session of reads and seeks, without panic *)
Theorem C03_reexport_volume_chain_no_panic (datas : list (list N)) (ops : list Archive.Chain.op) :
  N.of_nat (length (concat datas)) <= MachInt.u64max ->
  exists rs, Archive.Chain.chain_session datas ops = Ok rs.
Proof.
  intros H. destruct (Properties.C20.C20_chain_refines_concat datas ops H) as (rs & E & _). exists rs. exact E.
Qed.

Print Assumptions C03_detector_arith_no_panic.
Print Assumptions C03_detector_keeps_ranges.
Print Assumptions C03_detector_arith_no_panic_2pow63.
Print Assumptions C03_new_refines.
Print Assumptions C03_update_refines.
Print Assumptions C03_end_time_refines.
Print Assumptions C03_merge_test_refines.
Print Assumptions C03_confirmation_refines.
Print Assumptions C03_confirmation_needs_invariant.
Print Assumptions C03_ranges_new.
Print Assumptions C03_ranges_update.
Print Assumptions C03_ranges_merge.
Print Assumptions C03_resume_time_no_panic.
Print Assumptions C03_refresh_index_arith_total.
Print Assumptions C03_refresh_index_arith_before_fix_refuted.
Print Assumptions C03_refresh_index_arith_fix_conservative.
Print Assumptions C03_nonvacuous.
Print Assumptions C03_reexport_parse_storage_never_panics.
Print Assumptions C03_reexport_parse_serial_never_panics.
Print Assumptions C03_reexport_iterator_no_panic.
Print Assumptions C03_reexport_write_no_panic.
Print Assumptions C03_reexport_args_in_bounds.
Print Assumptions C03_reexport_sort_no_panic.
Print Assumptions C03_reexport_file_transfer_no_panic.
Print Assumptions C03_reexport_file_transfer_alloc_bounded.
Print Assumptions C03_reexport_remote_no_crash.
Print Assumptions C03_reexport_reader_no_panic.
Print Assumptions C03_reexport_volume_chain_no_panic.
Print Assumptions C03_ctrl_log_info_no_panic.
Print Assumptions C03_ctrl_sw_version_no_panic.
Print Assumptions C03_ctrl_unregister_context_no_panic.
Print Assumptions C03_ctrl_connection_info_no_panic.
Print Assumptions C03_ctrl_timezone_no_panic.
Print Assumptions C03_ctrl_parse_int_total.
Print Assumptions C03_ctrl_context_step_keeps_invariant.
Print Assumptions C03_ctrl_log_info_decode_encode.
Print Assumptions C03_ctrl_sw_version_decode_encode.
Print Assumptions C03_ctrl_nonvacuous.
