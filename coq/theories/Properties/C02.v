(* C02 — Export fidelity: write/parse round trip and normal form.
   Statements only; proofs are in Dlt/WriteProofs.v (on top of Dlt/FrameProofs.v, Dlt/IterProofs.v).

   Model: Dlt/Write.v (DltMessage::to_write = storage header from the message + DltStandardHeader::to_write
   with recomputed htyp/len, Err when the len field would overflow) and the parsers/iterator of Dlt/Frame.v, Dlt/Iter.v.
   "Parsed message": the result of parse_storage on well-formed bytes whose storage header has
   micros < 10^6, or of parse_serial on well-formed bytes.  [same_fields m m']: ECU id, reception time,
   timestamp and timestamp presence, message counter, payload byte order, extended header, payload. *)
From Coq Require Import List NArith Bool Lia.
From AdltV Require Import Base.Res Base.MachInt Dlt.Frame Dlt.FrameProofs Dlt.Iter Dlt.IterProofs Dlt.IterTotal Dlt.Write Dlt.WriteProofs.
From AdltV Require Import Dlt.WritePipeline Dlt.WritePipelineProofs.
From AdltV Require Reader.LowMark Exec.C02 Dlt.WriteExecProofs.
Import ListNotations.
Open Scope N_scope.

Definition parsed (m : msg) : Prop :=
  exists idx d n, wf_bytes d /\
    ((storage_micros d < 1000000 /\ parse_storage idx d = PMsg n m) \/ parse_serial idx d = PMsg n m).

Lemma parsed_wf m : parsed m -> wf_msg m.
Proof.
  intros (idx & d & n & Hd & [[Hm Hp]|Hp]).
  - exact (parse_storage_wf idx d n m Hd Hm Hp).
  - exact (parse_serial_wf idx d n m Hd Hp).
Qed.

(* writing a parsed message succeeds -- neither a panic nor an io::Error: the rewritten header is never longer than the
   original, so header + payload fit the 16 bit len field *)
Theorem C02_write_ok (m : msg) : parsed m -> exists bytes, msg_to_write m = Ok (WOk bytes).
Proof. intros H. eexists. apply write_is_enc. apply parsed_wf; exact H. Qed.

(* reading the written bytes -- alone, or followed by fewer than 4 bytes, or by the next message's marker --
   consumes exactly the bytes written and returns the same fields, under any index j *)
Theorem C02_parse_write_fields (m : msg) (bytes rest : bytes) (j : N) :
  parsed m -> msg_to_write m = Ok (WOk bytes) ->
  blen rest < 4 \/ is_storage_pat rest = true ->
  exists m', parse_storage j (bytes ++ rest) = PMsg (blen bytes) m' /\ same_fields m m' /\ m_index m' = j.
Proof.
  intros Hp Hw Hr. pose proof (parsed_wf m Hp) as Hwf. exists (reparsed j m).
  split; [exact (parse_write m j bytes rest Hwf Hw Hr)|]. split; [exact (reparsed_same_fields m Hwf j)|reflexivity].
Qed.

(* writing the re-read message reproduces the same bytes *)
Theorem C02_write_normal_form (m m' : msg) (bytes rest : bytes) (j k : N) :
  parsed m -> msg_to_write m = Ok (WOk bytes) ->
  blen rest < 4 \/ is_storage_pat rest = true ->
  parse_storage j (bytes ++ rest) = PMsg k m' ->
  msg_to_write m' = Ok (WOk bytes).
Proof.
  intros Hp Hw Hr Hparse. pose proof (parsed_wf m Hp) as Hwf.
  rewrite (parse_write m j bytes rest Hwf Hw Hr) in Hparse. inversion Hparse; subst k m'.
  exact (write_normal_form m j bytes Hwf Hw).
Qed.

(* files: exporting a list of parsed messages (what `adlt convert -o` does with an unfiltered file) and reading
   the export gives every message back, in order, numbered from start, same fields, nothing skipped, every
   byte consumed; exporting what was read back is byte-identical *)
Theorem C02_export_roundtrip (start : N) (ms : list msg) :
  Forall parsed ms -> start + N.of_nat (length ms) <= u32max ->
  exists bytes ms' st,
    write_all ms = Ok (WOk bytes) /\
    run_iter start bytes = Ok (ms', st, []) /\
    Forall2 same_fields ms ms' /\
    map m_index ms' = map (fun k => start + N.of_nat k) (seq 0 (length ms)) /\
    i_skipped st = 0 /\ i_processed st = blen bytes /\
    write_all ms' = Ok (WOk bytes).
Proof.
  intros Hp Hidx.
  assert (Hwf : Forall wf_msg ms) by (eapply Forall_impl; [|exact Hp]; exact parsed_wf).
  destruct (export_roundtrip start ms Hwf Hidx) as (bytes & st & Hw & Hr & Hf & Hs & Hpr & _ & Hw2).
  exists bytes, (reparsed_list start ms), st. repeat split; try assumption.
  unfold reparsed_list. rewrite expect_list_indices. unfold segs_of. rewrite map_length. reflexivity.
Qed.

(* whole files: every message the iterator yields from a well-formed byte file whose storage headers all have
   micros < 10^6 is a parsed message, hence exporting the unfiltered file and exporting the export obey the
   round trip above (whatever garbage or damage the input file contains) *)
Definition file_micros_ok (data : bytes) : Prop :=
  forall k, is_storage_pat (skipn k data) = true -> storage_micros (skipn k data) < 1000000.

Theorem C02_file_messages_parsed (start : N) (data : bytes) ms st rest :
  wf_bytes data -> file_micros_ok data -> run_iter start data = Ok (ms, st, rest) -> Forall parsed ms.
Proof.
  intros Hd Hm Hr. eapply Forall_impl; [|exact (run_iter_from_parse start data ms st rest Hr)].
  intros m (k & idx & n & H). exists idx, (skipn k data), n. split; [apply wf_bytes_skipn; exact Hd|].
  destruct H as [H|H]; [left|right; exact H]. split; [|exact H].
  apply Hm. destruct (is_storage_pat (skipn k data)) eqn:E; [reflexivity|].
  exfalso. exact (parse_storage_not_msg idx _ E n m H).
Qed.

Theorem C02_file_export_roundtrip (start : N) (data : bytes) ms st rest :
  start <= u32max ->
  wf_bytes data -> file_micros_ok data -> run_iter start data = Ok (ms, st, rest) ->
  exists bytes ms' st',
    write_all ms = Ok (WOk bytes) /\ run_iter start bytes = Ok (ms', st', []) /\ Forall2 same_fields ms ms' /\
    map m_index ms' = map m_index ms /\ i_skipped st' = 0 /\ i_processed st' = blen bytes /\
    write_all ms' = Ok (WOk bytes).
Proof.
  intros Hst Hd Hm Hr.
  pose proof (C02_file_messages_parsed start data ms st rest Hd Hm Hr) as Hp.
  assert (Hidx : start + N.of_nat (length ms) <= u32max /\ map m_index ms = map (fun k => start + N.of_nat k) (seq 0 (length ms))).
  { (* the first read did not overflow the index and numbered the messages from start *)
    exact (run_iter_indices start data ms st rest Hst Hr). }
  destruct Hidx as [Hidx Hmap].
  destruct (C02_export_roundtrip start ms Hp Hidx) as (bytes & ms' & st' & H1 & H2 & H3 & H4 & H5 & H6 & H7).
  exists bytes, ms', st'. repeat split; try assumption. rewrite H4, Hmap. reflexivity.
Qed.

(* the pipeline of `adlt convert <in> -o <out>` (unfiltered, unsorted) as a whole -- Dlt/WritePipeline.v: reader, the
   lifecycle stage every message passes through (the complete detector model of Lifecycle/Model.v: buffering of the
   messages of unconfirmed lifecycles, merges, flushes, confirmations, end-of-stream delivery), writer.
   Whatever the lifecycle history of the messages is, the stage hands on every message once, in the order received
   (C05's forwarding theorem); [lifecycle_stage] looks the delivered messages up by index, so: pairwise different indices *)
Theorem C02_lifecycle_stage_keeps_every_message_in_order (ms : list msg) :
  NoDup (map m_index ms) -> lifecycle_stage ms = ms.
Proof. exact (lifecycle_stage_id ms). Qed.

(* the clause "exporting an unfiltered file preserves every message in order and exporting the export is byte-identical"
   for the modelled binary: for ANY well-formed byte file whose storage headers have micros < 10^6, `convert -o` neither
   panics nor fails; the export is read back completely, nothing skipped, with the messages of the input in input order
   (same fields, same indices); and `convert -o` of the export writes the export again *)
Theorem C02_convert_export_roundtrip (data : bytes) ms st rest :
  wf_bytes data -> file_micros_ok data -> run_iter 0 data = Ok (ms, st, rest) ->
  exists bytes ms' st',
    convert_o data = Ok (WOk bytes) /\
    run_iter 0 bytes = Ok (ms', st', []) /\ Forall2 same_fields ms ms' /\ map m_index ms' = map m_index ms /\
    i_skipped st' = 0 /\ i_processed st' = blen bytes /\
    convert_o bytes = Ok (WOk bytes).
Proof.
  intros Hd Hm Hr.
  assert (H0 : 0 <= u32max) by (vm_compute; discriminate).
  destruct (C02_file_export_roundtrip 0 data ms st rest H0 Hd Hm Hr) as (bytes & ms' & st' & H1 & H2 & H3 & H4 & H5 & H6 & H7).
  exists bytes, ms', st'.
  destruct (run_iter_indices 0 data ms st rest H0 Hr) as [_ Hi].
  destruct (run_iter_indices 0 bytes ms' st' [] H0 H2) as [_ Hi'].
  rewrite (convert_o_is_write_all data ms st rest Hr Hi), (convert_o_is_write_all bytes ms' st' [] H2 Hi').
  repeat split; assumption.
Qed.

(* the reader wiring of convert.rs -- the iterator runs over LowMarkBufReader::new(file, 512 KiB, DLT_MAX_STORAGE_MSG_SIZE + 4),
   whose fill_buf compacts the unconsumed bytes and refills (Reader/LowMark.v, the model C04 ties to the code) -- does not
   change what is exported, whatever the file's size, the layout of its messages relative to the buffer, and the sizes of
   the reads the file returns: the statements about convert_o hold for convert_o_rd *)
Theorem C02_convert_reader_wiring (data : bytes) (sched : list N) :
  wf_bytes data -> Reader.LowMark.nlen data <= usizemax -> convert_o_rd data sched = convert_o data.
Proof. exact (convert_o_rd_eq data sched). Qed.

(* a file in the writer's normal form (the writer's output for messages satisfying the invariant of parsed messages) is a
   fixed point of the export: it re-reads to those messages and `convert -o` writes the file again, byte for byte *)
Theorem C02_convert_normal_form_fixed_point (ms : list msg) :
  Forall wf_msg ms -> N.of_nat (length ms) <= u32max ->
  exists bytes ms' st,
    write_all ms = Ok (WOk bytes) /\ run_iter 0 bytes = Ok (ms', st, []) /\ Forall2 same_fields ms ms' /\
    convert_o bytes = Ok (WOk bytes).
Proof.
  intros Hwf Hn. destruct (convert_o_normal_form ms Hwf Hn) as (bytes & st & H1 & H2 & H3 & H4).
  exists bytes, (reparsed_list 0 ms), st. repeat split; assumption.
Qed.

(* the `-o` path (Dlt/WritePipeline.v: fs_path, open_for_write, overwrite, convert_o_path): the output thread opens it with
   File::create (write + create + TRUNCATE) and writes sequentially from offset 0.  The clause "exporting an unfiltered file
   preserves every message in order and exporting the export is byte-identical" is about the file the command leaves
   behind, so it has to hold whatever the path held before: the content after the command is a function of the input only *)
Theorem C02_export_independent_of_prior_output_content (prior1 prior2 : fs_path) (data : bytes) :
  convert_o_path prior1 data = convert_o_path prior2 data.
Proof. exact (convert_o_path_prior_irrelevant prior1 prior2 data). Qed.

(* ... and it is exactly what the writer wrote (nothing of the old content survives, absent or present, shorter or longer) *)
Theorem C02_output_path_holds_exactly_the_export (prior : fs_path) (data bytes : bytes) :
  convert_o data = Ok (WOk bytes) -> convert_o_path prior data = Ok (Some bytes).
Proof. intros H. rewrite convert_o_path_is_convert_o, H. reflexivity. Qed.

(* the export clause on the paths: ANY well-formed input file with micros < 10^6, ANY prior state of the output path and
   ANY prior state of the path the export is exported to *)
Theorem C02_convert_export_roundtrip_over_any_output_path (data : bytes) ms st rest (prior prior2 : fs_path) :
  wf_bytes data -> file_micros_ok data -> run_iter 0 data = Ok (ms, st, rest) ->
  exists bytes ms' st',
    convert_o_path prior data = Ok (Some bytes) /\
    run_iter 0 bytes = Ok (ms', st', []) /\ Forall2 same_fields ms ms' /\ map m_index ms' = map m_index ms /\
    i_skipped st' = 0 /\ i_processed st' = blen bytes /\
    convert_o_path prior2 bytes = Ok (Some bytes).
Proof.
  intros Hd Hm Hr.
  destruct (C02_convert_export_roundtrip data ms st rest Hd Hm Hr) as (bytes & ms' & st' & H1 & H2 & H3 & H4 & H5 & H6 & H7).
  exists bytes, ms', st'.
  rewrite (C02_output_path_holds_exactly_the_export prior data bytes H1), (C02_output_path_holds_exactly_the_export prior2 bytes bytes H7).
  repeat split; assumption.
Qed.

(* one path written by several commands in a row (a -> out, b -> out, ...): after every command the path is in the state
   that command alone produces on a fresh path; in particular the final state depends on the last input only *)
Theorem C02_export_chain_over_one_path (prior : fs_path) (datas : list bytes) :
  convert_o_chain prior datas = map (convert_o_path None) datas.
Proof. exact (convert_o_chain_each datas prior). Qed.

Theorem C02_export_chain_last_input_only (prior : fs_path) (datas : list bytes) (d : bytes) dflt :
  last (convert_o_chain prior (datas ++ [d])) dflt = convert_o_path None d.
Proof. exact (convert_o_chain_last datas prior d dflt). Qed.

(* the evaluation shortcut of the correspondence shards for the large files of the export family (Exec/C02.v, CExportRuns)
   yields what the full evaluation of the pipeline model yields *)
Theorem C02_large_export_evaluation (ms : list msg) (inp : bytes) :
  forallb wf_msgb ms = true -> N.of_nat (length ms) <= u32max -> write_all ms = Ok (WOk inp) ->
  Exec.C02.export_obs_slow inp = Exec.C02.export_obs_fast ms inp.
Proof. exact (Dlt.WriteExecProofs.export_obs_fast_sound ms inp). Qed.

(* non-vacuity of the pipeline statements: one ECU; a lifecycle confirmed by its timestamp span (messages 0, 1), ONE message
   that looks like a new boot (2: tentative lifecycle 2, the message is queued), a late message with a large timestamp (3)
   that moves the tentative start back into lifecycle 1: merge into the published predecessor, queue flushed in front of
   the late message; a regular message (4).  The file is in the writer's normal form, its export is the file itself. *)
Definition ex_pipeline_msgs : list msg :=
  map (fun x : N * N * N =>
         let '(i, rt, ts) := x in
         {| m_index := i; m_reception_us := rt; m_ecu := (69, 67, 85, 49); m_timestamp := ts;
            m_std := {| htyp := 48; mcnt := i; len := 8 |}; m_ext := None; m_payload := [] |})
      [(0, 1000001000000, 10000); (1, 1000070000000, 700000); (2, 1000085000000, 10000);
       (3, 1000086000000, 500000); (4, 1000087000000, 870000)].

Example C02_pipeline_nonvacuous :
  exists data,
    write_all ex_pipeline_msgs = Ok (WOk data) /\ wf_bytes data /\ blen data = 120 /\
    (exists st, run_iter 0 data = Ok (ex_pipeline_msgs, st, [])) /\
    (* after message 2: lifecycle 2 is buffered with one queued message; after message 3: nothing buffered, nothing queued *)
    (let d3 := fst (LM.run (LM.init 1 []) (map lc_view (firstn 3 ex_pipeline_msgs))) in
     LM.buffered d3 = [2] /\ length (LM.queue d3) = 1%nat) /\
    (let d4 := fst (LM.run (LM.init 1 []) (map lc_view (firstn 4 ex_pipeline_msgs))) in
     LM.buffered d4 = [] /\ LM.queue d4 = [] /\ LM.next_id d4 = 3) /\
    map (fun x => (LM.m_index (fst x), LM.m_lc (fst x))) (fst (LM.detect 1 [] (map lc_view ex_pipeline_msgs)))
      = [(0, 1); (1, 1); (2, 1); (3, 1); (4, 1)] /\
    convert_o data = Ok (WOk data).
Proof.
  destruct (write_all ex_pipeline_msgs) as [[data|p]| |] eqn:E; try (vm_compute in E; discriminate).
  exists data. vm_compute in E. inversion E; subst data. clear E.
  split; [reflexivity|]. split; [repeat constructor|]. split; [reflexivity|].
  split; [eexists; vm_compute; reflexivity|].
  split; [vm_compute; split; reflexivity|]. split; [vm_compute; repeat split; reflexivity|].
  split; vm_compute; reflexivity.
Qed.

(* non-vacuity of the path layer: the truncation is what the statements rest on -- a writer starting from the old content of
   a LONGER file (open without truncate) leaves the old tail behind, e.g. the 120-byte file of C02_pipeline_nonvacuous
   written over a file of 5 more bytes; with File::create the path holds the export in both cases *)
Example C02_output_path_nonvacuous :
  (forall c b, (length b < length c)%nat -> overwrite (open_for_write false (Some c)) b <> b) /\
  overwrite (open_for_write false (Some [1; 2; 3; 4; 5])) [9; 9] = [9; 9; 3; 4; 5] /\
  overwrite (open_for_write true (Some [1; 2; 3; 4; 5])) [9; 9] = [9; 9] /\
  exists data, write_all ex_pipeline_msgs = Ok (WOk data) /\
    convert_o_path None data = Ok (Some data) /\ convert_o_path (Some []) data = Ok (Some data) /\
    convert_o_path (Some (data ++ [68; 76; 84; 1; 0])) data = Ok (Some data) /\
    overwrite (open_for_write false (Some (data ++ [68; 76; 84; 1; 0]))) data = data ++ [68; 76; 84; 1; 0].
Proof.
  split; [intros c b H; exact (proj2 (overwrite_keeps_tail c b H))|].
  split; [reflexivity|]. split; [reflexivity|].
  destruct C02_pipeline_nonvacuous as (data & Hw & _ & Hlen & _ & _ & _ & _ & Hc).
  exists data. split; [exact Hw|].
  rewrite !(C02_output_path_holds_exactly_the_export _ data data Hc).
  split; [reflexivity|]. split; [reflexivity|]. split; [reflexivity|].
  unfold overwrite, open_for_write. rewrite skipn_app, skipn_all, PeanoNat.Nat.sub_diag. reflexivity.
Qed.

(* byte-level integer codecs the above rests on *)
Theorem C02_u16_be_roundtrip v : v <= 65535 -> match be16_bytes v with [a; b] => be16 a b = v | _ => False end.
Proof. intros H. cbn. apply be16_bytes_dec; exact H. Qed.
Theorem C02_u32_le_roundtrip v : v < 4294967296 -> match le32_bytes v with [a; b; c; d] => le32 a b c d = v | _ => False end.
Proof. intros H. cbn. apply le32_bytes_dec; exact H. Qed.
Theorem C02_u32_be_roundtrip v : v < 4294967296 -> match be32_bytes v with [a; b; c; d] => be32 a b c d = v | _ => False end.
Proof. intros H. cbn. apply be32_bytes_dec; exact H. Qed.
Theorem C02_u32_le_bytes_roundtrip b0 b1 b2 b3 :
  b0 < 256 -> b1 < 256 -> b2 < 256 -> b3 < 256 -> le32_bytes (le32 b0 b1 b2 b3) = [b0; b1; b2; b3].
Proof. exact (le32_enc_dec b0 b1 b2 b3). Qed.

(* non-vacuity: a storage message with ECU id, session id, timestamp and extended header, big endian, version
   bits 3: it is a parsed message; its export is 8 bytes shorter (ECU/session id dropped, version 1), re-reads
   with the same fields, and the export of the export is identical *)
Definition ex_bytes : bytes :=
  [68; 76; 84; 1;  1; 2; 3; 4;  63; 66; 15; 0;  69; 67; 85; 49;
   127; 9; 0; 29;  88; 89; 90; 48;  0; 0; 0; 7;  1; 2; 3; 4;  65; 2; 65; 80; 73; 68; 67; 84; 73; 68;  170; 187; 204].

Example C02_nonvacuous :
  exists m bytes m',
    parse_storage 5 ex_bytes = PMsg 45 m /\ parsed m /\
    msg_to_write m = Ok (WOk bytes) /\ blen bytes = 37 /\
    parse_storage 9 bytes = PMsg 37 m' /\ same_fields m m' /\ htyp (m_std m') = 51 /\ msg_to_write m' = Ok (WOk bytes).
Proof.
  destruct (parse_storage 5 ex_bytes) as [n m| |k] eqn:E; try (vm_compute in E; discriminate).
  assert (Hp : parsed m).
  { exists 5, ex_bytes, n. split; [repeat constructor|]. left. split; [vm_compute; reflexivity|exact E]. }
  destruct (C02_write_ok m Hp) as [bytes Hw].
  destruct (C02_parse_write_fields m bytes [] 9 Hp Hw ltac:(left; cbn; lia)) as (m' & Hparse & Hsame & _).
  rewrite app_nil_r in Hparse.
  exists m, bytes, m'.
  vm_compute in E. inversion E; subst n m. clear E.
  vm_compute in Hw. inversion Hw; subst bytes. clear Hw.
  split; [reflexivity|]. split; [exact Hp|]. split; [reflexivity|]. split; [reflexivity|].
  split; [exact Hparse|]. split; [exact Hsame|].
  vm_compute in Hparse. inversion Hparse; subst m'. split; reflexivity.
Qed.

(* ------------------------------------------------------------------ wave 7: the plugin stage
   "No option of the tool that is not a filter / selection may remove messages from an export."  With a plugin option
   (--file_transfer..., --nonverbose_path, --someip_path, --rewrite_path, --can_path, --muniic_path) convert() runs
   plugins_process_msgs between the lifecycle stage and the writer (Dlt/WritePipeline.v: plugin, plugins_pass,
   plugins_process, convert_o_plugins).  A chain of conservative plugins (never drop; may fill in a missing extended
   header, and the timestamp when [allow_ts] -- the contract C19 establishes for the decoders) hands on every message, in
   order, inside that contract: *)
Theorem C02_plugin_stage_forwards_every_message (allow_ts : bool) (ps : list plugin) (ms : list msg) :
  Forall (Conservative allow_ts) ps -> Forall2 (completes allow_ts) ms (plugins_process ps ms).
Proof. intros H. exact (plugins_process_conservative allow_ts ms ps H). Qed.

(* the export under such a stage, for ANY input file the reader accepts: to_write of the input's messages, in order, each
   completed within the contract; with the completions undone it is the export without the stage *)
Theorem C02_export_under_forwarding_plugin_stage (allow_ts : bool) (ps : list plugin) (data : bytes) ms st rest :
  Forall (Conservative allow_ts) ps -> run_iter 0 data = Ok (ms, st, rest) ->
  exists ms',
    convert_o_plugins ps data = write_all ms' /\ Forall2 (completes allow_ts) ms ms' /\
    write_all (uncomplete_all ms ms') = convert_o data.
Proof.
  intros Hps Hr.
  assert (H0 : 0 <= u32max) by (vm_compute; discriminate).
  destruct (run_iter_indices 0 data ms st rest H0 Hr) as [_ Hi].
  exact (convert_o_plugins_conservative allow_ts ps data ms st rest Hps Hr Hi).
Qed.

(* plugins that forward every message untouched: the export IS the export without the stage *)
Theorem C02_export_under_exact_plugin_stage (ps : list plugin) (data : bytes) :
  Forall Exact ps -> convert_o_plugins ps data = convert_o data.
Proof. exact (convert_o_plugins_exact ps data). Qed.

(* the file-transfer plugin: [ft_forwards] is what the model of process_msg (C17, FileTransfer/Ft.v: step) returns, on the
   arguments decoded by the model of the argument iterator (C18, Dlt/Args.v), whatever transfers it has seen; it drops
   exactly the messages classified as FLDA, and only when keepFLDA is off *)
Theorem C02_file_transfer_forwarding_is_process_msg (c : FT.cfg) (s s' : FT.st) (m : msg) (b : bool) :
  FT.step c s (ft_view m) = Ok (s', b) ->
  b = ft_forwards c m /\ (b = false <-> FT.classify c (ft_view m) = FT.KFlda /\ FT.c_keep_flda c = false).
Proof.
  intros H. pose proof (ft_forwards_is_step c s m s' b H) as Hb. split; [exact Hb|].
  subst b. unfold ft_forwards. destruct (FT.classify c (ft_view m)); split; try discriminate; try (intros [E _]; discriminate).
  - intros E. split; [reflexivity|exact E].
  - intros [_ E]. exact E.
Qed.

(* `adlt convert --file_transfer=<glob> [--file_transfer_apid a] [--file_transfer_ctid c] [--file_transfer_path d] -o`:
   convert() configures the plugin with keepFLDA = true (the CLI only extracts files; the exported log stays complete), so
   for EVERY input, every glob, id restriction and auto-save directory the export is the export without these options *)
Theorem C02_export_with_cli_file_transfer_options (apid ctid : option N) (dir : option (list N)) (glob : list N -> bool)
    (data : bytes) :
  convert_o_ft apid ctid dir glob data = convert_o data.
Proof. exact (convert_o_ft_eq apid ctid dir glob data). Qed.

(* ... hence the export clause holds under them: every message, in order, same fields; export of the export identical *)
Theorem C02_convert_export_roundtrip_with_file_transfer_options (apid ctid : option N) (dir : option (list N))
    (glob : list N -> bool) (data : bytes) ms st rest :
  wf_bytes data -> file_micros_ok data -> run_iter 0 data = Ok (ms, st, rest) ->
  exists bytes ms' st',
    convert_o_ft apid ctid dir glob data = Ok (WOk bytes) /\
    run_iter 0 bytes = Ok (ms', st', []) /\ Forall2 same_fields ms ms' /\ map m_index ms' = map m_index ms /\
    i_skipped st' = 0 /\ i_processed st' = blen bytes /\
    convert_o_ft apid ctid dir glob bytes = Ok (WOk bytes).
Proof.
  intros Hd Hm Hr. rewrite C02_export_with_cli_file_transfer_options.
  destruct (C02_convert_export_roundtrip data ms st rest Hd Hm Hr) as (bytes & ms' & st' & H).
  exists bytes, ms', st'. rewrite C02_export_with_cli_file_transfer_options. exact H.
Qed.

(* non-vacuity, and what the statement rests on: a file with a file transfer (hello, FLST, FLDA #1, text, FLDA #2, FLFI;
   verbose log-info messages of apid FTA / ctid FTC, little endian).  The model recognises the two data packages
   (classified FLDA; FLST / FLFI / the others are not).  Under the configuration convert() builds the export is the input
   (6 messages); under the SAME configuration without a "keepFLDA" entry (from_json's default: false) the plugin stage
   swallows both packages and the export holds 4 messages: hello, FLST, text, FLFI -- unless the id restriction
   (--file_transfer_apid) excludes the messages from the plugin altogether. *)
Definition ex_str (s : list N) : list N := [0; 2; 0; 0] ++ [N.of_nat (length s) + 1; 0] ++ s ++ [0].
Definition ex_u32 (v : N) : list N := [67; 0; 0; 0; v; 0; 0; 0].
Definition ex_raw (d : list N) : list N := [0; 4; 0; 0] ++ [N.of_nat (length d); 0] ++ d.
Definition FLDA : list N := [70; 76; 68; 65].
Definition ex_ft_msgs : list msg :=
  map (fun x : N * N * list N =>
         let '(i, n, p) := x in
         {| m_index := i; m_reception_us := 1000001000000 + i * 1000; m_ecu := (69, 67, 85, 49); m_timestamp := 10000 + i;
            m_std := {| htyp := 49; mcnt := i; len := 0 |};
            m_ext := Some {| verb_mstp_mtin := 65; noar := n; apid := (70, 84, 65, 0); ctid := (70, 84, 67, 0) |};
            m_payload := p |})
      [(0, 1, ex_str [104; 105]);
       (1, 8, ex_str [70; 76; 83; 84] ++ ex_u32 7 ++ ex_str [97; 46; 98] ++ ex_u32 4 ++ ex_str [100] ++ ex_u32 2 ++ ex_u32 2 ++ ex_str [70; 76; 83; 84]);
       (2, 5, ex_str FLDA ++ ex_u32 7 ++ ex_u32 1 ++ ex_raw [100; 97] ++ ex_str FLDA);
       (3, 1, ex_str [116]);
       (4, 5, ex_str FLDA ++ ex_u32 7 ++ ex_u32 2 ++ ex_raw [116; 97] ++ ex_str FLDA);
       (5, 3, ex_str [70; 76; 70; 73] ++ ex_u32 7 ++ ex_str [70; 76; 70; 73])].
Definition ex_apid_fta : N := ecu_key (70, 84, 65, 0).
Definition ex_apid_sys : N := ecu_key (83, 89, 83, 0).

Example C02_cli_keep_flda_nonvacuous :
  exists data,
    write_all ex_ft_msgs = Ok (WOk data) /\
    map (fun m => FT.classify (cli_ft_cfg None None None (fun _ => true)) (ft_view m)) ex_ft_msgs
      = [FT.KOther; FT.KFlst; FT.KFlda; FT.KOther; FT.KFlda; FT.KFlfi] /\
    convert_o data = Ok (WOk data) /\
    convert_o_ft None None None (fun _ => true) data = Ok (WOk data) /\
    convert_o_ft (Some ex_apid_fta) None None (fun _ => false) data = Ok (WOk data) /\
    (exists short,
       convert_o_plugins [ft_plugin (cli_ft_cfg_no_keep None None None (fun _ => true))] data = Ok (WOk short) /\
       short <> data /\
       match run_iter 0 short with Ok (ms, _, r) => map (fun m => mcnt (m_std m)) ms = [0; 1; 3; 5] /\ r = [] | _ => False end /\
       convert_o_plugins [ft_plugin (cli_ft_cfg_no_keep (Some ex_apid_fta) None None (fun _ => true))] data = Ok (WOk short)) /\
    convert_o_plugins [ft_plugin (cli_ft_cfg_no_keep (Some ex_apid_sys) None None (fun _ => true))] data = Ok (WOk data).
Proof.
  destruct (write_all ex_ft_msgs) as [[data|p]| |] eqn:E; try (vm_compute in E; discriminate).
  exists data. vm_compute in E. inversion E; subst data. clear E.
  split; [reflexivity|]. split; [vm_compute; reflexivity|]. split; [vm_compute; reflexivity|].
  split; [rewrite C02_export_with_cli_file_transfer_options; vm_compute; reflexivity|].
  split; [rewrite C02_export_with_cli_file_transfer_options; vm_compute; reflexivity|].
  split.
  - eexists. split; [vm_compute; reflexivity|]. split; [discriminate|]. split; [vm_compute; split; reflexivity|].
    vm_compute; reflexivity.
  - vm_compute; reflexivity.
Qed.
Print Assumptions C02_write_ok.
Print Assumptions C02_parse_write_fields.
Print Assumptions C02_write_normal_form.
Print Assumptions C02_export_roundtrip.
Print Assumptions C02_file_messages_parsed.
Print Assumptions C02_file_export_roundtrip.
Print Assumptions C02_lifecycle_stage_keeps_every_message_in_order.
Print Assumptions C02_convert_export_roundtrip.
Print Assumptions C02_convert_reader_wiring.
Print Assumptions C02_convert_normal_form_fixed_point.
Print Assumptions C02_export_independent_of_prior_output_content.
Print Assumptions C02_output_path_holds_exactly_the_export.
Print Assumptions C02_convert_export_roundtrip_over_any_output_path.
Print Assumptions C02_export_chain_over_one_path.
Print Assumptions C02_export_chain_last_input_only.
Print Assumptions C02_output_path_nonvacuous.
Print Assumptions C02_large_export_evaluation.
Print Assumptions C02_pipeline_nonvacuous.
Print Assumptions C02_u16_be_roundtrip.
Print Assumptions C02_u32_le_roundtrip.
Print Assumptions C02_u32_be_roundtrip.
Print Assumptions C02_u32_le_bytes_roundtrip.
Print Assumptions C02_nonvacuous.
Print Assumptions C02_plugin_stage_forwards_every_message.
Print Assumptions C02_export_under_forwarding_plugin_stage.
Print Assumptions C02_export_under_exact_plugin_stage.
Print Assumptions C02_file_transfer_forwarding_is_process_msg.
Print Assumptions C02_export_with_cli_file_transfer_options.
Print Assumptions C02_convert_export_roundtrip_with_file_transfer_options.
Print Assumptions C02_cli_keep_flda_nonvacuous.
