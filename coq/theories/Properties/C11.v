(* C11 — A filter matches exactly the conjunction of its criteria, via every front-end.
   Statements only; proofs are in Filter/MatchProofs.v, Filter/MatchEngineProofs.v, Filter/FrontendsProofs.v,
   Filter/FrontendsRoundtrip.v.

   Model: Filter/Match.v (`Filter::matches`, early returns) and Filter/Frontends.v (`from_json` after serde_json,
   `from_quick_xml_reader` after the element map, `filters_from_convert_format`, `EacFilter::from_str`, `to_json`)
   and Filter/FrontendsXml.v (the event loops of `filters_from_dlf` / `from_quick_xml_reader` over quick-xml events).
   [re : engine -> pattern -> text -> bool] is the regular-expression oracle (is_match of the three engines),
   [valid : engine -> pattern -> bool] says whether a pattern compiles.  Nothing is assumed about either.
   Filter/MatchEngine.v types the engines as the code does: regex / regex::bytes answer a bool, fancy_regex (payload
   pattern) answers Result<bool, Error> and can fail at match time depending on the message's text:
   [fre : pattern -> text -> eans] (match / no match / engine error); [matches_total] is `matches` with its
   `unwrap_or(false)`, in the result monad (Ok | Panic).
   The abstract filter of the property text, its meaning [aspec] and its renderings are in Filter/FrontendsSpec.v. *)
From Coq Require Import List NArith Bool Permutation.
From AdltV Require Import Base.Res Filter.Match Filter.MatchProofs Filter.MatchEngine Filter.MatchEngineProofs
  Filter.Frontends Filter.FrontendsSpec
  Filter.FrontendsProofs Filter.FrontendsRoundtrip Filter.FrontendsXml Filter.FrontendsXmlProofs.
Import ListNotations.
Open Scope N_scope.

Section Statements.
  Variable re : engine -> pattern -> text -> bool.
  Variable valid : engine -> pattern -> bool.

  (* `Filter::matches` (early returns) = enabled && (negate xor every specified criterion holds);
     the criteria are spelled out once in [criteria_hold] (Filter/Match.v, "specification"):
     ids by 4-byte equality or regex, type under mask, level bounds for log messages only, payload by regex /
     case-insensitive literal / substring, lifecycle membership with the empty list = no criterion *)
  Theorem C11_matches_spec f m :
    matches re f m = f_enabled f && xorb (f_negate f) (criteria_hold re f m).
  Proof. exact (matches_is_spec re f m). Qed.

  (* application-id, context-id, type and level criteria never hold without extended header *)
  Theorem C11_no_ext_header_fails_id_type_level f m :
    m_ext m = None -> needs_ext_header f = true ->
    criteria_hold re f m = false /\ matches re f m = f_enabled f && f_negate f.
  Proof. intros He Hn. split; [exact (no_ext_criteria_fail re f m He Hn)|exact (no_ext_matches re f m He Hn)]. Qed.

  (* the lifecycle criterion is membership in the listed ids as a SET: it holds iff the list is empty or the
     message's lifecycle id occurs in it, and two lists with the same elements (any order, any repetitions) give
     filters that decide identically *)
  Theorem C11_lifecycle_membership f l m :
    pass_lifecycles (set_lifecycles f (Some l)) m = true <-> (l = [] \/ In (m_lc m) l).
  Proof. exact (pass_lifecycles_in f l m). Qed.

  Theorem C11_lifecycles_order_and_duplicates_irrelevant f l1 l2 m :
    (forall y, In y l1 <-> In y l2) ->
    matches re (set_lifecycles f (Some l1)) m = matches re (set_lifecycles f (Some l2)) m.
  Proof. exact (matches_lifecycles_same_set re f l1 l2 m). Qed.

  Corollary C11_lifecycles_permutation f l1 l2 m :
    Permutation l1 l2 -> matches re (set_lifecycles f (Some l1)) m = matches re (set_lifecycles f (Some l2)) m.
  Proof.
    intros H. apply C11_lifecycles_order_and_duplicates_irrelevant. intros y.
    split; [apply Permutation_in; exact H|apply Permutation_in; apply Permutation_sym; exact H].
  Qed.

  (* the literal payload criterion is "the text can be cut into  before ++ literal ++ after" *)
  Theorem C11_substring_spec s t : substr s t = true <-> exists before after, t = before ++ s ++ after.
  Proof. exact (substr_spec s t). Qed.

  (* every front-end that can express the abstract filter [a] builds the very same Filter from it
     ([verbose]: optional members written or left out; [sep1] [sep2]: the separator bytes of the list format) *)
  Theorem C11_frontends_load_same_filter a verbose sep1 sep2 :
    awf valid a = true ->
    from_json_kv valid (render_json verbose a) = Some (filter_of a) /\
    (dlf_expressible a = true -> from_dlf_attrs valid (render_dlf verbose a) = filter_of a) /\
    (conv_expressible a = true -> from_convert_format (render_conv sep1 sep2 a) = [filter_of a]) /\
    (eac_expressible a = true -> eac_from_str valid (render_eac a) = Some (filter_of a)).
  Proof.
    intros Hwf. split; [exact (json_loads valid verbose a Hwf)|].
    split; [exact (dlf_loads valid verbose a Hwf)|].
    split; [exact (conv_loads sep1 sep2 a)|exact (eac_loads valid a Hwf)].
  Qed.

  (* the two event loops of the DLF loader: a file written element by element
     (<?xml?><dltfilter> (<filter> (<name>text</name>)* </filter>)* </dltfilter>) yields, per <filter>, what the
     second half of from_quick_xml_reader makes of its element map *)
  Theorem C11_dlf_file_loads fs :
    filters_from_dlf_events valid (file_events fs) = Some (map (from_dlf_attrs valid) fs).
  Proof. exact (dlf_events_load valid fs). Qed.

  (* ... and that Filter decides as the property text says: the same abstract filter decides identically, and as
     [aspec], through JSON, DLF, the dlt-convert list and the ECU:APID:CTID expression *)
  Theorem C11_frontends_agree a m verbose sep1 sep2 :
    awf valid a = true -> msg_wf m = true ->
    (exists f, from_json_kv valid (render_json verbose a) = Some f /\ matches re f m = aspec re a m) /\
    (dlf_expressible a = true ->
     exists f, filters_from_dlf_events valid (file_events [render_dlf verbose a]) = Some [f] /\
               matches re f m = aspec re a m) /\
    (conv_expressible a = true ->
     map (fun f => matches re f m) (from_convert_format (render_conv sep1 sep2 a)) = [aspec re a m]) /\
    (eac_expressible a = true ->
     exists f, eac_from_str valid (render_eac a) = Some f /\ matches re f m = aspec re a m).
  Proof.
    intros Hwf Hm. pose proof (filter_of_meaning re valid a m Hwf Hm) as M.
    destruct (C11_frontends_load_same_filter a verbose sep1 sep2 Hwf) as (Hj & Hd & Hc & He).
    split; [exists (filter_of a); split; [exact Hj|exact M]|].
    split; [intros H; exists (filter_of a); split; [rewrite C11_dlf_file_loads; cbn [map]; rewrite (Hd H); reflexivity|exact M]|].
    split; [intros H; rewrite (Hc H); cbn [map]; rewrite M; reflexivity|].
    intros H. exists (filter_of a). split; [exact (He H)|exact M].
  Qed.

  (* the readable meaning of the type criterion agrees with "value under mask" on bytes *)
  Theorem C11_type_under_mask t v :
    atype_wf t = true -> v < 256 -> type_holds (atype_vm t) v = atype_holds t v.
  Proof.
    intros Ht Hv. destruct t as [x|w]; cbn [atype_wf atype_holds] in *; apply N.ltb_lt in Ht.
    - exact (type_mstp_readable x v Ht Hv).
    - exact (type_vmm_readable w v Ht Hv).
  Qed.

  (* a filter that came out of any of the four loaders, with printable-ASCII literal ids, is reproduced exactly by
     to_json followed by from_json — in particular it decides identically *)
  Theorem C11_json_roundtrip f :
    loaded valid f -> ids_printable f ->
    exists f', from_json_kv valid (JObject (to_json_kv f)) = Some f' /\ f' = f /\
               forall m, matches re f' m = matches re f m.
  Proof.
    intros Hl Hp. exists f. split; [|split; [reflexivity|intros m; reflexivity]].
    exact (json_roundtrip_eq valid f (loaded_has_shape valid f Hl) Hp).
  Qed.

  (* the same for any filter of the loaded shape (value/mask pairs JSON can express, compiled patterns, cached
     case-insensitive literal consistent with the flag) *)
  Theorem C11_json_roundtrip_shape f :
    loaded_shape valid f -> ids_printable f -> from_json_kv valid (JObject (to_json_kv f)) = Some f.
  Proof. exact (json_roundtrip_eq valid f). Qed.

  (* the payload pattern through to_json.  A loaded filter's pattern p is written as the text t from which
     from_json's rule — prefix "(?i)" exactly when ignoreCasePayload is set — rebuilds p; the option is written
     exactly when it is set; no "payload" member is written next to it *)
  Theorem C11_to_json_payload_regex_inverse f p :
    loaded valid f -> f_payload_regex f = Some p ->
    exists t, jget KPayloadRegex (to_json_kv f) = JStr t /\
              (if f_ignore_case f then ci_prefix ++ t else t) = p /\
              jget KIgnoreCasePayload (to_json_kv f) = (if f_ignore_case f then JBool true else JNull) /\
              jget KPayload (to_json_kv f) = JNull.
  Proof. intros Hl. exact (to_json_payload_regex_inverse valid f p (loaded_has_shape valid f Hl)). Qed.

  (* from_json then to_json writes the "payloadRegex" member back verbatim — whatever the text starts with (its own
     inline flag group "(?i)", "(?i:..)", "^(?i)", ...) and whether ignoreCasePayload is true, false or absent *)
  Theorem C11_json_payload_regex_text_kept o f s :
    from_json_kv valid (JObject o) = Some f -> as_str (jget KPayloadRegex o) = Some s ->
    f_payload_regex f = Some (if f_ignore_case f then ci_prefix ++ s else s) /\
    jget KPayloadRegex (to_json_kv f) = JStr s /\
    jget KIgnoreCasePayload (to_json_kv f) = (if f_ignore_case f then JBool true else JNull).
  Proof. exact (json_payload_regex_text_kept valid o f s). Qed.

  (* in particular a pattern that carries its own leading "(?i)" while ignoreCasePayload is absent / false keeps the
     group in the written JSON, nothing about case is added, and the reloaded filter is the same filter: it has the
     pattern "(?i)"++s again and decides identically on every message *)
  Theorem C11_json_roundtrip_inline_flag o f s :
    from_json_kv valid (JObject o) = Some f -> as_str (jget KPayloadRegex o) = Some (ci_prefix ++ s) ->
    f_ignore_case f = false -> ids_printable f ->
    jget KPayloadRegex (to_json_kv f) = JStr (ci_prefix ++ s) /\
    jget KIgnoreCasePayload (to_json_kv f) = JNull /\
    exists f', from_json_kv valid (JObject (to_json_kv f)) = Some f' /\
               f_payload_regex f' = Some (ci_prefix ++ s) /\ f_ignore_case f' = false /\
               forall m, matches re f' m = matches re f m.
  Proof.
    intros Hl Hs Hic Hp. destruct (C11_json_payload_regex_text_kept o f _ Hl Hs) as (Hpat & Hw & Hm).
    rewrite Hic in Hpat, Hm. split; [exact Hw|]. split; [exact Hm|].
    exists f. split; [|split; [exact Hpat|split; [exact Hic|reflexivity]]].
    exact (json_roundtrip_eq valid f (from_json_shape valid _ f Hl) Hp).
  Qed.
  (* ---- the engines as they are typed: the payload pattern's engine may fail at match time (wave 7).
     `Filter::matches` is TOTAL for every answer of every engine - no panic whatever the message's payload makes the
     backtracking engine do - and it is the specification with "engine error" read as "the pattern criterion does not
     hold"; the negation flag applies afterwards.  [re_collapse re fre] is the two-valued oracle of C11_matches_spec
     that this amounts to: C11_matches_spec and all theorems above hold for it. *)
  Variable fre : pattern -> text -> eans.

  Theorem C11_matches_total f m :
    matches_total re fre f m = Ok (matches (re_collapse re fre) f m) /\
    matches_total re fre f m = Ok (f_enabled f && xorb (f_negate f) (criteria_hold (re_collapse re fre) f m)) /\
    (forall c t, payload_holds (re_collapse re fre) c t =
                 match c with
                 | PRegex p => match fre p t with EMatch => true | ENoMatch => false | EError => false end
                 | PLiteralCi s => re ECi s t
                 | PLiteral s => substr s t
                 end).
  Proof.
    split; [exact (matches_total_is_matches re fre f m)|].
    split; [exact (matches_total_spec re fre f m)|].
    intros c t. rewrite (payload_holds_collapse re fre c t). destruct c; reflexivity.
  Qed.

  (* the error case spelled out: the engine fails on the message's text -> the criteria do not hold -> a plain filter
     does not match the message, a negated filter matches it (and a disabled one matches nothing) *)
  Theorem C11_engine_error_is_criterion_fails f m p t :
    f_payload_regex f = Some p -> m_text m = Some t -> fre p t = EError ->
    criteria_hold (re_collapse re fre) f m = false /\
    matches_total re fre f m = Ok (f_enabled f && f_negate f).
  Proof. exact (engine_error_is_criterion_fails re fre f m p t). Qed.

  (* the variant that unwraps the engine's Result (`is_match(..).unwrap()`): indistinguishable from the code as long as
     the engine does not fail on the message at hand ... *)
  Theorem C11_unwrap_variant_agrees_without_error f m :
    (forall p t, f_payload_regex f = Some p -> m_text m = Some t -> fre p t <> EError) ->
    matches_unwrapping re fre f m = matches_total re fre f m.
  Proof. exact (unwrapping_agrees_without_error re fre f m). Qed.

  (* ... and refuted by ANY error value of the engine: the filter {payloadRegex: p} (negated or not) panics on a
     message with the text t, where the code answers its negation flag *)
  Theorem C11_unwrap_variant_refuted p t negate :
    fre p t = EError ->
    matches_unwrapping re fre (filter_payload_regex p negate) (msg_with_text t) = Panic site_regex_unwrap /\
    matches_total re fre (filter_payload_regex p negate) (msg_with_text t) = Ok negate.
  Proof. exact (unwrapping_refuted re fre p t negate). Qed.
End Statements.

(* ---------------------------------------------------------------- non-vacuity and kept witnesses *)
Definition ex_valid : engine -> pattern -> bool := fun _ _ => true.
Definition ex_re : engine -> pattern -> text -> bool := fun _ p t => substr p t.

(* apid "AP", ctid "CTID": expressible in all four formats *)
Definition ex_ids : afilter :=
  {| a_kind := 0; a_enabled := true; a_negate := false; a_ecu := None;
     a_apid := Some {| ai_s := [65; 80]; ai_regex := false |};
     a_ctid := Some {| ai_s := [67; 84; 73; 68]; ai_regex := false |};
     a_type := None; a_lmin := None; a_lmax := None; a_payload := None; a_lcs := None |}.
(* every kind of criterion at once (JSON only: negated, lifecycles, full type byte) *)
Definition ex_all : afilter :=
  {| a_kind := 1; a_enabled := true; a_negate := true;
     a_ecu := Some {| ai_s := [69; 67; 85]; ai_regex := true |};
     a_apid := Some {| ai_s := [65; 80]; ai_regex := false |};
     a_ctid := Some {| ai_s := [67; 84; 73; 68; 88]; ai_regex := false |};
     a_type := Some (AVmm 65); a_lmin := Some 2; a_lmax := Some 5;
     a_payload := Some {| ap_s := [102; 111; 111]; ap_regex := false; ap_ic := false |};
     a_lcs := Some [1; 2] |}.
Definition ex_msg (vmm lc : N) (with_ext : bool) : msg :=
  {| m_ecu := (69, 67, 85, 49);
     m_ext := if with_ext then Some {| e_vmm := vmm; e_apid := (65, 80, 0, 0); e_ctid := (67, 84, 73, 68) |} else None;
     m_text := Some [97; 32; 102; 111; 111]; m_lc := lc |}.

Example C11_nonvacuous :
  awf ex_valid ex_ids = true /\ dlf_expressible ex_ids = true /\ conv_expressible ex_ids = true /\
  eac_expressible ex_ids = true /\
  aspec ex_re ex_ids (ex_msg 65 0 true) = true /\ aspec ex_re ex_ids (ex_msg 65 0 false) = false /\
  awf ex_valid ex_all = true /\ msg_wf (ex_msg 65 2 true) = true /\
  (* all criteria hold -> the negated filter does not match; one criterion fails -> it matches *)
  acriteria_hold ex_re ex_all (ex_msg 65 2 true) = true /\ aspec ex_re ex_all (ex_msg 65 2 true) = false /\
  aspec ex_re ex_all (ex_msg 65 3 true) = true /\ aspec ex_re ex_all (ex_msg 97 2 true) = true /\
  aspec ex_re ex_all (ex_msg 65 2 false) = true /\
  loaded ex_valid (filter_of ex_all) /\ ids_printable (filter_of ex_all).
Proof.
  repeat (split; [vm_compute; reflexivity|]).
  split.
  - left. exists (render_json true ex_all). apply json_loads. vm_compute. reflexivity.
  - vm_compute. repeat split.
Qed.

(* DESIGN Appendix A, C11-1: {"type":0,"mstp":3} is written back with its message-type criterion
   (to_json used to drop it, so the reloaded filter matched every message) *)
Example C11_witness_mstp_is_serialised :
  exists f, from_json_kv ex_valid (JObject [(KType, JNum 0); (KMstp, JNum 3)]) = Some f /\
            f_vmm f = Some (6, 14) /\
            to_json_kv f = [(KType, JNum 0); (KMstp, JNum 3)] /\
            from_json_kv ex_valid (JObject (to_json_kv f)) = Some f.
Proof. eexists. split; [vm_compute; reflexivity|]. repeat split. Qed.

(* C11-2: a DLF literal payload without ignoreCase_Payload is matched by substring, not by the
   case-insensitive engine (the DLF loader used to build the case-insensitive regex unconditionally) *)
Example C11_witness_dlf_literal_case_sensitive :
  let f := from_dlf_attrs ex_valid [(DEnableFilter, [49]); (DEnablePayloadText, [49]); (DPayloadText, [102; 111; 111])] in
  f_payload_as_regex f = None /\ payload_crit f = Some (PLiteral [102; 111; 111]).
Proof. vm_compute. split; reflexivity. Qed.

(* wave 6: {"type":0,"payloadRegex":"(?i)error"} (no ignoreCasePayload) is written back with its "(?i)" and without
   an ignoreCasePayload member; under an engine for which "(?i)" means ASCII-case-insensitive search the loaded and
   the reloaded filter match "ERROR in module" while the filter for the text without the group does not — dropping
   the group on serialisation would change decisions *)
Definition ex_lower (t : text) : text := map (fun c => if (65 <=? c) && (c <=? 90) then c + 32 else c) t.
Definition ex_re_ci : engine -> pattern -> text -> bool :=
  fun _ p t => if is_prefix ci_prefix p then substr (ex_lower (skipn 4 p)) (ex_lower t) else substr p t.
Definition ex_error : text := [101; 114; 114; 111; 114].
Definition ex_msg_text (t : text) : msg :=
  {| m_ecu := (69, 67, 85, 49); m_ext := None; m_text := Some t; m_lc := 0 |}.
Example C11_witness_inline_flag_is_serialised :
  exists f f0,
    from_json_kv ex_valid (JObject [(KType, JNum 0); (KPayloadRegex, JStr (ci_prefix ++ ex_error))]) = Some f /\
    to_json_kv f = [(KType, JNum 0); (KPayloadRegex, JStr (ci_prefix ++ ex_error))] /\
    from_json_kv ex_valid (JObject (to_json_kv f)) = Some f /\
    from_json_kv ex_valid (JObject [(KType, JNum 0); (KPayloadRegex, JStr ex_error)]) = Some f0 /\
    (* "ERROR in module" *)
    let m := ex_msg_text [69; 82; 82; 79; 82; 32; 105; 110; 32; 109; 111; 100; 117; 108; 101] in
    matches ex_re_ci f m = true /\ matches ex_re_ci f0 m = false.
Proof. eexists. eexists. repeat split; vm_compute; reflexivity. Qed.

(* why the round trip is stated for printable-ASCII ids: DltChar4 is written through its Display, which shows a
   control character as '-' — a list-format filter for the apid "A\x01BC" comes back as a filter for "A-BC" *)
Example C11_json_roundtrip_needs_printable_ids :
  exists f f' m,
    In f (from_convert_format [65; 1; 66; 67; 32; 67; 84; 73; 68; 32]) /\
    from_json_kv ex_valid (JObject (to_json_kv f)) = Some f' /\
    matches ex_re f m = true /\ matches ex_re f' m = false.
Proof.
  eexists. eexists.
  exists {| m_ecu := (69, 67, 85, 49);
            m_ext := Some {| e_vmm := 65; e_apid := (65, 1, 66, 67); e_ctid := (67, 84, 73, 68) |};
            m_text := None; m_lc := 0 |}.
  split; [vm_compute; left; reflexivity|]. split; [vm_compute; reflexivity|]. split; vm_compute; reflexivity.
Qed.

(* wave 7: an engine that gives up on the text "abab..ab" (40 times, no 'c' behind it) for the pattern
   (?i)(a|b|ab)*(?=c) and answers "no match" elsewhere: the filter {"payloadRegex": ...} does not match that message,
   its negation matches it, neither panics; the unwrapping variant panics on both *)
Definition ex_evil_pat : pattern := [40; 63; 105; 41; 40; 97; 124; 98; 124; 97; 98; 41; 42; 40; 63; 61; 99; 41].
Definition ex_evil_text : text := concat (repeat [97; 98] 40).
Definition ex_fre : pattern -> text -> eans :=
  fun p t => if text_eqb p ex_evil_pat && text_eqb t ex_evil_text then EError else ENoMatch.
Example C11_witness_engine_error :
  matches_total ex_re ex_fre (filter_payload_regex ex_evil_pat false) (msg_with_text ex_evil_text) = Ok false /\
  matches_total ex_re ex_fre (filter_payload_regex ex_evil_pat true) (msg_with_text ex_evil_text) = Ok true /\
  matches_total ex_re ex_fre (filter_payload_regex ex_evil_pat true) (msg_with_text [97; 98]) = Ok true /\
  matches_unwrapping ex_re ex_fre (filter_payload_regex ex_evil_pat false) (msg_with_text ex_evil_text) = Panic site_regex_unwrap /\
  matches_unwrapping ex_re ex_fre (filter_payload_regex ex_evil_pat true) (msg_with_text ex_evil_text) = Panic site_regex_unwrap /\
  matches_unwrapping ex_re ex_fre (filter_payload_regex ex_evil_pat false) (msg_with_text [97; 98]) = Ok false.
Proof. repeat split; vm_compute; reflexivity. Qed.

Print Assumptions C11_matches_spec.
Print Assumptions C11_no_ext_header_fails_id_type_level.
Print Assumptions C11_lifecycle_membership.
Print Assumptions C11_lifecycles_order_and_duplicates_irrelevant.
Print Assumptions C11_lifecycles_permutation.
Print Assumptions C11_substring_spec.
Print Assumptions C11_frontends_load_same_filter.
Print Assumptions C11_dlf_file_loads.
Print Assumptions C11_frontends_agree.
Print Assumptions C11_type_under_mask.
Print Assumptions C11_json_roundtrip.
Print Assumptions C11_json_roundtrip_shape.
Print Assumptions C11_nonvacuous.
Print Assumptions C11_witness_mstp_is_serialised.
Print Assumptions C11_witness_dlf_literal_case_sensitive.
Print Assumptions C11_json_roundtrip_needs_printable_ids.
Print Assumptions C11_to_json_payload_regex_inverse.
Print Assumptions C11_json_payload_regex_text_kept.
Print Assumptions C11_json_roundtrip_inline_flag.
Print Assumptions C11_witness_inline_flag_is_serialised.
Print Assumptions C11_matches_total.
Print Assumptions C11_engine_error_is_criterion_fails.
Print Assumptions C11_unwrap_variant_agrees_without_error.
Print Assumptions C11_unwrap_variant_refuted.
Print Assumptions C11_witness_engine_error.
