(* C11 — A filter matches exactly the conjunction of its criteria, via every front-end.
   Statements only; proofs are in Filter/MatchProofs.v and Filter/FrontendsProofs.v.
   [re] is the regular-expression oracle (Filter/Match.v); nothing is assumed about it. *)
From Coq Require Import List NArith Bool.
From AdltV Require Import Filter.Match Filter.MatchProofs.
Import ListNotations.
Open Scope N_scope.

Section Statements.
  Variable re : engine -> pattern -> text -> bool.

  (* `Filter::matches` (early returns) = enabled && (negate xor every specified criterion holds);
     the criteria are spelled out once in [criteria_hold] (Filter/Match.v, "specification") *)
  Theorem C11_matches_spec f m :
    matches re f m = f_enabled f && xorb (f_negate f) (criteria_hold re f m).
  Proof. exact (matches_is_spec re f m). Qed.

  (* application-id, context-id, type and level criteria never hold without extended header *)
  Theorem C11_no_ext_header_fails_id_type_level f m :
    m_ext m = None -> needs_ext_header f = true ->
    criteria_hold re f m = false /\ matches re f m = f_enabled f && f_negate f.
  Proof. intros He Hn. split; [exact (no_ext_criteria_fail re f m He Hn)|exact (no_ext_matches re f m He Hn)]. Qed.
End Statements.

Print Assumptions C11_matches_spec.
Print Assumptions C11_no_ext_header_fails_id_type_level.
