(* C16 — Remote streams deliver exactly the requested window of the filtered log.
   Statements only; proofs are in Remote/StreamProofs.v (incremental index), Remote/StreamSearchProofs.v
   (search paging, std binary search, lookups), Remote/StreamSendProofs.v (send step, window changes, ids).
   The model (Remote/Stream.v) is generic in the message type [M]; a filter is its truth function
   (Filter::matches is C11's subject), [match_filters] is modelled.  [part] is PART_CHUNK_SIZE.
   The model is the model of the code after the six `fix:` commits listed in known_findings.d/C16.json;
   the behaviour before each repair is kept in the model as [*_prefix] and the lemmas [C16_before_fix_*]
   exhibit, for each, a concrete input on which it did not have the property. *)
From Coq Require Import List NArith Bool Lia Permutation.
From AdltV Require Import Base.Res Base.MachInt Remote.Stream Remote.StreamProofs Remote.StreamSearchProofs
  Remote.StreamSendProofs Remote.StreamFast Remote.StreamFastProofs Remote.StreamFilters Remote.StreamFiltersProofs
  Remote.StreamTimes Remote.StreamTimesProofs Exec.C16.
Import ListNotations.
Open Scope N_scope.

Section Statements.
  Context {M : Type}.
  Variable part : N.
  Hypothesis part_pos : 1 <= part.

  (* ---------------------------------------------------------------- the incremental index *)
  (* [sched_run part [] s0 sch]: every way in which parsed messages can become available to the server loop —
     batches of arrivals interleaved with calls of process_stream_new_msgs (offset and slice as
     process_file_context passes them) with any max_chunk_size >= 1 per call, and window-end changes.
     At every point of every schedule the index is exactly the matching positions below the resume marker
     (so the marker never skips or repeats a position); once everything is processed it is the set of
     matching positions (stream) resp. its first window.end elements (query). *)
  Theorem C16_filtered_batch_independent id is_stream binary (fs : fset M) start end_ (sch : list (sstep (M:=M))) :
    chunks_ok sch ->
    let r := sched_run part [] (new_ctx id is_stream binary fs start end_) sch in
    let all := fst r in let s := snd r in
    s_last s <= len all /\
    (filters_active_of fs = true -> s_filtered s = matching_idxs fs (firstN (s_last s) all) 0) /\
    (filters_active_of fs = false -> s_filtered s = []) /\
    (filters_active_of fs = true -> is_stream = true -> s_last s = len all -> s_filtered s = matching fs all) /\
    (filters_active_of fs = true -> is_stream = false -> no_end_change sch ->
       s_last s = len all \/ end_ <= len (s_filtered s) -> s_filtered s = firstN end_ (matching fs all)) /\
    (filters_active_of fs = true -> is_stream = false ->
       s_filtered s = firstN (len (s_filtered s)) (matching fs all) /\ (s_last s = len all -> s_filtered s = matching fs all)).
  Proof. exact (filtered_batch_independent part part_pos id is_stream binary fs start end_ sch). Qed.

  (* "once all messages are processed" is reached: every call with chunk size >= 1 advances the marker until
     everything is processed or the query has collected its window end *)
  Theorem C16_all_processed_after_enough_calls (all : list M) c (s : sctx M) :
    inv all s -> 1 <= c ->
    forall n, (N.to_nat (len all - s_last s) <= n)%nat ->
    let s' := feed_n part n all c s in
    inv all s' /\
    (s_last s' = len all \/
     (s_filters_active s' = true /\ s_is_stream s' = false /\ s_to_end s' <= len (s_filtered s'))).
  Proof. exact (all_processed_after_enough_calls part part_pos all c s). Qed.

  (* ---------------------------------------------------------------- the send step *)
  Variable time_of index_of : M -> N.
  Variable sort_by_time : bool.
  Notation run := (@run M part time_of index_of sort_by_time).

  (* [run (server0 n0) ops]: ANY history of arrivals/ticks (OTick new finished), stream / query creations, window
     changes, stops, searches and lookups.  It never panics, and for every stream [s] that is live after it
     (with whatever id and window it has by then, i.e. also after every window change) one more call of
     process_file_context delivers everything that is due: under the current id the client has got exactly the
     messages at stream positions [start, min(end, n)), each once, in order ([is_window]); the end marker was
     sent exactly once iff the query is finished, never for a stream; and once all messages are processed the
     delivered list is that slice of the filtered message sequence [fseq]. *)
  Theorem C16_window_delivered n0 ops new fin :
    exists sv1 evs1,
      run (server0 n0) ops = Ok (sv1, evs1) /\
      forall s, In s (sv_streams sv1) ->
        exists sv2 ev s',
          run (server0 n0) (ops ++ [OTick new fin]) = Ok (sv2, evs1 ++ ev) /\
          sv_all sv2 = sv_all sv1 ++ new /\
          s_id s' = s_id s /\ s_to_start s' = s_to_start s /\ s_to_end s' = s_to_end s /\
          s_filters s' = s_filters s /\ s_filters_active s' = s_filters_active s /\
          inv (sv_all sv2) s' /\
          let all := sv_all sv2 in
          let e := N.max (s_to_start s) (N.min (s_to_end s) (stream_len s' (len all))) in
          s_sent_end s' = e /\
          is_window all s' (s_to_start s) e (delivered (s_id s) (evs1 ++ ev)) /\
          end_markers (s_id s) (evs1 ++ ev) = (if s_is_done s' then 1 else 0) /\
          s_is_done s' = done_cond fin (len all) s' /\
          (s_is_done s' = false -> In s' (sv_streams sv2)) /\
          (s_last s' = len all ->
             stream_len s' (len all) = len (fseq all s') /\
             delivered (s_id s) (evs1 ++ ev) = firstN (e - s_to_start s) (skipN (s_to_start s) (fseq all s'))).
  Proof. exact (window_delivered part part_pos time_of index_of sort_by_time n0 ops new fin). Qed.

  (* the correspondence shards evaluate [fast_run] (single-pass fetching of the messages to send, needed for
     windows of some 100 000 messages): on every history it is [run] *)
  Theorem C16_fast_run_is_run n0 ops :
    fast_run part time_of index_of sort_by_time (server0 n0) ops = run (server0 n0) ops.
  Proof. exact (fast_run_is_run part part_pos time_of index_of sort_by_time n0 ops). Qed.

  (* a query is finished only when its window is filled or the parser has finished and everything is processed
     (so its end marker never comes before the messages of the window that the file contains) *)
  Theorem C16_query_end_only_when_complete fin all_len (s' : sctx M) :
    done_cond fin all_len s' = true ->
    s_is_stream s' = false /\ (s_to_end s' <= s_sent_end s' \/ (fin = true /\ all_len <= s_last s')).
  Proof.
    unfold done_cond. intros H. apply andb_true_iff in H. destruct H as [H1 H2]. apply negb_true_iff in H2.
    split; [exact H2|]. apply orb_true_iff in H1. destruct H1 as [H1|H1].
    - apply andb_true_iff in H1. destruct H1 as [H3 H4]. apply N.leb_le in H4. right. auto.
    - apply N.leb_le in H1. left. exact H1.
  Qed.

  (* at every moment of every history: nothing outside the window, nothing twice, nothing out of order *)
  Theorem C16_window_prefix_always n0 ops :
    exists sv evs,
      run (server0 n0) ops = Ok (sv, evs) /\
      forall s, In s (sv_streams sv) ->
        s_to_start s <= s_sent_end s /\
        s_sent_end s <= N.max (s_to_start s) (N.min (s_to_end s) (stream_len s (len (sv_all sv)))) /\
        is_window (sv_all sv) s (s_to_start s) (s_sent_end s) (delivered (s_id s) evs) /\
        end_markers (s_id s) evs = 0.
  Proof. exact (window_prefix_always part part_pos time_of index_of sort_by_time n0 ops). Qed.

  (* a command that is answered with an error - a rejected request (malformed parameters, unknown key, bad JSON:
     [OReject]), a window change / stop / search / lookup with an unknown id, an index lookup of a missing index -
     changes nothing: every stream keeps its id, window, sent range and index, the id counter does not move, and
     the error reply is the only thing sent.  (So the announced id stays usable and no frame can appear under an
     id that was not announced.) *)
  Theorem C16_rejected_command_changes_nothing (sv sv' : server M) (o : op M) ev :
    step part time_of index_of sort_by_time sv o = Ok (sv', ev) -> existsb is_error_reply ev = true ->
    sv' = sv /\ (ev = [EErr] \/ exists id, ev = [EReplyLookup id None]).
  Proof. exact (rejected_command_changes_nothing part time_of index_of sort_by_time sv sv' o ev). Qed.

  (* per command *)
  Theorem C16_rejected_request_is_identity (sv : server M) :
    step part time_of index_of sort_by_time sv OReject = Ok (sv, [EErr]).
  Proof. reflexivity. Qed.
  Theorem C16_window_change_unknown_id_is_identity (sv : server M) id a b :
    find_stream id (sv_streams sv) = None -> step part time_of index_of sort_by_time sv (OWindow id a b) = Ok (sv, [EErr]).
  Proof. exact (window_change_unknown_id_is_identity part time_of index_of sort_by_time sv id a b). Qed.
  Theorem C16_stop_unknown_id_is_identity (sv : server M) id :
    find_stream id (sv_streams sv) = None -> step part time_of index_of sort_by_time sv (OStop id) = Ok (sv, [EErr]).
  Proof. exact (stop_unknown_id_is_identity part time_of index_of sort_by_time sv id). Qed.
  Theorem C16_search_unknown_id_is_identity (sv : server M) id a maxr fs :
    find_stream id (sv_streams sv) = None -> step part time_of index_of sort_by_time sv (OSearch id a maxr fs) = Ok (sv, [EErr]).
  Proof. exact (search_unknown_id_is_identity part time_of index_of sort_by_time sv id a maxr fs). Qed.
  Theorem C16_lookup_unknown_id_is_identity (sv : server M) id x :
    find_stream id (sv_streams sv) = None ->
    step part time_of index_of sort_by_time sv (OLookupIdx id x) = Ok (sv, [EErr]) /\
    step part time_of index_of sort_by_time sv (OLookupTime id x) = Ok (sv, [EErr]).
  Proof. exact (lookup_unknown_id_is_identity part time_of index_of sort_by_time sv id x). Qed.

  (* no frame carries a stream id before the reply that announced this id (stream / query / stream_change_window) *)
  Theorem C16_ids_announced_first n0 ops sv evs :
    run (server0 n0) ops = Ok (sv, evs) -> well_announced [] evs.
  Proof. exact (ids_announced_first part part_pos time_of index_of sort_by_time n0 ops sv evs). Qed.

  (* ---------------------------------------------------------------- search paging *)
  (* following next_search_idx from [start]: the pages examine consecutive ranges that partition
     [start, stream length) ([chain]), each page returns the matching positions of its range, and the union
     of the pages is exactly the set of matching positions.  For every page size, also 0. *)
  Theorem C16_search_pages_partition (all : list M) (s : sctx M) (fs : fset M) maxr fuel start :
    inv all s ->
    (N.to_nat (stream_len s (len all) - start) < fuel)%nat ->
    exists pages,
      search_pages fuel all s start maxr fs = Ok pages /\
      chain start pages (N.max start (stream_len s (len all))) /\
      Forall (fun p => fst p = hits all s fs (fst (snd p)) (snd (snd p))) pages /\
      concat (map fst pages) = hits all s fs start (N.max start (stream_len s (len all))).
  Proof.
    intros Hi Hf. exact (search_pages_partition all s fs maxr (inv_stream_ok all s Hi) fuel start Hf).
  Qed.

  (* ... in particular for every live stream after any history of commands and arrivals *)
  Theorem C16_search_pages_partition_reachable n0 ops (fs : fset M) maxr start :
    exists sv evs,
      run (server0 n0) ops = Ok (sv, evs) /\
      forall s, In s (sv_streams sv) ->
        let n := stream_len s (len (sv_all sv)) in
        exists pages,
          search_pages (S (N.to_nat (n - start))) (sv_all sv) s start maxr fs = Ok pages /\
          chain start pages (N.max start n) /\
          concat (map fst pages) = hits (sv_all sv) s fs start (N.max start n).
  Proof.
    destruct (reachable_inv part part_pos time_of index_of sort_by_time n0 ops) as [sv [evs [Hr Hi]]].
    exists sv, evs. split; [exact Hr|]. intros s Hs. cbv zeta.
    destruct (C16_search_pages_partition (sv_all sv) s fs maxr (S (N.to_nat (stream_len s (len (sv_all sv)) - start))) start (Hi s Hs))
      as [pages [H1 [H2 [_ H4]]]]; [lia|]. exists pages. auto.
  Qed.

  (* ---------------------------------------------------------------- lookups *)
  (* the algorithm of slice::binary_search_by of the toolchain keeps the documented contract *)
  Theorem C16_std_bsearch_meets_contract {A} (cmp : A -> comparison) l :
    partitioned cmp l -> bsearch_valid cmp l (std_bsearch cmp l).
  Proof. exact (std_bsearch_valid cmp l). Qed.

  (* ... and an Ok result of that algorithm is the LAST of several equal elements: the cause of the repaired
     time / index lookups that answered the last message of a time *)
  Theorem C16_std_bsearch_returns_last_equal {A} (cmp : A -> comparison) l i :
    partitioned cmp l -> std_bsearch cmp l = BOk i ->
    forall j a, i < j -> nthN l j = Some a -> cmp a = Gt.
  Proof. exact (std_bsearch_ok_is_last cmp l i). Qed.

  (* whichever result the contract of binary_search allows on filtered_msgs: the answer is the position of the
     first stream message that is not before all_msgs position [ai] *)
  Theorem C16_stream_pos_first_not_before (all : list M) (s : sctx M) bs ai :
    inv all s -> keeps_contract bs -> ai <= len all ->
    let p := stream_pos_with bs s ai in
    p <= stream_len s (len all) /\
    (forall q a, q < p -> all_pos all s q = Some a -> a < ai) /\
    (forall q a, p <= q -> all_pos all s q = Some a -> ai <= a).
  Proof. intros Hi. exact (stream_pos_first_not_before all s Hi bs ai). Qed.

  (* time lookup on a log ordered by time: the position of the first stream message not before [t] *)
  Theorem C16_lookup_first_not_before (all : list M) (s : sctx M) t :
    inv all s -> time_ordered time_of all ->
    let p := lookup_time time_of all s t in
    p <= stream_len s (len all) /\
    (forall q m, q < p -> stream_msg all s q = Ok m -> time_of m < t) /\
    (forall q m, p <= q -> stream_msg all s q = Ok m -> t <= time_of m).
  Proof. intros Hi. exact (lookup_time_first_not_before time_of all s Hi t). Qed.

  (* binary_search_by_msg_index has four branches (sort_by_time x filters_active).  Each is pinned under exactly the
     sortedness facts it relies on, for ANY results the contract of binary_search allows ([bsA] on all_msgs,
     [bsF] on filtered_msgs):
       file order + filters     : msg.index ascending along all_msgs  AND  filtered_msgs ascending (from [inv])
       file order, no filters   : msg.index ascending along all_msgs
       time sorted + filters    : filtered_msgs ascending (from [inv]) only - nothing about msg.index or the times
       time sorted, no filters  : nothing *)
  Theorem C16_lookup_index_branch_file_order_filtered (all : list M) (s : sctx M) bsA bsF idx :
    inv all s -> keeps_contract_on M bsA -> keeps_contract bsF -> index_increasing index_of all ->
    match lookup_index_with index_of bsA bsF all s idx with
    | Some p =>
        exists ai m, nthN all ai = Some m /\ index_of m = idx /\
          p <= stream_len s (len all) /\
          (forall q a, q < p -> all_pos all s q = Some a -> a < ai) /\
          (forall q a, p <= q -> all_pos all s q = Some a -> ai <= a)
    | None => forall j m, nthN all j = Some m -> index_of m <> idx
    end.
  Proof. intros Hi. exact (lookup_index_with_first_not_before index_of all s Hi bsA bsF idx). Qed.

  Theorem C16_lookup_index_branch_file_order_unfiltered (all : list M) (s : sctx M) bsA bsF idx :
    keeps_contract_on M bsA -> index_increasing index_of all -> s_filters_active s = false ->
    match lookup_index_with index_of bsA bsF all s idx with
    | Some p => exists m, nthN all p = Some m /\ index_of m = idx
    | None => forall j m, nthN all j = Some m -> index_of m <> idx
    end.
  Proof. exact (lookup_index_unfiltered_exact index_of all s bsA bsF idx). Qed.

  Theorem C16_lookup_index_branch_time_sorted_filtered (all : list M) (s : sctx M) bsF idx :
    inv all s -> keeps_contract bsF ->
    match lookup_index_sorted_with index_of bsF all s idx with
    | Some p =>
        exists ai m, nthN all ai = Some m /\ index_of m = idx /\
          (forall j m', j < ai -> nthN all j = Some m' -> index_of m' <> idx) /\
          p <= stream_len s (len all) /\
          (forall q a, q < p -> all_pos all s q = Some a -> a < ai) /\
          (forall q a, p <= q -> all_pos all s q = Some a -> ai <= a)
    | None => forall j m, nthN all j = Some m -> index_of m <> idx
    end.
  Proof. intros Hi. exact (lookup_index_sorted_with_first_not_before index_of all s Hi bsF idx). Qed.

  Theorem C16_lookup_index_branch_time_sorted_unfiltered (all : list M) (s : sctx M) bsF idx :
    s_filters_active s = false ->
    match lookup_index_sorted_with index_of bsF all s idx with
    | Some p => exists m, nthN all p = Some m /\ index_of m = idx /\
                          (forall j m', j < p -> nthN all j = Some m' -> index_of m' <> idx)
    | None => forall j m, nthN all j = Some m -> index_of m <> idx
    end.
  Proof. exact (lookup_index_sorted_unfiltered_exact index_of all s bsF idx). Qed.

  (* the code's instances (std's algorithm for both searches): index lookup, file order *)
  Theorem C16_lookup_index_first_not_before (all : list M) (s : sctx M) idx :
    inv all s -> index_increasing index_of all ->
    match lookup_index index_of all s idx with
    | Some p =>
        exists ai m, nthN all ai = Some m /\ index_of m = idx /\
          p <= stream_len s (len all) /\
          (forall q a, q < p -> all_pos all s q = Some a -> a < ai) /\
          (forall q a, p <= q -> all_pos all s q = Some a -> ai <= a)
    | None => forall j m, nthN all j = Some m -> index_of m <> idx
    end.
  Proof. intros Hi. exact (lookup_index_first_not_before index_of all s Hi idx). Qed.

  (* index lookup, file sorted by time *)
  Theorem C16_lookup_index_sorted_first_not_before (all : list M) (s : sctx M) idx :
    inv all s ->
    match lookup_index_sorted index_of all s idx with
    | Some p =>
        exists ai m, nthN all ai = Some m /\ index_of m = idx /\
          (forall j m', j < ai -> nthN all j = Some m' -> index_of m' <> idx) /\
          p <= stream_len s (len all) /\
          (forall q a, q < p -> all_pos all s q = Some a -> a < ai) /\
          (forall q a, p <= q -> all_pos all s q = Some a -> ai <= a)
    | None => forall j m, nthN all j = Some m -> index_of m <> idx
    end.
  Proof. intros Hi. exact (lookup_index_sorted_first_not_before index_of all s Hi idx). Qed.
End Statements.

(* ---------------------------------------------------------------- the time base of the time lookup *)
(* binary_search_by_time_us computes the time of a message from the lifecycle table (Remote/StreamTimes.v): it fills a map
   lifecycle id -> `start_time` and takes start_time + timestamp_us(), the reception time for a message without entry.
   [entry_last id tab] is the table's entry with that id. *)
Section TimeBase.
  Context {M : Type}.
  Variable lc_of ts_us_of rt_of : M -> N.   (* m.lifecycle, m.timestamp_us(), m.reception_time_us *)

  (* the key of a message *)
  Theorem C16_lookup_time_key_from_start_time (tab : list lc_entry) (m : M) :
    msg_time lc_of ts_us_of rt_of tab m =
    match entry_last (lc_of m) tab with
    | Some e => lc_start e + ts_us_of m
    | None => rt_of m
    end.
  Proof. exact (msg_time_spec lc_of ts_us_of rt_of tab m). Qed.

  (* what the lookup takes from a lifecycle table entry: the field start_time and nothing else.  Two tables whose entries
     agree on start_time (and on presence) under the lifecycle ids of the messages of all_msgs - whatever else differs:
     being a resume, the start recorded for the resumed lifecycle and with it resume_start_time() (the start time that is
     SENT TO THE CLIENT in BinLifecycle) - give the same answer for every stream and every requested time *)
  Theorem C16_lookup_time_reads_only_start_time (tab1 tab2 : list lc_entry) (all : list M) (s : sctx M) t :
    (forall m, In m all ->
       option_map lc_start (entry_last (lc_of m) tab1) = option_map lc_start (entry_last (lc_of m) tab2)) ->
    lookup_time_tab lc_of ts_us_of rt_of tab1 all s t = lookup_time_tab lc_of ts_us_of rt_of tab2 all s t.
  Proof. exact (lookup_time_reads_only_start_time lc_of ts_us_of rt_of tab1 tab2 all s t). Qed.

  (* the time lookup under exactly the fact its partition_point relies on - all_msgs is partitioned by "time < t", which
     every log ordered by time is for every t -: the position of the first stream message not before [t], the time of a
     message being start_time(lifecycle) + timestamp *)
  Theorem C16_lookup_time_table_first_not_before (tab : list lc_entry) (all : list M) (s : sctx M) t :
    let time := msg_time lc_of ts_us_of rt_of tab in
    inv all s -> partitioned_at all time t ->
    let p := lookup_time_tab lc_of ts_us_of rt_of tab all s t in
    p <= stream_len s (len all) /\
    (forall q m, q < p -> stream_msg all s q = Ok m -> time m < t) /\
    (forall q m, p <= q -> stream_msg all s q = Ok m -> t <= time m).
  Proof. cbv zeta. exact (lookup_time_tab_first_not_before lc_of ts_us_of rt_of tab all s t). Qed.

  Theorem C16_time_ordered_is_partitioned_at_every_time (time_of : M -> N) (all : list M) t :
    time_ordered time_of all -> partitioned_at all time_of t.
  Proof. exact (time_ordered_partitioned_at all time_of t). Qed.

  (* resume_start_time() differs from start_time only on a resumed entry whose start is at or before the start recorded for
     its origin: on every table without such an entry the presented time of every message is its time *)
  Theorem C16_presented_start_differs_only_for_moved_resumes (tab : list lc_entry) (m : M) :
    forallb (fun e => negb (moved_resume e)) tab = true ->
    msg_time_presented lc_of ts_us_of rt_of tab m = msg_time lc_of ts_us_of rt_of tab m.
  Proof. exact (presented_time_differs_only_by_moved_resumes lc_of ts_us_of rt_of tab m). Qed.
End TimeBase.

(* ... and it matters: lifecycle 1 (start 100), lifecycle 2 resumes it, its start was moved to 95 (resume_start_time() = 101).
   The 15 messages (lifecycle, timestamp, reception) are ordered by time (101 .. 115).  Requested time 110: the code answers 9,
   the first message not before 110; keyed by resume_start_time() the answer would be 5, a message of time 106 *)
Theorem C16_resume_start_time_is_not_the_lookup_key :
  map (msg_time w_lc w_ts w_rt w_tab) w_all = [101; 102; 103; 104; 105; 106; 107; 108; 109; 110; 111; 112; 113; 114; 115] /\
  lookup_time_tab w_lc w_ts w_rt w_tab w_all w_s 110 = 9 /\
  lookup_time_presented w_lc w_ts w_rt w_tab w_all w_s 110 = 5 /\
  option_map (msg_time w_lc w_ts w_rt w_tab) (nthN w_all 5) = Some 106.
Proof.
  destruct w_times as [H1 _]. destruct w_lookups as [H2 [H3 [H4 _]]]. repeat split; assumption.
Qed.

(* KNOWN FINDING sorted_view_keyed_by_stale_lifecycle_start (known_findings.d/C16.json; reproduced on the real binary, corpus
   session corpus_overtaking(true)).  With sort:true the order of all_msgs is made by the sort thread, whose key is the start
   it has cached for the lifecycle + timestamp, capped at the reception time ([sort_key]); the lookup compares
   start_time + timestamp with the table's CURRENT start_time.  When the start moves after the sorter cached it, all_msgs is
   in the sorter's order but not partitioned by the lookup's times, and the answer is a position behind a stream message that
   is not before the requested time.  The class: all_msgs is not partitioned at the requested time; the positive theorem on
   its complement is C16_lookup_time_table_first_not_before (hypothesis [partitioned_at]) *)
Definition C16_KnownClass_not_partitioned_at {M} (lc_of ts_us_of rt_of : M -> N) (tab : list lc_entry) (all : list M) (t : N) : Prop :=
  ~ partitioned_at all (msg_time lc_of ts_us_of rt_of tab) t.

Theorem C16_lookup_time_in_stale_sorted_view_refuted :
  exists (cached final : list lc_entry) (all : list (N * N * N)) (s : sctx (N * N * N)) (t : N),
    inv all s /\
    ordered_by (sort_key w_lc w_ts w_rt cached) all = true /\
    C16_KnownClass_not_partitioned_at w_lc w_ts w_rt final all t /\
    let p := lookup_time_tab w_lc w_ts w_rt final all s t in
    exists q m, q < p /\ stream_msg all s q = Ok m /\ t <= msg_time w_lc w_ts w_rt final m.
Proof.
  exists st_cached, st_final, st_all, w_s, 105.
  destruct st_witness as [H1 [_ [H3 [H4 H5]]]].
  split; [|split; [exact H1|split; [exact st_not_partitioned|]]].
  - split; [vm_compute; discriminate|]. split; [intros E; vm_compute in E; discriminate|reflexivity].
  - cbv zeta. rewrite H3. exists 8, (1, 13, 108). split; [lia|]. split; [exact H4|]. rewrite H5. lia.
Qed.

(* non-vacuity: the hypothesis of C16_lookup_time_reads_only_start_time on two tables that differ in everything but
   start_time (the second one knows nothing of a resume and has a further entry), and the partition at the requested time *)
Example C16_nonvacuous_time_base :
  let tab2 := [ {| lc_id := 7; lc_start := 3; lc_resume := Some 9 |}; {| lc_id := 2; lc_start := 95; lc_resume := None |};
                {| lc_id := 1; lc_start := 100; lc_resume := Some 5 |} ] in
  (forall m, In m w_all ->
     option_map lc_start (entry_last (w_lc m) w_tab) = option_map lc_start (entry_last (w_lc m) tab2)) /\
  partitioned_at w_all (msg_time w_lc w_ts w_rt w_tab) 110 /\
  lookup_time_tab w_lc w_ts w_rt tab2 w_all w_s 110 = 9.
Proof.
  cbv zeta. split; [|split].
  - intros m Hm. cbn in Hm. repeat (destruct Hm as [Hm|Hm]; [subst m; vm_compute; reflexivity|]). contradiction.
  - apply time_ordered_partitioned_at. intros i j a b Hij Ha Hb.
    assert (Hs : forall k x, nthN w_all k = Some x -> msg_time w_lc w_ts w_rt w_tab x = 101 + k).
    { intros k x Hk. pose proof (nthN_some_lt _ _ _ Hk) as Hlt. change (len w_all) with 15 in Hlt.
      assert (Hk' : exists n, (n < 15)%nat /\ k = N.of_nat n) by (exists (N.to_nat k); lia).
      destruct Hk' as [n [Hn ->]]. unfold nthN in Hk. rewrite Nat2N.id in Hk.
      do 15 (destruct n as [|n]; [inversion Hk; subst x; vm_compute; reflexivity|]). lia. }
    rewrite (Hs i a Ha), (Hs j b Hb). lia.
  - vm_compute. reflexivity.
Qed.

(* ---------------------------------------------------------------- the code before the repairs did not have the property *)
Theorem C16_before_fix_search_skipped_a_position :
  stream_search_prefix d_all d_filtered 0 1 d_fs = Ok ([0], Some 2) /\
  stream_search_prefix d_all d_filtered 2 1 d_fs = Ok ([2], Some 4) /\
  stream_search_prefix d_all d_filtered 4 1 d_fs = Ok ([], None) /\
  hits d_all d_filtered d_fs 0 4 = [0; 1; 2; 3].
Proof. exact search_prefix_skipped_a_position. Qed.
Theorem C16_before_fix_search_found_nothing_without_filters :
  stream_search_prefix d_all d_unfiltered 0 100 d_fs = Ok ([], None) /\
  hits d_all d_unfiltered d_fs 0 4 = [0; 1; 2; 3].
Proof. exact search_prefix_found_nothing_without_filters. Qed.
Theorem C16_before_fix_lookup_time_returned_last_of_equal :
  lookup_time_prefix fst t_all t_s 2 = 3 /\ lookup_time fst t_all t_s 2 = 1.
Proof. exact lookup_time_prefix_returned_last_of_equal. Qed.
Theorem C16_before_fix_lookup_index_unfiltered_returned_0 :
  lookup_index_prefix snd t_all t_s 3 = Some 0 /\ lookup_index snd t_all t_s 3 = Some 3.
Proof. exact lookup_index_prefix_unfiltered_returned_0. Qed.
Theorem C16_before_fix_lookup_index_sorted_returned_last_of_equal :
  lookup_index_sorted_prefix fst snd t_all t_sf 1 = Some 2 /\ lookup_index_sorted snd t_all t_sf 1 = Some 0.
Proof. exact lookup_index_sorted_prefix_returned_last_of_equal. Qed.
(* why the time-sorted branch must not search the stream by msg.index (as the file-order branch may): in time order
   msg.index is not ascending along the stream *)
Theorem C16_search_by_index_in_time_order_is_wrong :
  lookup_index_sorted_by_index snd r_all r_s 1 = Some 1 /\ lookup_index_sorted snd r_all r_s 1 = Some 0 /\
  lookup_index_sorted_by_index snd r_all r_s 2 = Some 1 /\ lookup_index_sorted snd r_all r_s 2 = Some 2.
Proof. exact search_by_index_in_time_order_is_wrong. Qed.
(* a query on a log that is still being parsed: a tick without new messages ended it (before the repair) *)
Theorem C16_before_fix_query_ended_while_parsing :
  let s := new_ctx 1 false true (cfset [(0, 1, 1, 1)]) 0 5 in
  query_done_prefix false 0 s = true /\ done_cond false 0 s = false.
Proof. split; vm_compute; reflexivity. Qed.

(* the amount sent per call is an explicit parameter of the model ([send_budget] = None: everything that is due).
   The rule that ends a query relies on it: with any finite budget and the same rule a query served after the
   parser has finished gets only the first [budget] messages of its window and then its end marker *)
Theorem C16_query_end_rule_needs_unbounded_send :
  let log := expand [(5, 1, 1)] in
  let q := new_ctx 1 false true (cfset [(0, 1, 1, 1)]) 0 10 in
  (exists s' ms, tick_stream_gen part_chunk collect (Some 2) log true q = Ok (s', [FInfo 1 5 5 5; FMsgs 1 ms; FDone 1]) /\
                 map c_index ms = [0; 1]) /\
  (exists s' ms, tick_stream_gen part_chunk collect send_budget log true q = Ok (s', [FInfo 1 5 5 5; FMsgs 1 ms; FDone 1]) /\
                 map c_index ms = [0; 1; 2; 3; 4]).
Proof. cbv zeta. split; eexists _, _; (split; [vm_compute; reflexivity|vm_compute; reflexivity]). Qed.

(* a session with rejected commands in between: the stream keeps id 1, the later window change finds it and gets
   the new window under the newly announced id 2 *)
Example C16_nonvacuous_rejected :
  let log := expand [(6, 1, 1)] in
  let ops := [ONew true true (cfset []) 0 2; OTick log true; OReject; OWindow 7 0 1; OReject; OWindow 1 3 5; OTick [] true] in
  exists sv evs, c_run [] false (server0 1) ops = Ok (sv, evs) /\
    map c_index (delivered 1 evs) = [0; 1] /\ map c_index (delivered 2 evs) = [3; 4] /\
    filter is_error_reply evs = [EErr; EErr; EErr] /\ map (@s_id cmsg) (sv_streams sv) = [2].
Proof. cbv zeta. eexists _, _. split; [vm_compute; reflexivity|]. repeat split; vm_compute; reflexivity. Qed.

(* ---------------------------------------------------------------- the filter set of a command *)
(* "the filtered message sequence" and "the set of matching positions" are defined by the "filters" array of the
   command.  Remote/StreamFilters.v models the loop of StreamContext::from (stream / query) and of
   process_stream_search_params (stream_search) that builds the container match_filters reads: a filter is
   (kind, enabled, criteria); only enabled filters are sorted into the list of their kind. *)
Section FilterSets.
  Context {M : Type}.
  Notation pfilter := (@pfilter M).

  (* the selection is the set semantics of the ENABLED filters of the array: no enabled positive filter exists or one
     matches; no enabled negative filter matches; no enabled event filter exists or AT LEAST ONE matches *)
  Theorem C16_filter_set_semantics (l : list pfilter) m :
    match_filters (fset_of l) m = true <->
      ((~ exists f, In f l /\ pf_enabled f = true /\ pf_kind f = KPos) \/
       (exists f, In f l /\ pf_enabled f = true /\ pf_kind f = KPos /\ pf_crit f m = true)) /\
      (~ exists f, In f l /\ pf_enabled f = true /\ pf_kind f = KNeg /\ pf_crit f m = true) /\
      ((~ exists f, In f l /\ pf_enabled f = true /\ pf_kind f = KEvent) \/
       (exists f, In f l /\ pf_enabled f = true /\ pf_kind f = KEvent /\ pf_crit f m = true)).
  Proof. exact (filter_set_semantics l m). Qed.

  (* a disabled filter of any kind, or a marker filter, anywhere in the array: the same container, hence the same
     stream, query and search; the order of the array is irrelevant for the selection *)
  Theorem C16_disabled_and_marker_filters_have_no_effect (a b : list pfilter) f :
    pf_enabled f = false \/ pf_kind f = KMarker -> fset_of (a ++ f :: b) = fset_of (a ++ b).
  Proof. exact (ineffective_filter_ignored a b f). Qed.
  Theorem C16_only_enabled_filters_count (l : list pfilter) : fset_of l = fset_of (filter (@pf_enabled M) l).
  Proof. exact (disabled_filters_dropped l). Qed.
  Theorem C16_filter_order_irrelevant (a b : list pfilter) m :
    Permutation a b -> match_filters (fset_of a) m = match_filters (fset_of b) m.
  Proof. exact (selection_order_irrelevant a b m). Qed.

  (* several event (positive) filters are a union: with an enabled event filter f in front the event rule is
     "f matches or one of the others does"; a further one never removes a message *)
  Theorem C16_event_filters_are_a_union (l : list pfilter) f m :
    pf_enabled f = true -> pf_kind f = KEvent ->
    match_filters (fset_of (f :: l)) m =
      ((negb (has_kind KPos l) || kind_hits KPos l m) && negb (kind_hits KNeg l m) && (pf_crit f m || kind_hits KEvent l m)) /\
    (has_kind KEvent l = true -> match_filters (fset_of l) m = true -> match_filters (fset_of (f :: l)) m = true).
  Proof.
    intros He Hk. split; [exact (event_rule_is_or l f m He Hk)|exact (more_event_filters_select_more l f m He Hk)].
  Qed.
  Theorem C16_positive_filters_are_a_union (l : list pfilter) f m :
    pf_enabled f = true -> pf_kind f = KPos -> has_kind KPos l = true ->
    match_filters (fset_of l) m = true -> match_filters (fset_of (f :: l)) m = true.
  Proof. exact (more_positive_filters_select_more l f m). Qed.

  (* the filtered message sequence of a stream / query created with the array l (the sequence whose windows
     C16_window_delivered delivers): position i of the log is in it iff the enabled filters of l select its message *)
  Theorem C16_filtered_sequence_is_set_semantics (l : list pfilter) (all : list M) :
    matching (fset_of l) all = idxs_where (selects l) all 0 /\
    forall i, In i (matching (fset_of l) all) <-> exists m, nthN all i = Some m /\ selects l m = true.
  Proof. split; [exact (filtered_sequence_is_selection l all)|intros i; exact (in_filtered_sequence_iff l all i)]. Qed.

  (* paging through a search whose request carried the array l: the union of the pages is exactly the stream positions
     from [start] on whose message the ENABLED filters of l select *)
  Theorem C16_search_pages_union_is_set_semantics (all : list M) (s : sctx M) (l : list pfilter) maxr fuel start :
    inv all s ->
    (N.to_nat (stream_len s (len all) - start) < fuel)%nat ->
    exists pages,
      search_pages fuel all s start maxr (fset_of l) = Ok pages /\
      chain start pages (N.max start (stream_len s (len all))) /\
      concat (map fst pages) =
        filter (fun i => match stream_msg all s i with Ok m => selects l m | _ => false end)
               (range start (N.max start (stream_len s (len all)))).
  Proof.
    intros Hi Hf. exact (search_pages_union_is_selection all s l maxr fuel start (inv_stream_ok all s Hi) Hf).
  Qed.
End FilterSets.

(* the two near misses on concrete inputs (messages are numbers, a criterion is "equals v").
   "every event filter matches" instead of "at least one": event filters 1 and 2 select positions 1,2,3 of the log
   [0;1;2;1], the all() rule selects nothing - and it agrees with the real rule whenever at most one enabled event
   filter exists, so only filter sets with two or more event filters tell them apart *)
Theorem C16_event_rule_all_is_wrong :
  (let l := [nf KEvent true 1; nf KEvent true 2] in
   idxs_where (selects l) [0; 1; 2; 1] 0 = [1; 2; 3] /\ idxs_where (selects_event_all l) [0; 1; 2; 1] 0 = []) /\
  (forall M (l : list (@pfilter M)) m, (length (filter (is_en KEvent) l) <= 1)%nat -> selects_event_all l m = selects l m).
Proof. split; [exact event_all_rule_is_wrong|intros M l m; exact (event_all_rule_agrees_up_to_one l m)]. Qed.
(* the parse loop without the `enabled` guard: one disabled positive or event filter makes the selection empty *)
Theorem C16_unguarded_disabled_filter_is_wrong :
  let l := [nf KPos false 7] in
  matching (fset_of l) [0; 1; 2] = [0; 1; 2] /\ matching (fset_of_unguarded l) [0; 1; 2] = [] /\
  let l' := [nf KEvent false 7; nf KEvent true 1] in
  matching (fset_of l') [0; 1; 2] = [1] /\ matching (fset_of_unguarded l') [0; 1; 2] = [1] /\
  let l'' := [nf KEvent false 7] in
  matching (fset_of l'') [0; 1; 2] = [0; 1; 2] /\ matching (fset_of_unguarded l'') [0; 1; 2] = [].
Proof. exact unguarded_disabled_filter_is_wrong. Qed.

(* non-vacuity: a command array with every kind, enabled and disabled filters, two event filters; the concrete
   filters of the correspondence cases (Exec/C16.v) are instances of the parse model *)
Example C16_nonvacuous_filter_set :
  let fs := [(3, 1, 1, 1); (0, 0, 1, 2); (3, 1, 2, 1); (0, 1, 0, 0); (1, 2, 1, 1); (3, 0, 2, 0); (2, 1, 0, 1)] in
  let log := expand_file [(1, 1, 0, 0, 0, 0, 0, 0, 0, 0); (1, 1, 1, 0, 0, 0, 0, 0, 0, 1); (1, 1, 2, 0, 0, 0, 0, 0, 0, 2);
                          (1, 1, 1, 1, 0, 0, 0, 0, 0, 3); (1, 2, 1, 0, 0, 0, 0, 0, 0, 4); (1, 1, 2, 0, 0, 0, 0, 0, 0, 5)] in
  matching (cfset fs) log = [1; 2; 5] /\
  matching (cfset (filter cf_enabled fs)) log = [1; 2; 5] /\
  matching (cfset (rev fs)) log = [1; 2; 5].
Proof. vm_compute. repeat split; reflexivity. Qed.

(* ---------------------------------------------------------------- non-vacuity *)
(* a schedule with three batches, chunk sizes 1, 2 and 100, on a query with window end 2 *)
Example C16_nonvacuous_index :
  let fs := cfset [(0, 1, 1, 1)] in
  let log := expand [(1, 1, 0); (2, 1, 1); (1, 1, 0); (2, 1, 1)] in
  let sch := [SArrive (firstN 2 log); SProc 1; SArrive (skipN 2 log); SProc 2; SProc 100] in
  chunks_ok sch /\ no_end_change sch /\
  s_filtered (snd (sched_run part_chunk [] (new_ctx 1 false true fs 0 2) sch)) = [1; 2] /\
  matching fs log = [1; 2; 4; 5].
Proof.
  cbv zeta. split; [|split; [|split; vm_compute; reflexivity]].
  - intros c H. cbn in H. repeat (destruct H as [H|H]; [try discriminate; inversion H; subst; lia|]). contradiction.
  - intros e H. cbn in H. repeat (destruct H as [H|H]; [discriminate|]). contradiction.
Qed.

(* a history with two arrival batches, a filtered stream, a window change and a query: what is delivered *)
Example C16_nonvacuous_session :
  let log := expand [(2, 1, 0); (3, 1, 1); (1, 1, 0); (2, 1, 1)] in
  let ops := [ONew true true (cfset [(0, 1, 1, 1)]) 1 3; OTick (firstN 4 log) false; OWindow 1 0 10;
              OTick (skipN 4 log) false; ONew false true (cfset [(0, 1, 0, 1)]) 0 2; OTick [] true] in
  exists sv evs, c_run [] false (server0 1) ops = Ok (sv, evs) /\
    map c_index (delivered 1 evs) = [3] /\                (* the old id: position 1 only, then renewed *)
    map c_index (delivered 2 evs) = [2; 3; 4; 6; 7] /\    (* the new id: the whole window *)
    map c_index (delivered 3 evs) = [0; 1] /\ end_markers 3 evs = 1 /\
    length (sv_streams sv) = 1%nat.
Proof.
  cbv zeta. eexists _, _. split; [vm_compute; reflexivity|]. repeat split; vm_compute; reflexivity.
Qed.

Example C16_nonvacuous_pages :
  let log := expand [(2, 1, 0); (3, 1, 1); (1, 1, 0); (2, 1, 1)] in
  let s := set_progress (new_ctx 1 true true (cfset []) 0 10) [] 8 in
  search_pages 9 log s 1 2 (cfset [(0, 1, 1, 1)]) = Ok [([2; 3], (1, 4)); ([4; 6], (4, 7)); ([7], (7, 8))].
Proof. vm_compute. reflexivity. Qed.

Print Assumptions C16_filtered_batch_independent.
Print Assumptions C16_all_processed_after_enough_calls.
Print Assumptions C16_window_delivered.
Print Assumptions C16_fast_run_is_run.
Print Assumptions C16_query_end_only_when_complete.
Print Assumptions C16_query_end_rule_needs_unbounded_send.
Print Assumptions C16_window_prefix_always.
Print Assumptions C16_rejected_command_changes_nothing.
Print Assumptions C16_rejected_request_is_identity.
Print Assumptions C16_window_change_unknown_id_is_identity.
Print Assumptions C16_stop_unknown_id_is_identity.
Print Assumptions C16_search_unknown_id_is_identity.
Print Assumptions C16_lookup_unknown_id_is_identity.
Print Assumptions C16_nonvacuous_rejected.
Print Assumptions C16_ids_announced_first.
Print Assumptions C16_search_pages_partition.
Print Assumptions C16_search_pages_partition_reachable.
Print Assumptions C16_std_bsearch_meets_contract.
Print Assumptions C16_std_bsearch_returns_last_equal.
Print Assumptions C16_stream_pos_first_not_before.
Print Assumptions C16_lookup_first_not_before.
Print Assumptions C16_lookup_index_branch_file_order_filtered.
Print Assumptions C16_lookup_index_branch_file_order_unfiltered.
Print Assumptions C16_lookup_index_branch_time_sorted_filtered.
Print Assumptions C16_lookup_index_branch_time_sorted_unfiltered.
Print Assumptions C16_search_by_index_in_time_order_is_wrong.
Print Assumptions C16_lookup_index_first_not_before.
Print Assumptions C16_lookup_index_sorted_first_not_before.
Print Assumptions C16_lookup_time_key_from_start_time.
Print Assumptions C16_lookup_time_reads_only_start_time.
Print Assumptions C16_lookup_time_table_first_not_before.
Print Assumptions C16_time_ordered_is_partitioned_at_every_time.
Print Assumptions C16_presented_start_differs_only_for_moved_resumes.
Print Assumptions C16_resume_start_time_is_not_the_lookup_key.
Print Assumptions C16_lookup_time_in_stale_sorted_view_refuted.
Print Assumptions C16_nonvacuous_time_base.
Print Assumptions C16_before_fix_search_skipped_a_position.
Print Assumptions C16_before_fix_search_found_nothing_without_filters.
Print Assumptions C16_before_fix_lookup_time_returned_last_of_equal.
Print Assumptions C16_before_fix_lookup_index_unfiltered_returned_0.
Print Assumptions C16_before_fix_lookup_index_sorted_returned_last_of_equal.
Print Assumptions C16_before_fix_query_ended_while_parsing.
Print Assumptions C16_filter_set_semantics.
Print Assumptions C16_disabled_and_marker_filters_have_no_effect.
Print Assumptions C16_only_enabled_filters_count.
Print Assumptions C16_filter_order_irrelevant.
Print Assumptions C16_event_filters_are_a_union.
Print Assumptions C16_positive_filters_are_a_union.
Print Assumptions C16_filtered_sequence_is_set_semantics.
Print Assumptions C16_search_pages_union_is_set_semantics.
Print Assumptions C16_event_rule_all_is_wrong.
Print Assumptions C16_unguarded_disabled_filter_is_wrong.
Print Assumptions C16_nonvacuous_filter_set.
Print Assumptions C16_nonvacuous_index.
Print Assumptions C16_nonvacuous_session.
Print Assumptions C16_nonvacuous_pages.
