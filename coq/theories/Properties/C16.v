(* C16 — Remote streams deliver exactly the requested window of the filtered log.
   Statements only; proofs are in Remote/StreamProofs.v (index), Remote/StreamSearchProofs.v (search paging,
   lookups), Remote/StreamSendProofs.v (send step / window changes).
   The model (Remote/Stream.v) is generic in the message type [M]; a filter is its truth function
   (Filter::matches is C11's subject), [match_filters] is modelled.  [part] is PART_CHUNK_SIZE. *)
From Coq Require Import List NArith Bool Lia.
From AdltV Require Import Base.Res Base.MachInt Remote.Stream Remote.StreamProofs Exec.C16.
Import ListNotations.
Open Scope N_scope.

Section Statements.
  Context {M : Type}.
  Variable part : N.
  Hypothesis part_pos : 1 <= part.

  (* [sched_run part [] s0 sch]: every way in which parsed messages can become available to the server loop —
     batches of arrivals interleaved with calls of process_stream_new_msgs (offset and slice as
     process_file_context passes them) with any max_chunk_size >= 1 per call, and window-end changes.
     At every point of every schedule the index is exactly the matching positions below the resume marker
     (so the marker never skips or repeats a position); once everything is processed it is the set of
     matching positions (stream) resp. its first window.end elements (query). *)
  Theorem C16_filtered_batch_independent id is_stream binary (fs : fset M) start end_ (sch : list (sstep (M:=M))) :
    chunks_ok sch ->
    let r := sched_run part [] (new_ctx id is_stream binary fs start end_) sch in
    let all := fst r in let s := snd r in
    s_last s <= len all /\
    (filters_active_of fs = true -> s_filtered s = matching_idxs fs (firstN (s_last s) all) 0) /\
    (filters_active_of fs = false -> s_filtered s = []) /\
    (filters_active_of fs = true -> is_stream = true -> s_last s = len all -> s_filtered s = matching fs all) /\
    (filters_active_of fs = true -> is_stream = false -> no_end_change sch ->
       s_last s = len all \/ end_ <= len (s_filtered s) -> s_filtered s = firstN end_ (matching fs all)) /\
    (filters_active_of fs = true -> is_stream = false ->
       s_filtered s = firstN (len (s_filtered s)) (matching fs all) /\ (s_last s = len all -> s_filtered s = matching fs all)).
  Proof. exact (filtered_batch_independent part part_pos id is_stream binary fs start end_ sch). Qed.

  (* "once all messages are processed" is reached: every call with chunk size >= 1 advances the marker until
     everything is processed or the query has collected its window end *)
  Theorem C16_all_processed_after_enough_calls (all : list M) c (s : sctx M) :
    inv all s -> 1 <= c ->
    forall n, (N.to_nat (len all - s_last s) <= n)%nat ->
    let s' := feed_n part n all c s in
    inv all s' /\
    (s_last s' = len all \/
     (s_filters_active s' = true /\ s_is_stream s' = false /\ s_to_end s' <= len (s_filtered s'))).
  Proof. exact (all_processed_after_enough_calls part part_pos all c s). Qed.
End Statements.

(* non-vacuity: a schedule with three batches, chunk sizes 1, 2 and 100, on a query with window end 2 *)
Example C16_nonvacuous_index :
  let fs := cfset [(0, 1, 1)] in
  let log := expand [(1, 1, 0); (2, 1, 1); (1, 1, 0); (2, 1, 1)] in
  let sch := [SArrive (firstN 2 log); SProc 1; SArrive (skipN 2 log); SProc 2; SProc 100] in
  chunks_ok sch /\ no_end_change sch /\
  s_filtered (snd (sched_run part_chunk [] (new_ctx 1 false true fs 0 2) sch)) = [1; 2] /\
  matching fs log = [1; 2; 4; 5].
Proof.
  cbv zeta. split; [|split; [|split; vm_compute; reflexivity]].
  - intros c H. cbn in H. repeat (destruct H as [H|H]; [try discriminate; inversion H; subst; lia|]). contradiction.
  - intros e H. cbn in H. repeat (destruct H as [H|H]; [discriminate|]). contradiction.
Qed.

Print Assumptions C16_filtered_batch_independent.
Print Assumptions C16_all_processed_after_enough_calls.
Print Assumptions C16_nonvacuous_index.
