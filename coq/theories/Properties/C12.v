(* C12 — Filter sets: positive OR, negative veto, event AND; order and counts kept.
   Statements only; proofs are in Filter/SetsProofs.v.  The model is Filter/Sets.v:
     filter_as_streams matches fs msgs budget   src/filter/functions.rs (budget = None: every `output(msg)` succeeds)
     build fs                                   the constructor loop of StreamContext::from / stream search / ExportPlugin
     match_filters matches c m                  src/utils/remote_utils.rs
     export_build / export_keep / export_run    src/plugins/export.rs
   [matches : flt -> M -> bool] (Filter::matches, property C11) and the message type [M] are arbitrary.
   A filter [flt] carries kind, enabled flag and an opaque id. *)
From Coq Require Import List NArith Bool Permutation Lia.
From AdltV Require Import Base.Obs Base.Res Base.MachInt Filter.Sets Filter.SetsProofs Exec.C12 Filter.SetsExecProofs.
Import ListNotations.
Open Scope N_scope.

Section Statements.
  Context {M : Type} (matches : flt -> M -> bool).

  (* the keep rule of the property text, in Prop *)
  Definition Has (k : kind) (fs : list flt) : Prop :=
    exists f, In f fs /\ f_enabled f = true /\ f_kind f = k.
  Definition HasMatching (k : kind) (fs : list flt) (m : M) : Prop :=
    exists f, In f fs /\ f_enabled f = true /\ f_kind f = k /\ matches f m = true.
  (* (no enabled positive filter exists or some positive filter matches) and no enabled negative filter matches *)
  Definition Keep (fs : list flt) (m : M) : Prop :=
    (~ Has Positive fs \/ HasMatching Positive fs m) /\ ~ HasMatching Negative fs m.
  (* no event filter exists or some event filter matches *)
  Definition EventOk (fs : list flt) (m : M) : Prop := ~ Has Event fs \/ HasMatching Event fs m.

  (* the boolean rule used below is exactly that *)
  Theorem C12_keep_rule_meaning fs m :
    (keep_spec matches fs m = true <-> Keep fs m) /\ (event_spec matches fs m = true <-> EventOk fs m).
  Proof. split; [exact (keep_spec_prop matches fs m)|exact (event_spec_prop matches fs m)]. Qed.

  (* stream filter: forwarded = the kept messages, unchanged, in order; passed + filtered = received *)
  Theorem C12_stream_filter_spec fs msgs :
    exists keep passed filtered,
      (forall m, keep m = true <-> Keep fs m) /\
      filter_as_streams matches fs msgs None = (filter keep msgs, Some (passed, filtered)) /\
      passed = N.of_nat (length (filter keep msgs)) /\
      passed + filtered = N.of_nat (length msgs).
  Proof.
    destruct (filter_as_streams_spec matches fs msgs) as [p [f [E [Hp Hs]]]].
    exists (keep_spec matches fs), p, f. split; [intros m; exact (keep_spec_prop matches fs m)|]. auto.
  Qed.

  (* receiver hangs up after k messages: exactly the first k kept messages were delivered, the call returns Err;
     a budget that is never exhausted changes nothing *)
  Theorem C12_stream_filter_hangup fs msgs k :
    let kept := filter (keep_spec matches fs) msgs in
    filter_as_streams matches fs msgs (Some k) =
    if Nat.leb (length kept) k then filter_as_streams matches fs msgs None else (firstn k kept, None).
  Proof. exact (filter_as_streams_hangup matches fs msgs k). Qed.

  (* set matcher on the container built by the constructors: the keep rule plus the event clause *)
  Theorem C12_set_match_spec fs m :
    match_filters matches (build fs) m = true <-> Keep fs m /\ EventOk fs m.
  Proof.
    rewrite match_filters_build. unfold keep_set_spec. rewrite andb_true_iff.
    rewrite (keep_spec_prop matches fs m), (event_spec_prop matches fs m). reflexivity.
  Qed.

  (* disabled filters and marker filters have no effect: two sets with the same enabled non-marker filters
     (same order) behave identically in both implementations ... *)
  Theorem C12_disabled_and_marker_irrelevant fs fs' :
    filter relevant fs = filter relevant fs' ->
    (forall msgs budget, filter_as_streams matches fs msgs budget = filter_as_streams matches fs' msgs budget) /\
    (forall m, match_filters matches (build fs) m = match_filters matches (build fs') m).
  Proof.
    intros H. split.
    - intros msgs b. apply filter_as_streams_ext. intros m. exact (keep_spec_same_relevant matches fs fs' m H).
    - intros m. rewrite !match_filters_build. exact (keep_set_spec_same_relevant matches fs fs' m H).
  Qed.

  (* ... in particular adding or removing one such filter anywhere *)
  Theorem C12_insert_disabled_or_marker fs1 f fs2 :
    f_enabled f = false \/ f_kind f = Marker ->
    (forall msgs budget, filter_as_streams matches (fs1 ++ f :: fs2) msgs budget = filter_as_streams matches (fs1 ++ fs2) msgs budget) /\
    (forall m, match_filters matches (build (fs1 ++ f :: fs2)) m = match_filters matches (build (fs1 ++ fs2)) m).
  Proof.
    intros H. apply C12_disabled_and_marker_irrelevant. apply filter_relevant_insert.
    unfold relevant. destruct H as [H|H]; rewrite H; [reflexivity|apply andb_false_r].
  Qed.

  (* it is a SET: the order in which the filters are given does not matter either *)
  Theorem C12_filter_order_irrelevant fs fs' :
    Permutation fs fs' ->
    (forall msgs budget, filter_as_streams matches fs msgs budget = filter_as_streams matches fs' msgs budget) /\
    (forall m, match_filters matches (build fs) m = match_filters matches (build fs') m).
  Proof.
    intros P. split.
    - intros msgs b. apply filter_as_streams_ext. intros m. exact (keep_spec_perm matches fs fs' m P).
    - intros m. rewrite !match_filters_build. exact (keep_set_spec_perm matches fs fs' m P).
  Qed.

  (* both implementations decide identically when there is no (enabled) event filter *)
  Theorem C12_impls_agree fs :
    (forall f, In f fs -> f_enabled f = true -> f_kind f <> Event) ->
    (forall m, match_filters matches (build fs) m = decide_stream matches (split_pos fs) (split_neg fs) m) /\
    (forall msgs, fst (filter_as_streams matches fs msgs None) = filter (match_filters matches (build fs)) msgs).
  Proof.
    intros H. pose proof (no_event_bool fs H) as Hb. split.
    - intros m. exact (impls_agree_decision matches fs m Hb).
    - intros msgs. exact (impls_agree_forwarded matches fs msgs Hb).
  Qed.

  (* with event filters the set matcher keeps a subset of what the stream filter keeps *)
  Theorem C12_set_keeps_subset_of_stream fs m :
    match_filters matches (build fs) m = true -> decide_stream matches (split_pos fs) (split_neg fs) m = true.
  Proof. rewrite decide_stream_spec. exact (set_implies_stream matches fs m). Qed.

  (* StreamContext.filters_active = "some enabled non-marker filter"; the short cut taken when it is false
     (no match_filters call at all) is what match_filters would have answered *)
  Theorem C12_inactive_keeps_all fs :
    filters_active (build fs) = existsb relevant fs /\
    (filters_active (build fs) = false -> forall m, match_filters matches (build fs) m = true).
  Proof. split; [exact (filters_active_build fs)|intros H m; exact (inactive_keeps_all matches fs m H)]. Qed.

  (* process_stream_new_msgs (stream branch): the indices collected are those of the matching messages, in order *)
  Theorem C12_matching_idxs_spec c msgs off :
    matching_idxs matches c msgs off =
    map fst (filter (fun p => match_filters matches c (snd p)) (number off msgs)) /\
    forall p, In p (number off msgs) ->
      off <= fst p < off + N.of_nat (length msgs) /\ nth_error msgs (N.to_nat (fst p - off)) = Some (snd p).
  Proof.
    split; [exact (matching_idxs_spec matches c msgs off)|].
    intros p H. split; [exact (number_fst_bounds off msgs p H)|exact (number_nth off msgs p H)].
  Qed.

  (* the server loop around it: every tick hands over ALL pending messages with offset = all_msgs_last_processed_len;
     whatever the chunk limit (>= 1) and however many messages are pending, once the ticks have run out of work
     filtered_msgs holds exactly the indices of the messages the set keeps, in order, nothing lost behind the
     chunk limit, and everything is accounted as processed (kept + dropped = received) *)
  Theorem C12_stream_rounds_complete fs all chunk fuel :
    1 <= chunk -> (length all <= fuel)%nat -> all <> [] ->
    stream_rounds matches (S fuel) (build fs) all chunk [] 0 =
    ((if filters_active (build fs) then map fst (filter (fun p => keep_set_spec matches fs (snd p)) (number 0 all)) else []),
     N.of_nat (length all)).
  Proof.
    intros Hc Hf Hn. destruct (filters_active (build fs)) eqn:Ha.
    - rewrite (stream_rounds_spec matches (build fs) all chunk Ha Hc) by (cbn; lia).
      cbn [N.to_nat skipn app]. rewrite matching_idxs_spec. f_equal. f_equal. apply filter_ext.
      intros p. apply match_filters_build.
    - exact (stream_rounds_inactive matches (build fs) all chunk fuel Ha Hn).
  Qed.

  (* export plugin: the configured set, the lifecyclesToKeep filter as one more negative filter, and the
     recorded-time window; written = kept messages in order, counters consistent *)
  Theorem C12_export_spec (rtime : M -> N) fs lc tf tt msgs :
    (forall f, lc = Some f -> f_enabled f = true /\ f_kind f = Negative) ->
    let fs' := fs ++ match lc with Some f => [f] | None => [] end in
    let keep := fun m => keep_set_spec matches fs' m && in_window tf tt (rtime m) in
    export_run matches rtime true (export_build fs lc) tf tt msgs =
      (filter keep msgs, N.of_nat (length (filter keep msgs)), N.of_nat (length msgs)) /\
    (forall g, export_replace_lc (export_build fs lc) g =
               match lc with Some _ => export_build fs (Some g) | None => export_replace_lc (build fs) g end).
  Proof.
    intros Hlc fs' keep. split.
    - rewrite export_run_spec.
      rewrite (filter_ext _ keep) by (intros m; exact (export_keep_spec matches rtime fs lc tf tt m Hlc)).
      reflexivity.
    - intros g. destruct lc as [f|]; [exact (export_replace_lc_build fs f g)|reflexivity].
  Qed.
End Statements.

(* export plugin with `lifecyclesToKeep`: the lifecycle lookup (evmap handle, keep_lifecycle) is arbitrary
   ([lc_of], [known], [keeps]); [lc_filter l] is the filter the plugin builds for the lifecycle list l. *)
Section ExportLifecycles.
  Context {M : Type} (matches : flt -> M -> bool) (rtime lc_of : M -> N) (known : M -> bool)
          (keeps : N -> M -> bool) (lc_filter : list N -> flt).
  Hypothesis lc_filter_negative : forall l, f_enabled (lc_filter l) = true /\ f_kind (lc_filter l) = Negative.

  (* If every message's lifecycle is in the table (else the plugin panics), then: nothing panics; after every
     message the container is the configured set plus exactly ONE lifecycle filter, the one for the lifecycles
     exported so far (so `pop()` always removes the previous lifecycle filter, never a configured one); a
     message is written iff the configured set keeps it (event clause included), the current lifecycle
     filter does not veto it and it lies in the recorded-time window; order and counters as before. *)
  Theorem C12_export_lifecycles_spec fs to_keep has_handle tf tt msgs :
    to_keep <> [] -> (forall m, In m msgs -> known m = true) ->
    let s0 := export_dyn_init lc_filter fs to_keep in
    exists tr,
      lc_trace lc_of known keeps lc_filter has_handle s0 msgs = Ok tr /\ length tr = length msgs /\
      Forall (fun s => x_c s = build (fs ++ [lc_filter (cur_lcs s)])) tr /\
      let kept := map fst (filter (fun p => keep_set_spec matches fs (fst p)
                                            && negb (matches (lc_filter (cur_lcs (snd p))) (fst p))
                                            && in_window tf tt (rtime (fst p))) (combine msgs tr)) in
      export_dyn_loop matches rtime lc_of known keeps lc_filter has_handle s0 tf tt msgs [] 0 0 =
        Ok (kept, N.of_nat (length kept), N.of_nat (length msgs), last tr s0).
  Proof. exact (export_dyn_spec matches rtime lc_of known keeps lc_filter lc_filter_negative fs to_keep has_handle tf tt msgs). Qed.

  (* the lifecycle list only grows, by the lifecycle of the message being processed; and without
     `lifecyclesToKeep` the plugin is the plain set matcher + window of C12_export_spec *)
  Theorem C12_export_lifecycles_monotone has_handle s m s' :
    export_lc_step lc_of known keeps lc_filter has_handle s m = Ok s' ->
    x_exported s' = x_exported s \/ x_exported s' = x_exported s ++ [lc_of m].
  Proof. exact (step_exported lc_of known keeps lc_filter has_handle s m s'). Qed.

  Theorem C12_export_no_lifecycles fs has_handle tf tt msgs :
    let s0 := export_dyn_init lc_filter fs [] in
    export_dyn_loop matches rtime lc_of known keeps lc_filter has_handle s0 tf tt msgs [] 0 0 =
    Ok (let '(o, a, b) := export_run matches rtime true (build fs) tf tt msgs in (o, a, b, s0)).
  Proof. intros s0. exact (export_dyn_no_keep matches rtime lc_of known keeps lc_filter has_handle tf tt msgs [] 0 0 s0 eq_refl). Qed.
End ExportLifecycles.

(* why the constructors drop disabled filters ("otherwise the no pos filter -> ... logic doesnt work"):
   even for a matcher that never matches a disabled filter, a container that keeps them decides differently *)
Theorem C12_enabled_test_in_constructor_needed :
  exists (matches : flt -> N -> bool) fs m,
    (forall f x, f_enabled f = false -> matches f x = false) /\
    match_filters matches (build_keep_disabled fs) m = false /\
    match_filters matches (build fs) m = true.
Proof.
  exists (fun f _ => f_enabled f), [mkFlt Positive false 0], 0. split; [intros f x H; exact H|].
  split; reflexivity.
Qed.

(* non-vacuity: a set with every kind, a disabled and an overlapping filter; the stream filter keeps 3 of 5
   messages, the set matcher 2 of them *)
Example C12_nonvacuous :
  let rows := [[true; true; false; false; true]; [false; true; true; false; false]; [false; true; false; false; false];
               [true; true; true; true; true]; [true; false; false; false; true]; [true; true; true; true; true]] in
  let fs := [mkFlt Positive true 0; mkFlt Positive true 1; mkFlt Negative true 2; mkFlt Marker true 3;
             mkFlt Event true 4; mkFlt Negative false 5] in
  filter_as_streams (matches_tab rows) fs [0; 1; 2; 3; 4] None = ([0; 2; 4], Some (3, 2)) /\
  filter (match_filters (matches_tab rows) (build fs)) [0; 1; 2; 3; 4] = [0; 4] /\
  filter_as_streams (matches_tab rows) fs [0; 1; 2; 3; 4] (Some 2%nat) = ([0; 2], None).
Proof. vm_compute. repeat split. Qed.

(* the instance used by the correspondence check meets the hypothesis of the ExportLifecycles section *)
Lemma lc_filter_case_negative c l : f_enabled (lc_filter_case c l) = true /\ f_kind (lc_filter_case c l) = Negative.
Proof. split; reflexivity. Qed.

(* ... and [matches_case] gives the plugin's own lifecycle filters exactly their meaning (u32 lifecycle ids): the
   filter built for the list l matches the messages whose lifecycle is NOT in l; configured filters are looked
   up in the exported truth table of the real matcher *)
Theorem C12_exec_matcher_meaning c :
  (forall l m, Forall (fun x => x <= u32max) l ->
     matches_case c (lc_filter_case c l) m = negb (memN (nth (N.to_nat m) (k_lcs c) 0) l)) /\
  (forall f m, f_id f < N.of_nat (length (k_filters c)) ->
     matches_case c f m = tab (map (fun x => snd x) (k_filters c)) false (f_id f) m).
Proof.
  split; [|exact (matches_case_configured c)].
  intros l m H. apply matches_case_lc_filter. eapply Forall_impl; [|exact H].
  intros x Hx. unfold u32max in Hx. change lc_base with 8589934592. cbn in Hx. lia.
Qed.

(* non-vacuity of the lifecycle part: three entries to keep, lifecycles 0 and 2 are found (in that order), 1 is
   not; one configured negative filter vetoes messages 1, 3, 5: written = [0; 4], exported lifecycles [0; 2] *)
Example C12_export_lifecycles_nonvacuous :
  let c := mkCase [(1, true, [false; true; false; true; false; true])] 6 None 0 1073741824 true None None
                  [0; 1000; 2000; 3000; 4000; 5000] 3 true [0; 0; 1; 1; 2; 2] [true; true; true; true; true; true]
                  [[false; false; false; false; true; true]; [false; false; false; false; false; false];
                   [true; true; false; false; false; false]] false 2 in
  exists r, run_C12 c = T [fst r; fst (snd r); snd (snd r); T [T [L 0; L 4]; L 2; L 6; T [L 0; L 2]]; T []; T [T [L 0; L 2; L 4]; L 6]].
Proof. cbv zeta. eexists (_, (_, _)). vm_compute. reflexivity. Qed.

Print Assumptions C12_keep_rule_meaning.
Print Assumptions C12_stream_filter_spec.
Print Assumptions C12_stream_filter_hangup.
Print Assumptions C12_set_match_spec.
Print Assumptions C12_disabled_and_marker_irrelevant.
Print Assumptions C12_insert_disabled_or_marker.
Print Assumptions C12_filter_order_irrelevant.
Print Assumptions C12_impls_agree.
Print Assumptions C12_set_keeps_subset_of_stream.
Print Assumptions C12_inactive_keeps_all.
Print Assumptions C12_matching_idxs_spec.
Print Assumptions C12_stream_rounds_complete.
Print Assumptions C12_export_spec.
Print Assumptions C12_export_lifecycles_spec.
Print Assumptions C12_export_lifecycles_monotone.
Print Assumptions C12_export_no_lifecycles.
Print Assumptions C12_exec_matcher_meaning.
Print Assumptions C12_enabled_test_in_constructor_needed.
Print Assumptions C12_nonvacuous.
Print Assumptions C12_export_lifecycles_nonvacuous.
