(* C05 — Lifecycle detection forwards every message once, in order, assigned.
   Model: Lifecycle/Model.v (the whole loop of parse_lifecycles_buffered_from_stream with the concrete
   Lifecycle::new/update/merge arithmetic).  [detect first_id pre ms] = (deliveries, final table) of a run
   that starts from the published table [pre] (possibly empty) with NEXT_LC_ID = first_id.
   A delivery is the message handed to the outflow together with the published table at that instant. *)
From Coq Require Import List NArith Bool.
From AdltV Require Import Lifecycle.Model Lifecycle.ForwardProofs Lifecycle.PublishProofs Exec.Lifecycle.
Import ListNotations.
Open Scope N_scope.

(* every message is forwarded exactly once, in the order received, unchanged except for the lifecycle field;
   [strip] projects a message to all its fields but the lifecycle.  Holds for EVERY stream and every initial table. *)
Theorem C05_forward_once_in_order : forall first_id pre ms,
  map strip (map fst (fst (detect first_id pre ms))) = map strip ms.
Proof. exact detect_forward. Qed.

(* every forwarded message carries a non-zero lifecycle id, and that id denotes (in the table published at
   that moment) a lifecycle of the message's own ECU.  [PreOk]: the initial table has distinct non-zero ids
   below NEXT_LC_ID (what earlier runs of the detector in the same process leave behind). *)
Theorem C05_assigned_nonzero_own_ecu : forall first_id pre ms,
  PreOk first_id pre ->
  Forall (fun x : msg * table =>
            m_lc (fst x) <> 0 /\
            exists L, tbl_get (m_lc (fst x)) (snd x) = Some L /\ l_ecu L = m_ecu (fst x))
         (fst (detect first_id pre ms)).
Proof. exact detect_published. Qed.

(* non-vacuity: a 6-message stream with three ECUs in which a lifecycle is confirmed, later merged into its
   predecessor, and a flush happens; deliveries carry ids 1,2,1,1,4,1 (id 3 was merged into 1) *)
Definition c05_example : list mspec :=
  [(1, 1000000000000, 20000000, true, false); (2, 1000000200000, 0, true, false);
   (1, 1000000500000, 0, true, false); (1, 999999000000, 0, true, false);
   (3, 1000060100000, 0, true, false); (1, 999995000000, 0, true, false)].
Example C05_nonvacuous :
  map (fun x : msg * table => m_lc (fst x)) (fst (detect 1 [] (mk_msgs 0 c05_example))) = [1; 2; 1; 1; 4; 1]
  /\ PreOk 1 [].
Proof. split; [vm_compute; reflexivity|]. split; [constructor|]. split; [intros L []|reflexivity]. Qed.

Print Assumptions C05_forward_once_in_order.
Print Assumptions C05_assigned_nonzero_own_ecu.
Print Assumptions C05_nonvacuous.
