(* C05 — Lifecycle detection forwards every message once, in order, assigned.
   Model: Lifecycle/Model.v (the whole loop of parse_lifecycles_buffered_from_stream with the concrete
   Lifecycle::new/update/merge arithmetic).  [detect first_id pre ms] = (deliveries, final table) of a run
   that starts from the published table [pre] (possibly empty) with NEXT_LC_ID = first_id.
   A delivery is the message handed to the outflow together with the published table at that instant. *)
From Coq Require Import List NArith Bool.
From AdltV Require Import Lifecycle.Model Lifecycle.ForwardProofs Lifecycle.PublishProofs Exec.Lifecycle.
From AdltV Require Import Base.Res Base.MachInt Crash.ControlMsgs Lifecycle.SwVersion Lifecycle.SwVersionProofs.
Import ListNotations.
Open Scope N_scope.

(* every message is forwarded exactly once, in the order received, unchanged except for the lifecycle field;
   [strip] projects a message to all its fields but the lifecycle.  Holds for EVERY stream and every initial table. *)
Theorem C05_forward_once_in_order : forall first_id pre ms,
  map strip (map fst (fst (detect first_id pre ms))) = map strip ms.
Proof. exact detect_forward. Qed.

(* every forwarded message carries a non-zero lifecycle id, and that id denotes (in the table published at
   that moment) a lifecycle of the message's own ECU.  [PreOk]: the initial table has distinct non-zero ids
   below NEXT_LC_ID (what earlier runs of the detector in the same process leave behind). *)
Theorem C05_assigned_nonzero_own_ecu : forall first_id pre ms,
  PreOk first_id pre ->
  Forall (fun x : msg * table =>
            m_lc (fst x) <> 0 /\
            exists L, tbl_get (m_lc (fst x)) (snd x) = Some L /\ l_ecu L = m_ecu (fst x))
         (fst (detect first_id pre ms)).
Proof. exact detect_published. Qed.

(* non-vacuity: a 6-message stream with three ECUs in which a lifecycle is confirmed, later merged into its
   predecessor, and a flush happens; deliveries carry ids 1,2,1,1,4,1 (id 3 was merged into 1) *)
Definition c05_example : list mspec :=
  [(1, 1000000000000, 20000000, true, false); (2, 1000000200000, 0, true, false);
   (1, 1000000500000, 0, true, false); (1, 999999000000, 0, true, false);
   (3, 1000060100000, 0, true, false); (1, 999995000000, 0, true, false)].
Example C05_nonvacuous :
  map (fun x : msg * table => m_lc (fst x)) (fst (detect 1 [] (mk_msgs 0 c05_example))) = [1; 2; 1; 1; 4; 1]
  /\ PreOk 1 [].
Proof. split; [vm_compute; reflexivity|]. split; [constructor|]. split; [intros L []|reflexivity]. Qed.

(* ---- the one place where the stage looks into a payload: the sw-version block of Lifecycle::update (Lifecycle/SwVersion.v).
   The detector model above abstracts the payload away; that is justified by: the block returns (no panic: the stage does not
   die at such a message, so "forwards every message" is not lost there) for EVERY sw version the lifecycle has or has not,
   every message kind and every pair of optional arguments the argument iterator can deliver (none, empty, any bytes, either
   byte order), and it writes nothing but the sw version. *)
Theorem C05_sw_version_block_no_panic : forall cur is_ctrl_response a1 a2,
  exists r, sw_block cur is_ctrl_response a1 a2 = Ok r.
Proof. exact sw_block_no_panic. Qed.

(* a version once found is kept; the version changes only for a control response whose first argument carries the service id
   19 and whose second argument has at least 5 bytes (status + length field) *)
Theorem C05_sw_version_block_effect : forall cur is_ctrl_response a1 a2,
  (forall v, cur = Some v -> sw_block cur is_ctrl_response a1 a2 = Ok (Some v)) /\
  (forall r, sw_block cur is_ctrl_response a1 a2 = Ok r -> r <> cur ->
     cur = None /\ is_ctrl_response = true /\ message_id a1 = SERVICE_ID_GET_SOFTWARE_VERSION /\
     exists p be, a2 = Some (p, be) /\ 5 <= blen p).
Proof.
  intros cur resp a1 a2. split.
  - intros v ->. apply sw_block_keeps_existing.
  - intros r. apply sw_block_changes_only_on_swv_response.
Qed.

(* non-vacuity: the statement separates the block from its reordering "slice off the status byte, then test the length"
   (which panics when the second argument is missing), and the block does find a well-formed version (LE and BE) *)
Example C05_sw_version_block_nonvacuous :
  sw_block_slice_first None true (Some ([19; 0; 0; 0], false)) None = Panic site_index /\
  sw_block None true (Some ([19; 0; 0; 0], false)) None = Ok None /\
  sw_block None true (Some ([19; 0; 0; 0], false)) (Some ([], false)) = Ok None /\
  sw_block None true (Some ([19; 0; 0; 0], false)) (Some ([0; 3; 0; 0; 0; 83; 87; 49], false)) = Ok (Some [83; 87; 49]) /\
  sw_block None true (Some ([0; 0; 0; 19], true)) (Some ([0; 0; 0; 0; 3; 83; 87; 49], true)) = Ok (Some [83; 87; 49]) /\
  sw_block None true (Some ([19; 0; 0; 0], false)) (Some ([0; 9; 0; 0; 0; 83; 87; 49], false)) = Ok None.
Proof. repeat split; vm_compute; reflexivity. Qed.

Print Assumptions C05_forward_once_in_order.
Print Assumptions C05_assigned_nonzero_own_ecu.
Print Assumptions C05_nonvacuous.
Print Assumptions C05_sw_version_block_no_panic.
Print Assumptions C05_sw_version_block_effect.
Print Assumptions C05_sw_version_block_nonvacuous.
