(* C07 — Final lifecycle table is consistent with the delivered messages; the lifecycle listing.
   [detect first_id [] ms] = (deliveries, final published table) of a run from an empty table.
   [cnt i l] = number of messages in l carrying lifecycle id i.  [listing] = get_sorted_lifecycles_as_vec. *)
From Coq Require Import List NArith Bool Permutation Sorted.
From AdltV Require Import Lifecycle.Model Lifecycle.ForwardProofs Lifecycle.PublishProofs Lifecycle.CountProofs
     Lifecycle.TableProofs Lifecycle.ListingProofs Exec.Lifecycle.
Import ListNotations.
Open Scope N_scope.

(* every listed lifecycle is referenced by at least one delivered message, its message count equals the number
   of delivered messages carrying its id (hence no invalidated lifecycle, whose count would be 0 and which no
   message references, is listed); every delivered message carries a listed id *)
Theorem C07_final_table_counts : forall first_id ms,
  0 < first_id ->
  let dl := map fst (fst (detect first_id [] ms)) in
  let t := snd (detect first_id [] ms) in
  (forall i L0, tbl_get i t = Some L0 ->
                l_id L0 = i /\ l_nr L0 = N.of_nat (cnt i dl) /\ (cnt i dl > 0)%nat) /\
  (forall x, In x dl -> exists L0, tbl_get (m_lc x) t = Some L0).
Proof. exact detect_table. Qed.

(* each lifecycle is listed once and the counts add up to the number of messages *)
Theorem C07_counts_add_up : forall first_id ms,
  0 < first_id ->
  let dl := map fst (fst (detect first_id [] ms)) in
  let t := snd (detect first_id [] ms) in
  NoDup (map fst t) /\ sum_nat (map (fun kv : N * lcy => N.to_nat (l_nr (snd kv))) t) = length dl.
Proof. exact detect_table_sum. Qed.

(* the same at the level of the detector's own per-ECU lists, in every reachable state (not only at the end) *)
Theorem C07_counts_every_state : forall first_id ms d o,
  0 < first_id -> run (init first_id []) ms = (d, o) ->
  (forall L, In L (all_lcs (emap d)) -> l_nr L = N.of_nat (cnt (l_id L) (map fst o ++ queue d))) /\
  (forall x, In x (map fst o ++ queue d) -> exists L, In L (all_lcs (emap d)) /\ l_id L = m_lc x) /\
  NoDup (ids (emap d)).
Proof. exact run_counts_live. Qed.

(* the listing: a permutation of the table (each lifecycle exactly once; it can always be produced: the model's
   sort is a total function over a total order - no comparator to be inconsistent) *)
Theorem C07_listing_perm : forall t, Permutation (listing t) t.
Proof. exact listing_perm. Qed.

(* never places a resume lifecycle before the lifecycle it resumes *)
Theorem C07_listing_resume_order : forall t L O r,
  TableOk t -> In L t -> In O t -> l_resume L = Some r -> r_id r = l_id O -> before O L (listing t).
Proof. exact listing_resume_order. Qed.

(* when no resume was detected the listing is ordered by start time *)
Theorem C07_listing_sorted_when_no_resume : forall t,
  NoDup (map l_id t) -> (forall L, In L t -> l_resume L = None) ->
  StronglySorted (fun a b => l_start a <= l_start b) (listing t).
Proof. exact listing_sorted_when_no_resume. Qed.

(* the final table of every run (reception times within u64) satisfies the preconditions of the two listing theorems *)
Theorem C07_final_table_listing_ok : forall first_id ms,
  0 < first_id -> Forall (fun m => m_rt m <= u64max) ms ->
  TableOk (map snd (snd (detect first_id [] ms))).
Proof. intros f ms H1 H2. exact (detect_table_listing_ok f ms H1 H2). Qed.

(* non-vacuity: the stream in which a confirmed lifecycle is merged later (the former phantom): table ids 1,2,4
   with counts 4,1,1 for 6 messages *)
Example C07_nonvacuous :
  map (fun kv : N * lcy => (fst kv, l_nr (snd kv)))
      (sort_by_id (snd (detect 1 [] (mk_msgs 0
        [(1, 1000000000000, 20000000, true, false); (2, 1000000200000, 0, true, false);
         (1, 1000000500000, 0, true, false); (1, 999999000000, 0, true, false);
         (3, 1000060100000, 0, true, false); (1, 999995000000, 0, true, false)]))))
  = [(1, 4); (2, 1); (4, 1)].
Proof. vm_compute. reflexivity. Qed.

(* non-vacuity of the resume-order theorem: a table where the resume lifecycle (id 2, resumes 1) has the earlier
   start and a third lifecycle starts in between is listed 3?,1,2 with 1 before 2 *)
Example C07_listing_nonvacuous :
  let a := {| l_id := 1; l_ecu := 1; l_nr := 1; l_nr_creq := 0; l_start := 100; l_min_ts := 0; l_max_ts := 0; l_last_rt := 100; l_resume := None |} in
  let b := {| l_id := 2; l_ecu := 1; l_nr := 1; l_nr_creq := 0; l_start := 50; l_min_ts := 0; l_max_ts := 0; l_last_rt := 100;
              l_resume := Some {| r_id := 1; r_max_ts := 0; r_start := 100 |} |} in
  let c := {| l_id := 3; l_ecu := 2; l_nr := 1; l_nr_creq := 0; l_start := 70; l_min_ts := 0; l_max_ts := 0; l_last_rt := 100; l_resume := None |} in
  map l_id (listing [b; c; a]) = [3; 1; 2] /\ TableOk [b; c; a].
Proof.
  cbv zeta. split; [vm_compute; reflexivity|]. split; [|split].
  - cbn. repeat constructor; cbn; intuition discriminate.
  - intros L r [<-|[<-|[<-|[]]]]; cbn; intros H; inversion H; subst; cbn; reflexivity.
  - intros L [<-|[<-|[<-|[]]]]; cbn; discriminate.
Qed.

Print Assumptions C07_final_table_counts.
Print Assumptions C07_counts_add_up.
Print Assumptions C07_counts_every_state.
Print Assumptions C07_listing_perm.
Print Assumptions C07_listing_resume_order.
Print Assumptions C07_listing_sorted_when_no_resume.
Print Assumptions C07_final_table_listing_ok.
Print Assumptions C07_nonvacuous.
Print Assumptions C07_listing_nonvacuous.
