(* C15 — Remote server survives any command sequence and always answers.
   Statements only; the model is Remote/Dispatch.v (text-command dispatcher of src/bin/adlt/remote.rs as
   it is in /repo now, i.e. after the four `fix:` commits recorded in known_findings.d/C15.json), the
   proofs are in Remote/DispatchProofs.v.

   A history is a list of items (events of the event loop since the previous command, text frame,
   results of the trusted parsers for that frame).  All statements quantify over EVERY history: any
   frame text (any bytes), any parser outcome, any interleaving of "query finished" events — the
   latter is the quantification over schedules of the parser threads.
   [run] returns, per command, the LIST of reply frames the dispatcher wrote, so "exactly one reply"
   is a statement about the code paths and not built into a type.

   The second half of the file is about the whole per-connection event loop (Remote/DispatchTick.v):
   dispatcher + the index arithmetic of process_file_context between the commands.  There the property
   is REFUTED for histories that open with collect:"one_pass_streams" (known finding
   `one_pass_streams_drained`) and proved on the complement.
   Outside the models (exercised by the harness only): tungstenite/TCP, the parser/lifecycle/sort
   threads and the draining join of `close`, the content of the stream frames (C16). *)
From Coq Require Import List NArith Bool Ascii String Sorted.
From AdltV Require Import Base.Res Base.MachInt Remote.Dispatch Remote.DispatchProofs Remote.DispatchTick Remote.DispatchTickProofs Exec.C15.
Import ListNotations.
Open Scope string_scope.
Open Scope N_scope.

(* every command of every history is answered by exactly one frame and no unwrap/index/remove panics *)
Theorem C15_one_reply_no_crash : forall (st : state) (h : list item),
  exists st' ws, run st h = Ok (st', ws) /\ List.length ws = List.length h /\
                 Forall (fun w => exists r : reply, w = [r]) ws.
Proof. exact run_total. Qed.

(* the unknown-command notice (echoing the frame) is given exactly for frames whose first word is none
   of the twelve commands, and such a frame changes nothing; every other reply is ok: or err: *)
Theorem C15_unknown_notice : forall st t o st' w,
  step st t o = Ok (st', w) ->
  (known_command (command_of t) = false -> w = [RUnknown t] /\ st' = st) /\
  (known_command (command_of t) = true -> Forall not_unknown w).
Proof. exact step_unknown_iff. Qed.

(* the session state (file open?, which stream ids are live, stream or query) is the function
   [spec_run] of the replies and the done-notifications alone: a failed, malformed or unknown command
   never changes it *)
Theorem C15_state_consistent : forall st h st' ws,
  run st h = Ok (st', ws) -> abs st' = spec_run (abs st) h ws.
Proof. intros st h st' ws H. exact (run_abs h st st' ws H). Qed.

Theorem C15_err_keeps_state : forall st t o st' r,
  step st t o = Ok (st', [r]) -> reply_ok r = false -> st_fc st' = st_fc st.
Proof. exact step_err_keeps_state. Qed.

(* a file is open exactly between a successful open and the next successful close: after any history,
   pause / resume / close are answered ok: iff the replies so far say "open" ... *)
Theorem C15_file_open_iff : forall st h st' ws t o,
  run st h = Ok (st', ws) ->
  command_of t = "pause" \/ command_of t = "resume" \/ command_of t = "close" ->
  exists st'' r, step st' t o = Ok (st'', [r]) /\ reply_ok r = spec_open (spec_run (abs st) h ws).
Proof.
  intros st h st' ws t o H Hc. rewrite <- (run_abs h st st' ws H). exact (step_pause_close st' t o Hc).
Qed.

(* ... and open is refused iff a file is open (the err: reply shows the files of the open context:
   [files_of], 0 on the archive path while the extraction is pending or yielded nothing); otherwise its
   outcome is that of FileContext::from.  On its archive path (some name is an archive or
   archive!/glob) the new context has NO file stream and a pending extraction *)
Theorem C15_open_iff : forall st h st' ws t o,
  run st h = Ok (st', ws) -> command_of t = "open" ->
  exists st'' r, step st' t o = Ok (st'', [r]) /\
    (spec_open (spec_run (abs st) h ws) = true -> r = RErr (EOpenAlready (files_of st')) /\ st'' = st') /\
    (spec_open (spec_run (abs st) h ws) = false ->
       match o_open o with
       | OpenOk _ _ plugins => r = ROk (OkOpen (N.of_nat (List.length plugins))) /\ abs st'' = Some [] /\
                               extracting_of st'' = o_archive o /\
                               files_of st'' = (if o_archive o then 0 else o_nfiles o)
       | OpenErr => r = RErr EOpenFailed /\ st'' = st'
       end).
Proof.
  intros st h st' ws t o H Hc. rewrite <- (run_abs h st st' ws H). exact (step_open_reply st' t o Hc).
Qed.

(* open while an archive context without any file stream is open (extraction pending, or finished with
   nothing usable): in EVERY such state, after any number of passes of process_file_context with any
   arrivals, any command is answered by exactly one frame and a further open by err: (0 files) *)
Theorem C15_open_on_empty_archive_context : forall st t o, command_of t = "open" ->
  spec_open (abs st) = true -> files_of st = 0 ->
  step st t o = Ok (st, [RErr (EOpenAlready 0)]).
Proof.
  intros st t o Hc Ho Hf. destruct (step_open_reply st t o Hc) as [st' [r [H [H1 _]]]].
  destruct (H1 Ho) as [-> ->]. rewrite Hf in H. exact H.
Qed.

(* a stream id is usable exactly between its creation and stop / close / renewal / completion: after
   any history, a command addressing id reaches a stream iff id is live according to the replies
   (otherwise: not found / no file opened), and stop succeeds iff it is live *)
Theorem C15_stream_id_usable_iff : forall st h st' ws t o id,
  run st h = Ok (st', ws) ->
  is_id_command (command_of t) = true ->
  parse_u32 (hd "" (split_on sp (params_of t))) = Some id ->
  exists st'' r, step st' t o = Ok (st'', [r]) /\
    reaches_stream r = spec_live (spec_run (abs st) h ws) id /\
    (command_of t = "stop" -> reply_ok r = spec_live (spec_run (abs st) h ws) id).
Proof.
  intros st h st' ws t o id H Hc Hp. rewrite <- (run_abs h st st' ws H). exact (step_id_usable st' t o id Hc Hp).
Qed.

(* close, then open: whatever happened before, after a close (answered ok: or err:) an open whose files
   are readable succeeds and starts without streams *)
Theorem C15_close_then_open : forall st h st' ws tc oc t_open o_op mode sort plugins,
  run st h = Ok (st', ws) ->
  command_of tc = "close" -> command_of t_open = "open" -> o_open o_op = OpenOk mode sort plugins ->
  exists st1 r1 st2,
    step st' tc oc = Ok (st1, [r1]) /\
    step st1 t_open o_op = Ok (st2, [ROk (OkOpen (N.of_nat (List.length plugins)))]) /\
    abs st2 = Some [].
Proof. intros st h st' ws tc oc t_open o_op mode sort plugins _. apply close_then_open. Qed.

(* ids handed out by stream / query / stream_change_window never repeat (until the u32 counter wraps) *)
Theorem C15_ids_fresh : forall st h st' ws,
  run st h = Ok (st', ws) ->
  st_next_id st + N.of_nat (List.length h) < 2 ^ 32 ->
  NoDup (issued ws) /\ Forall (fun i => st_next_id st <= i) (issued ws).
Proof.
  intros st h st' ws H Hb. destruct (run_ids_fresh h st st' ws H Hb) as [S [F _]].
  split; [exact (strongly_sorted_lt_nodup _ S)|exact F].
Qed.

(* the `_ =>` arm of the inner match ("<cmd> failed. stream_id N not found!") is unreachable *)
Theorem C15_inner_default_unreachable : forall st t o st' w id,
  step st t o = Ok (st', w) -> ~ In (RErr (EInnerDefault id)) w.
Proof. exact step_no_inner_default. Qed.

(* handlers that iterate over a collection to find a match answer ONCE, by the first match, however
   many entries match: plugin_cmd with several configured plugins of the same name (open does not
   dedupe the plugin list) is answered by the first plugin carrying the name alone; with none by
   "not found" *)
Theorem C15_plugin_cmd_duplicates_one_reply : forall st t o fc name,
  command_of t = "plugin_cmd" -> st_fc st = Some fc -> o_json o = JGood name ->
  (forall c ps1 ps2, fc_plugins fc = (ps1 ++ (name, c) :: ps2)%list ->
     (forall q, In q ps1 -> String.eqb (fst q) name = false) ->
     step st t o = Ok (st, [if c then ROk OkPluginCmd else RErr EPluginNoCmds])) /\
  ((forall q, In q (fc_plugins fc) -> String.eqb (fst q) name = false) ->
     step st t o = Ok (st, [RErr EPluginNotFound])).
Proof. exact step_plugin_cmd. Qed.

(* stop <id> with several streams carrying the id (only possible after the u32 id counter wrapped):
   one reply, exactly the first of them is removed *)
Theorem C15_stop_duplicates_one_reply : forall st t o fc id l1 s l2,
  command_of t = "stop" -> parse_u32 (hd "" (split_on sp (params_of t))) = Some id ->
  st_fc st = Some fc -> fc_streams fc = (l1 ++ s :: l2)%list -> s_id s = id ->
  (forall x, In x l1 -> (s_id x =? id) = false) ->
  step st t o = Ok (with_fc st (set_streams fc (l1 ++ l2)%list), [ROk (OkStop id)]).
Proof. exact step_stop_first. Qed.

Example C15_duplicate_plugins :
  let dup := [("Rewrite", false); ("FileTransfer", true); ("Rewrite", false); ("FileTransfer", true); ("FileTransfer", true)] in
  let h := [ it [] "open {..5 plugins..}" (oo (OpenOk CAll false dup));
             it [] "plugin_cmd {Rewrite}" (oj (JGood "Rewrite") false);
             it [] "plugin_cmd {FileTransfer}" (oj (JGood "FileTransfer") false);
             it [] "plugin_cmd {Nope}" (oj (JGood "Nope") false);
             it [] "plugin_cmd [1]" (oj JNotObject false) ] in
  exists st', run_loop (init_state 1) h =
    Ok (st', [ [ROk (OkOpen 5)]; [RErr EPluginNoCmds]; [ROk OkPluginCmd]; [RErr EPluginNotFound]; [RErr ENotObject] ]).
Proof. cbv zeta. eexists. vm_compute. reflexivity. Qed.

(* the text layer: `<command> <params>` with a command word without blanks is dispatched to that command
   with exactly that argument text, a bare word to that command with empty arguments; the number syntax
   of ids / windows is Rust's (samples; the correspondence check compares many more) *)
Theorem C15_frame_split : forall c p, no_space c = true ->
  command_of (c ++ String sp p) = c /\ params_of (c ++ String sp p) = p /\
  command_of c = c /\ params_of c = "".
Proof.
  intros c p H. destruct (frame_command c p H) as [A B]. destruct (frame_command_bare c H) as [C D]. auto.
Qed.

Example C15_number_syntax :
  map parse_u32 ["7"; "+7"; "007"; "4294967295"; "4294967296"; ""; "+"; "-0"; "++1"; "1 "; " 1"; "1_0"; "0x1"] =
  [Some 7; Some 7; Some 7; Some 4294967295; None; None; None; None; None; None; None; None; None]
  /\ split_on sp "" = [""] /\ split_on sp " 5" = [""; "5"] /\ split_on sp "5  x" = ["5"; ""; "x"]
  /\ splitn2 sp "stop 5 6" = ["stop"; "5 6"] /\ splitn2 sp "" = [""].
Proof. vm_compute. repeat split; reflexivity. Qed.

(* ------------------------------------------------------------------ the whole event loop
   loop { process_file_context; read a frame; dispatch }  (Remote/DispatchTick.v): the passes of
   process_file_context between the commands (TMsgs: messages arrived, TDone: a query finished) and the
   pass right after every command, with their index arithmetic on all_msgs / filtered_msgs /
   drained_all_msgs as possible panics. *)

(* known finding: with the open option collect:"one_pass_streams" the loop does panic.  Witness (replayed
   on the real server, corpus case kf_one_pass_late_stream): open one-pass, resume, the 10 messages of
   the file arrive and are drained, a new stream is created -> `0 - drained_all_msgs` in the next pass *)
Definition C15_one_pass_witness : list titem :=
  [ it [] "open {..one_pass_streams..}" (oo (OpenOk COnePass false []));
    it [] "resume" o0;
    it [TMsgs 10] "stream {..}" (os (sk true 0 20 0 0 0 0));
    it [] "pause" o0 ].
Theorem C15_tick_one_pass_refuted :
  run_loop (init_state 1) C15_one_pass_witness = Panic site_tick_slice_sub.
Proof. vm_compute. reflexivity. Qed.

(* second witness (corpus case kf_one_pass_window): a window change re-sends already drained messages *)
Definition C15_one_pass_witness2 : list titem :=
  [ it [] "open {..one_pass_streams..}" (oo (OpenOk COnePass false []));
    it [] "stream {..}" (os (sk true 0 3 0 0 0 0));
    it [] "resume" o0;
    it [TMsgs 10] "stream_change_window 1 0,5" o0;
    it [] "pause" o0 ].
Theorem C15_tick_one_pass_window_refuted :
  run_loop (init_state 1) C15_one_pass_witness2 = Panic site_tick_msg_sub.
Proof. vm_compute. reflexivity. Qed.

(* outside that class (no successful open with collect:one_pass_streams; [tick_inv]: nothing drained,
   filtered_msgs point into all_msgs) the loop never panics, for every history, every arrival schedule,
   every filter predicate: one reply per command, and the state is again the function of the replies *)
Theorem C15_loop_one_reply_no_crash : forall (st : state) (h : list titem),
  tick_inv st -> forallb (fun i => not_one_pass_open (t_orc i)) h = true ->
  exists st' ws, run_loop st h = Ok (st', ws) /\ List.length ws = List.length h /\
                 Forall (fun w => exists r : reply, w = [r]) ws /\
                 abs st' = spec_run (abs st) (map proj_item h) ws.
Proof.
  intros st h I Hn. destruct (run_loop_ok h st I Hn) as [st' [ws [H [L [F [_ A]]]]]]. exists st', ws. auto.
Qed.

Theorem C15_loop_init_inv : forall first_id, tick_inv (init_state first_id).
Proof. intros first_id. exact Logic.I. Qed.

(* state consistency of every non-panicking run of the loop, one-pass or not: process_file_context never
   changes what the dispatcher sees except through the reported completion of queries *)
Theorem C15_loop_state_consistent : forall st h st' ws,
  run_loop st h = Ok (st', ws) -> abs st' = spec_run (abs st) (map proj_item h) ws.
Proof. intros st h st' ws H. exact (run_loop_abs h st st' ws H). Qed.

(* hence the reply-level characterisations also hold after every non-panicking run of the loop *)
Theorem C15_loop_file_open_iff : forall st h st' ws t o,
  run_loop st h = Ok (st', ws) ->
  command_of t = "pause" \/ command_of t = "resume" \/ command_of t = "close" ->
  exists st'' r, step st' t o = Ok (st'', [r]) /\ reply_ok r = spec_open (spec_run (abs st) (map proj_item h) ws).
Proof.
  intros st h st' ws t o H Hc. rewrite <- (run_loop_abs h st st' ws H). exact (step_pause_close st' t o Hc).
Qed.

Theorem C15_loop_stream_id_usable_iff : forall st h st' ws t o id,
  run_loop st h = Ok (st', ws) ->
  is_id_command (command_of t) = true ->
  parse_u32 (hd "" (split_on sp (params_of t))) = Some id ->
  exists st'' r, step st' t o = Ok (st'', [r]) /\
    reaches_stream r = spec_live (spec_run (abs st) (map proj_item h) ws) id /\
    (command_of t = "stop" -> reply_ok r = spec_live (spec_run (abs st) (map proj_item h) ws) id).
Proof.
  intros st h st' ws t o id H Hc Hp. rewrite <- (run_loop_abs h st st' ws H). exact (step_id_usable st' t o id Hc Hp).
Qed.

(* non-vacuity / sanity: a concrete session through the executable model — open, a stream, a query that
   finishes on its own, a renewed window, the old id is gone, the new one can be stopped once, a search
   without body is answered err:, close, open again *)
Example C15_nonvacuous :
  let ok_open := oo (OpenOk CAll false [("FileTransfer", true)]) in
  let h := [ it [] "stop 1" o0;
             it [] "open {..}" ok_open;
             it [] "open {..}" ok_open;
             it [TMsgs 10] "stream {}" (os (sk false 0 20 0 0 0 0));
             it [] "query {}" (os (sk false 0 20 1 0 0 1));
             it [] "stream_change_window 1 2,+7" o0;
             it [TMsgs 15; TDone 2] "stop 2" o0;
             it [] "stop 1" o0;
             it [] "stream_search 3" (oi true 15);
             it [] "stream_search 3 {}" (oi true 15);
             it [] "stop 03 x" o0;
             it [] "stop +3" o0;
             it [] "plugin_cmd {..}" (oj (JGood "FileTransfer") false);
             it [] "close" o0;
             it [] " close" o0;
             it [] "open {..zip!/nothing*..}" (oof (OpenOk CAll false []) true 0);
             it [] "open {..}" ok_open;
             it [] "stream {}" (os (sk false 0 20 0 0 0 0));
             it [TExtracted 0] "open {..}" ok_open;
             it [] "close" o0;
             it [] "open {..zip..}" (oof (OpenOk CAll true []) true 0);
             it [] "open {..}" ok_open;
             it [TExtracted 2; TMsgs 15] "open {..}" ok_open;
             it [] "close" o0;
             it [] "open {..}" ok_open ] in
  forallb (fun i => not_one_pass_open (t_orc i)) h = true /\
  exists st', run_loop (init_state 1) h =
    Ok (st', [ [RErr ENoFileOpened]; [ROk (OkOpen 1)]; [RErr (EOpenAlready 1)];
               [ROk (OkStream true 1 0 0 0)]; [ROk (OkStream false 2 1 0 0)];
               [ROk (OkWindow 1 3 2 7)]; [RErr (EIdNotFound 2)]; [RErr (EIdNotFound 1)];
               [RErr ESearchParams]; [ROk (OkSearch 3)]; [ROk (OkStop 3)]; [RErr (EIdNotFound 3)];
               [ROk OkPluginCmd]; [ROk OkClose]; [RUnknown " close"];
               [ROk (OkOpen 0)]; [RErr (EOpenAlready 0)]; [ROk (OkStream true 4 0 0 0)]; [RErr (EOpenAlready 0)];
               [ROk OkClose]; [ROk (OkOpen 0)]; [RErr (EOpenAlready 0)]; [RErr (EOpenAlready 2)]; [ROk OkClose];
               [ROk (OkOpen 1)] ])
    /\ abs st' = Some [] /\ st_next_id st' = 5.
Proof. cbv zeta. split; [reflexivity|]. eexists. split; [vm_compute; reflexivity|]. split; reflexivity. Qed.

Print Assumptions C15_one_reply_no_crash.
Print Assumptions C15_unknown_notice.
Print Assumptions C15_state_consistent.
Print Assumptions C15_err_keeps_state.
Print Assumptions C15_file_open_iff.
Print Assumptions C15_open_iff.
Print Assumptions C15_open_on_empty_archive_context.
Print Assumptions C15_stream_id_usable_iff.
Print Assumptions C15_close_then_open.
Print Assumptions C15_ids_fresh.
Print Assumptions C15_inner_default_unreachable.
Print Assumptions C15_plugin_cmd_duplicates_one_reply.
Print Assumptions C15_stop_duplicates_one_reply.
Print Assumptions C15_duplicate_plugins.
Print Assumptions C15_frame_split.
Print Assumptions C15_number_syntax.
Print Assumptions C15_tick_one_pass_refuted.
Print Assumptions C15_tick_one_pass_window_refuted.
Print Assumptions C15_loop_one_reply_no_crash.
Print Assumptions C15_loop_init_inv.
Print Assumptions C15_loop_state_consistent.
Print Assumptions C15_loop_file_open_iff.
Print Assumptions C15_loop_stream_id_usable_iff.
Print Assumptions C15_nonvacuous.
