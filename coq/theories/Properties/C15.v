(* C15 — Remote server survives any command sequence and always answers.
   Statements only; the model is Remote/Dispatch.v (text-command dispatcher of src/bin/adlt/remote.rs as
   it is in /repo now, i.e. after the five `fix:` commits recorded in known_findings.d/C15.json; the `fs`
   command - process_fs_cmd / fs_cmd_archive - is Remote/DispatchFs.v), the proofs are in
   Remote/DispatchProofs.v and Remote/DispatchFsProofs.v.

   A history is a list of items (events of the event loop since the previous command, text frame,
   results of the trusted parsers for that frame).  All statements quantify over EVERY history: any
   frame text (any bytes), any parser outcome, any interleaving of "query finished" events — the
   latter is the quantification over schedules of the parser threads.
   [run] returns, per command, the LIST of reply frames the dispatcher wrote, so "exactly one reply"
   is a statement about the code paths and not built into a type.

   The second half of the file is about the whole per-connection event loop (Remote/DispatchTick.v):
   dispatcher + the index arithmetic of process_file_context between the commands.  There the property
   is REFUTED for histories that open with collect:"one_pass_streams" (known finding
   `one_pass_streams_drained`) and proved on the complement.
   Outside the models (exercised by the harness only): tungstenite/TCP, the parser/lifecycle/sort
   threads and the draining join of `close`, the content of the stream frames (C16). *)
From Coq Require Import List NArith Bool Ascii String Sorted.
From Coq Require Import ZArith.
From AdltV Require Import Base.Res Base.MachInt Remote.Dispatch Remote.DispatchFsProofs Remote.DispatchProofs Remote.DispatchTick Remote.DispatchTickProofs Exec.C15.
Import ListNotations.
Open Scope string_scope.
Open Scope N_scope.

(* every command of every history is answered by exactly one frame and no unwrap/index/remove panics *)
Theorem C15_one_reply_no_crash : forall (st : state) (h : list item),
  exists st' ws, run st h = Ok (st', ws) /\ List.length ws = List.length h /\
                 Forall (fun w => exists r : reply, w = [r]) ws.
Proof. exact run_total. Qed.

(* the unknown-command notice (echoing the frame) is given exactly for frames whose first word is none
   of the twelve commands, and such a frame changes nothing; every other reply is ok: or err: *)
Theorem C15_unknown_notice : forall st t o st' w,
  step st t o = Ok (st', w) ->
  (known_command (command_of t) = false -> w = [RUnknown t] /\ st' = st) /\
  (known_command (command_of t) = true -> Forall not_unknown w).
Proof. exact step_unknown_iff. Qed.

(* the session state (file open?, which stream ids are live, stream or query) is the function
   [spec_run] of the replies and the done-notifications alone: a failed, malformed or unknown command
   never changes it *)
Theorem C15_state_consistent : forall st h st' ws,
  run st h = Ok (st', ws) -> abs st' = spec_run (abs st) h ws.
Proof. intros st h st' ws H. exact (run_abs h st st' ws H). Qed.

Theorem C15_err_keeps_state : forall st t o st' r,
  step st t o = Ok (st', [r]) -> reply_ok r = false -> st_fc st' = st_fc st.
Proof. exact step_err_keeps_state. Qed.

(* a file is open exactly between a successful open and the next successful close: after any history,
   pause / resume / close are answered ok: iff the replies so far say "open" ... *)
Theorem C15_file_open_iff : forall st h st' ws t o,
  run st h = Ok (st', ws) ->
  command_of t = "pause" \/ command_of t = "resume" \/ command_of t = "close" ->
  exists st'' r, step st' t o = Ok (st'', [r]) /\ reply_ok r = spec_open (spec_run (abs st) h ws).
Proof.
  intros st h st' ws t o H Hc. rewrite <- (run_abs h st st' ws H). exact (step_pause_close st' t o Hc).
Qed.

(* ... and open is refused iff a file is open (the err: reply shows the files of the open context:
   [files_of], 0 on the archive path while the extraction is pending or yielded nothing); otherwise its
   outcome is that of FileContext::from.  On its archive path (some name is an archive or
   archive!/glob) the new context has NO file stream and a pending extraction *)
Theorem C15_open_iff : forall st h st' ws t o,
  run st h = Ok (st', ws) -> command_of t = "open" ->
  exists st'' r, step st' t o = Ok (st'', [r]) /\
    (spec_open (spec_run (abs st) h ws) = true -> r = RErr (EOpenAlready (files_of st')) /\ st'' = st') /\
    (spec_open (spec_run (abs st) h ws) = false ->
       match o_open o with
       | OpenOk _ _ plugins => r = ROk (OkOpen (N.of_nat (List.length plugins))) /\ abs st'' = Some [] /\
                               extracting_of st'' = o_archive o /\
                               files_of st'' = (if o_archive o then 0 else o_nfiles o)
       | OpenErr => r = RErr EOpenFailed /\ st'' = st'
       end).
Proof.
  intros st h st' ws t o H Hc. rewrite <- (run_abs h st st' ws H). exact (step_open_reply st' t o Hc).
Qed.

(* open while an archive context without any file stream is open (extraction pending, or finished with
   nothing usable): in EVERY such state, after any number of passes of process_file_context with any
   arrivals, any command is answered by exactly one frame and a further open by err: (0 files) *)
Theorem C15_open_on_empty_archive_context : forall st t o, command_of t = "open" ->
  spec_open (abs st) = true -> files_of st = 0 ->
  step st t o = Ok (st, [RErr (EOpenAlready 0)]).
Proof.
  intros st t o Hc Ho Hf. destruct (step_open_reply st t o Hc) as [st' [r [H [H1 _]]]].
  destruct (H1 Ho) as [-> ->]. rewrite Hf in H. exact H.
Qed.

(* a stream id is usable exactly between its creation and stop / close / renewal / completion: after
   any history, a command addressing id reaches a stream iff id is live according to the replies
   (otherwise: not found / no file opened), and stop succeeds iff it is live *)
Theorem C15_stream_id_usable_iff : forall st h st' ws t o id,
  run st h = Ok (st', ws) ->
  is_id_command (command_of t) = true ->
  parse_u32 (hd "" (split_on sp (params_of t))) = Some id ->
  exists st'' r, step st' t o = Ok (st'', [r]) /\
    reaches_stream r = spec_live (spec_run (abs st) h ws) id /\
    (command_of t = "stop" -> reply_ok r = spec_live (spec_run (abs st) h ws) id).
Proof.
  intros st h st' ws t o id H Hc Hp. rewrite <- (run_abs h st st' ws H). exact (step_id_usable st' t o id Hc Hp).
Qed.

(* close, then open: whatever happened before, after a close (answered ok: or err:) an open whose files
   are readable succeeds and starts without streams *)
Theorem C15_close_then_open : forall st h st' ws tc oc t_open o_op mode sort plugins,
  run st h = Ok (st', ws) ->
  command_of tc = "close" -> command_of t_open = "open" -> o_open o_op = OpenOk mode sort plugins ->
  exists st1 r1 st2,
    step st' tc oc = Ok (st1, [r1]) /\
    step st1 t_open o_op = Ok (st2, [ROk (OkOpen (N.of_nat (List.length plugins)))]) /\
    abs st2 = Some [].
Proof. intros st h st' ws tc oc t_open o_op mode sort plugins _. apply close_then_open. Qed.

(* ids handed out by stream / query / stream_change_window never repeat (until the u32 counter wraps) *)
Theorem C15_ids_fresh : forall st h st' ws,
  run st h = Ok (st', ws) ->
  st_next_id st + N.of_nat (List.length h) < 2 ^ 32 ->
  NoDup (issued ws) /\ Forall (fun i => st_next_id st <= i) (issued ws).
Proof.
  intros st h st' ws H Hb. destruct (run_ids_fresh h st st' ws H Hb) as [S [F _]].
  split; [exact (strongly_sorted_lt_nodup _ S)|exact F].
Qed.

(* the `_ =>` arm of the inner match ("<cmd> failed. stream_id N not found!") is unreachable *)
Theorem C15_inner_default_unreachable : forall st t o st' w id,
  step st t o = Ok (st', w) -> ~ In (RErr (EInnerDefault id)) w.
Proof. exact step_no_inner_default. Qed.

(* handlers that iterate over a collection to find a match answer ONCE, by the first match, however
   many entries match: plugin_cmd with several configured plugins of the same name (open does not
   dedupe the plugin list) is answered by the first plugin carrying the name alone; with none by
   "not found" *)
Theorem C15_plugin_cmd_duplicates_one_reply : forall st t o fc name,
  command_of t = "plugin_cmd" -> st_fc st = Some fc -> o_json o = JGood name ->
  (forall c ps1 ps2, fc_plugins fc = (ps1 ++ (name, c) :: ps2)%list ->
     (forall q, In q ps1 -> String.eqb (fst q) name = false) ->
     step st t o = Ok (st, [if c then ROk OkPluginCmd else RErr EPluginNoCmds])) /\
  ((forall q, In q (fc_plugins fc) -> String.eqb (fst q) name = false) ->
     step st t o = Ok (st, [RErr EPluginNotFound])).
Proof. exact step_plugin_cmd. Qed.

(* stop <id> with several streams carrying the id (only possible after the u32 id counter wrapped):
   one reply, exactly the first of them is removed *)
Theorem C15_stop_duplicates_one_reply : forall st t o fc id l1 s l2,
  command_of t = "stop" -> parse_u32 (hd "" (split_on sp (params_of t))) = Some id ->
  st_fc st = Some fc -> fc_streams fc = (l1 ++ s :: l2)%list -> s_id s = id ->
  (forall x, In x l1 -> (s_id x =? id) = false) ->
  step st t o = Ok (with_fc st (set_streams fc (l1 ++ l2)%list), [ROk (OkStop id)]).
Proof. exact step_stop_first. Qed.

Example C15_duplicate_plugins :
  let dup := [("Rewrite", false); ("FileTransfer", true); ("Rewrite", false); ("FileTransfer", true); ("FileTransfer", true)] in
  let h := [ it [] "open {..5 plugins..}" (oo (OpenOk CAll false dup));
             it [] "plugin_cmd {Rewrite}" (oj (JGood "Rewrite"));
             it [] "plugin_cmd {FileTransfer}" (oj (JGood "FileTransfer"));
             it [] "plugin_cmd {Nope}" (oj (JGood "Nope"));
             it [] "plugin_cmd [1]" (oj JNotObject) ] in
  exists st', run_loop (init_state 1) h =
    Ok (st', [ [ROk (OkOpen 5)]; [RErr EPluginNoCmds]; [ROk OkPluginCmd]; [RErr EPluginNotFound]; [RErr ENotObject] ]).
Proof. cbv zeta. eexists. vm_compute. reflexivity. Qed.

(* ------------------------------------------------------------------ the environment a command refers to
   `fs` is answered from what the path names on disk (Remote/DispatchFs.v: process_fs_cmd, type_for_filetype,
   fs_cmd_archive line by line).  The oracle value [o_fs o] is everything the operating system and the trusted
   archive helpers return for that path: symlink_metadata Ok (ANY file type, length, modification / creation time:
   before, at or after the unix epoch, or not available) / NotFound / another error; read_dir likewise; for the
   archive form whether the archive exists, is supported, can be opened, is corrupt (no list), empty, holds the
   single member "data" or any member list; and ANY path text for the `archive!/within` split with its slice.
   For EVERY such value and EVERY session state the command is answered by exactly one ok: / err: frame, nothing
   panics, and the session state is untouched. *)
Theorem C15_fs_one_reply_any_environment : forall st t o,
  command_of t = "fs" ->
  exists r, step st t o = Ok (st, [r]) /\ not_unknown r /\
            (r = RErr EJsonParse \/ r = RErr ENotObject \/ r = RErr EFsErr \/ exists v, r = ROk (OkFs v)).
Proof.
  intros st t o Hc. destruct (step_fs_one st t o Hc) as [H|[H|[H|[v H]]]]; eexists; (split; [exact H|]); (split; [exact I|]); eauto.
Qed.

(* stat of a path that exists is answered ok: with the stat value, whatever the metadata is; a modification
   (creation) time before the epoch or one the platform cannot tell is reported as 0 (the code's fallbacks
   `unwrap_or(UNIX_EPOCH)` / `unwrap_or(Duration::from_secs(0))`), every other time as its milliseconds mod 2^64 *)
Theorem C15_fs_stat_any_metadata : forall st t o name m,
  command_of t = "fs" -> o_json o = JGood name ->
  fo_cmd_path (o_fs o) = true -> fo_cmd (o_fs o) = FsCmdStat -> fo_meta (o_fs o) = MetaOk m ->
  step st t o = Ok (st, [ROk (OkFs (FsStat (type_for_filetype (m_kind m) (m_target m)) (m_len m)
                                           (time_ms (m_modified m)) (time_ms (m_created m))))]).
Proof. exact step_fs_stat_existing. Qed.

Theorem C15_fs_time_fallback : forall t : Z,
  ((t < 0)%Z -> time_ms (Some t) = 0) /\ time_ms None = 0 /\
  ((0 <= t)%Z -> time_ms (Some t) = (Z.to_N t / 1000000) mod 2 ^ 64) /\ time_ms (Some t) < 2 ^ 64.
Proof.
  intros t. split; [exact (time_ms_before_epoch t)|]. split; [reflexivity|].
  split; [exact (time_ms_after_epoch t)|exact (time_ms_bound (Some t))].
Qed.

(* the `archive!/path/within` split of fs_cmd_archive (splitn, ends_with, uri[0], uri[1], `len() - 1`, the str
   slice at a char boundary) returns for every path text *)
Theorem C15_fs_archive_split_total : forall path, exists r, archive_split path = Ok r.
Proof. exact archive_split_total. Qed.

(* why the second fallback is needed: the same expression with `.unwrap()` on the result of
   duration_since(UNIX_EPOCH) ([time_ms_unwrap], NOT what the code does) agrees with the code for every time at or
   after the epoch and panics for EVERY time before it, e.g. one hour or one nanosecond before 1970 - the property
   (one reply, connection alive) is refuted for that variant *)
Theorem C15_fs_stat_time_unwrap_variant_refuted :
  (forall t : Z, (0 <= t)%Z -> time_ms_unwrap (Some t) = Ok (time_ms (Some t))) /\
  (forall t : Z, (t < 0)%Z -> time_ms_unwrap (Some t) = Panic site_fs_time_unwrap) /\
  time_ms_unwrap (tm true 3600000000000) = Panic site_fs_time_unwrap /\
  time_ms_unwrap (tm true 1) = Panic site_fs_time_unwrap /\
  time_ms (tm true 3600000000000) = 0 /\ time_ms (tm true 1) = 0 /\ time_ms (tm false 0) = 0 /\
  time_ms (tm false 15032385535000000000) = 15032385535000.
Proof.
  split; [exact time_ms_unwrap_agrees|]. split; [exact time_ms_unwrap_panics|].
  vm_compute. repeat split; reflexivity.
Qed.

(* evaluated through the model: the value classes of the environment in one session (closed, then with a file open) *)
Example C15_fs_environment :
  let st_of ty mt := ofs (JGood "") (fso true 0 "/d/f" (mok ty 3 2 mt (tm false 1790842855163926593)) rdn false false false false None 0 None) in
  let arch cmd path l rc am := ofs (JGood "") (fso true cmd path mnf rdn true true false true l rc am) in
  let h := [ it [] "fs {stat old1h}" (st_of 1 (tm true 3600000000000));
             it [] "fs {stat old1ns}" (st_of 1 (tm true 1));
             it [] "fs {stat epoch}" (st_of 1 (tm false 0));
             it [] "fs {stat future}" (st_of 1 (tm false 15032385535000000000));
             it [] "fs {stat no mtime}" (st_of 0 tnone);
             it [] "open {..}" (oo (OpenOk CAll false []));
             it [] "fs {stat dangling link, old}" (ofs (JGood "") (fso true 0 "/d/l" (mok 2 3 7 (tm true 3600000000000) tnone) rdn false false false false None 0 None));
             it [] "fs {stat a/x}" (ofs (JGood "") (fso true 0 "/d/a.dlt/x" mer rde false false false false None 0 None));
             it [] "fs {readDirectory d}" (ofs (JGood "") (fso true 1 "/d" (mok 0 3 4096 (tm true 1) tnone) (RdOk 7) false false false false None 0 None));
             it [] "fs {stat nofile}" (ofs (JGood "") (fso true 0 "/d/nofile" mnf rdn false false false false None 0 None));
             it [] "fs {stat z.zip!/logs}" (arch 0 "/d/z.zip!/logs" (Some ["logs/a.dlt"; "logs/b.dlt"]) 2 (Some (0, 2)));
             it [] "fs {stat z.zip!}" (arch 0 "/d/z.zip!" (Some ["data"]) 1 (Some (0, 1)));
             it [] "fs {readDirectory empty.zip!/}" (arch 1 "/d/e.zip!/" (Some []) 0 None);
             it [] "fs {stat empty.zip!/x}" (arch 0 "/d/e.zip!/x" (Some []) 0 None);
             it [] "fs {stat bad.zip!/x}" (arch 0 "/d/bad.zip!/x" None 0 None);
             it [] "fs {foo}" (ofs (JGood "") (fso true 2 "/d" (mok 0 3 4096 tnone tnone) (RdOk 7) false false false false None 0 None));
             it [] "fs {}" (ofs JMissing fs0);
             it [] "fs [" (ofs JBad fs0);
             it [] "close" o0 ] in
  exists st', run_loop (init_state 1) h =
    Ok (st', [ [ROk (OkFs (FsStat 1 2 0 1790842855163))]; [ROk (OkFs (FsStat 1 2 0 1790842855163))];
               [ROk (OkFs (FsStat 1 2 0 1790842855163))]; [ROk (OkFs (FsStat 1 2 15032385535000 1790842855163))];
               [ROk (OkFs (FsStat 0 2 0 1790842855163))]; [ROk (OkOpen 0)];
               [ROk (OkFs (FsStat 4 7 0 0))]; [ROk (OkFs FsInnerErr)]; [ROk (OkFs (FsList 7))]; [RErr EFsErr];
               [ROk (OkFs (FsStat 0 2 0 0))]; [ROk (OkFs (FsStat 1 42 0 0))]; [ROk (OkFs (FsList 0))];
               [ROk (OkFs FsInnerErr)]; [RErr EFsErr]; [RErr EFsErr]; [RErr EFsErr]; [RErr EJsonParse]; [ROk OkClose] ]).
Proof. cbv zeta. eexists. vm_compute. reflexivity. Qed.

(* the text layer: `<command> <params>` with a command word without blanks is dispatched to that command
   with exactly that argument text, a bare word to that command with empty arguments; the number syntax
   of ids / windows is Rust's (samples; the correspondence check compares many more) *)
Theorem C15_frame_split : forall c p, no_space c = true ->
  command_of (c ++ String sp p) = c /\ params_of (c ++ String sp p) = p /\
  command_of c = c /\ params_of c = "".
Proof.
  intros c p H. destruct (frame_command c p H) as [A B]. destruct (frame_command_bare c H) as [C D]. auto.
Qed.

Example C15_number_syntax :
  map parse_u32 ["7"; "+7"; "007"; "4294967295"; "4294967296"; ""; "+"; "-0"; "++1"; "1 "; " 1"; "1_0"; "0x1"] =
  [Some 7; Some 7; Some 7; Some 4294967295; None; None; None; None; None; None; None; None; None]
  /\ split_on sp "" = [""] /\ split_on sp " 5" = [""; "5"] /\ split_on sp "5  x" = ["5"; ""; "x"]
  /\ splitn2 sp "stop 5 6" = ["stop"; "5 6"] /\ splitn2 sp "" = [""].
Proof. vm_compute. repeat split; reflexivity. Qed.

(* ------------------------------------------------------------------ the whole event loop
   loop { process_file_context; read a frame; dispatch }  (Remote/DispatchTick.v): the passes of
   process_file_context between the commands (TMsgs: messages arrived, TDone: a query finished) and the
   pass right after every command, with their index arithmetic on all_msgs / filtered_msgs /
   drained_all_msgs as possible panics. *)

(* known finding: with the open option collect:"one_pass_streams" the loop does panic.  Witness (replayed
   on the real server, corpus case kf_one_pass_late_stream): open one-pass, resume, the 10 messages of
   the file arrive and are drained, a new stream is created -> `0 - drained_all_msgs` in the next pass *)
Definition C15_one_pass_witness : list titem :=
  [ it [] "open {..one_pass_streams..}" (oo (OpenOk COnePass false []));
    it [] "resume" o0;
    it [TMsgs 10] "stream {..}" (os (sk true 0 20 0 0 0 0));
    it [] "pause" o0 ].
Theorem C15_tick_one_pass_refuted :
  run_loop (init_state 1) C15_one_pass_witness = Panic site_tick_slice_sub.
Proof. vm_compute. reflexivity. Qed.

(* second witness (corpus case kf_one_pass_window): a window change re-sends already drained messages *)
Definition C15_one_pass_witness2 : list titem :=
  [ it [] "open {..one_pass_streams..}" (oo (OpenOk COnePass false []));
    it [] "stream {..}" (os (sk true 0 3 0 0 0 0));
    it [] "resume" o0;
    it [TMsgs 10] "stream_change_window 1 0,5" o0;
    it [] "pause" o0 ].
Theorem C15_tick_one_pass_window_refuted :
  run_loop (init_state 1) C15_one_pass_witness2 = Panic site_tick_msg_sub.
Proof. vm_compute. reflexivity. Qed.

(* ---- what the opened file makes the background threads publish: the lifecycle table read by every pass
   (`for lc in lc_map.iter().map(|(_id, b)| b.get_one().unwrap())`, event [TLcs t]).
   The pass depends on a contract of the lifecycle module, stated on the writer's side by the lifecycle check
   (clauses published_key_single_value / table_key_single_value): every published key has exactly one value.
   Under that hypothesis the loop body receives exactly the one value of every key - never an empty bag - and
   the pass leaves the state alone, for every table and every state ... *)
Theorem C15_tick_lifecycle_table_contract : forall (st : state) (t : lc_table),
  published_key_single_value t = true ->
  tick_lcs st t = Ok st /\
  (forall entries, t = Some entries -> exists vs, lc_loop entries = Ok vs /\ map (fun v => [v]) vs = map snd entries).
Proof.
  intros st t H. split; [exact (tick_lcs_ok st t H)|].
  intros entries ->. exact (lc_loop_ok entries H).
Qed.

(* ... and the dependency is real: with ANY table that has a key with an empty value bag (evmap `clear`
   instead of `empty`) a pass over an open, running (not paused, not extracting) context panics in
   `get_one().unwrap()` - whatever the other entries are *)
Theorem C15_tick_empty_bag_refuted : forall (st : state) (fc : fctx) (entries : list lc_entry) (k : N),
  st_fc st = Some fc -> fc_extracting fc = false -> fc_paused fc = false ->
  In (k, []) entries ->
  published_key_single_value (Some entries) = false /\
  tick_lcs st (Some entries) = Panic site_tick_lc_get_one.
Proof.
  intros st fc entries k E X P Hin. split.
  - cbn [published_key_single_value]. apply Bool.not_true_is_false. intros H.
    rewrite forallb_forall in H. specialize (H _ Hin). discriminate H.
  - unfold tick_lcs, tick_lcs_fc. rewrite E, X, P, (lc_loop_empty_bag entries k Hin). reflexivity.
Qed.

(* through the whole loop: `open` of a file whose trace publishes a lifecycle (key 2) and merges it away
   afterwards, the writer leaving the key with an empty bag; the 4 messages arrive, the pass reads the
   table: the connection thread is gone before the next command is read *)
Definition C15_empty_bag_witness : list titem :=
  [ it [] "open {..}" (oo (OpenOk CAll false []));
    it [TMsgs 4; TLcs (Some [(1, [(1, 4)]); (2, [])])] "pause" o0;
    it [] "close" o0 ].
Theorem C15_loop_empty_bag_refuted :
  forallb (fun i => not_one_pass_open (t_orc i)) C15_empty_bag_witness = true /\
  run_loop (init_state 1) C15_empty_bag_witness = Panic site_tick_lc_get_one.
Proof. split; vm_compute; reflexivity. Qed.

(* outside the one-pass class (no successful open with collect:one_pass_streams; [tick_inv]: nothing drained,
   filtered_msgs point into all_msgs) and with lifecycle tables that keep the contract of the lifecycle
   module (published_key_single_value for every table a pass reads) the loop never panics, for every
   history, every arrival schedule, every filter predicate, every such table: one reply per command, and the
   state is again the function of the replies *)
Theorem C15_loop_one_reply_no_crash : forall (st : state) (h : list titem),
  tick_inv st -> forallb (fun i => not_one_pass_open (t_orc i)) h = true ->
  forallb (fun i => forallb tevent_contract (t_pre i)) h = true ->
  exists st' ws, run_loop st h = Ok (st', ws) /\ List.length ws = List.length h /\
                 Forall (fun w => exists r : reply, w = [r]) ws /\
                 abs st' = spec_run (abs st) (map proj_item h) ws.
Proof.
  intros st h I Hn HC. destruct (run_loop_ok h st I Hn HC) as [st' [ws [H [L [F [_ A]]]]]]. exists st', ws. auto.
Qed.

Theorem C15_loop_init_inv : forall first_id, tick_inv (init_state first_id).
Proof. intros first_id. exact Logic.I. Qed.

(* state consistency of every non-panicking run of the loop, one-pass or not: process_file_context never
   changes what the dispatcher sees except through the reported completion of queries *)
Theorem C15_loop_state_consistent : forall st h st' ws,
  run_loop st h = Ok (st', ws) -> abs st' = spec_run (abs st) (map proj_item h) ws.
Proof. intros st h st' ws H. exact (run_loop_abs h st st' ws H). Qed.

(* hence the reply-level characterisations also hold after every non-panicking run of the loop *)
Theorem C15_loop_file_open_iff : forall st h st' ws t o,
  run_loop st h = Ok (st', ws) ->
  command_of t = "pause" \/ command_of t = "resume" \/ command_of t = "close" ->
  exists st'' r, step st' t o = Ok (st'', [r]) /\ reply_ok r = spec_open (spec_run (abs st) (map proj_item h) ws).
Proof.
  intros st h st' ws t o H Hc. rewrite <- (run_loop_abs h st st' ws H). exact (step_pause_close st' t o Hc).
Qed.

Theorem C15_loop_stream_id_usable_iff : forall st h st' ws t o id,
  run_loop st h = Ok (st', ws) ->
  is_id_command (command_of t) = true ->
  parse_u32 (hd "" (split_on sp (params_of t))) = Some id ->
  exists st'' r, step st' t o = Ok (st'', [r]) /\
    reaches_stream r = spec_live (spec_run (abs st) (map proj_item h) ws) id /\
    (command_of t = "stop" -> reply_ok r = spec_live (spec_run (abs st) (map proj_item h) ws) id).
Proof.
  intros st h st' ws t o id H Hc Hp. rewrite <- (run_loop_abs h st st' ws H). exact (step_id_usable st' t o id Hc Hp).
Qed.

(* non-vacuity / sanity: a concrete session through the executable model — open, a stream, a query that
   finishes on its own, a renewed window, the old id is gone, the new one can be stopped once, a search
   without body is answered err:, close, open again *)
Example C15_nonvacuous :
  let ok_open := oo (OpenOk CAll false [("FileTransfer", true)]) in
  let h := [ it [] "stop 1" o0;
             it [] "open {..}" ok_open;
             it [] "open {..}" ok_open;
             it [TMsgs 10; TLcs (Some [(7, [(7, 6)]); (9, [(9, 4)])])] "stream {}" (os (sk false 0 20 0 0 0 0));
             it [TLcs None] "query {}" (os (sk false 0 20 1 0 0 1));
             it [] "stream_change_window 1 2,+7" o0;
             it [TMsgs 15; TDone 2] "stop 2" o0;
             it [] "stop 1" o0;
             it [] "stream_search 3" (oi true 15);
             it [] "stream_search 3 {}" (oi true 15);
             it [] "stop 03 x" o0;
             it [] "stop +3" o0;
             it [] "plugin_cmd {..}" (oj (JGood "FileTransfer"));
             it [] "close" o0;
             it [] " close" o0;
             it [] "open {..zip!/nothing*..}" (oof (OpenOk CAll false []) true 0);
             it [] "open {..}" ok_open;
             it [] "stream {}" (os (sk false 0 20 0 0 0 0));
             it [TExtracted 0] "open {..}" ok_open;
             it [] "close" o0;
             it [] "open {..zip..}" (oof (OpenOk CAll true []) true 0);
             it [] "open {..}" ok_open;
             it [TExtracted 2; TMsgs 15] "open {..}" ok_open;
             it [] "close" o0;
             it [] "open {..}" ok_open ] in
  forallb (fun i => not_one_pass_open (t_orc i)) h = true /\
  forallb (fun i => forallb tevent_contract (t_pre i)) h = true /\
  exists st', run_loop (init_state 1) h =
    Ok (st', [ [RErr ENoFileOpened]; [ROk (OkOpen 1)]; [RErr (EOpenAlready 1)];
               [ROk (OkStream true 1 0 0 0)]; [ROk (OkStream false 2 1 0 0)];
               [ROk (OkWindow 1 3 2 7)]; [RErr (EIdNotFound 2)]; [RErr (EIdNotFound 1)];
               [RErr ESearchParams]; [ROk (OkSearch 3)]; [ROk (OkStop 3)]; [RErr (EIdNotFound 3)];
               [ROk OkPluginCmd]; [ROk OkClose]; [RUnknown " close"];
               [ROk (OkOpen 0)]; [RErr (EOpenAlready 0)]; [ROk (OkStream true 4 0 0 0)]; [RErr (EOpenAlready 0)];
               [ROk OkClose]; [ROk (OkOpen 0)]; [RErr (EOpenAlready 0)]; [RErr (EOpenAlready 2)]; [ROk OkClose];
               [ROk (OkOpen 1)] ])
    /\ abs st' = Some [] /\ st_next_id st' = 5.
Proof. cbv zeta. split; [reflexivity|]. split; [reflexivity|]. eexists. split; [vm_compute; reflexivity|]. split; reflexivity. Qed.

Print Assumptions C15_one_reply_no_crash.
Print Assumptions C15_unknown_notice.
Print Assumptions C15_state_consistent.
Print Assumptions C15_err_keeps_state.
Print Assumptions C15_file_open_iff.
Print Assumptions C15_open_iff.
Print Assumptions C15_open_on_empty_archive_context.
Print Assumptions C15_stream_id_usable_iff.
Print Assumptions C15_close_then_open.
Print Assumptions C15_ids_fresh.
Print Assumptions C15_inner_default_unreachable.
Print Assumptions C15_plugin_cmd_duplicates_one_reply.
Print Assumptions C15_stop_duplicates_one_reply.
Print Assumptions C15_duplicate_plugins.
Print Assumptions C15_fs_one_reply_any_environment.
Print Assumptions C15_fs_stat_any_metadata.
Print Assumptions C15_fs_time_fallback.
Print Assumptions C15_fs_archive_split_total.
Print Assumptions C15_fs_stat_time_unwrap_variant_refuted.
Print Assumptions C15_fs_environment.
Print Assumptions C15_frame_split.
Print Assumptions C15_number_syntax.
Print Assumptions C15_tick_one_pass_refuted.
Print Assumptions C15_tick_one_pass_window_refuted.
Print Assumptions C15_tick_lifecycle_table_contract.
Print Assumptions C15_tick_empty_bag_refuted.
Print Assumptions C15_loop_empty_bag_refuted.
Print Assumptions C15_loop_one_reply_no_crash.
Print Assumptions C15_loop_init_inv.
Print Assumptions C15_loop_state_consistent.
Print Assumptions C15_loop_file_open_iff.
Print Assumptions C15_loop_stream_id_usable_iff.
Print Assumptions C15_nonvacuous.
