(* C13 — Bounded channels and slow consumers never lose or reorder messages.
   Statements only; the model is Pipe/Kahn.v, the proofs are in Pipe/KahnProofs.v.

   [init_pipe s0 input cap0 [(g1, c1); ...; (gn, cn)]] is the pipeline
       source(input) -cap0-> g1 -c1-> g2 ... gn -cn-> consumer
   of arbitrary stages [g_i] (record [stage]: state, step, flush, reaction to a failed send) and arbitrary
   channel capacities (0 = rendezvous).  [pstep drop] is one step of ANY node under an arbitrary scheduler
   (send through the helper = enqueue / hand over / sleep once on Full / Err on a dropped receiver, receive,
   end of stream, return); with [drop = true] the consumer may additionally disappear at any step.
   [psteps] = finite executions.  [compose gs input] = F_n (... (F_1 input)) is the sequential semantics =
   what unbounded channels with one stage running after the other deliver; [compose_states] the final
   state of every stage (for lifecycle detection: the final lifecycle table). *)
From Coq Require Import List NArith Bool Arith Permutation.
From AdltV Require Import Pipe.Kahn Pipe.KahnProofs Pipe.Loss Pipe.LossProofs Pipe.Shared Pipe.SharedProofs Pipe.Consumer Pipe.ConsumerProofs Pipe.Incr Pipe.IncrProofs Pipe.Plugins Pipe.PluginsProofs.
Import ListNotations.

Section Statements.
  Context {msg St : Type}.
  Notation stage := (@stage msg St).
  Notation pipe := (@pipe msg St).

  (* every drop-free execution that ends with all threads finished, for every capacity vector and every
     schedule, has delivered exactly the sequential result, left every stage in the sequential final state,
     and left no message in a channel *)
  Theorem C13_pipeline_deterministic s0 input cap0 (gs : list (stage * nat)) (p' : pipe) :
    psteps false (init_pipe s0 input cap0 gs) p' -> all_done p' = true ->
    delivered p' = compose (map fst gs) input /\
    final_states p' = s0 :: compose_states (map fst gs) input /\
    drained p'.
  Proof. exact (pipeline_deterministic s0 input cap0 gs p'). Qed.

  (* the same for every MAXIMAL drop-free execution (no step enabled at its end): a full channel delays,
     it never drops, duplicates or reorders *)
  Theorem C13_pipeline_deterministic_maximal s0 input cap0 (gs : list (stage * nat)) (p' : pipe) :
    psteps false (init_pipe s0 input cap0 gs) p' -> (forall p'', ~ pstep false p' p'') ->
    all_done p' = true /\
    delivered p' = compose (map fst gs) input /\
    final_states p' = s0 :: compose_states (map fst gs) input.
  Proof.
    intros Hs Hmax. pose proof (stuck_is_done p' Hmax) as Hd.
    destruct (pipeline_deterministic s0 input cap0 gs p' Hs Hd) as [H1 [H2 _]]. auto.
  Qed.

  (* hence: the capacities do not matter.  Two complete drop-free runs of the same stages on the same input with
     ANY two capacity vectors (e.g. 0/1/2/7 against "unbounded" = at least the number of messages) and any two
     schedules deliver the same sequence and end in the same stage states (same final lifecycle table) *)
  Theorem C13_capacity_independent s0 input (gs : list stage) (capsA capsB : list nat) capA0 capB0 (pA pB : pipe) :
    length capsA = length gs -> length capsB = length gs ->
    psteps false (init_pipe s0 input capA0 (combine gs capsA)) pA -> all_done pA = true ->
    psteps false (init_pipe s0 input capB0 (combine gs capsB)) pB -> all_done pB = true ->
    delivered pA = delivered pB /\ final_states pA = final_states pB.
  Proof.
    intros LA LB HA DA HB DB.
    destruct (pipeline_deterministic _ _ _ _ _ HA DA) as [A1 [A2 _]].
    destruct (pipeline_deterministic _ _ _ _ _ HB DB) as [B1 [B2 _]].
    assert (EA : map fst (combine gs capsA) = gs).
    { clear -LA. revert capsA LA. induction gs as [|g r IH]; intros [|c cs] L; cbn in *; try discriminate; auto.
      f_equal. apply IH. congruence. }
    assert (EB : map fst (combine gs capsB) = gs).
    { clear -LB. revert capsB LB. induction gs as [|g r IH]; intros [|c cs] L; cbn in *; try discriminate; auto.
      f_equal. apply IH. congruence. }
    rewrite EA in *. rewrite EB in *. split; congruence.
  Qed.

  (* at every moment of every execution, also with the consumer disappearing at an arbitrary step: what the
     consumer has got is a prefix of the sequential result (nothing lost, duplicated or reordered before it) *)
  Theorem C13_delivered_prefix_always s0 input cap0 (gs : list (stage * nat)) (p' : pipe) :
    psteps true (init_pipe s0 input cap0 gs) p' ->
    exists suffix, delivered p' ++ suffix = compose (map fst gs) input.
  Proof. exact (delivered_prefix_always s0 input cap0 gs p'). Qed.

  (* termination: from ANY configuration (any stages, capacities, queue contents) there is no infinite
     execution, and a configuration in which some thread has not finished has an enabled step that does not
     need the consumer to disappear: no deadlock in a linear pipeline *)
  Theorem C13_pipeline_terminates (p : pipe) :
    Acc (fun y x => pstep false x y) p /\
    (all_done p = false -> exists p', pstep false p p') /\
    exists p', psteps false p p' /\ all_done p' = true.
  Proof.
    split; [exact (pipeline_terminates_nodrop p)|]. split; [exact (pipeline_no_deadlock p)|exact (pipeline_reaches_done p)].
  Qed.

  (* the consumer disappears at an arbitrary step (and every stage reacts to the failing sends in whatever way
     its [on_err] says: return, break + flush, or lose the message and go on): still no infinite execution,
     and every maximal execution ends with every thread returned *)
  Theorem C13_drop_consumer_terminates (p : pipe) :
    Acc (fun y x => pstep true x y) p /\
    forall p', psteps true p p' -> (forall p'', ~ pstep true p' p'') -> all_done p' = true.
  Proof.
    split; [exact (pipeline_terminates p)|].
    intros p' _ Hmax. apply stuck_is_done. intros p'' H. exact (Hmax p'' (pstep_false_true _ _ H)).
  Qed.

  (* the channels are bounded: in every reachable configuration no FIFO holds more than its capacity
     (a rendezvous channel never holds anything) *)
  Theorem C13_channels_bounded dr s0 input cap0 (gs : list (stage * nat)) (p' : pipe) :
    psteps dr (init_pipe s0 input cap0 gs) p' -> within_cap p'.
  Proof. exact (channels_bounded dr s0 input cap0 gs p'). Qed.

  (* the send actions of the model are exactly the outcomes of sync_sender_send_delay_if_full: Err iff try_send
     reports Disconnected, enqueue / rendezvous hand-over iff it reports Ok, the 10 ms sleep (once) iff Full *)
  Theorem C13_helper_faithful (c : @cell msg St) (rest : pipe) m pd :
    pend_of (ns c) = m :: pd -> length (q c) <= cap c ->
    let r := try_send (alive rest) (cap c) (length (q c)) (waiting rest) in
    (r = TryDisconnected <-> head_step false AErr (PCell c rest) <> None) /\
    (r = TryOk <-> (head_step false AEnq (PCell c rest) <> None \/
                    (q c = [] /\ cap c = 0 /\ head_step false AXfer (PCell c rest) <> None))) /\
    (r = TryFull -> slept_of (ns c) = false -> head_step false ASleep (PCell c rest) <> None) /\
    (head_step false ASleep (PCell c rest) <> None -> alive rest = true /\ slept_of (ns c) = false /\ cap c <= length (q c)).
  Proof. exact (helper_faithful c rest m pd). Qed.

  (* the schedule-driven interpreter used by the correspondence check computes executions of the relation *)
  Theorem C13_exec_sound fuel dropat sched more (p p' : pipe) b :
    exec fuel dropat sched more p = (p', b) ->
    psteps true p p' /\ (b = true -> all_done p' = true).
  Proof. exact (exec_sound fuel dropat sched more p p' b). Qed.

  (* the time-sorted pipeline: the sort reads the lifecycle table from shared memory, the values it sees depend
     on timing; whatever it sees it is a permutation stage, the stages behind it are permutation-congruent:
     two runs deliver the same multiset *)
  Theorem C13_sorted_pipeline_permutation (pre post : list stage) (g1 g2 : stage) input :
    perm_stage g1 -> perm_stage g2 -> Forall perm_congruent post ->
    Permutation (compose (pre ++ g1 :: post) input) (compose (pre ++ g2 :: post) input).
  Proof. exact (sorted_pipeline_permutation pre post g1 g2 input). Qed.
End Statements.

(* ---------------------------------------------------------------------------------------------------------------
   One stage after the loss of its consumer, with a producer that only stops when its own send fails (Pipe/Loss.v).
   [z_run z inputs k]: the loop of parse_lifecycles_buffered_from_stream with its send sites ([sstage]: drain loops
   .send 1/2/4, bottom = queue or direct forward .send 3, final flush) against an outflow that accepts k messages and
   fails from then on; [loss_run g inputs k]: the same for any stage of the pipeline model, reacting by its [on_err].
   l_consumed = messages pulled from the inflow, l_returned_early = returned before the inflow ended (the Receiver is
   dropped: the producer's next send fails). *)
Section LossStatements.
  Context {msg St : Type}.

  (* what the consumer got before it disappeared is the k-prefix of what the undisturbed stage forwards, for all inputs and k *)
  Theorem C13_loss_delivered_prefix (z : @sstage msg St) inputs k :
    l_delivered (z_run z inputs k) = firstn k (z_out z (z_init z) inputs).
  Proof. exact (z_run_delivered_prefix z inputs k). Qed.

  (* after the loss (every send fails) the lifecycle loop pulls exactly until the first iteration whose bottom takes the
     direct forward -- failing drain sends never end it, the failing direct forward always does *)
  Theorem C13_lc_pull_after_loss (z : @sstage msg St) inputs s i f :
    z_loop z s inputs 0 i (Some f) =
    {| l_consumed := i + gone_pull z s inputs; l_delivered := []; l_first_fail := Some f;
       l_returned_early := gone_exits z s inputs |}.
  Proof. exact (z_loop_gone z inputs s i f). Qed.

  (* bounded pull, for all inputs and all k: if the first failed send (at whatever send site) happens while one of the
     first j+1 messages is processed, and message j is forwarded directly in whatever state the stage is, the stage has
     returned after at most j+1 messages and the producer is told -- independent of how much input follows *)
  Theorem C13_lc_bounded_pull (z : @sstage msg St) inputs k j m i0 :
    nth_error inputs j = Some m -> (forall s, is_some (snd (z_bottom z s m)) = true) ->
    l_first_fail (z_run z inputs k) = Some i0 -> i0 <= j ->
    l_consumed (z_run z inputs k) <= S j /\
    (S j < length inputs -> l_returned_early (z_run z inputs k) = true).
  Proof. intros Hn Hd Hf Hle. exact (z_loop_bounded_pull z inputs (z_init z) k 0 j m i0 Hn Hd Hf Hle). Qed.

  (* stages that return on a failed send (plugins, sort, filter: `?` / `return Err`): the iteration of the first failed
     send is the last one, nothing more is pulled *)
  Theorem C13_abort_stage_pull_after_loss (g : @stage msg St) inputs k :
    (forall b s pd, on_err g b s pd = RAbort) ->
    match l_first_fail (loss_run g inputs k) with
    | None => l_consumed (loss_run g inputs k) = length inputs /\ l_returned_early (loss_run g inputs k) = false
    | Some i0 =>
      (i0 < length inputs /\ l_consumed (loss_run g inputs k) = S i0 /\ l_returned_early (loss_run g inputs k) = true) \/
      (i0 = length inputs /\ l_consumed (loss_run g inputs k) = i0 /\ l_returned_early (loss_run g inputs k) = false)
    end.
  Proof.
    intros Hab. pose proof (loss_abort g Hab inputs (init g) k 0) as H. cbv zeta in H. unfold loss_run.
    destruct (l_first_fail (loss_loop g (init g) inputs k 0 None)) as [i0|].
    - destruct H as [[H1 H2]|H]; [left; split; [apply H1|exact H2]|right; exact H].
    - exact H.
  Qed.

  (* the site model is a stage of the pipeline model (all pipeline theorems above apply to it) with the same behaviour,
     provided the bottom decision does not look at the queue -- as coded: `if !buffered_lcs.is_empty()` *)
  Theorem C13_site_model_is_pipeline_stage (z : @sstage msg St) inputs k :
    bottom_ignores_queue z -> loss_run (kahn_of z) inputs k = z_run z inputs k.
  Proof. intros Hc. exact (kahn_of_refines z Hc inputs (z_init z) false k 0 None). Qed.
End LossStatements.

(* the miniature lifecycle loop: its bottom ignores the queue; the variant with the bottom guard "nothing directly while
   something is queued" forwards exactly the same while the outflow works, returns just as promptly when the direct
   forward fails, but after a failed DRAIN send pulls the complete rest of the input, however long (the behaviour class
   of seeded change C13-3); the loop as coded returns at the next message *)
Lemma C13_inst_lc_bottom k r : bottom_ignores_queue (z_lc k r).
Proof. exact (z_lc_ignores_queue k r). Qed.
Theorem C13_guarded_bottom_same_while_outflow_works k r inputs :
  z_out (z_lc_guarded k r) (z_init (z_lc_guarded k r)) inputs = z_out (z_lc k r) (z_init (z_lc k r)) inputs.
Proof. apply z_lc_guarded_invariant. discriminate. Qed.
Theorem C13_guarded_bottom_pulls_everything k r t q b :
  q <> [] -> Forall (fun m => (m mod k =? 0)%N = false) t ->
  gone_pull (z_lc_guarded k r) (q, b) t = length t /\ gone_exits (z_lc_guarded k r) (q, b) t = false.
Proof. exact (z_lc_guarded_pulls_everything k r t q b). Qed.
Theorem C13_coded_bottom_returns_at_once k r m t q :
  (m mod k =? 0)%N = false -> (m mod r =? 0)%N = false ->
  gone_pull (z_lc k r) (q, false) (m :: t) = 1%nat /\ gone_exits (z_lc k r) (q, false) (m :: t) = true.
Proof. exact (z_lc_prompt k r m t q). Qed.
(* concrete: 40 messages, confirmation at message 10, the consumer leaves after 3: as coded 10 messages are pulled and the
   producer is told, with the guard all 40 are pulled and the producer is never told *)
Example C13_loss_nonvacuous :
  let inp := map N.of_nat (seq 1 40) in
  (l_consumed (z_run (z_lc 10 1000) inp 3), l_returned_early (z_run (z_lc 10 1000) inp 3),
   l_first_fail (z_run (z_lc 10 1000) inp 3)) = (10%nat, true, Some 9%nat) /\
  (l_consumed (z_run (z_lc_guarded 10 1000) inp 3), l_returned_early (z_run (z_lc_guarded 10 1000) inp 3)) = (40%nat, false) /\
  loss_run (kahn_of (z_lc 10 1000)) inp 3 = z_run (z_lc 10 1000) inp 3.
Proof. cbv zeta. repeat split; vm_compute; reflexivity. Qed.

(* ---------------------------------------------------------------------------------------------------------------
   A stage that reads, out of band, state published by the stage in front of it (Pipe/Shared.v): the lifecycle table
   (evmap) written by lifecycle detection and read by the time sort, the export plugin with lifecyclesToKeep, remote
   clients -- when they GET a message.  The writer's run is a sequence of events [EPub t] (the readers' view becomes t)
   and [ESend m]; the reader takes m from a FIFO of capacity cap (0 = rendezvous) at an arbitrary later moment and reads
   [look cur m] in the view current at that moment; [sstep] = any interleaving. *)
Section SharedStatements.
  Context {msg tbl V : Type} (look : tbl -> msg -> V) (val : msg -> V).

  (* side condition = C06's clause "a lifecycle is published before any message carrying it is sent" (and it stays so:
     C06_visible_monotone): from the moment m is handed to the outflow every view answers m's look-up with [val m].
     Then, for every capacity and every interleaving, every complete execution has looked every message up, in order,
     with the same result: the composition is schedule independent although it is not a Kahn network *)
  Theorem C13_lookups_schedule_independent cap t0 (evs : list (@ev msg tbl)) (s' : @sst msg tbl V) :
    published_before_sent look val t0 evs ->
    ssteps look cap (sinit t0 evs) s' -> sdone s' ->
    seen s' = map (fun m => (m, val m)) (sends evs).
  Proof. exact (lookups_schedule_independent look val cap t0 evs s'). Qed.

  (* ... and the reader stage then IS the Kahn stage that uses [val m]: the pipeline theorems above apply to it *)
  Theorem C13_reader_is_kahn_stage {St} (rstep : V -> St -> msg -> St * list msg) rflush rerr
      cap t0 (evs : list (@ev msg tbl)) (s' : @sst msg tbl V) s0 :
    published_before_sent look val t0 evs ->
    ssteps look cap (sinit t0 evs) s' -> sdone s' ->
    reader_fold rstep rflush s0 (seen s') = run (reader_stage val rstep rflush rerr s0) s0 (sends evs).
  Proof. exact (reader_is_kahn_stage look val rstep rflush rerr cap t0 evs s' s0). Qed.

  (* the side condition is needed: a message handed over before the view that answers its look-up is published is seen
     with the old answer through a rendezvous channel and with the new one through a channel of capacity 1 (the behaviour
     class of seeded change C13-4: older buffered lifecycles published only after the final flush) *)
  Theorem C13_unpublished_send_schedule_dependent t0 t1 (m : msg) :
    look t0 m <> look t1 m ->
    exists s1 s2 : @sst msg tbl V,
      ssteps look 0 (sinit t0 [ESend m; EPub t1]) s1 /\ sdone s1 /\
      ssteps look 1 (sinit t0 [ESend m; EPub t1]) s2 /\ sdone s2 /\
      seen s1 <> seen s2.
  Proof. exact (unpublished_send_schedule_dependent look t0 t1 m). Qed.

  (* the interleaving interpreter used by the correspondence check computes executions of [sstep] *)
  Theorem C13_shared_exec_sound cap fuel sched (s : @sst msg tbl V) : ssteps look cap s (srun look fuel cap sched s).
  Proof. exact (srun_sound look cap fuel sched s). Qed.
End SharedStatements.

(* non-vacuity: two lifecycles published before their messages, a third view at the end; through capacity 0 and 2 with
   different interleavings the reader sees the same *)
Example C13_shared_nonvacuous :
  let look := fun (t : list nat) (m : nat) => existsb (Nat.eqb m) t in
  let evs := [EPub [1]; ESend 1; ESend 1; EPub [1; 2]; ESend 2; ESend 1; EPub [1; 2; 3]]%nat in
  published_before_sent look (fun _ => true) [] evs /\
  seen (srun look 30 0 [0; 1; 1; 0]%nat (sinit [] evs)) = seen (srun look 30 2 [0; 0; 0; 1; 0; 0; 1]%nat (sinit [] evs)) /\
  map snd (seen (srun look 30 0 [] (sinit [] evs))) = [true; true; true; true].
Proof. cbv zeta. split; [|split; vm_compute; reflexivity]. cbn. repeat split; repeat constructor. Qed.

(* ---------------------------------------------------------------------------------------------------------------
   The consumer end as remote.rs wires it (process_file_context, Pipe/Consumer.v): ticks at arbitrary moments; a tick takes
   k >= 0 messages out of the final channel and then copies the current view of the lifecycle table to the client.  The
   lifecycle stage publishes its final table AFTER its last message. *)
Section ConsumerStatements.
  Context {msg tbl : Type}.

  (* as coded (the table is looked at in every tick): for every interleaving of the writer's events and the ticks, any tick
     after the writer's last event leaves the client with the final table -- "the same final lifecycle table for every
     pacing of producer and consumer" at the client *)
  Theorem C13_consumer_ends_with_final_table t0 (evs : list (@ev msg tbl)) (s s' : @cst msg tbl) :
    csteps true (cinit t0 evs) s -> c_todo s = [] -> cstep true s s' ->
    c_view s' = final_of t0 evs /\ c_todo s' = [].
  Proof. exact (consumer_ends_with_final_table t0 evs s s'). Qed.

  (* ... and it stays so, whatever happens afterwards *)
  Theorem C13_consumer_final_table_stays t0 (evs : list (@ev msg tbl)) (s s' : @cst msg tbl) :
    csteps true s s' -> c_todo s = [] -> c_cur s = final_of t0 evs -> c_view s = final_of t0 evs ->
    c_view s' = final_of t0 evs.
  Proof. exact (view_stays t0 evs s s'). Qed.

  (* refuted variant (the behaviour class of seeded change C13-5): a consumer that looks at the table only in ticks that
     received messages has a schedule -- the tick that takes the last message runs before the writer's last publication --
     after which the client holds a stale table for ever, however often the consumer ticks *)
  Theorem C13_guarded_consumer_can_stay_stale t0 t1 (m : msg) :
    t0 <> t1 ->
    exists s : @cst msg tbl,
      csteps false (cinit t0 [ESend m; EPub t1]) s /\ c_todo s = [] /\ c_chan s = [] /\ c_got s = [m] /\
      forall s', csteps false s s' -> c_view s' = t0 /\ c_view s' <> final_of t0 [ESend m; EPub t1].
  Proof. exact (guarded_consumer_can_stay_stale t0 t1 m). Qed.

  (* the interpreter used by the correspondence check computes executions of [cstep] *)
  Theorem C13_consumer_exec_sound always sched (s : @cst msg tbl) : csteps always s (crun always sched s).
  Proof. exact (crun_sound always sched s). Qed.
End ConsumerStatements.

(* ---------------------------------------------------------------------------------------------------------------
   The INCREMENTAL protocol by which a consumer follows the lifecycle table (remote.rs process_file_context; Pipe/Incr.v):
   entries carry the refresh index they were published under; the consumer takes over the entries whose index is larger than
   the largest it has seen.  Writer events: [IRefresh i ups] (one `refresh()`: the entries [ups] become visible, stamped i),
   [IDel id] (`empty`: a published lifecycle merged away), [ISend m].  [istep cap] = any interleaving of the writer's events
   with the consumer's receives and its looks at the table, through a channel of capacity [cap] (0 = rendezvous).
   [fresh 0 evs]: every refresh publishes under an index strictly larger than every refresh before it (and than 0, the
   consumer's initial value) -- what `last_lcw_refresh_index += 1` after EVERY `lcs_w.refresh()` establishes. *)
Section IncrStatements.
  Context {msg info : Type}.

  (* the invariant the protocol relies on, for every reachable state of every interleaving: any refresh still to come
     carries an index strictly greater than the consumer's last index and than every index visible in the table now *)
  Theorem C13_refresh_index_fresh cap (evs : list (@iev msg info)) (s : @ist msg info) i ups :
    fresh 0 evs -> isteps cap (iinit evs) s -> In (IRefresh i ups) (i_todo s) ->
    (i_last s < i)%N /\ forall e, In e (i_cur s) -> (e_idx e < i)%N.
  Proof. exact (refresh_index_fresh cap evs s i ups). Qed.

  (* ... and from it: for every capacity and EVERY interleaving of looks, once the writer is done the next look leaves the
     consumer with the final table -- every lifecycle of the final table with exactly its final entry, nothing else except
     lifecycles the writer removed -- and it stays so ("the same final lifecycle table for every pacing", at a follower) *)
  Theorem C13_incremental_consumer_final_table cap (evs : list (@iev msg info)) (s s' : @ist msg info) :
    fresh 0 evs -> isteps cap (iinit evs) s -> i_todo s = [] -> isteps cap (ipoll s) s' ->
    (forall id e, lookup id (final_view [] evs) = Some e -> lookup id (i_tbl s') = Some e) /\
    (forall id, lookup id (final_view [] evs) = None -> lookup id (i_tbl s') = None \/ In id (dels_of evs)).
  Proof. exact (incremental_consumer_final_table cap evs s s'). Qed.

  (* the complement of the recorded finding below: a writer that never removes a published lifecycle *)
  Theorem C13_incremental_consumer_final_table_no_removals cap (evs : list (@iev msg info)) (s s' : @ist msg info) :
    fresh 0 evs -> dels_of evs = [] -> isteps cap (iinit evs) s -> i_todo s = [] -> isteps cap (ipoll s) s' ->
    forall id, lookup id (i_tbl s') = lookup id (final_view [] evs).
  Proof. exact (incremental_consumer_final_table_no_removals cap evs s s'). Qed.

  (* refuted variant (the behaviour class of seeded change C13-6): two refreshes under ONE index with a send in between (two
     lifecycles confirmed by one buffer check).  For every capacity there is an interleaving -- the consumer looks in between
     -- after which the second lifecycle is missing at the consumer for ever, and one -- it looks only afterwards -- with
     the complete table: the follower's final table depends on the pacing *)
  Theorem C13_shared_refresh_index_consumer_stays_stale cap k a b (ia ib : info) (m : msg) :
    (0 < k)%N -> a <> b ->
    let evs := [IRefresh k [(a, ia)]; ISend m; IRefresh k [(b, ib)]] in
    lookup b (final_view [] evs) = Some (stamp k (b, ib)) /\
    (exists s : @ist msg info, isteps cap (iinit evs) s /\ i_todo s = [] /\ i_chan s = [] /\ i_got s = [m] /\
       forall s', isteps cap s s' -> lookup b (i_tbl s') = None) /\
    (exists s : @ist msg info, isteps cap (iinit evs) s /\ i_todo s = [] /\ i_chan s = [] /\ i_got s = [m] /\
       forall id, lookup id (i_tbl (ipoll s)) = lookup id (final_view [] evs)).
  Proof. exact (shared_index_consumer_stays_stale cap k a b ia ib m). Qed.

  (* recorded finding (class follower_keeps_removed_lifecycle): the freshness invariant holds, a published lifecycle is
     removed again; a consumer that looked while it was visible keeps it for ever, the final table does not have it *)
  Theorem C13_removed_lifecycle_follower_refuted cap i a (ia : info) :
    (0 < i)%N ->
    let evs := [IRefresh i [(a, ia)]; IDel a] : list (@iev msg info) in
    fresh 0 evs /\ lookup a (final_view [] evs) = None /\
    exists s : @ist msg info, isteps cap (iinit evs) s /\ i_todo s = [] /\
      forall s', isteps cap s s' -> lookup a (i_tbl s') = Some (stamp i (a, ia)).
  Proof. exact (removed_entry_consumer_keeps_it cap i a ia). Qed.

  (* the boolean evaluated on the observed publication sequence of the real stage decides the invariant; the interpreters
     of the correspondence check compute executions of [istep] *)
  Theorem C13_incr_fresh_decided (evs : list (@iev msg info)) top : fresh_b top evs = true <-> fresh top evs.
  Proof. exact (fresh_b_spec evs top). Qed.
  Theorem C13_incr_exec_sound cap sched fuel pat (s : @ist msg info) :
    isteps cap s (irun cap sched s) /\ isteps cap s (ifinish fuel cap s) /\ isteps cap s (iscript fuel cap pat s).
  Proof. split; [apply irun_sound|split; [apply ifinish_sound|apply iscript_sound]]. Qed.
End IncrStatements.

(* non-vacuity: lifecycles 1 and 2 confirmed by one buffer check (indices 1 and 2, the messages of lifecycle 1 sent in
   between), a third lifecycle published at the end of the stream (3) and again by the final refresh (4).  The invariant
   holds; the follower behind a rendezvous channel that looks after every message and the one behind a channel of capacity
   2 under another interleaving both end with the final table.  With index 1 used twice the first one misses lifecycle 2. *)
Example C13_incr_nonvacuous :
  let evs (k : N) := [IRefresh 1 [(1, 5)]; ISend 0; ISend 1; IRefresh k [(2, 5)]; ISend 2; IRefresh 3 [(3, 1)]; ISend 3;
                      IRefresh 4 [(3, 1)]]%N in
  let fast k := ipoll (iscript 20 0 [true; true; true; true] (iinit (evs k))) in
  let other k := ipoll (ifinish 20 2 (irun 2 [0; 0; 1; 0; 0; 2; 0; 1; 1]%nat (iinit (evs k)))) in
  fresh 0 (evs 2%N) /\ dels_of (evs 2%N) = [] /\
  i_tbl (fast 2%N) = final_view [] (evs 2%N) /\ i_tbl (other 2%N) = final_view [] (evs 2%N) /\ i_got (fast 2%N) = [0; 1; 2; 3]%N /\
  ~ fresh 0 (evs 1%N) /\ lookup 2%N (i_tbl (fast 1%N)) = None /\ lookup 2%N (final_view [] (evs 1%N)) <> None /\
  i_tbl (other 1%N) = final_view [] (evs 1%N).
Proof.
  cbv zeta. split; [cbn; repeat split; reflexivity|]. split; [reflexivity|].
  split; [vm_compute; reflexivity|]. split; [vm_compute; reflexivity|]. split; [vm_compute; reflexivity|].
  split; [cbn; intros [_ [H _]]; revert H; apply N.lt_irrefl|]. split; [vm_compute; reflexivity|].
  split; [vm_compute; discriminate|vm_compute; reflexivity].
Qed.

(* ---------------------------------------------------------------------------------------------------------------
   The plugins stage (Pipe/Plugins.v = plugins/mod.rs plugins_process_msgs): [plugin] = process_msg as a function
   (own state, message) -> (own state, rewritten message, verdict); [chain] = the loop over the plugins of one message
   (`break` at the first plugin that returns false); [st_plugins ps inits] = the stage; [verdicts ps inits l] = per message
   of l the message as it left the chain and whether it is forwarded; [kept] = the forwarded ones; [accepted] = the
   verdicts alone; [select bs l] = the elements of l whose flag is true. *)
Section PluginStatements.
  Context {msg P K : Type}.

  (* a pipeline that contains the plugins stage anywhere, on ANY capacity vector (0 included) under ANY schedule: what
     reaches the stages behind it is the stage's input minus exactly the messages a plugin rejected, in order (for a key
     no plugin touches, e.g. msg.index, literally a selection of the input), and nothing else is lost *)
  Theorem C13_plugins_stage_forwards_exactly_unrejected (key : msg -> K) s0 input cap0
          (pre post : list (@stage msg (list P) * nat)) (ps : list (@plugin msg P)) inits c (p' : @pipe msg (list P)) :
    Forall (keeps_key key) ps ->
    psteps false (init_pipe s0 input cap0 (pre ++ (st_plugins ps inits, c) :: post)) p' -> all_done p' = true ->
    let l := compose (map fst pre) input in
    let out := kept (verdicts ps inits l) in
    delivered p' = compose (map fst post) out /\
    map key out = map key (select (accepted ps inits l) l) /\
    length (accepted ps inits l) = length l.
  Proof.
    intros Hk Hs Hd. cbv zeta. split; [exact (plugins_stage_in_pipeline s0 input cap0 pre post ps inits c p' Hs Hd)|].
    split; [apply kept_is_selection; exact Hk|apply accepted_length].
  Qed.

  (* the stage's result (the plugins it returns) is the sequential one as well *)
  Theorem C13_plugins_stage_final_plugin_states (ps : list (@plugin msg P)) inits l :
    F (st_plugins ps inits) l = kept (verdicts ps inits l) /\
    fst (run (st_plugins ps inits) (init (st_plugins ps inits)) l) = plugin_states ps inits l.
  Proof. split; [apply plugins_F|apply plugins_final_states]. Qed.

  (* `break`: when the plugins in front of p have all accepted the message and p rejects it, the plugins behind p keep
     their state (they do not see the message), the ones in front have processed it, and the message is not forwarded *)
  Theorem C13_plugins_behind_a_rejecting_one_do_not_see_the_message (ps1 ps2 : list (@plugin msg P)) p ss1 ss1' s ss2 m m1 :
    length ps1 = length ss1 -> chain ps1 ss1 m = (ss1', m1, true) -> snd (p s m1) = false ->
    chain (ps1 ++ p :: ps2) (ss1 ++ s :: ss2) m = (ss1' ++ fst (fst (p s m1)) :: ss2, snd (fst (p s m1)), false).
  Proof. exact (chain_reject_rest_untouched ps1 ps2 p ss1 ss1' s ss2 m m1). Qed.

  (* refuted variant (the behaviour class of seeded change C13-7): the verdict flag declared in front of the outer loop.
     For every capacity and every schedule the stage delivers the input only up to the first rejected message: every
     message behind it is lost, silently (all threads return) *)
  Theorem C13_sticky_verdict_stage_loses_the_rest s0 input cap0 (ps : list (@plugin msg P)) inits c (p' : @pipe msg (bool * list P)) :
    psteps false (init_pipe s0 input cap0 [(st_plugins_sticky ps inits, c)]) p' -> all_done p' = true ->
    delivered p' = map fst (take_while snd (verdicts ps inits input)).
  Proof. exact (sticky_stage_in_pipeline s0 input cap0 ps inits c p'). Qed.
End PluginStatements.

(* non-vacuity: three scripted plugins (the first rejects messages 3 and 4, the second 4 and 7, the third nothing) on the
   input 0..9 behind a rendezvous channel, in front of a channel of capacity 1: a complete execution exists, it delivers
   0 1 2 5 6 8 9, the plugins have seen 10, 8 and 7 messages; the sticky variant delivers 0 1 2 *)
Example C13_plugins_nonvacuous :
  let inp := [0; 1; 2; 3; 4; 5; 6; 7; 8; 9]%N in
  let rejs := [[3; 4]; [4; 7]; []]%N in
  Forall (keeps_key (fun m : N => m)) (map rej_plugin rejs) /\
  (exists p', psteps false (init_pipe [] inp 0 [(rej_chain rejs, 1%nat)]) p' /\ all_done p' = true /\
              delivered p' = [0; 1; 2; 5; 6; 8; 9]%N /\ final_states p' = [[]; [10; 8; 7]%N]) /\
  select (accepted (map rej_plugin rejs) [0; 0; 0]%N inp) inp = [0; 1; 2; 5; 6; 8; 9]%N /\
  (exists p', psteps false (init_pipe (true, []) inp 0 [(rej_chain_sticky rejs, 1%nat)]) p' /\ all_done p' = true /\
              delivered p' = [0; 1; 2]%N).
Proof.
  cbv zeta. split; [repeat constructor|]. split.
  - destruct (pipeline_reaches_done (init_pipe [] [0; 1; 2; 3; 4; 5; 6; 7; 8; 9]%N 0 [(rej_chain [[3; 4]; [4; 7]; []]%N, 1%nat)]))
      as [p' [Hs Hd]].
    exists p'. split; [exact Hs|]. split; [exact Hd|].
    destruct (pipeline_deterministic _ _ _ _ _ Hs Hd) as [H1 [H2 _]]. rewrite H1, H2. split; vm_compute; reflexivity.
  - split; [vm_compute; reflexivity|].
    destruct (pipeline_reaches_done (init_pipe (true, []) [0; 1; 2; 3; 4; 5; 6; 7; 8; 9]%N 0 [(rej_chain_sticky [[3; 4]; [4; 7]; []]%N, 1%nat)]))
      as [p' [Hs Hd]].
    exists p'. split; [exact Hs|]. split; [exact Hd|].
    destruct (pipeline_deterministic _ _ _ _ _ Hs Hd) as [H1 _]. rewrite H1. vm_compute. reflexivity.
Qed.

(* instances: the miniature sort is a permutation stage, the filter and the pass-through are congruent *)
Lemma C13_inst_sort w : perm_stage (st_sort w).
Proof. exact (st_sort_perm_stage w). Qed.
(* ... for every outcome [key] of its reads of the lifecycle table: two timings = two keys *)
Lemma C13_inst_sort_any_reads key w : perm_stage (st_sort_key key w).
Proof. exact (st_sort_key_perm_stage key w). Qed.
Theorem C13_sorted_instance_permutation key1 key2 w k input :
  Permutation (compose [st_lc 4; st_id; st_sort_key key1 w; st_drop k] input)
              (compose [st_lc 4; st_id; st_sort_key key2 w; st_drop k] input).
Proof.
  apply (C13_sorted_pipeline_permutation [st_lc 4; st_id] [st_drop k]).
  - apply st_sort_key_perm_stage.
  - apply st_sort_key_perm_stage.
  - constructor; [apply st_drop_congruent|constructor].
Qed.
Lemma C13_inst_filter k : perm_congruent (st_drop k).
Proof. exact (st_drop_congruent k). Qed.

(* non-vacuity: a 4-stage pipeline (lifecycle-like buffering, pass-through, sort, filter) on rendezvous and
   small channels has executions reaching the end under two different schedules, one of them with the
   consumer leaving after 3 messages; the hypotheses of the theorems above hold for them *)
Example C13_nonvacuous :
  let gs := [(st_lc 4, 0%nat); (st_id, 1%nat); (st_sort 3, 2%nat); (st_drop 5, 0%nat)] in
  let inp := [1; 2; 3; 4; 7; 6; 5; 8; 9; 12; 10; 11; 13]%N in
  let p0 := init_pipe [] inp 0 gs in
  (exists p', psteps false p0 p' /\ all_done p' = true /\
              delivered p' = [1; 2; 3; 4; 6; 7; 8; 9; 11; 12; 13]%N /\ compose (map fst gs) inp = delivered p') /\
  (exists p', psteps true p0 p' /\ all_done p' = true /\ delivered p' = [1; 2; 3]%N).
Proof.
  cbv zeta. split.
  - destruct (pipeline_reaches_done
                (init_pipe [] [1; 2; 3; 4; 7; 6; 5; 8; 9; 12; 10; 11; 13]%N 0
                   [(st_lc 4, 0%nat); (st_id, 1%nat); (st_sort 3, 2%nat); (st_drop 5, 0%nat)])) as [p' [Hs Hd]].
    exists p'. split; [exact Hs|]. split; [exact Hd|].
    destruct (pipeline_deterministic _ _ _ _ _ Hs Hd) as [H1 _]. rewrite H1. split; vm_compute; reflexivity.
  - remember (exec 2000 (Some 3%nat) [] [7; 2; 5]%nat
                (init_pipe [] [1; 2; 3; 4; 7; 6; 5; 8; 9; 12; 10; 11; 13]%N 0
                   [(st_lc 4, 0%nat); (st_id, 1%nat); (st_sort 3, 2%nat); (st_drop 5, 0%nat)])) as r eqn:Er.
    destruct r as [p' b]. symmetry in Er. destruct (C13_exec_sound _ _ _ _ _ _ _ Er) as [Hs Hd].
    exists p'. split; [exact Hs|].
    assert (Eb : b = true) by (apply (f_equal snd) in Er; vm_compute in Er; congruence).
    split; [exact (Hd Eb)|]. apply (f_equal (fun x => delivered (fst x))) in Er. vm_compute in Er. symmetry. exact Er.
Qed.

Print Assumptions C13_pipeline_deterministic.
Print Assumptions C13_pipeline_deterministic_maximal.
Print Assumptions C13_capacity_independent.
Print Assumptions C13_delivered_prefix_always.
Print Assumptions C13_channels_bounded.
Print Assumptions C13_helper_faithful.
Print Assumptions C13_pipeline_terminates.
Print Assumptions C13_drop_consumer_terminates.
Print Assumptions C13_exec_sound.
Print Assumptions C13_sorted_pipeline_permutation.
Print Assumptions C13_inst_sort.
Print Assumptions C13_inst_filter.
Print Assumptions C13_inst_sort_any_reads.
Print Assumptions C13_sorted_instance_permutation.
Print Assumptions C13_nonvacuous.
Print Assumptions C13_loss_delivered_prefix.
Print Assumptions C13_lc_pull_after_loss.
Print Assumptions C13_lc_bounded_pull.
Print Assumptions C13_abort_stage_pull_after_loss.
Print Assumptions C13_site_model_is_pipeline_stage.
Print Assumptions C13_inst_lc_bottom.
Print Assumptions C13_guarded_bottom_same_while_outflow_works.
Print Assumptions C13_guarded_bottom_pulls_everything.
Print Assumptions C13_coded_bottom_returns_at_once.
Print Assumptions C13_loss_nonvacuous.
Print Assumptions C13_lookups_schedule_independent.
Print Assumptions C13_reader_is_kahn_stage.
Print Assumptions C13_unpublished_send_schedule_dependent.
Print Assumptions C13_shared_exec_sound.
Print Assumptions C13_shared_nonvacuous.
Print Assumptions C13_consumer_ends_with_final_table.
Print Assumptions C13_consumer_final_table_stays.
Print Assumptions C13_guarded_consumer_can_stay_stale.
Print Assumptions C13_consumer_exec_sound.
Print Assumptions C13_refresh_index_fresh.
Print Assumptions C13_incremental_consumer_final_table.
Print Assumptions C13_incremental_consumer_final_table_no_removals.
Print Assumptions C13_shared_refresh_index_consumer_stays_stale.
Print Assumptions C13_removed_lifecycle_follower_refuted.
Print Assumptions C13_incr_fresh_decided.
Print Assumptions C13_incr_exec_sound.
Print Assumptions C13_incr_nonvacuous.
Print Assumptions C13_plugins_stage_forwards_exactly_unrejected.
Print Assumptions C13_plugins_stage_final_plugin_states.
Print Assumptions C13_plugins_behind_a_rejecting_one_do_not_see_the_message.
Print Assumptions C13_sticky_verdict_stage_loses_the_rest.
Print Assumptions C13_plugins_nonvacuous.
