(* C08 shares the lifecycle entry points *)
From AdltV Require Export Base.Obs Exec.Lifecycle.
Definition case_C08 := case_LC.
Definition agree_C08 := agree_LC.
Definition run_C08 := run_LC.
