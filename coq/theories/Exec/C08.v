(* C08: lifecycle entry points, comparing the observables this property is about *)
From Coq Require Import NArith.
From AdltV Require Export Base.Obs Exec.Lifecycle.
Definition case_C08 := case_LC.
Definition agree_C08 := agree_LC_mode 8%N.
Definition run_C08 := run_LC.
