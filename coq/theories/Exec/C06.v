(* C06 shares the lifecycle entry points *)
From AdltV Require Export Base.Obs Exec.Lifecycle.
Definition case_C06 := case_LC.
Definition agree_C06 := agree_LC.
Definition run_C06 := run_LC.
