(* C06: lifecycle entry points, comparing the observables this property is about *)
From Coq Require Import NArith.
From AdltV Require Export Base.Obs Exec.Lifecycle.
Definition case_C06 := case_LC.
Definition agree_C06 := agree_LC_mode 6%N.
Definition run_C06 := run_LC.
