(* Executable entry points for the C17 correspondence shards. *)
From Coq Require Import List NArith Bool.
From AdltV Require Import Base.Obs Base.Res Base.MachInt FileTransfer.Ft.
Import ListNotations.
Open Scope N_scope.

(* compact message bodies: the standard layouts of the three transfer messages (expanded to the
   decoded argument lists exactly as the harness' encoder + the real argument iterator produce them)
   and the general form with explicit decoded arguments *)
Inductive body :=
| BFlst (be : bool) (sty : N) (serial : N) (name : list N) (size nr bs : N)
| BFlda (be : bool) (sty sty2 : N) (serial pnr : N) (raw_ti : N) (payload : list N)
| BFldaPat (be : bool) (sty sty2 : N) (serial pnr : N) (raw_ti : N) (a b len : N)
      (* payload described structurally: byte i is (a + b * i) mod 256 *)
| BFlfi (be : bool) (sty : N) (serial : N)
| BArgs (args : list (N * bool * list N)).

(* ecu, lifecycle, extended header (apid, ctid, verb_mstp_mtin, noar), body *)
Definition cmsg := (N * N * option (N * N * N * N) * body)%type.
(* enabled, allowSave, keepFLDA, apid, ctid, autoSavePath, autoSaveGlob as the list of matching names,
   files existing in the auto-save directory before the run (base name, content) *)
Definition ccfg := (bool * bool * bool * option N * option N * option (list N) * option (list (list N)) *
                    list (list N * list N))%type.
(* the file-system state the save paths run in, and the manual saves done after the log:
   directories (full paths: exist, cannot be created as files), further files existing before the run (full path,
   content), save commands (transfer number, saveAs path, file-system oracle "File::create + write succeed there") *)
Definition sx := (list (list N) * list (list N * list N) * list (N * list N * bool))%type.
Definition case_C17 := (ccfg * list cmsg * sx)%type.

(* integer argument styles: 0..3 = UINT 8/16/32/64 bit, 4..7 = SINT 8/16/32/64 bit; the value is truncated *)
Definition sty_bytes (sty : N) : nat :=
  match sty mod 4 with 0 => 1%nat | 1 => 2%nat | 2 => 4%nat | _ => 8%nat end.
Fixpoint le_bytes (n : nat) (v : N) : list N :=
  match n with O => [] | S k => (v mod 256) :: le_bytes k (v / 256) end.
Definition enc_int (be : bool) (sty v : N) : arg :=
  let n := sty_bytes sty in
  let tyle := (sty mod 4) + 1 in
  let ti := (if sty mod 8 <? 4 then TI_UINT else TI_SINT) + tyle in
  let b := le_bytes n v in
  mkArg ti be (if be then rev b else b).
Definition enc_str (be : bool) (s : list N) : arg := mkArg TI_STRG be (s ++ [0]).

Fixpoint pat (a b : N) (len : nat) : list N :=
  match len with O => [] | S k => (a mod 256) :: pat ((a + b) mod 256) b k end.

Definition expand_body (b : body) : list arg :=
  match b with
  | BFlst be sty serial name size nr bs =>
      [enc_str be TAG_FLST; enc_int be sty serial; enc_str be name; enc_int be sty size; enc_str be [68];
       enc_int be sty nr; enc_int be sty bs; enc_str be TAG_FLST]
  | BFlda be sty sty2 serial pnr raw_ti payload =>
      [enc_str be TAG_FLDA; enc_int be sty serial; enc_int be sty2 pnr; mkArg raw_ti be payload; enc_str be TAG_FLDA]
  | BFldaPat be sty sty2 serial pnr raw_ti a b len =>
      [enc_str be TAG_FLDA; enc_int be sty serial; enc_int be sty2 pnr; mkArg raw_ti be (pat a b (N.to_nat len)); enc_str be TAG_FLDA]
  | BFlfi be sty serial =>
      [enc_str be TAG_FLFI; enc_int be sty serial; enc_str be TAG_FLFI]
  | BArgs args => map (fun a => mkArg (fst (fst a)) (snd (fst a)) (snd a)) args
  end.

Definition expand_msg (m : cmsg) : msg :=
  let '(ecu, lc, e, b) := m in
  mkMsg ecu lc
    (match e with Some (apid, ctid, vmm, noar) => Some (mkExt apid ctid vmm noar) | None => None end)
    (expand_body b).

Definition glob_of (tbl : list (list N)) (name : list N) : bool := existsb (bytes_eqb name) tbl.

Definition cfg_of (c : ccfg) : cfg :=
  let '(enabled, allow_save, keep_flda, apid, ctid, dir, glob, _) := c in
  mkCfg enabled allow_save keep_flda apid ctid dir (option_map glob_of glob).
Definition pre_of (c : ccfg) : list (list N * list N) :=
  let '(_, _, _, _, _, dir, _, pre) := c in
  map (fun f => (path_join (match dir with Some d => d | None => [DOT; SLASH] end) (fst f), snd f)) pre.

(* ---- observation *)
Definition o_bytes (l : list N) : otree := T (map L l).
(* file contents: literally up to 48 bytes, otherwise length, checksum, first and last 8 bytes
   (the harness' oracle compares the full contents with the original file) *)
Definition cksum (l : list N) : N := fold_left (fun h b => (h * 131 + b + 1) mod 4294967291) l 7.
Definition o_blob (l : list N) : otree :=
  if Nat.leb (length l) 48 then T (map L l)
  else T [L (lenN l); L (cksum l); T (map L (firstn 8 l)); T (map L (skipn (length l - 8) l))].
Definition o_state (s : tstate) : otree :=
  L (match s with MissingStart => 0 | Started => 1 | Complete => 2 | Incomplete => 3 end).

(* what the tree item of a transfer (as published by the last update_state) shows: state; ecu, lifecycle, serial, name, file size (tooltip);
   next/recvd/nr where the label prints them; autoSavedTo; the save command's basename (Complete and
   allowSave); the bytes the save command writes *)
Definition o_transfer (c : cfg) (s : st) (i : nat) (t : transfer) : otree :=
  let '(ecu, lc, serial) := t_key t in
  let st := t_state t in
  let vis_next := match st with Started | Incomplete => t_next t | _ => 0 end in
  let vis_recvd := match st with Started | MissingStart => t_recvd t | _ => 0 end in
  let vis_nr := match st with Started => t_nr t | _ => 0 end in
  T [o_state st; L ecu; L lc; L serial; o_bytes (t_name t); L (t_size t);
     L vis_next; L vis_recvd; L vis_nr;
     oopt o_bytes (t_saved t);
     oopt o_bytes (if tstate_eqb st Complete && c_allow_save c then Some (base_name t) else None);
     oopt o_blob (saved_bytes s i)].

Fixpoint o_transfers (c : cfg) (s : st) (i : nat) (ts : list transfer) : list otree :=
  match ts with [] => [] | t :: r => o_transfer c s i t :: o_transfers c s (S i) r end.

(* files sorted by path *)
Fixpoint bytes_leb (a b : list N) : bool :=
  match a, b with
  | [], _ => true
  | _ :: _, [] => false
  | x :: a', y :: b' => if x <? y then true else if y <? x then false else bytes_leb a' b'
  end.
Fixpoint ins_file (f : list N * list N) (l : list (list N * list N)) : list (list N * list N) :=
  match l with
  | [] => [f]
  | g :: r => if bytes_leb (fst f) (fst g) then f :: l else g :: ins_file f r
  end.
Definition sort_files (l : list (list N * list N)) : list (list N * list N) := fold_right ins_file [] l.

Definition is_dir (dirs : list (list N)) (p : list N) : bool := existsb (bytes_eqb p) dirs.

(* the save commands in order; per command: the result and what the target holds afterwards (nothing for a directory) *)
Fixpoint run_saves (dirs : list (list N)) (s : st) (ops : list (N * list N * bool)) : st * list otree :=
  match ops with
  | [] => (s, [])
  | (i, p, cr) :: r =>
      let '(s1, b) := save_cmd cr s (N.to_nat i) p in
      let after := if is_dir dirs p then None else lookup_path p (s_fs s1) in
      let '(s2, os) := run_saves dirs s1 r in
      (s2, T [ob b; oopt o_blob after] :: os)
  end.

Definition o_run (c : cfg) (x : sx) (r : res (st * list bool)) : otree :=
  let '(dirs, _, ops) := x in
  match r with
  | Ok (s, rets) =>
      let '(s', saves) := run_saves dirs s ops in
      T [L 0; T (map ob rets); L (s_gen s); T (o_transfers c s 0 (s_pub s));
         T (map (fun f => T [o_bytes (fst f); o_blob (snd f)])
              (filter (fun f => negb (is_dir dirs (fst f))) (sort_files (s_fs s'))));
         T saves]
  | Panic _ => T [L 1]
  | OutOfFuel => T [L 2]
  end.

Definition fs0_of (cc : ccfg) (x : sx) : list (list N * list N) :=
  let '(dirs, extra, _) := x in pre_of cc ++ extra ++ map (fun d => (d, [])) dirs.

Definition run_C17 (c : case_C17) : otree :=
  let '(cc, ms, x) := c in
  o_run (cfg_of cc) x (run (cfg_of cc) (init_st (fs0_of cc x)) (map expand_msg ms)).

Definition agree_C17 : case_C17 -> otree -> bool := agree_det run_C17.
