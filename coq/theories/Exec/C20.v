(* Executable entry points for the C20 correspondence shards. *)
From Coq Require Import List NArith ZArith Bool.
From AdltV Require Import Base.Obs Base.Res Base.MachInt.
From AdltV Require Export Archive.Chain.
Import ListNotations.
Open Scope N_scope.

(* shards are parsed in N_scope only: signed offsets are written with their magnitude *)
Definition cur_pos (n : N) : op := Seek (Current (Z.of_N n)).
Definition cur_neg (n : N) : op := Seek (Current (- Z.of_N n)).
Definition end_pos (n : N) : op := Seek (End (Z.of_N n)).
Definition end_neg (n : N) : op := Seek (End (- Z.of_N n)).

Inductive case_C20 :=
| CChain (datas : list (list N)) (ops : list op).

Definition o_bytes (l : list N) : otree := T (map L l).
Definition o_opres (r : opres) : otree :=
  match r with
  | RBytes bs => T [L 0; o_bytes bs]
  | RPos p => T [L 1; L p]
  end.
Definition o_chain (r : res (list opres)) : otree :=
  match r with
  | Ok rs => T [L 0; T (map o_opres rs)]
  | Panic _ => T [L 1]
  | OutOfFuel => T [L 2]
  end.

Definition run_C20 (c : case_C20) : otree :=
  match c with
  | CChain datas ops => o_chain (chain_session datas ops)
  end.
Definition agree_C20 : case_C20 -> otree -> bool := agree_det run_C20.
