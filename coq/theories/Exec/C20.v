(* Executable entry points for the C20 correspondence shards. *)
From Coq Require Import List NArith ZArith Bool.
From AdltV Require Import Base.Obs Base.Res Base.MachInt.
From AdltV Require Export Archive.Chain Archive.Paths.
Import ListNotations.
Open Scope N_scope.

(* shards are parsed in N_scope only: signed offsets are written with their magnitude *)
Definition cur_pos (n : N) : op := Seek (Current (Z.of_N n)).
Definition cur_neg (n : N) : op := Seek (Current (- Z.of_N n)).
Definition end_pos (n : N) : op := Seek (End (Z.of_N n)).
Definition end_neg (n : N) : op := Seek (End (- Z.of_N n)).

Definition mm (name : str) (symlink : bool) (data : list N) : member :=
  {| m_name := name; m_symlink := symlink; m_data := data |}.

(* a member whose data is [count] times the same byte (large payloads are described structurally) *)
Definition mmr (name : str) (symlink : bool) (byte count : N) : member :=
  {| m_name := name; m_symlink := symlink; m_data := repeat byte (N.to_nat count) |}.

(* the target directory of the model runs (the implementation's is a fresh temp dir; everything observed
   is relative to it) *)
Definition T0 : loc := [[116; 109; 112]; [116]].

Inductive case_C20 :=
| CChain (datas : list (list N)) (ops : list op)
  (* extract_to_dir: what the target dir holds before, files_filter, rename_map, members as presented by the zip crate *)
| CExtract (inside : list (loc * node)) (filter : option (list str)) (rn : list (str * str)) (ms : list member)
  (* extract_archives: glob pattern text, file_names() with Pattern::matches, archive stem with Pattern::matches, members *)
  (* reuse: the temp dir of the archive exists already (an earlier call) and holds [inside] *)
| CArchives (reuse : bool) (inside : list (loc * node)) (pattern : str) (entries : list (str * bool)) (stem : str)
            (stem_matches : bool) (ms : list member).

Definition o_bytes (l : list N) : otree := T (map L l).
Definition o_opres (r : opres) : otree :=
  match r with
  | RBytes bs => T [L 0; o_bytes bs]
  | RPos p => T [L 1; L p]
  end.
Definition o_chain (r : res (list opres)) : otree :=
  match r with
  | Ok rs => T [L 0; T (map o_opres rs)]
  | Panic _ => T [L 1]
  | OutOfFuel => T [L 2]
  end.

(* file-system observation: the entries strictly inside T0 (relative), and whether everything else is
   as it was *)
Fixpoint strip (p l : loc) : loc :=
  match p, l with _ :: p', _ :: l' => strip p' l' | _, _ => l end.
Definition o_entry (e : loc * node) : otree :=
  match snd e with
  | D => T [T (map o_bytes (fst e)); L 0; T []]
  | F c => T [T (map o_bytes (fst e)); L 1; o_bytes c]
  end.
Definition tree_of (fs : fsys) : list otree :=
  map (fun e => o_entry (strip T0 (fst e), snd e)) (filter (fun e => strictly_inside T0 (fst e)) fs).
Definition outside_untouched (fs : fsys) : bool :=
  forallb (fun e => strictly_inside T0 (fst e) ||
                    (existsb (loc_eqb (fst e)) (prefixes T0) && match snd e with D => true | F _ => false end)) fs.

(* Ok(list): T [L 0; names; tree; untouched]   Err: T [L 1; T []; tree; untouched]
   extract_archives without a match: T [L 2; T []; T []; L 1] *)
Definition o_outcome (o : outcome) : otree :=
  match o with
  | Done fs rep => T [L 0; T (map o_bytes rep); T (tree_of fs); ob (outside_untouched fs)]
  | Failed fs => T [L 1; T []; T (tree_of fs); ob (outside_untouched fs)]
  end.

Definition run_C20 (c : case_C20) : otree :=
  match c with
  | CChain datas ops => o_chain (chain_session datas ops)
  | CExtract inside filter rn ms => o_outcome (extract_to_dir (init_fs T0 inside) T0 filter rn ms)
  | CArchives reuse inside pattern entries stem sm ms =>
      match extract_archives (init_fs T0 inside) T0 pattern entries stem sm ms with
      | Some (Failed fs) =>
          if reuse then o_outcome (Failed fs)                                (* the reused temp dir keeps what was written *)
          else T [L 1; T []; T []; ob (outside_untouched fs)]                (* a new temp dir is dropped *)
      | Some o => o_outcome o
      | None => T [L 2; T []; T []; L 1]
      end
  end.

(* trees are compared as sets (the implementation's directory listing has no defined order) *)
Definition same_set (a b : list otree) : bool :=
  Nat.eqb (length a) (length b) && forallb (fun x => existsb (otree_eqb x) b) a && forallb (fun x => existsb (otree_eqb x) a) b.
Definition agree_C20 (c : case_C20) (o : otree) : bool :=
  match c with
  | CChain _ _ => otree_eqb (run_C20 c) o
  | _ =>
      match run_C20 c, o with
      | T [k; names; T tree; u], T [k'; names'; T tree'; u'] =>
          otree_eqb k k' && otree_eqb names names' && same_set tree tree' && otree_eqb u u'
      | _, _ => false
      end
  end.
