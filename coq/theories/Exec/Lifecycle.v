(* Executable entry points shared by the C05..C08 correspondence shards. *)
From Coq Require Import List NArith Bool.
From AdltV Require Import Base.Obs Lifecycle.Model.
Import ListNotations.
Open Scope N_scope.

(* (ecu, reception time us, timestamp us, has_timestamp, is_ctrl_request) *)
Definition mspec := (N * N * N * bool * bool)%type.
(* (index base, index stride, (pre, msgs)): message k of a run carries index base + k*stride (the detector's periodic
   refresh is driven by message indices, so strides > 1 reach it with short traces) *)
Definition case_LC := (N * N * (list mspec * list mspec))%type.

Fixpoint mk_msgs (i : N) (l : list mspec) : list msg :=
  match l with
  | [] => []
  | (e, rt, ts, h, c) :: r =>
      {| m_index := i; m_ecu := e; m_rt := rt; m_ts := ts; m_has_ts := h; m_creq := c; m_lc := 0 |} :: mk_msgs (i + 1) r
  end.

Fixpoint mk_msgs_s (i stride : N) (l : list mspec) : list msg :=
  match l with
  | [] => []
  | (e, rt, ts, h, c) :: r =>
      {| m_index := i; m_ecu := e; m_rt := rt; m_ts := ts; m_has_ts := h; m_creq := c; m_lc := 0 |} :: mk_msgs_s (i + stride) stride r
  end.

(* run on `pre`, then a second run on `msgs` starting from the table published by the first *)
Definition detect2s (base stride : N) (c : list mspec * list mspec) : list delivery * table :=
  let '(pre, ms) := c in
  let '(d1, _) := run (init 1 []) (mk_msgs_s base stride pre) in
  let '(t1, _) := finish d1 in
  let '(d2, o1) := run (init (next_id d1) (map snd t1)) (mk_msgs_s base stride ms) in
  let '(t2, o2) := finish d2 in
  (o1 ++ o2, t2).
Definition detect2 (c : list mspec * list mspec) : list delivery * table := detect2s 0 1 c.

Definition published_ok (x : delivery) : bool :=
  match tbl_get (m_lc (fst x)) (snd x) with
  | Some lc => N.eqb (l_ecu lc) (m_ecu (fst x))
  | None => false
  end.

(* insertion sort by lifecycle id, for a canonical table *)
Fixpoint ins_by_id (x : N * lcy) (l : table) : table :=
  match l with
  | [] => [x]
  | y :: r => if fst x <=? fst y then x :: l else y :: ins_by_id x r
  end.
Definition sort_by_id (t : table) : table := fold_right ins_by_id [] t.

Definition o_row (kv : N * lcy) : otree :=
  let lc := snd kv in
  T [L (fst kv); L (l_ecu lc); L (l_nr lc); L (l_start lc); L (if l_nr lc =? 0 then 0 else end_time lc);
     ob (is_resume lc); L (origin_id lc)].

Definition agree_listing (t : table) (o : otree) : bool :=
  otree_eqb o (T [L 0; T (map (fun x => L (l_id x)) (listing (map snd t)))]).

Definition o_deliveries (o : list delivery) : otree :=
  T (map (fun x => T [L (m_index (fst x)); L (m_lc (fst x)); ob (published_ok x)]) o).

Definition run_LC (c : case_LC) : otree :=
  let '(base, stride, pm) := c in
  let '(o, t) := detect2s base stride pm in
  let t' := sort_by_id t in
  T [L 0; o_deliveries o; T (map o_row t');
     T [L 0; T (map (fun x => L (l_id x)) (listing (map snd t')))]].

(* per-property projections of the observation, so that a change that only affects what one property talks about
   does not break the correspondence of the others *)
Definition proj_delivery (keep_pub : bool) (o : otree) : otree :=
  match o with
  | T [i; l; p] => if keep_pub then o else T [i; l]
  | _ => o
  end.
Definition proj_row (mode : N) (o : otree) : otree :=
  match o with
  | T [i; e; n; s; en; r; og] =>
      match mode with
      | 5 | 6 => T [i; e]                      (* C05/C06: which lifecycles exist, of which ECU *)
      | 8 => T [i; e; s; en]                   (* C08: plus start and end *)
      | _ => o                                 (* C07: everything *)
      end
  | _ => o
  end.
Definition proj_obs (mode : N) (o : otree) : otree :=
  match o with
  | T [st; T dl; T tb; ls] =>
      T [st; T (map (proj_delivery (N.eqb mode 6)) dl); T (map (proj_row mode) tb);
         if N.eqb mode 7 then ls else T []]
  | _ => o
  end.

Definition agree_LC_mode (mode : N) (c : case_LC) (obs : otree) : bool :=
  otree_eqb (proj_obs mode obs) (proj_obs mode (run_LC c)).

Definition agree_LC (c : case_LC) (obs : otree) : bool := otree_eqb obs (run_LC c).
