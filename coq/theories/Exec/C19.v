(* Executable entry points for the C19 correspondence shards. *)
From Coq Require Import List NArith Bool.
From AdltV Require Import Base.Obs Base.Res Base.MachInt Plugins.Chain Plugins.Anon.
From AdltV Require Export Plugins.Decoders.   (* the shards name the answer constructors *)
From AdltV Require Import Plugins.MuniicCfg.
From AdltV Require Lifecycle.Model.
Import ListNotations.
Open Scope N_scope.

(* ---------------------------------------------------------------- messages in shard syntax *)
Definition M (idx rt ecu ts htyp mcnt len : N) (ext : option (N * N * N * N)) (payload : list N)
             (text : option (list N)) (lc : N) : msg :=
  {| m_index := idx; m_rtime := rt; m_ecu := ecu; m_ts := ts; m_htyp := htyp; m_mcnt := mcnt; m_len := len;
     m_ext := match ext with
              | Some (v, n, a, c) => Some {| e_vmm := v; e_noar := n; e_apid := a; e_ctid := c |}
              | None => None
              end;
     m_payload := payload; m_text := text; m_lc := lc |}.

Definition o_bytes (l : list N) : otree := T (map L l).
Definition o_msg (m : msg) : otree :=
  T [L (m_index m); L (m_rtime m); L (m_ecu m); L (m_ts m); L (m_htyp m); L (m_mcnt m); L (m_len m);
     match m_ext m with Some e => T [L (e_vmm e); L (e_noar e); L (e_apid e); L (e_ctid e)] | None => T [] end;
     o_bytes (m_payload m);
     match m_text m with Some t => T [o_bytes t] | None => T [] end;
     L (m_lc m)].

Fixpoint nums_of (l : list otree) : option (list N) :=
  match l with
  | [] => Some []
  | L n :: r => match nums_of r with Some ns => Some (n :: ns) | None => None end
  | _ => None
  end.

Definition msg_of_otree (o : otree) : option msg :=
  match o with
  | T [L idx; L rt; L ecu; L ts; L htyp; L mcnt; L len; T ext; T payload; T text; L lc] =>
      match nums_of payload with
      | Some p =>
          let ext' := match ext with
                      | [L v; L n; L a; L c] => Some (Some {| e_vmm := v; e_noar := n; e_apid := a; e_ctid := c |})
                      | [] => Some None
                      | _ => None
                      end in
          let text' := match text with
                       | [T t] => match nums_of t with Some b => Some (Some b) | None => None end
                       | [] => Some None
                       | _ => None
                       end in
          match ext', text' with
          | Some e, Some t =>
              Some {| m_index := idx; m_rtime := rt; m_ecu := ecu; m_ts := ts; m_htyp := htyp; m_mcnt := mcnt;
                      m_len := len; m_ext := e; m_payload := p; m_text := t; m_lc := lc |}
          | _, _ => None
          end
      | None => None
      end
  | _ => None
  end.

Fixpoint msgs_of (l : list otree) : option (list msg) :=
  match l with
  | [] => Some []
  | o :: r => match msg_of_otree o, msgs_of r with Some m, Some ms => Some (m :: ms) | _, _ => None end
  end.

(* ---------------------------------------------------------------- scripted plugins (loop correspondence) *)
(* the harness implements the same plugins in Rust (trait Plugin) and runs them through the real
   plugins_process_msgs; the k-th message a plugin sees triggers action k mod |actions| *)
Inductive action :=
| APass
| ADrop                 (* return false *)
| AStamp                (* append [48 + id; 33 + count mod 90] to payload_text *)
| ASetText (t : N)      (* payload_text = Some [t] *)
| AClearText            (* payload_text = None *)
| ATs (d : N)           (* timestamp_dms = wrapping_add d *)
| AExt                  (* fill a missing extended header *)
| APayload (b : N)      (* payload.push(b)            — outside the frame *)
| AIndex                (* index = wrapping_add 1     — outside the frame *)
| AEcu (e : N)          (* ecu = e                    — outside the frame *)
| ALc (l : N)           (* lifecycle = l              — outside the frame *)
| ARtime (d : N).       (* reception_time_us += d     — outside the frame *)

Definition set_text (m : msg) (t : option (list N)) : msg :=
  {| m_index := m_index m; m_rtime := m_rtime m; m_ecu := m_ecu m; m_ts := m_ts m; m_htyp := m_htyp m;
     m_mcnt := m_mcnt m; m_len := m_len m; m_ext := m_ext m; m_payload := m_payload m; m_text := t; m_lc := m_lc m |}.

Definition script_ext (id : N) : ext_hdr :=
  {| e_vmm := 65; e_noar := id; e_apid := c4 83 67 82 (48 + id); e_ctid := c4 67 84 88 48 |}.

Definition act (id count : N) (a : action) (m : msg) : msg * bool :=
  match a with
  | APass => (m, true)
  | ADrop => (m, false)
  | AStamp => (set_text m (Some (match m_text m with Some t => t | None => [] end ++ [48 + id; 33 + count mod 90])), true)
  | ASetText t => (set_text m (Some [t]), true)
  | AClearText => (set_text m None, true)
  | ATs d => ({| m_index := m_index m; m_rtime := m_rtime m; m_ecu := m_ecu m; m_ts := wrapping_add 32 (m_ts m) d;
                 m_htyp := m_htyp m; m_mcnt := m_mcnt m; m_len := m_len m; m_ext := m_ext m;
                 m_payload := m_payload m; m_text := m_text m; m_lc := m_lc m |}, true)
  | AExt => (with_ids m (m_ecu m) (match m_ext m with Some e => Some e | None => Some (script_ext id) end), true)
  | APayload b => (with_payload m (m_payload m ++ [b]), true)
  | AIndex => ({| m_index := wrapping_add 32 (m_index m) 1; m_rtime := m_rtime m; m_ecu := m_ecu m; m_ts := m_ts m;
                  m_htyp := m_htyp m; m_mcnt := m_mcnt m; m_len := m_len m; m_ext := m_ext m;
                  m_payload := m_payload m; m_text := m_text m; m_lc := m_lc m |}, true)
  | AEcu e => (with_ids m e (m_ext m), true)
  | ALc l => ({| m_index := m_index m; m_rtime := m_rtime m; m_ecu := m_ecu m; m_ts := m_ts m;
                 m_htyp := m_htyp m; m_mcnt := m_mcnt m; m_len := m_len m; m_ext := m_ext m;
                 m_payload := m_payload m; m_text := m_text m; m_lc := l |}, true)
  | ARtime d => ({| m_index := m_index m; m_rtime := wrapping_add 64 (m_rtime m) d; m_ecu := m_ecu m; m_ts := m_ts m;
                    m_htyp := m_htyp m; m_mcnt := m_mcnt m; m_len := m_len m; m_ext := m_ext m;
                    m_payload := m_payload m; m_text := m_text m; m_lc := m_lc m |}, true)
  end.

Definition script_plugin (s : N * list action) : plugin :=
  let '(id, acts) := s in
  {| p_st := N; p_state := 0;
     p_step := fun count m =>
       let a := nth (N.to_nat (count mod N.of_nat (length acts))) acts APass in
       match act id count a m with (m', b) => (count + 1, m', b) end |}.

(* ---------------------------------------------------------------- structured id populations *)
(* message k of the population stream: ids cycle through n_ecu / n_apid / n_ctid values *)
Definition pop_msg (necu napid nctid k : N) : msg :=
  M k (1000000 * k) (1342177280 + k mod necu) k 49 0 0
    (Some (65, 1, 1090519040 + (k / necu) mod napid, 1124073472 + (k / (necu * napid)) mod nctid))
    [] None 0.
Definition pop_stream (necu napid nctid n : N) : list msg :=
  map (fun i => pop_msg necu napid nctid (N.of_nat i)) (seq 0 (N.to_nat n)).

(* ---------------------------------------------------------------- lifecycle detection (model of Lifecycle/Model.v) *)
(* (index, ecu, reception time us, timestamp_dms, has_timestamp, is_ctrl_request) — Plugins/AnonLc.v lc_view *)
Definition lc_spec := (N * N * N * N * bool * bool)%type.
Definition mk_lc_msg (s : lc_spec) : Model.msg :=
  let '(i, e, rt, ts, h, c) := s in
  {| Model.m_index := i; Model.m_ecu := e; Model.m_rt := rt; Model.m_ts := ts * 100; Model.m_has_ts := h;
     Model.m_creq := c; Model.m_lc := 0 |}.

Fixpoint ins_dedupe (x : N) (l : list N) : list N :=
  match l with
  | [] => [x]
  | y :: r => if x <? y then x :: l else if x =? y then l else y :: ins_dedupe x r
  end.
(* lifecycle ids come from a global counter: compared by rank among the ids of the run *)
Definition rank_of (ids : list N) (x : N) : N := N.of_nat (length (filter (fun y => y <? x) ids)).
Fixpoint ins_row (x : N * Model.lcy) (l : list (N * Model.lcy)) : list (N * Model.lcy) :=
  match l with
  | [] => [x]
  | y :: r => if fst x <=? fst y then x :: l else y :: ins_row x r
  end.

(* [with_ecu = false] erases the ECU label: what must coincide between original and anonymised stream *)
Definition o_detect (with_ecu : bool) (ms : list lc_spec) : otree :=
  let '(dl, t) := Model.detect 1 [] (map mk_lc_msg ms) in
  let ids := fold_right ins_dedupe [] (map (fun x => Model.m_lc (fst x)) dl ++ map fst t) in
  T [L 0;
     T (map (fun x => T [L (Model.m_index (fst x)); L (rank_of ids (Model.m_lc (fst x)))]) dl);
     T (map (fun kv => let lc := snd kv in
                       T [L (rank_of ids (fst kv)); L (if with_ecu then Model.l_ecu lc else 0); L (Model.l_nr lc);
                          L (Model.l_start lc); L (if Model.l_nr lc =? 0 then 0 else Model.end_time lc);
                          ob (Model.is_resume lc)])
             (fold_right ins_row [] t))].

Definition erase_ecu (o : otree) : otree :=
  match o with
  | T [st; dl; T rows] =>
      T [st; dl; T (map (fun r => match r with T [i; e; n; s; en; rs] => T [i; L 0; n; s; en; rs] | _ => r end) rows)]
  | _ => o
  end.

(* ---------------------------------------------------------------- wrapper models of the real decoders *)
(* one entry per decoder of the chain: the answers of the abstract decoding, one per message the plugin sees,
   as observed from the real run (harness: Spy plugin around the real plugin) *)
Inductive dspec :=
| DNv (enabled : bool) (answers : list nv_answer)
| DSomeip (answers : list text_answer)
| DCan (answers : list can_answer)
| DMuniic (answers : list text_answer)
| DRewrite (enabled : bool) (answers : list (list rw_action)).

Definition EH (v n a c : N) : ext_hdr := {| e_vmm := v; e_noar := n; e_apid := a; e_ctid := c |}.

(* plugin state = the answers not yet consumed *)
Definition dec_plugin (d : dspec) : plugin :=
  match d with
  | DNv en l => nv_plugin l (fun s _ => tl s) en (fun s _ => hd NvNoFrame s)
  | DSomeip l => someip_plugin l (fun s _ => tl s) (fun s _ => hd TNone s)
  | DCan l => can_plugin l (fun s _ => tl s) (fun s _ => hd (CanErr []) s)
  | DMuniic l => muniic_plugin l (fun s _ => tl s) (fun s _ => hd TNone s)
  | DRewrite en l => rewrite_plugin l (fun s _ => tl s) en (fun s _ => hd [] s)
  end.

(* segments: the stream is the concatenation; message j of a segment (n, (e0, en), (a0, an), (c0, cn), reversed)
   has ecu e0 + j' mod en, apid a0 + (j' / en) mod an, ctid c0 + (j' / (en * an)) mod cn with j' = j or n-1-j:
   describes populations beyond the capacity at every table level, mixtures (1005 ctids under one apid, 3 under
   another) and arrival orders without a literal message list *)
Definition seg := (N * (N * N) * (N * N) * (N * N) * bool)%type.
Definition seg_len (s : seg) : N := let '(n, _, _, _, _) := s in n.
Definition seg_msg (start : N) (s : seg) (j : N) : msg :=
  let '(n, (e0, en), (a0, an), (c0, cn), rv) := s in
  let j' := if rv then n - 1 - j else j in
  M (start + j) (1000000 * (start + j)) (e0 + j' mod en) (start + j) 49 0 0
    (Some (65, 1, a0 + (j' / en) mod an, c0 + (j' / (en * an)) mod cn)) [] None 0.
Fixpoint segs_stream (start : N) (l : list seg) : list msg :=
  match l with
  | [] => []
  | s :: r => map (fun i => seg_msg start s (N.of_nat i)) (seq 0 (N.to_nat (seg_len s))) ++ segs_stream (start + seg_len s) r
  end.

(* ---------------------------------------------------------------- Muniic configuration messages *)
(* per message the plugin sees: answer of the MMSG decoding, Display and Debug rendering of msg.ecu,
   msg.payload_as_text() (None: Err, or not computed because the ctid is neither MDLT nor MMSG) *)
Definition mcfg_info := (text_answer * list N * list N * option (list N))%type.
Definition MI (a : text_answer) (disp dbg : list N) (pt : option (list N)) : mcfg_info := (a, disp, dbg, pt).

(* the Muniic plugin alone in the loop, with the regex of the source (MuniicCfg.cfg_re):
   (delivered, how the loop ended, configuration state at that point) *)
Fixpoint mcfg_run (known : list N -> bool) (st : cfg_st) (l : list (msg * mcfg_info)) : list msg * option N * cfg_st :=
  match l with
  | [] => ([], None, st)
  | (m, (a, disp, dbg, pt)) :: r =>
      match muniic_process (rsearch cfg_re) known a disp dbg pt st m with
      | Ok (st', (m', b)) =>
          match mcfg_run known st' r with (outs, e, stf) => (if b then m' :: outs else outs, e, stf) end
      | Panic s => ([], Some s, st)
      | OutOfFuel => ([], Some 0, st)
      end
  end.

(* String::cmp = bytewise *)
Fixpoint text_leb (a b : list N) : bool :=
  match a, b with
  | [], _ => true
  | _ :: _, [] => false
  | x :: a', y :: b' => if x <? y then true else if y <? x then false else text_leb a' b'
  end.
Fixpoint ins_text (x : list N) (l : list (list N)) : list (list N) :=
  match l with
  | [] => [x]
  | y :: r => if text_leb x y then x :: l else y :: ins_text x r
  end.

(* ---------------------------------------------------------------- cases *)
Inductive case_C19 :=
| CLoop (scripts : list (N * list action)) (cap : option N) (ms : list msg)
| CAnon (ms : list msg)
| CAnonPop (necu napid nctid n : N)
| CAnonSeg (segs : list seg)
| CFrame (allow_ts : bool) (ins : list (msg * bool))
| CDec (chain : list dspec) (ms : list msg)
(* Muniic alone: source text of the config regex as found in src/plugins/muniic.rs, model hashes of the JSON
   configuration, warnings and generation of the plugin state before the run, the stream *)
| CMcfg (re_source : list N) (known : list (list N)) (warns0 : list (list N)) (gen0 : N) (ms : list (msg * mcfg_info))
| CEquiv (orig anon : list lc_spec).

Definition o_loop (r : option msg * list plugin * list msg) : otree :=
  match r with
  | (e, _, outs) => T [match e with None => T [] | Some m => T [o_msg m] end; T (map o_msg outs)]
  end.

Definition o_anon (r : res (anon_st * list msg)) : otree :=
  match r with
  | Ok (_, outs) => T [L 0; T (map o_msg outs)]
  | Panic _ => T [L 1]
  | OutOfFuel => T [L 2]
  end.

Definition o_ids (m : msg) : otree :=
  T [L (m_ecu m); match m_ext m with Some e => T [L (e_apid e); L (e_ctid e)] | None => T [] end].
Definition o_anon_ids (r : res (anon_st * list msg)) : otree :=
  match r with
  | Ok (_, outs) => T [L 0; T (map o_ids outs)]
  | Panic _ => T [L 1]
  | OutOfFuel => T [L 2]
  end.

Definition run_C19 (c : case_C19) : otree :=
  match c with
  | CLoop scripts cap ms =>
      let ps := map script_plugin scripts in
      o_loop (run_cap (match cap with Some c => N.to_nat c | None => length ms end) ps ms)
  | CAnon ms => o_anon (anon_run true anon_init ms)
  | CAnonPop necu napid nctid n => o_anon_ids (anon_run true anon_init (pop_stream necu napid nctid n))
  | CAnonSeg segs => o_anon_ids (anon_run true anon_init (segs_stream 0 segs))
  | CFrame _ _ => T []
  | CDec chain ms => T [L 0; T (map o_msg (snd (process (map dec_plugin chain) ms)))]
  | CMcfg _ known warns0 gen0 ms =>
      match mcfg_run (contains known) {| s_cfgs := []; s_warns := warns0; s_gen := gen0 |} ms with
      | (outs, e, st) =>
          T [T (map o_msg outs); L (match e with None => 0 | Some _ => 1 end);
             T (map o_bytes (fold_right ins_text [] (map cfg_label (s_cfgs st))));
             T (map o_bytes (s_warns st)); L (s_gen st)]
      end
  | CEquiv a b => T [o_detect true a; o_detect true b]
  end.

Definition agree_C19 (c : case_C19) (o : otree) : bool :=
  match c with
  | CFrame allow_ts ins =>
      (* real decoders: the observed run satisfies the conclusion of C19_chain_drops_only *)
      match o with
      | T [L 0; T outs] => match msgs_of outs with Some os => framed_run allow_ts ins os | None => false end
      | _ => false
      end
  | CEquiv sa sb =>
      (* the real lifecycle detection on the original and on the anonymised stream: each run is the run of the
         detector model on what the detector reads of the stream (a panic of the real detector — C03's subject —
         is accepted when it happens on both), and the two results coincide up to the ECU labels *)
      match o with
      | T [a; b] =>
          otree_eqb (erase_ecu a) (erase_ecu b) &&
          match a with
          | T [L 0; _; _] => otree_eqb a (o_detect true sa) && otree_eqb b (o_detect true sb)
          | _ => true
          end
      | _ => false
      end
  | CMcfg src _ _ _ _ =>
      (* the regex of the model is the regex written in the source, and the run is the model's run *)
      text_eqb (re_src cfg_re) src && otree_eqb (run_C19 c) o
  | _ => otree_eqb (run_C19 c) o
  end.
