(* Executable entry points for the C13 correspondence shards.
   A case describes one scripted run of a real pipeline abstractly:
     caps    capacities of the channels (source->stage1, ..., stage_n->consumer); 0 = rendezvous
     dropat  Some k: the consumer takes k messages and disappears; None: it drains the stream
     sched   numbers choosing among the enabled steps of the model (an arbitrary schedule from the seed)
     input   the message ids fed by the source
     stages  per stage: error policy, its recorded behaviour in the implementation's large-capacity reference
             run as a table (expected input id, ids passed to outflow on that input), and its flush outputs.
             (The stage functions themselves are the subject of C05/C10/C12/C19; here the model checks the
             composition through bounded channels.)
     exact   true: the delivered sequence must be identical; false (time-sort reading the live lifecycle
             table): it must be the same multiset
   Observation of the implementation: T [L terminated; T delivered ids]. *)
From Coq Require Import List NArith Bool Arith.
From AdltV Require Import Base.Obs Pipe.Kahn.
Import ListNotations.
Open Scope N_scope.

Definition tmsg := N.
Definition trow := (N * list N)%type.
(* remaining rows, flush outputs *)
Definition tst := (list trow * list N)%type.

Definition poison : N := 4294967296 + 13.

Definition table_stage (policy : N) (rows : list trow) (fl : list N) : @stage tmsg tst :=
  {| init := (rows, fl);
     step_fn := fun s m =>
       match fst s with
       | (e, outs) :: r => ((r, snd s), if e =? m then outs else [poison])
       | [] => (s, [poison])
       end;
     flush := fun s => snd s;
     on_err := fun flushing s pd =>
       match policy with
       | 0 => RAbort                                   (* plugins / sort / filter *)
       | _ => if flushing then RAbort                  (* lifecycle: flush loop `break` *)
              else match tl pd with
                   | [] => RFlush                      (* the last send of an iteration: send 3 `break` *)
                   | _ :: _ => RCont s 0               (* inner loops: the failed message is lost, go on *)
                   end
       end |}.

Definition case_C13 :=
  (list N * option N * list N * list N * list (N * list trow * list N) * bool)%type.

Definition nat_caps (l : list N) : list nat := map N.to_nat l.

Definition build (c : case_C13) : @pipe tmsg tst * list (@stage tmsg tst) :=
  let '(caps, dropat, sched, input, stages, exact) := c in
  let gs := map (fun '(pol, rows, fl) => table_stage pol rows fl) stages in
  let cap0 := match caps with c0 :: _ => N.to_nat c0 | [] => 1%nat end in
  let rest := nat_caps (tl caps) in
  let gsc := combine gs (rest ++ repeat 1%nat (length gs - length rest)) in
  (init_pipe ([], []) input cap0 gsc, gs).

Definition fuel_of (c : case_C13) : nat :=
  let '(caps, dropat, sched, input, stages, exact) := c in
  (40 * (length input + 4) * (length stages + 2) + 100)%nat.

Definition model_run (c : case_C13) : bool * list N :=
  let '(caps, dropat, sched, input, stages, exact) := c in
  let '(p0, _) := build c in
  let s := map N.to_nat sched in
  let '(p, fin) := exec (fuel_of c) (option_map N.to_nat dropat) s s p0 in
  (fin && all_done p, delivered p).

Definition run_C13 (c : case_C13) : otree :=
  let '(t, d) := model_run c in T [ob t; T (map L d)].

Fixpoint nins (m : N) (l : list N) : list N :=
  match l with [] => [m] | x :: r => if m <=? x then m :: l else x :: nins m r end.
Definition nsort (l : list N) : list N := fold_right nins [] l.
Fixpoint list_eqb (a b : list N) : bool :=
  match a, b with
  | [], [] => true
  | x :: a', y :: b' => (x =? y) && list_eqb a' b'
  | _, _ => false
  end.
Fixpoint nodup_sorted (l : list N) : bool :=
  match l with
  | x :: ((y :: _) as r) => negb (x =? y) && nodup_sorted r
  | _ => true
  end.
Fixpoint sub_sorted (a b : list N) : bool :=   (* sorted a is a sub-multiset of sorted b *)
  match a, b with
  | [], _ => true
  | _ :: _, [] => false
  | x :: a', y :: b' => if x =? y then sub_sorted a' b' else sub_sorted a b'
  end.

Fixpoint onums (l : list otree) : option (list N) :=
  match l with
  | [] => Some []
  | L n :: r => match onums r with Some ns => Some (n :: ns) | None => None end
  | _ => None
  end.

Definition agree_C13 (c : case_C13) (o : otree) : bool :=
  let '(caps, dropat, sched, input, stages, exact) := c in
  let '(t, d) := model_run c in
  let '(_, gs) := build c in
  let full := compose gs input in
  (* the model itself agrees with its theorem on this case *)
  (match dropat with None => list_eqb d full | Some k => list_eqb d (firstn (N.to_nat k) full) end) && t &&
  match o with
  | T [L ti; T ds] =>
    (ti =? 1) &&
    match onums ds with
    | None => false
    | Some od =>
      if exact then list_eqb od d
      else (length od =? length d)%nat && nodup_sorted (nsort od) && sub_sorted (nsort od) (nsort full)
    end
  | _ => false
  end.
