(* Executable entry points for the C13 correspondence shards.
   A case describes one scripted run of a real pipeline abstractly:
     caps    capacities of the channels (source->stage1, ..., stage_n->consumer); 0 = rendezvous
     dropat  Some k: the consumer takes k messages and disappears; None: it drains the stream
     sched   numbers choosing among the enabled steps of the model (an arbitrary schedule from the seed)
     input   the message ids fed by the source
     stages  per stage: error policy, its recorded behaviour in the implementation's large-capacity reference
             run as a table (expected input id, ids passed to outflow on that input), and its flush outputs.
             (The stage functions themselves are the subject of C05/C10/C12/C19; here the model checks the
             composition through bounded channels.)
     exact   true: the delivered sequence must be identical; false (time-sort reading the live lifecycle
             table): it must be the same multiset
   Observation of the implementation: T [L terminated; T delivered ids]. *)
From Coq Require Import List NArith Bool Arith.
From AdltV Require Import Base.Obs Pipe.Kahn Pipe.Loss Pipe.Shared Pipe.Consumer Pipe.Incr Pipe.Plugins.
Import ListNotations.
Open Scope N_scope.

Definition tmsg := N.
Definition trow := (N * list N)%type.
(* remaining rows, flush outputs *)
Definition tst := (list trow * list N)%type.

Definition poison : N := 4294967296 + 13.

Definition table_stage (policy : N) (rows : list trow) (fl : list N) : @stage tmsg tst :=
  {| init := (rows, fl);
     step_fn := fun s m =>
       match fst s with
       | (e, outs) :: r => ((r, snd s), if e =? m then outs else [poison])
       | [] => (s, [poison])
       end;
     flush := fun s => snd s;
     on_err := fun flushing s pd =>
       match policy with
       | 0 => RAbort                                   (* plugins / sort / filter *)
       | _ => if flushing then RAbort                  (* lifecycle: flush loop `break` *)
              else match tl pd with
                   | [] => RFlush                      (* the last send of an iteration: send 3 `break` *)
                   | _ :: _ => RCont s 0               (* inner loops: the failed message is lost, go on *)
                   end
       end |}.

Definition pipe_case :=
  (list N * option N * list N * list N * list (N * list trow * list N) * bool)%type.

Definition nat_caps (l : list N) : list nat := map N.to_nat l.

Definition build (c : pipe_case) : @pipe tmsg tst * list (@stage tmsg tst) :=
  let '(caps, dropat, sched, input, stages, exact) := c in
  let gs := map (fun '(pol, rows, fl) => table_stage pol rows fl) stages in
  let cap0 := match caps with c0 :: _ => N.to_nat c0 | [] => 1%nat end in
  let rest := nat_caps (tl caps) in
  let gsc := combine gs (rest ++ repeat 1%nat (length gs - length rest)) in
  (init_pipe ([], []) input cap0 gsc, gs).

Definition fuel_of (c : pipe_case) : nat :=
  let '(caps, dropat, sched, input, stages, exact) := c in
  (40 * (length input + 4) * (length stages + 2) + 100)%nat.

Definition model_run (c : pipe_case) : bool * list N :=
  let '(caps, dropat, sched, input, stages, exact) := c in
  let '(p0, _) := build c in
  let s := map N.to_nat sched in
  let '(p, fin) := exec (fuel_of c) (option_map N.to_nat dropat) s s p0 in
  (fin && all_done p, delivered p).

Definition run_pipe (c : pipe_case) : otree :=
  let '(t, d) := model_run c in T [ob t; T (map L d)].

Fixpoint nins (m : N) (l : list N) : list N :=
  match l with [] => [m] | x :: r => if m <=? x then m :: l else x :: nins m r end.
Definition nsort (l : list N) : list N := fold_right nins [] l.
Fixpoint list_eqb (a b : list N) : bool :=
  match a, b with
  | [], [] => true
  | x :: a', y :: b' => (x =? y) && list_eqb a' b'
  | _, _ => false
  end.
Fixpoint nodup_sorted (l : list N) : bool :=
  match l with
  | x :: ((y :: _) as r) => negb (x =? y) && nodup_sorted r
  | _ => true
  end.
Fixpoint sub_sorted (a b : list N) : bool :=   (* sorted a is a sub-multiset of sorted b *)
  match a, b with
  | [], _ => true
  | _ :: _, [] => false
  | x :: a', y :: b' => if x =? y then sub_sorted a' b' else sub_sorted a b'
  end.

Fixpoint onums (l : list otree) : option (list N) :=
  match l with
  | [] => Some []
  | L n :: r => match onums r with Some ns => Some (n :: ns) | None => None end
  | _ => None
  end.

Definition agree_pipe (c : pipe_case) (o : otree) : bool :=
  let '(caps, dropat, sched, input, stages, exact) := c in
  let '(t, d) := model_run c in
  let '(_, gs) := build c in
  let full := compose gs input in
  (* the model itself agrees with its theorem on this case *)
  (match dropat with None => list_eqb d full | Some k => list_eqb d (firstn (N.to_nat k) full) end) && t &&
  match o with
  | T [L ti; T ds] =>
    (ti =? 1) &&
    match onums ds with
    | None => false
    | Some od =>
      if exact then list_eqb od d
      else (length od =? length d)%nat && nodup_sorted (nsort od) && sub_sorted (nsort od) (nsort full)
    end
  | _ => false
  end.

(* ---------------------------------------------------------------------------------------------------
   Loss cases: ONE real stage function, a lock-step live producer (it hands message i+1 only when the stage sits
   in recv() again, and stops when its send fails or its budget [n] is used up), and a closure outflow that
   accepts k messages and fails from then on, for every k of [ks].
     policy 1 = lifecycle detection: rows = per input (id, messages popped by the drain loops, direct forward),
                recorded exactly (lock-step) in the undisturbed run; inputs beyond the table are forwarded directly
     policy 0 = plugins / sort / filter (return on the first failed send)
   Observation per k: T [L returned before the budget ended; L messages pulled; L 1 + iteration of the first failed
   send (0 = none; the last iteration and the final flush are not told apart); L number of delivered messages;
   L checksum of their ids]. *)
Definition lrow := (N * list N * option N)%type.
Definition loss_case := (N * N * list lrow * list N * list N)%type.

(* current row's direct forward (between drain and bottom), remaining rows, flush outputs *)
Definition zst := (option (option N) * list lrow * list N)%type.
Definition table_sstage (rows : list lrow) (fl : list N) : @sstage N zst :=
  {| z_init := (None, rows, fl);
     z_drain := fun s m =>
       match snd (fst s) with
       | (e, dr, d) :: r => if e =? m then ((Some d, r, snd s), dr) else ((Some None, r, snd s), [poison])
       | [] => ((Some (Some m), [], snd s), [])
       end;
     z_keep := fun s _ => s;
     z_bottom := fun s m =>
       match fst (fst s) with
       | Some d => ((None, snd (fst s), snd s), d)
       | None => (s, Some poison)
       end;
     z_flush := fun s => match snd (fst s) with [] => snd s | _ => snd s end |}.

Definition abort_rows (rows : list lrow) : list trow :=
  map (fun '(e, dr, d) => (e, dr ++ match d with Some x => [x] | None => [] end)) rows.

Definition loss_obs (n : nat) (r : @lres N) : otree :=
  T [ob (l_returned_early r && (l_consumed r <? n)%nat);
     L (N.of_nat (l_consumed r));
     L (match l_first_fail r with None => 0 | Some i => 1 + N.of_nat (Nat.min i (n - 1)) end);
     L (N.of_nat (length (l_delivered r)));
     L (fold_left (fun acc x => (acc * 31 + x + 1) mod 1000003) (l_delivered r) 0)].

Definition loss_model (c : loss_case) : list otree :=
  let '(policy, n, rows, fl, ks) := c in
  let nn := N.to_nat n in
  let inputs := map N.of_nat (seq 0 nn) in
  map (fun k =>
         loss_obs nn (match policy with
                      | 0 => loss_run (table_stage 0 (abort_rows rows) fl) inputs (N.to_nat k)
                      | _ => z_run (table_sstage rows fl) inputs (N.to_nat k)
                      end)) ks.

(* the site model and the stage of the pipeline model built from it agree on this case (instance of kahn_of_refines) *)
Definition loss_selfcheck (c : loss_case) : bool :=
  let '(policy, n, rows, fl, ks) := c in
  let inputs := map N.of_nat (seq 0 (N.to_nat n)) in
  match policy with
  | 0 => true
  | _ => forallb (fun k =>
           let a := z_run (table_sstage rows fl) inputs (N.to_nat k) in
           let b := loss_run (kahn_of (table_sstage rows fl)) inputs (N.to_nat k) in
           (l_consumed a =? l_consumed b)%nat && list_eqb (l_delivered a) (l_delivered b) &&
           Bool.eqb (l_returned_early a) (l_returned_early b)) ks
  end.

(* ---------------------------------------------------------------------------------------------------
   Shared-table cases: the lifecycle stage as writer of the out-of-band lifecycle table, a probing plugin stage as reader.
     events  per message handed to the outflow by the real stage (run alone, single-threaded): the lifecycle ids (ranks)
             visible with the right ecu in the readers' view of the table at that very moment, the message id, its lifecycle
     final   the ids in the table after the stage has returned
     runs    (capacity of the channel, schedule numbers)
   Observation: per run the look-up results (1 = found) of the real probing stage behind real channels of that capacity.
   The model interleaves writer and reader by the schedule; the side condition of C13_lookups_schedule_independent
   (published before sent, and still there in every later view) is evaluated on the events. *)
Definition shared_case := (list (list N * N * N) * list N * list (N * list N))%type.
Definition smsg := (N * N)%type.                       (* message id, lifecycle *)
Definition slook (t : list N) (m : smsg) : bool := existsb (N.eqb (snd m)) t.

Definition shared_events (c : shared_case) : list (@ev smsg (list N)) :=
  let '(evs, fin, runs) := c in
  flat_map (fun '(vis, id, lc) => [EPub vis; ESend (id, lc)]) evs ++ [EPub fin].

(* boolean form of [published_before_sent slook (fun _ => true)] *)
Fixpoint pbs_b (c : list N) (evs : list (@ev smsg (list N))) : bool :=
  match evs with
  | [] => true
  | EPub t :: r => pbs_b t r
  | ESend m :: r => slook c m && forallb (fun t => slook t m) (pubs r) && pbs_b c r
  end.

Definition shared_model (c : shared_case) : list otree :=
  let '(evs, fin, runs) := c in
  let es := shared_events c in
  map (fun '(cap, sched) =>
         let s := srun slook (3 * length es + 10) (N.to_nat cap) (map N.to_nat sched) (sinit [] es) in
         T (map (fun x => ob (snd x)) (seen s))) runs.

(* ---------------------------------------------------------------------------------------------------
   Remote cases: `adlt remote` (parser -> lifecycle -> [plugins] -> [sort] -> process_file_context -> websocket client).
     pre     the lifecycle table (rows: ecu, nr_msgs, start, end, resume + 1 or 0; in the order of the ids) as the readers
             see it when the lifecycle stage hands over its LAST message (library run of the stage on the same file)
     final   the table after the stage has returned
     n       number of messages
     sched   interleaving of the writer's events and the consumer's ticks
   Observation: T [L messages announced to the client; T rows the client holds at the end (last info per lifecycle id)].
   Model: Pipe/Consumer.v with the policy as coded (the table is looked at in every tick); after the schedule the writer
   finishes and the consumer ticks twice more. *)
Definition rrow := list N.
Definition remote_case := (list rrow * list rrow * N * list N)%type.
Definition remote_model (c : remote_case) : otree :=
  let '(pre, fin, n, sched) := c in
  let evs := [EPub pre] ++ map (fun i => ESend (N.of_nat i)) (seq 0 (N.to_nat n)) ++ [EPub fin] in
  let s := crun true (map N.to_nat sched) (cinit [] evs) in
  let s := wfinish (length evs + 1) s in
  let s := tick true (length evs) (tick true (length evs) s) in
  T [L (N.of_nat (length (c_got s))); T (map (fun r => T (map L r)) (c_view s))].

(* ---------------------------------------------------------------------------------------------------
   Incremental followers of the lifecycle table (Pipe/Incr.v): the protocol of remote.rs process_file_context at library level.
     events  the publication sequence of the REAL lifecycle stage run alone, reconstructed from the table as readers see it
             inside every outflow call and after the stage returned: (0, refresh idx, [(lifecycle id (rank), [ecu; nr_msgs;
             start; end])]) = the entries that changed, grouped by the lcs_w_refresh_idx they carry; (1, id, []) = the entry
             disappeared; (2, j, []) = the j-th message handed to the outflow
     pats    followers behind a rendezvous channel that look at the table after the sends marked 1 (and once at the end)
     runs    (capacity, interleaving): followers behind real channels of that capacity, real threads
   Observation: T [T per pattern; T per run; L d] - the follower's table at the end, restricted to the lifecycles of the final
   table, in the order of their ids: T [L id; L refresh idx; L ecu; L nr_msgs; L start; L end]; d = number of (key, number of
   values) pairs seen by any look at the real table with a number of values other than 1 (evmap keeps a bag per key; the
   lifecycle stage replaces values or removes keys, so readers may unwrap get_one()).
   The model must find the freshness invariant on the events ([fresh_b]); by C13_incremental_consumer_final_table every
   interleaving then ends with the final table, the seeded ones are executed. *)
Definition incr_ev := (N * N * list (N * list N))%type.
Definition incr_case := (list incr_ev * list (list N) * list (N * list N))%type.
Definition incr_events (l : list incr_ev) : list (@iev N (list N)) :=
  map (fun '(tag, a, ups) => match tag with 0 => IRefresh a ups | 1 => IDel a | _ => ISend a end) l.
Definition entry_obs (e : @entry (list N)) : otree := T (L (e_id e) :: L (e_idx e) :: map L (e_info e)).
Definition follower_obs (fin : @view (list N)) (s : @ist N (list N)) : otree :=
  T (flat_map (fun id => match lookup id (i_tbl s) with Some e => [entry_obs e] | None => [] end) (nsort (ids fin))).
Definition incr_model (c : incr_case) : otree :=
  let '(evl, pats, runs) := c in
  let evs := incr_events evl in
  let fin := final_view [] evs in
  let n := length evs in
  T [T (map (fun pat => follower_obs fin (ipoll (iscript (n + 1) 0 (map (fun b => negb (b =? 0)) pat) (iinit evs)))) pats);
     T (map (fun '(cap, sched) =>
               let cp := N.to_nat cap in
               follower_obs fin (ipoll (ifinish (2 * n + 2) cp (irun cp (map N.to_nat sched) (iinit evs))))) runs);
     (* keys of the table without exactly one value, over all looks of all followers: the table of the model is a map *)
     L 0].
Definition incr_agree (c : incr_case) (o : otree) : bool :=
  let '(evl, pats, runs) := c in
  fresh_b 0 (incr_events evl) && otree_eqb (incr_model c) o.

(* ---------------------------------------------------------------------------------------------------
   Specified pipelines: every stage is described by its SPECIFICATION (evaluated by the harness on the input, not taken
   from a run of the code) as a chain of rejecting plugins (Pipe/Plugins.v):
     lifecycle detection      = the empty chain (forwards everything, in order), error policy 1
     plugins_process_msgs     = one reject set per plugin of the chain, in the order of the chain (a scripted plugin: the
                                indices it is told to reject; the FileTransfer plugin with keepFLDA:false: the FLDA messages
                                of its apid/ctid; a plugin that only rewrites: the empty set)
     filter_as_streams        = one reject set: the messages that do not pass the filters
     caps, dropat, sched, input as for the pipeline cases above.
   Observation: T [L terminated; T delivered ids; T per stage (T number of messages each plugin of the chain has seen)]
   (the third component is empty for runs with a consumer drop: how far a stage got is then a matter of timing). *)
Definition spec_case := (list N * option N * list N * list N * list (N * list (list N)))%type.

Definition spec_stage (policy : N) (rejs : list (list N)) : @stage N (list N) :=
  let g := rej_chain rejs in
  {| init := init g; step_fn := step_fn g; flush := flush g;
     on_err := fun flushing s pd =>
       match policy with
       | 0 => RAbort
       | _ => if flushing then RAbort else match tl pd with [] => RFlush | _ :: _ => RCont s 0 end
       end |}.

Definition spec_build (c : spec_case) : @pipe N (list N) * list (@stage N (list N)) :=
  let '(caps, dropat, sched, input, stages) := c in
  let gs := map (fun '(pol, rejs) => spec_stage pol rejs) stages in
  let cap0 := match caps with c0 :: _ => N.to_nat c0 | [] => 1%nat end in
  let rest := nat_caps (tl caps) in
  let gsc := combine gs (rest ++ repeat 1%nat (length gs - length rest)) in
  (init_pipe [] input cap0 gsc, gs).

Definition spec_run (c : spec_case) : bool * list N * list (list N) :=
  let '(caps, dropat, sched, input, stages) := c in
  let '(p0, _) := spec_build c in
  let s := map N.to_nat sched in
  let fuel := (40 * (length input + 4) * (length stages + 2) + 100)%nat in
  let '(p, fin) := exec fuel (option_map N.to_nat dropat) s s p0 in
  (fin && all_done p, delivered p, tl (final_states p)).

Definition counts_obs (dropat : option N) (cs : list (list N)) : otree :=
  match dropat with None => T (map (fun l => T (map L l)) cs) | Some _ => T [] end.

Definition spec_model (c : spec_case) : otree :=
  let '(caps, dropat, sched, input, stages) := c in
  let '(t, d, cs) := spec_run c in
  T [ob t; T (map L d); counts_obs dropat cs].

Definition agree_spec (c : spec_case) (o : otree) : bool :=
  let '(caps, dropat, sched, input, stages) := c in
  let '(t, d, cs) := spec_run c in
  let '(_, gs) := spec_build c in
  let full := compose gs input in
  (* the model agrees with its theorems on this case: the sequential result, which is the selection of the input by the
     verdicts, stage after stage *)
  (match dropat with None => list_eqb d full | Some k => list_eqb d (firstn (N.to_nat k) full) end) && t &&
  list_eqb full (fold_left (fun l '(pol, rejs) => select (accepted (map rej_plugin rejs) (map (fun _ => 0) rejs) l) l) stages input) &&
  otree_eqb (spec_model c) o.

Definition case_C13 := (pipe_case + (loss_case + (shared_case + (remote_case + (incr_case + spec_case)))))%type.
Definition run_C13 (c : case_C13) : otree :=
  match c with
  | inl p => run_pipe p
  | inr (inl l) => T (loss_model l)
  | inr (inr (inl sh)) => T (shared_model sh)
  | inr (inr (inr (inl r))) => remote_model r
  | inr (inr (inr (inr (inl i)))) => incr_model i
  | inr (inr (inr (inr (inr s)))) => spec_model s
  end.
Definition agree_C13 (c : case_C13) (o : otree) : bool :=
  match c with
  | inl p => agree_pipe p o
  | inr (inl l) => loss_selfcheck l && otree_eqb (T (loss_model l)) o
  | inr (inr (inl sh)) => pbs_b [] (shared_events sh) && otree_eqb (T (shared_model sh)) o
  | inr (inr (inr (inl r))) => otree_eqb (remote_model r) o
  | inr (inr (inr (inr (inl i)))) => incr_agree i o
  | inr (inr (inr (inr (inr s)))) => agree_spec s o
  end.
