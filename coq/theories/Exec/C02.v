(* Executable entry points for the C02 correspondence shards: to_write of parsed messages, re-parse, second
   write (files), and to_write of directly constructed messages (incl. the Err returned when header + payload exceed the 16 bit len field). *)
From Coq Require Import List NArith Bool.
From AdltV Require Import Base.Obs Base.Res Base.MachInt Dlt.Frame Dlt.Iter Dlt.Write Dlt.WritePipeline Exec.C01.
Import ListNotations.
Open Scope N_scope.

Inductive case_C02 : Type :=
| CStream (start : N) (segs : list (N * list N))
    (* read the stream, write every message, read the written bytes, write again *)
| CMsg (rt : N) (ecu : char4) (ts htyp mcnt len : N) (ext : option (N * N * char4 * char4)) (payload : list (N * list N))
    (* DltMessage built field by field; to_write *)
| CExport (specs : list (N * N * N * bool * N))
    (* (ecu number, reception time us, timestamp dms, timestamp flag, kind): message k = MSpec::build(k) of
       harness/src/lcgen.rs; the file in.dlt = to_write of every message; `adlt convert -o a.dlt in.dlt`,
       `adlt convert -o b.dlt a.dlt` (reader -> lifecycle stage -> writer, Dlt/WritePipeline.v).  The harness puts a.dlt and
       b.dlt into a state derived from the input before the commands (absent, empty, shorter, longer...): by
       C02_export_independent_of_prior_output_content it is not an input of the model *)
| CExportRuns (t0 : N) (runs : list (N * N * bool))
    (* a large file described run-length: run (count, frame size, with timestamp) = count consecutive messages of
       that many bytes each (storage header + standard header [+ timestamp] + payload); message i (numbered through the
       file) of ECU1 is received at t0 + i s with timestamp i s, mcnt = i mod 256, payload = LE32 of i (cut to the payload
       length) followed by 0x5a bytes.  Same commands as CExport. *)
| CExportOver (pre : option (list (N * N * N * bool * N) * N * list (N * list N)))
              (chain : list (list (N * N * N * bool * N)))
              (pre2 : option (list (N * N * N * bool * N) * N * list (N * list N)))
    (* the state of the `-o` path before the command is part of the input.  [pre]: the path out.dlt before the first
       command -- None = absent, Some (specs, cut, junk) = a file holding to_write of the messages [specs] without its last
       [cut] bytes, followed by the junk bytes (Some ([], 0, []) = an empty file).  [chain]: the files in_1 .. in_n (each as in
       CExport) exported one after the other to the SAME path: `adlt convert -o out.dlt in_k.dlt`, k = 1..n.  Then the export of
       the export, `adlt convert -o out2.dlt out.dlt`, with out2.dlt in state [pre2] before. *)
| CExportPlugin (pre : option (list (N * N * N * bool * N) * N * list (N * list N))) (specs : list (N * N * N * bool * N))
    (* library level: ExportPlugin (plugins/export.rs) without filters, its export file in state [pre] before the plugin
       is built, every message of the file [specs] processed *)
| CExportOpts (opts : list N) (ft : option (option char4 * option char4))
              (msgs : list (N * char4 * N * N * N * option (N * N * char4 * char4) * list N)).
    (* wave 7: the export under the options of `adlt convert` that configure plugins or processing but do NOT select
       messages.  [msgs]: (reception time us, ecu, timestamp dms, htyp, mcnt, extended header (verb_mstp_mtin, noar, apid,
       ctid), payload) -- in.dlt = to_write of every message.  [opts]: codes of the options given together with -o
       (1 --file_transfer=<glob>, 2 --file_transfer_path, 3 --file_transfer_apid, 4 --file_transfer_ctid, 5 --nonverbose_path,
       6 --someip_path, 7 --rewrite_path, 8 --can_path, 9 --muniic_path, 10 --sort, 11 --debug_verify_sort,
       12 --debug_verify_lcs, 13 -x, 14 -a, 15 -s); [ft] = Some (apid, ctid) iff --file_transfer is among them (the ids
       given with --file_transfer_apid / _ctid).  `adlt convert <opts> -o a.dlt in.dlt`, `adlt convert <opts> -o b.dlt a.dlt`.
       Observed: in.dlt; a.dlt with the completions the decoders are allowed to make undone (extended header filled in by
       the non-verbose plugin, timestamp set by the rewrite plugin) and, under --sort, put back into input order -- when
       a.dlt holds exactly the input's messages; else a.dlt as it is; the message counters it re-reads to; b == a.
       Model: the plugin stage holds the file-transfer plugin AS CONFIGURED BY convert() (Dlt/WritePipeline.v: cli_ft_cfg);
       the decoders are conservative stages (C19), whose completions the observation undoes
       (C02_export_under_forwarding_plugin_stage), --sort is a permutation (C10), the other options do not touch the
       message path. *)

(* MSpec::build(index): kind 0 plain, 1 control request, 2 control response (non-verbose), 3 verbose control response *)
Definition spec_msg (i : N) (s : N * N * N * bool * N) : msg :=
  let '(e, rt, ts, h, k) := s in
  let ext v := Some {| verb_mstp_mtin := v; noar := 1; apid := (65, 80, 73, 68); ctid := (67, 84, 73, 68) |} in
  let '(x, p) := match k with
                 | 0 => (None, [])
                 | 1 => (ext 22, [19; 0; 0; 0])
                 | 2 => (ext 38, [19; 0; 0; 0; 0])
                 | _ => (ext 39, [17; 0; 0; 0; 1])
                 end in
  {| m_index := i; m_reception_us := rt; m_ecu := (69, 67, 48 + (e / 10) mod 10, 48 + e mod 10); m_timestamp := ts;
     m_std := {| htyp := 32 + (if h then 16 else 0) + (match x with Some _ => 1 | None => 0 end); mcnt := i mod 256; len := 0 |};
     m_ext := x; m_payload := p |}.
Fixpoint spec_msgs (i : N) (l : list (N * N * N * bool * N)) : list msg :=
  match l with [] => [] | s :: r => spec_msg i s :: spec_msgs (i + 1) r end.

Definition run_msg (t0 i size : N) (ts : bool) : msg :=
  let p := N.to_nat (size - (if ts then 24 else 20)) in
  {| m_index := i; m_reception_us := t0 + i * 1000000; m_ecu := (69, 67, 85, 49); m_timestamp := if ts then i * 10000 else 0;
     m_std := {| htyp := if ts then 48 else 32; mcnt := i mod 256; len := size - 16 |}; m_ext := None;
     m_payload := firstn p (le32_bytes i ++ repeat 90 (p - 4)) |}.
Fixpoint run_msgs_n (t0 i size : N) (ts : bool) (k : nat) : list msg :=
  match k with O => [] | S k' => run_msg t0 i size ts :: run_msgs_n t0 (i + 1) size ts k' end.
Fixpoint runs_msgs (t0 i : N) (runs : list (N * N * bool)) : list msg :=
  match runs with
  | [] => []
  | (c, size, ts) :: r => run_msgs_n t0 i size ts (N.to_nat c) ++ runs_msgs t0 (i + c) r
  end.
(* the message counters are 0, 1, 2, ... mod 256 *)
Fixpoint mcnt_seq (i : N) (ms : list msg) : bool :=
  match ms with [] => true | m :: r => (mcnt (m_std m) =? i mod 256) && mcnt_seq (i + 1) r end.
Definition o_bigfile (l : bytes) : otree := T [L (blen l); L (cksum2 l)].

(* a file: length + checksum *)
Definition o_file (l : bytes) : otree := T [L (blen l); L (cksum l)].

Fixpoint bytes_eqb (a b : bytes) : bool :=
  match a, b with
  | [], [] => true
  | x :: a', y :: b' => (x =? y) && bytes_eqb a' b'
  | _, _ => false
  end.

(* written bytes: verbatim up to 300 bytes, else length + checksum + first 24 bytes *)
Definition o_wbytes (l : bytes) : otree :=
  if Nat.leb (length l) 300 then T [L 0; T (map L l)] else T [L 1; L (blen l); L (cksum l); T (map L (firstn 24 l))].

(* to_write returned Ok / panicked / returned Err (with what is in the writer by then) *)
Definition o_wres (r : res wres) : otree :=
  match r with
  | Ok (WOk b) => T [L 0; o_wbytes b]
  | Ok (WErr p) => T [L 3; o_wbytes p]
  | Panic _ => T [L 1]
  | OutOfFuel => T [L 2]
  end.

(* observation of the large-file export: input, export, number of messages in the export, their counters consecutive,
   nothing left over, "export of the export == export" (when the export is the input byte for byte the second command
   repeats the first on the same bytes) *)
Definition export_obs_slow (inp : bytes) : otree :=
  match convert_o inp with
  | Ok (WOk a) =>
      T [L 8; o_bigfile inp; o_bigfile a;
         match run_iter 0 a with
         | Ok (ms, _, rest) => T [L (N.of_nat (length ms)); ob (mcnt_seq 0 ms); L (blen rest)]
         | _ => L 1
         end;
         if bytes_eqb a inp then L 1
         else match convert_o a with Ok (WOk b) => ob (bytes_eqb a b) | _ => L 2 end]
  | _ => T [L 9; o_bigfile inp]
  end.
Definition export_obs_fast (ms : list msg) (inp : bytes) : otree :=
  T [L 8; o_bigfile inp; o_bigfile inp; T [L (N.of_nat (length ms)); ob (mcnt_seq 0 ms); L 0]; L 1].

(* ---- the `-o` path as an input (CExportOver) *)
Definition prior_path (p : option (list (N * N * N * bool * N) * N * list (N * list N))) : fs_path :=
  match p with
  | None => None
  | Some (specs, cut, junk) =>
      let f := match write_all (spec_msgs 0 specs) with Ok (WOk b) => b | _ => [] end in
      Some (firstn (length f - N.to_nat cut) f ++ bytes_of_segs junk)
  end.
(* a path: absent / length + checksum, the message counters of the messages it re-reads to, bytes left over *)
Definition o_path (p : fs_path) : otree :=
  match p with
  | None => L 0
  | Some b => T [o_file b;
                 match run_iter 0 b with Ok (ms, _, rest) => T [T (map (fun m => L (mcnt (m_std m))) ms); L (blen rest)] | _ => L 1 end]
  end.
Definition o_rpath (p : res fs_path) : otree := match p with Ok s => o_path s | _ => L 1 end.
Definition spec_file (specs : list (N * N * N * bool * N)) : bytes :=
  match write_all (spec_msgs 0 specs) with Ok (WOk b) => b | _ => [] end.
Definition export_over_obs (pre : fs_path) (chain : list bytes) (pre2 : fs_path) : otree :=
  let states := convert_o_chain pre chain in
  let out := match last states (Ok pre) with Ok s => s | _ => None end in
  T [L 10; T [match pre with None => L 0 | Some b => o_file b end; match pre2 with None => L 0 | Some b => o_file b end];
     T (map (fun x => T [o_file (fst x); o_rpath (snd x)]) (combine chain states));
     match out with
     | Some a => match convert_o_path pre2 a with
                 | Ok (Some b) => T [o_file b; ob (bytes_eqb a b)]
                 | _ => L 2
                 end
     | None => L 3
     end].

(* ---- export under non-selecting options (CExportOpts) *)
Definition xmsg_msg (i : N) (x : N * char4 * N * N * N * option (N * N * char4 * char4) * list N) : msg :=
  let '(rt, ecu, ts, h, mc, ext, p) := x in
  {| m_index := i; m_reception_us := rt; m_ecu := ecu; m_timestamp := ts;
     m_std := {| htyp := h; mcnt := mc; len := 0 |};
     m_ext := match ext with
              | Some (v, n, a, c) => Some {| verb_mstp_mtin := v; noar := n; apid := a; ctid := c |}
              | None => None
              end;
     m_payload := p |}.
Fixpoint xmsgs (i : N) (l : list (N * char4 * N * N * N * option (N * N * char4 * char4) * list N)) : list msg :=
  match l with [] => [] | x :: r => xmsg_msg i x :: xmsgs (i + 1) r end.
(* the plugin stage of the command: the file-transfer plugin with the configuration convert() builds; the glob and the
   auto-save path do not enter the forwarding decision *)
Definition cli_plugins (ft : option (option char4 * option char4)) : list plugin :=
  match ft with
  | Some (a, c) => [ft_plugin (cli_ft_cfg (option_map ecu_key a) (option_map ecu_key c) None (fun _ => true))]
  | None => []
  end.
Definition export_opts_obs (ft : option (option char4 * option char4)) (inp : bytes) : otree :=
  match convert_o_plugins (cli_plugins ft) inp with
  | Ok (WOk a) =>
      T [L 14; o_file inp; o_file a;
         match run_iter 0 a with Ok (ms, _, rest) => T [T (map (fun m => L (mcnt (m_std m))) ms); L (blen rest)] | _ => L 1 end;
         match convert_o_plugins (cli_plugins ft) a with Ok (WOk b) => ob (bytes_eqb a b) | _ => L 2 end]
  | _ => T [L 15; o_file inp]
  end.

Definition run_C02 (c : case_C02) : otree :=
  match c with
  | CStream start segs =>
      match run_iter start (bytes_of_segs segs) with
      | Ok (ms1, st1, _) =>
          match write_all ms1 with
          | Ok (WErr p) => T [L 4; T (map o_msg ms1); o_wbytes p]
          | Ok (WOk b1) =>
              match run_iter start b1 with
              | Ok (ms2, st2, rest2) =>
                  T [L 0; T (map o_msg ms1); o_wbytes b1; T (map o_msg ms2); o_ist st2; L (blen rest2);
                     match write_all ms2 with Ok (WOk b2) => ob (bytes_eqb b1 b2) | _ => L 2 end]
              | _ => T [L 3]
              end
          | _ => T [L 2; T (map o_msg ms1)]
          end
      | _ => T [L 1]
      end
  | CMsg rt ecu ts h mc ln ext payload =>
      let m := {| m_index := 0; m_reception_us := rt; m_ecu := ecu; m_timestamp := ts;
                  m_std := {| htyp := h; mcnt := mc; len := ln |};
                  m_ext := match ext with
                           | Some (v, n, a, c) => Some {| verb_mstp_mtin := v; noar := n; apid := a; ctid := c |}
                           | None => None
                           end;
                  m_payload := bytes_of_segs payload |} in
      o_wres (msg_to_write m)
  | CExport specs =>
      match write_all (spec_msgs 0 specs) with
      | Ok (WOk inp) =>
          match convert_o inp with
          | Ok (WOk a) =>
              (* the input file, the export, the message counters (= input position mod 256) of the export's messages in
                 file order, "export of the export == export" *)
              T [L 5; o_file inp; o_file a;
                 match run_iter 0 a with Ok (ms, _, rest) => T [T (map (fun m => L (mcnt (m_std m))) ms); L (blen rest)] | _ => L 1 end;
                 match convert_o a with Ok (WOk b) => ob (bytes_eqb a b) | _ => L 2 end]
          | _ => T [L 6; o_file inp]
          end
      | _ => T [L 7]
      end
  | CExportRuns t0 runs =>
      let ms := runs_msgs t0 0 runs in
      match write_all ms with
      | Ok (WOk inp) =>
          (* messages satisfying the invariant of parsed messages: the file is in the writer's normal form and the
             evaluation below yields export_obs_fast (Dlt/WriteExecProofs.v: export_obs_fast_sound; run_iter is quadratic
             in the file size under vm_compute, the files of this family have up to 1.5 MB) *)
          if forallb wf_msgb ms && (N.of_nat (length ms) <=? u32max) then export_obs_fast ms inp else export_obs_slow inp
      | _ => T [L 7]
      end
  | CExportOver pre chain pre2 => export_over_obs (prior_path pre) (map spec_file chain) (prior_path pre2)
  | CExportPlugin pre specs =>
      (* library level (plugins/export.rs, no filters): not a model of the plugin -- its writer contract only: the file
         named in the configuration is removed when the plugin is built and (re)created with File::create at the first
         message exported; after the info messages (VsDl/Info) it holds to_write of every message processed, in order;
         no message processed: the path is absent *)
      let inp := spec_file specs in
      T [L 11; match prior_path pre with None => L 0 | Some b => o_file b end; o_file inp;
         match specs with [] => L 0 | _ => o_path (Some inp) end]
  | CExportOpts _ ft msgs =>
      match write_all (xmsgs 0 msgs) with
      | Ok (WOk inp) => export_opts_obs ft inp
      | _ => T [L 7]
      end
  end.
Definition agree_C02 : case_C02 -> otree -> bool := agree_det run_C02.
