(* Executable entry points for the C02 correspondence shards: to_write of parsed messages, re-parse, second
   write (files), and to_write of directly constructed messages (incl. the Err returned when header + payload exceed the 16 bit len field). *)
From Coq Require Import List NArith Bool.
From AdltV Require Import Base.Obs Base.Res Base.MachInt Dlt.Frame Dlt.Iter Dlt.Write Exec.C01.
Import ListNotations.
Open Scope N_scope.

Inductive case_C02 : Type :=
| CStream (start : N) (segs : list (N * list N))
    (* read the stream, write every message, read the written bytes, write again *)
| CMsg (rt : N) (ecu : char4) (ts htyp mcnt len : N) (ext : option (N * N * char4 * char4)) (payload : list (N * list N)).
    (* DltMessage built field by field; to_write *)

Fixpoint bytes_eqb (a b : bytes) : bool :=
  match a, b with
  | [], [] => true
  | x :: a', y :: b' => (x =? y) && bytes_eqb a' b'
  | _, _ => false
  end.

(* written bytes: verbatim up to 300 bytes, else length + checksum + first 24 bytes *)
Definition o_wbytes (l : bytes) : otree :=
  if Nat.leb (length l) 300 then T [L 0; T (map L l)] else T [L 1; L (blen l); L (cksum l); T (map L (firstn 24 l))].

(* to_write returned Ok / panicked / returned Err (with what is in the writer by then) *)
Definition o_wres (r : res wres) : otree :=
  match r with
  | Ok (WOk b) => T [L 0; o_wbytes b]
  | Ok (WErr p) => T [L 3; o_wbytes p]
  | Panic _ => T [L 1]
  | OutOfFuel => T [L 2]
  end.

Definition run_C02 (c : case_C02) : otree :=
  match c with
  | CStream start segs =>
      match run_iter start (bytes_of_segs segs) with
      | Ok (ms1, st1, _) =>
          match write_all ms1 with
          | Ok (WErr p) => T [L 4; T (map o_msg ms1); o_wbytes p]
          | Ok (WOk b1) =>
              match run_iter start b1 with
              | Ok (ms2, st2, rest2) =>
                  T [L 0; T (map o_msg ms1); o_wbytes b1; T (map o_msg ms2); o_ist st2; L (blen rest2);
                     match write_all ms2 with Ok (WOk b2) => ob (bytes_eqb b1 b2) | _ => L 2 end]
              | _ => T [L 3]
              end
          | _ => T [L 2; T (map o_msg ms1)]
          end
      | _ => T [L 1]
      end
  | CMsg rt ecu ts h mc ln ext payload =>
      let m := {| m_index := 0; m_reception_us := rt; m_ecu := ecu; m_timestamp := ts;
                  m_std := {| htyp := h; mcnt := mc; len := ln |};
                  m_ext := match ext with
                           | Some (v, n, a, c) => Some {| verb_mstp_mtin := v; noar := n; apid := a; ctid := c |}
                           | None => None
                           end;
                  m_payload := bytes_of_segs payload |} in
      o_wres (msg_to_write m)
  end.
Definition agree_C02 : case_C02 -> otree -> bool := agree_det run_C02.
