(* Executable entry points for the C03 correspondence shards.

   C03 is mostly a crash SEARCH (harness/src/bin/c03.rs: isolated worker processes run the whole chain of
   the real crate).  For the small cases the models that exist are run as well and compared with what the
   implementation did:
     CBytes bs : a (possibly corrupted) storage/serial DLT byte stream.  The C01 iterator model (Dlt/Iter.v)
                 must not panic and must yield as many messages as the real reader chain; the messages it
                 yields are turned into lifecycle-detector inputs and the detector model (Lifecycle/Model.v,
                 via Exec/Lifecycle.v) must deliver the same message -> lifecycle assignment, the same
                 published table and the same listing as the real detector run on the real messages.
     CLc ms    : detector inputs decoded from the real messages (text formats: the converters are not
                 modelled); detector model vs implementation as above.
     CCtrl fn status be p : the parsers of control-message bodies (src/dlt/control_msgs.rs) called directly on
                 the body p; model Crash/ControlMsgs.v vs the real function: parsed structure (or None) and
                 panic / no panic.  fn: 0 log info, 1 sw version, 2 unregister context, 3 connection info,
                 4 timezone.
     CApid specs : a sequence of calls of utils::get_apid_for_tag in ONE fresh namespace; the tags are given by
                 recipes (TLit bytes | TNum prefix lo n suffix = the n tags prefix ++ decimal(lo + k) ++ suffix | TRep prefix unit
                 n suffix = the one tag prefix ++ unit^n ++ suffix, for tags of 10^5 bytes); model
                 Crash/TextUtils.v (get_apid_for_tag incl. get_4digit_str, trim, the abbreviation loops, the map) vs
                 the real function, tag by tag: the apid of a TLit, count and a polynomial hash (mod 2^64) of the
                 apids of a TNum (so that the 10002 calls of the exhausted-candidates family stay a small term).
     CHex s    : utils::hex_to_bytes on the string s: None / Some bytes / panic vs the model.
     CAsc reference items : the time / length arithmetic of the CAN asc converter on a file built for the purpose: date
                 lines (chrono's result is an input), CAN lines of RE_MSG (the line, the capture locations of the
                 timestamp and of the data length as the regex reports them), BusMapping lines; per message the
                 reception time, timestamp_dms, standard_header.len and the data bytes vs Crash/TextTime.v.
     CLogcat start items : monotonic logcat lines: timestamp string and, if the tag is new and non-empty, its byte
                 length; reception time, timestamp_dms and the `len` of the GET_LOG_INFO message vs the model.
     CSearch n : search-only case of n input bytes; the models say nothing, the observation only records
                 whether the worker finished the chain (the oracle lives on the Rust side). *)
From Coq Require Import List NArith Bool.
From AdltV Require Import Base.Obs Base.Res Base.MachInt.
From AdltV Require Dlt.Frame Dlt.Iter.
From AdltV Require Import Lifecycle.Model Exec.Lifecycle.
From AdltV Require Crash.ControlMsgs Crash.TextUtils Crash.TextTime.
From Coq Require Import ZArith.
Import ListNotations.
Open Scope N_scope.

Inductive tagspec : Type :=
| TLit (s : list N)
| TNum (pre : list N) (lo n : N) (suf : list N)
| TRep (pre unit : list N) (n : N) (suf : list N).

(* ADate neg abs: a date line, chrono gives (-1)^neg * abs us since 1970; ACan line ts_a ts_b d_a d_b; ABus name_len *)
Inductive asc_item : Type :=
| ADate (neg : bool) (abs : N)
| ACan (line : list N) (ts_a ts_b d_a d_b : N)
| ABus (name_len : N).

Inductive case_C03 : Type :=
| CBytes (bs : list N)
| CLc (ms : list mspec)
| CCtrl (fn status : N) (be : bool) (p : list N)
| CApid (specs : list tagspec)
| CHex (s : list N)
| CAsc (reference : option N) (items : list asc_item)
| CLogcat (start : N) (items : list (list N * option N))
| CSearch (n : N).

(* DltMessage -> what the detector looks at: ECU (as big-endian u32), reception time, timestamp_us() =
   timestamp_dms * 100, has_timestamp(), is_ctrl_request() = ((vmm >> 1) & 7 == 3) && (vmm >> 4 == 1) *)
Definition is_ctrl_request (m : Dlt.Frame.msg) : bool :=
  match Dlt.Frame.m_ext m with
  | Some e => ((Dlt.Frame.verb_mstp_mtin e / 2) mod 8 =? 3) && (Dlt.Frame.verb_mstp_mtin e / 16 =? 1)
  | None => false
  end.
Definition ecu_n (c : Dlt.Frame.char4) : N := match c with (a, b, c', d) => Dlt.Frame.be32 a b c' d end.
Definition spec_of (m : Dlt.Frame.msg) : mspec :=
  (ecu_n (Dlt.Frame.m_ecu m), Dlt.Frame.m_reception_us m, Dlt.Frame.m_timestamp m * 100,
   Dlt.Frame.has_timestamp (Dlt.Frame.m_std m), is_ctrl_request m).

Definition o_deliv (o : list delivery) : otree :=
  T (map (fun x => T [L (m_index (fst x)); L (m_lc (fst x))]) o).

(* observation of the detector part: deliveries, table (sorted by id), listing *)
Definition lc_obs (n : N) (ms : list mspec) : otree :=
  let '(o, t) := detect2 ([], ms) in
  let t' := sort_by_id t in
  T [L 0; L n; o_deliv o; T (map o_row t'); T [L 0; T (map (fun x => L (l_id x)) (listing (map snd t')))]].

(* a decoded string as the harness can observe it: WINDOWS-1252 maps one byte to one char, bytes < 0x80 to
   themselves, all others to non-ASCII chars (rendered 256); RE_NEW_LINE turns \t \n \r into a blank *)
Definition chr (b : N) : N := if (b =? 9) || (b =? 10) || (b =? 13) then 32 else if b <? 128 then b else 256.
Definition o_str (d : list N) : otree := T (map (fun b => L (chr b)) d).
Definition o_id (d : list N) : otree := T (map L d).
Definition o_ctx (c : Crash.ControlMsgs.ctx) : otree :=
  T [o_id (Crash.ControlMsgs.c_id c); oopt L (Crash.ControlMsgs.c_ll c); oopt L (Crash.ControlMsgs.c_ts c);
     oopt o_str (Crash.ControlMsgs.c_desc c)].
Definition o_app (a : Crash.ControlMsgs.app) : otree :=
  T [o_id (Crash.ControlMsgs.a_id a); T (map o_ctx (Crash.ControlMsgs.a_ctxs a)); oopt o_str (Crash.ControlMsgs.a_desc a)].
Definition o_res {A} (f : A -> otree) (r : res A) : otree :=
  match r with Ok a => T [L 0; f a] | Panic _ => T [L 1] | OutOfFuel => T [L 2] end.
Definition run_ctrl (fn status : N) (be : bool) (p : list N) : otree :=
  match fn with
  | 0 => o_res (fun apps => T (map o_app apps)) (Crash.ControlMsgs.parse_log_info status be p)
  | 1 => o_res (oopt o_str) (Crash.ControlMsgs.parse_sw_version be p)
  | 2 => o_res (oopt (fun x : list N * list N * list N => T [o_id (fst (fst x)); o_id (snd (fst x)); o_id (snd x)]))
               (Crash.ControlMsgs.parse_unregister_context p)
  | 3 => o_res (oopt (fun x : N * list N => T [L (fst x); o_id (snd x)])) (Crash.ControlMsgs.parse_connection_info p)
  | _ => o_res (oopt (fun x : N * bool => T [L (fst x); ob (snd x)])) (Crash.ControlMsgs.parse_timezone be p)
  end.

(* utils::get_apid_for_tag, a sequence of calls in one namespace *)
Definition nseq (lo n : N) : list N := map (fun k => lo + N.of_nat k) (seq 0 (N.to_nat n)).
Definition expand_spec (t : tagspec) : list (list N) :=
  match t with
  | TLit s => [s]
  | TNum pre lo n suf => map (fun i => pre ++ Crash.TextUtils.dec i ++ suf) (nseq lo n)
  | TRep pre unit n suf => [pre ++ concat (repeat unit (N.to_nat n)) ++ suf]
  end.
Definition hash_apids (l : list N) : N :=
  fold_left (fun h a => (h * 1000003 + a + 1) mod 18446744073709551616) l 0.
Definition spec_call (m : Crash.TextUtils.amap) (t : tagspec) : res (otree * Crash.TextUtils.amap) :=
  (x <- Crash.TextUtils.apids_of_tags m (expand_spec t) ;;
   Ok (match t with
       | TLit _ | TRep _ _ _ _ => L (hd 0 (fst x))
       | TNum _ _ _ _ => T [L (N.of_nat (length (fst x))); L (hash_apids (fst x))]
       end, snd x))%res.
Definition run_apid (specs : list tagspec) : otree :=
  o_res (fun x : list otree * Crash.TextUtils.amap => T (fst x)) (Crash.TextUtils.fold_calls spec_call [] specs).
Definition run_hex (s : list N) : otree :=
  o_res (oopt (fun v : list N => T (map L v))) (Crash.TextUtils.hex_to_bytes s).

(* the asc converter: one observation per item (a date line yields no message) *)
Definition asc_call (st : Crash.TextTime.asc_st * option N) (it : asc_item) : res (otree * (Crash.TextTime.asc_st * option N)) :=
  (let '(a, reference) := st in
   match it with
   | ADate neg abs =>
       a' <- Crash.TextTime.asc_date_line a reference (if neg then (- Z.of_N abs)%Z else Z.of_N abs) ;;
       Ok (T [], (a', reference))
   | ACan line ts_a ts_b d_a d_b =>
       x <- Crash.TextTime.asc_can_line a line ts_a ts_b d_a d_b ;;
       let '(a', (rt, tdms, len, data)) := x in
       Ok (T [L rt; L tdms; L len; T (map L data)], (a', reference))
   | ABus name_len =>
       len <- Crash.TextTime.info_msg_len name_len ;;
       Ok (T [L (Crash.TextTime.a_date_us a); L (Crash.TextTime.a_offset_dms a); L len], (a, reference))
   end)%res.
Definition run_asc (reference : option N) (items : list asc_item) : otree :=
  o_res (fun x : list otree * (Crash.TextTime.asc_st * option N) => T (fst x))
        (Crash.TextUtils.fold_calls asc_call
           ({| Crash.TextTime.a_date_us := 0; Crash.TextTime.a_offset_dms := 0; Crash.TextTime.a_first_neg := 0%Z |}, reference) items).
Definition logcat_call (start : N) (it : list N * option N) : res (otree * N) :=
  (x <- Crash.TextTime.logcat_mono_line start (fst it) ;;
   info <- (match snd it with
            | Some n => l <- Crash.TextTime.info_msg_len n ;; Ok (T [L l])
            | None => Ok (T [])
            end) ;;
   Ok (T [L (fst x); L (snd x); info], start))%res.
Definition run_logcat (start : N) (items : list (list N * option N)) : otree :=
  o_res (fun x : list otree * N => T (fst x)) (Crash.TextUtils.fold_calls logcat_call start items).

Definition run_C03 (c : case_C03) : otree :=
  match c with
  | CBytes bs =>
      match Dlt.Iter.run_iter 0 bs with
      | Ok (ms, _, _) => lc_obs (N.of_nat (length ms)) (map spec_of ms)
      | Panic s => T [L 1; L s]
      | OutOfFuel => T [L 2]
      end
  | CLc ms => lc_obs (N.of_nat (length ms)) ms
  | CCtrl fn status be p => run_ctrl fn status be p
  | CApid specs => run_apid specs
  | CHex s => run_hex s
  | CAsc reference items => run_asc reference items
  | CLogcat start items => run_logcat start items
  | CSearch _ => T [L 0]
  end.

Definition agree_C03 (c : case_C03) (o : otree) : bool :=
  match c with
  | CSearch _ => match o with T [L _] => true | _ => false end
  | _ => otree_eqb (run_C03 c) o
  end.
