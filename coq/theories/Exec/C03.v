(* Executable entry points for the C03 correspondence shards.

   C03 is mostly a crash SEARCH (harness/src/bin/c03.rs: isolated worker processes run the whole chain of
   the real crate).  For the small cases the models that exist are run as well and compared with what the
   implementation did:
     CBytes bs : a (possibly corrupted) storage/serial DLT byte stream.  The C01 iterator model (Dlt/Iter.v)
                 must not panic and must yield as many messages as the real reader chain; the messages it
                 yields are turned into lifecycle-detector inputs and the detector model (Lifecycle/Model.v,
                 via Exec/Lifecycle.v) must deliver the same message -> lifecycle assignment, the same
                 published table and the same listing as the real detector run on the real messages.
     CLc ms    : detector inputs decoded from the real messages (text formats: the converters are not
                 modelled); detector model vs implementation as above.
     CCtrl fn status be p : the parsers of control-message bodies (src/dlt/control_msgs.rs) called directly on
                 the body p; model Crash/ControlMsgs.v vs the real function: parsed structure (or None) and
                 panic / no panic.  fn: 0 log info, 1 sw version, 2 unregister context, 3 connection info,
                 4 timezone.
     CSearch n : search-only case of n input bytes; the models say nothing, the observation only records
                 whether the worker finished the chain (the oracle lives on the Rust side). *)
From Coq Require Import List NArith Bool.
From AdltV Require Import Base.Obs Base.Res Base.MachInt.
From AdltV Require Dlt.Frame Dlt.Iter.
From AdltV Require Import Lifecycle.Model Exec.Lifecycle.
From AdltV Require Crash.ControlMsgs.
Import ListNotations.
Open Scope N_scope.

Inductive case_C03 : Type :=
| CBytes (bs : list N)
| CLc (ms : list mspec)
| CCtrl (fn status : N) (be : bool) (p : list N)
| CSearch (n : N).

(* DltMessage -> what the detector looks at: ECU (as big-endian u32), reception time, timestamp_us() =
   timestamp_dms * 100, has_timestamp(), is_ctrl_request() = ((vmm >> 1) & 7 == 3) && (vmm >> 4 == 1) *)
Definition is_ctrl_request (m : Dlt.Frame.msg) : bool :=
  match Dlt.Frame.m_ext m with
  | Some e => ((Dlt.Frame.verb_mstp_mtin e / 2) mod 8 =? 3) && (Dlt.Frame.verb_mstp_mtin e / 16 =? 1)
  | None => false
  end.
Definition ecu_n (c : Dlt.Frame.char4) : N := match c with (a, b, c', d) => Dlt.Frame.be32 a b c' d end.
Definition spec_of (m : Dlt.Frame.msg) : mspec :=
  (ecu_n (Dlt.Frame.m_ecu m), Dlt.Frame.m_reception_us m, Dlt.Frame.m_timestamp m * 100,
   Dlt.Frame.has_timestamp (Dlt.Frame.m_std m), is_ctrl_request m).

Definition o_deliv (o : list delivery) : otree :=
  T (map (fun x => T [L (m_index (fst x)); L (m_lc (fst x))]) o).

(* observation of the detector part: deliveries, table (sorted by id), listing *)
Definition lc_obs (n : N) (ms : list mspec) : otree :=
  let '(o, t) := detect2 ([], ms) in
  let t' := sort_by_id t in
  T [L 0; L n; o_deliv o; T (map o_row t'); T [L 0; T (map (fun x => L (l_id x)) (listing (map snd t')))]].

(* a decoded string as the harness can observe it: WINDOWS-1252 maps one byte to one char, bytes < 0x80 to
   themselves, all others to non-ASCII chars (rendered 256); RE_NEW_LINE turns \t \n \r into a blank *)
Definition chr (b : N) : N := if (b =? 9) || (b =? 10) || (b =? 13) then 32 else if b <? 128 then b else 256.
Definition o_str (d : list N) : otree := T (map (fun b => L (chr b)) d).
Definition o_id (d : list N) : otree := T (map L d).
Definition o_ctx (c : Crash.ControlMsgs.ctx) : otree :=
  T [o_id (Crash.ControlMsgs.c_id c); oopt L (Crash.ControlMsgs.c_ll c); oopt L (Crash.ControlMsgs.c_ts c);
     oopt o_str (Crash.ControlMsgs.c_desc c)].
Definition o_app (a : Crash.ControlMsgs.app) : otree :=
  T [o_id (Crash.ControlMsgs.a_id a); T (map o_ctx (Crash.ControlMsgs.a_ctxs a)); oopt o_str (Crash.ControlMsgs.a_desc a)].
Definition o_res {A} (f : A -> otree) (r : res A) : otree :=
  match r with Ok a => T [L 0; f a] | Panic _ => T [L 1] | OutOfFuel => T [L 2] end.
Definition run_ctrl (fn status : N) (be : bool) (p : list N) : otree :=
  match fn with
  | 0 => o_res (fun apps => T (map o_app apps)) (Crash.ControlMsgs.parse_log_info status be p)
  | 1 => o_res (oopt o_str) (Crash.ControlMsgs.parse_sw_version be p)
  | 2 => o_res (oopt (fun x : list N * list N * list N => T [o_id (fst (fst x)); o_id (snd (fst x)); o_id (snd x)]))
               (Crash.ControlMsgs.parse_unregister_context p)
  | 3 => o_res (oopt (fun x : N * list N => T [L (fst x); o_id (snd x)])) (Crash.ControlMsgs.parse_connection_info p)
  | _ => o_res (oopt (fun x : N * bool => T [L (fst x); ob (snd x)])) (Crash.ControlMsgs.parse_timezone be p)
  end.

Definition run_C03 (c : case_C03) : otree :=
  match c with
  | CBytes bs =>
      match Dlt.Iter.run_iter 0 bs with
      | Ok (ms, _, _) => lc_obs (N.of_nat (length ms)) (map spec_of ms)
      | Panic s => T [L 1; L s]
      | OutOfFuel => T [L 2]
      end
  | CLc ms => lc_obs (N.of_nat (length ms)) ms
  | CCtrl fn status be p => run_ctrl fn status be p
  | CSearch _ => T [L 0]
  end.

Definition agree_C03 (c : case_C03) (o : otree) : bool :=
  match c with
  | CSearch _ => match o with T [L _] => true | _ => false end
  | _ => otree_eqb (run_C03 c) o
  end.
