(* Executable entry points for the C18 correspondence shards.
   One case = an encoder input (raw payload | DltArg list for payload_from_args | values for the serde
   serializer / dlt_args!), an optional mutation of the produced payload (byte patches, then a cut), the
   message flags, and the answers of the external text functions (float Display, UTF-8-lossy and
   Windows-1252 decoding) on the arguments the implementation decoded.
   Observation = encoder output, items of the argument iterator up to the first None, two more calls of
   next() after that, and payload_as_text. *)
From Coq Require Import List NArith Bool.
From AdltV Require Import Base.Obs Base.Res Base.MachInt Dlt.Args Dlt.Text Dlt.Producers.
Import ListNotations.
Open Scope N_scope.

(* big byte strings are described structurally: a block repeated n times *)
Definition seg := (bytes * N)%type.
Definition expand (s : list seg) : bytes :=
  flat_map (fun sg : seg => concat (repeat (fst sg) (N.to_nat (snd sg)))) s.

Inductive sv_in :=
| IBool (b : bool) | IInt (t bits : N) | IUInt (t n : N) | IFloat (t bits : N)
| IStr (s : list seg) | IBytes (s : list seg) | IAscii (s : list seg) | IUnit.
Definition sv_of (i : sv_in) : sval :=
  match i with
  | IBool b => SBool b | IInt t v => SInt t v | IUInt t v => SUInt t v | IFloat t v => SFloat t v
  | IStr s => SStr (expand s) | IBytes s => SBytes (expand s) | IAscii s => SAscii (expand s) | IUnit => SUnit
  end.

(* a producer inside the crate (Dlt/Producers.v) with what it was given to encode *)
Inductive prod_in :=
| PExportInfo (from_be : bool) (text : list seg)       (* ExportPlugin: one entry of infoTexts; the first exported message has byte order from_be *)
| PBlfAppText (text : list seg)                        (* blf AppText object, text as handed to dlt_args! *)
| PCanFrame (frame_id : N) (data : list seg)           (* asc / blf CAN frame *)
| PAnon (be verbose : bool) (noar : N) (payload : list seg) (rt_us : N)   (* AnonymizePlugin on a log message *)
| PTextLog                                             (* logcat / generic log line *)
| PApidInfo (skip_empty : bool) (apid : bytes) (desc : list seg).   (* GET_LOG_INFO message for a new tag / BusMapping *)

Inductive enc_in :=
| EPayload (s : list seg)
| EFromArgs (args : list (N * bool * list seg))
| ESerde (vals : list sv_in)
| EProduced (p : prod_in).

Record case_C18 := mkcase {
  c_verbose : bool; c_be : bool; c_noar : N;       (* noar is not read by the iterator *)
  c_enc : enc_in;
  c_patch : list (N * N);                          (* payload[pos] = byte, applied in order *)
  c_cut : option N;                                (* payload.truncate(k) *)
  c_orc : list (N * bytes * bytes)                 (* (0 f32 | 1 f64, [bits], Display text) *)
}.

(* ---- observation of byte strings: single bytes as leaves, runs of >= 2 equal bytes as T [L b; L n] *)
Fixpoint runs (l : bytes) : list (N * N) :=
  match l with
  | [] => []
  | b :: r =>
      match runs r with
      | (b', n) :: t => if b =? b' then (b, n + 1) :: t else (b, 1) :: (b', n) :: t
      | [] => [(b, 1)]
      end
  end.
(* incompressible long strings (hex dump of 64 KiB ...) are observed as length + iterated prefix sums
   (no modular reduction: additions only, cheap in vm_compute) *)
Definition bhash (l : bytes) : N * N * N :=
  fold_left (fun h b => let '(h1, h2, h3) := h in let h1 := h1 + b + 1 in let h2 := h2 + h1 in (h1, h2, h3 + h2)) l (0, 0, 0).
Definition o_bytes (l : bytes) : otree :=
  let r := runs l in
  if 600 <? N.of_nat (length r) then let '(h1, h2, h3) := bhash l in T [L 4096; L (plen l); L h1; L h2; L h3]
  else T (map (fun bn : N * N => if snd bn =? 1 then L (fst bn) else T [L (fst bn); L (snd bn)]) r).
Definition o_arg (a : arg) : otree := T [L (a_ti a); ob (a_be a); o_bytes (a_raw a)].

(* ---- the external float Display is answered from the case's table *)
Fixpoint bytes_eqb (a b : bytes) : bool :=
  match a, b with
  | [], [] => true
  | x :: a', y :: b' => (x =? y) && bytes_eqb a' b'
  | _, _ => false
  end.
Fixpoint lookup (k : N) (key : bytes) (tbl : list (N * bytes * bytes)) : bytes :=
  match tbl with
  | [] => []
  | (k', key', v) :: r => if (k =? k') && bytes_eqb key key' then v else lookup k key r
  end.
Definition x_fdisp32 tbl (bits : N) : bytes := lookup 0 [bits] tbl.
Definition x_fdisp64 tbl (bits : N) : bytes := lookup 1 [bits] tbl.
(* the two charset decoders are computed by their executable models (Dlt/Text.v) *)
Definition x_lossy (tbl : list (N * bytes * bytes)) (s : bytes) : bytes := utf8_lossy_model s.
Definition x_w1252 (tbl : list (N * bytes * bytes)) (s : bytes) : bytes := w1252_model s.

(* ---- mutations *)
Fixpoint set_at (l : bytes) (i : nat) (b : N) : bytes :=
  match l, i with
  | [], _ => []
  | _ :: r, O => b :: r
  | x :: r, S k => x :: set_at r k b
  end.
Definition apply_patch (p : bytes) (patch : list (N * N)) : bytes :=
  fold_left (fun acc pb => set_at acc (N.to_nat (fst pb)) (snd pb)) patch p.
Definition apply_cut (p : bytes) (cut : option N) : bytes :=
  match cut with None => p | Some k => firstn (N.to_nat k) p end.

(* ---- encoders *)
Definition mk_arg (x : N * bool * list seg) : arg :=
  {| a_ti := fst (fst x); a_be := snd (fst x); a_raw := expand (snd x) |}.
(* the message a producer builds: Ok None = it writes no message *)
Definition produce (p : prod_in) : res (option bmsg) :=
  match p with
  | PExportInfo from_be text => Ok (export_info_text_msg from_be (expand text))
  | PBlfAppText text => match blf_apptext_msg (expand text) with Ok m => Ok (Some m) | Panic s => Panic s | OutOfFuel => OutOfFuel end
  | PCanFrame id data => Ok (Some (can_frame_msg id (expand data)))
  | PAnon be verbose noar payload rt =>
      Ok (Some (anon_msg {| m_be := be; m_verbose := verbose; m_noar := noar; m_payload := expand payload |} rt))
  | PTextLog => Ok (Some textline_log_msg)
  | PApidInfo skip_empty apid desc =>
      if skip_empty && (plen (expand desc) =? 0) then Ok None else Ok (Some (apid_info_msg apid (expand desc)))
  end.

(* encoder output, and the message handed to the decoder: (verbose, big endian, payload) *)
Definition encode (c_verbose c_be : bool) (e : enc_in) : otree * option (bool * bool * bytes) :=
  match e with
  | EPayload s => (T [], Some (c_verbose, c_be, expand s))
  | EFromArgs args => let p := payload_from_args (map mk_arg args) in (o_bytes p, Some (c_verbose, c_be, p))
  | ESerde vals =>
      match dlt_args (map sv_of vals) with
      | SOk (n, p) => (T [L 0; L (trunc 8 n); o_bytes p], Some (c_verbose, c_be, p))
      | SErr k => (T [L 1; L k], None)
      end
  | EProduced pr =>
      (* the built message is decoded with the flags IT carries *)
      match produce pr with
      | Ok (Some m) => (T [L 2; ob (m_be m); ob (m_verbose m); L (m_noar m); o_bytes (m_payload m)],
                        Some (m_verbose m, m_be m, m_payload m))
      | Ok None => (T [L 3], None)
      | Panic _ => (T [L 7], None)
      | OutOfFuel => (T [L 8], None)
      end
  end.

Definition o_next (r : res (option arg * iter)) : otree * iter :=
  match r with
  | Ok (o, it) => (oopt o_arg o, it)
  | Panic _ => (T [L 1], iter_init false false)
  | OutOfFuel => (T [L 2], iter_init false false)
  end.

Definition run_C18 (c : case_C18) : otree :=
  match encode (c_verbose c) (c_be c) (c_enc c) with
  | (eo, None) => T [eo]
  | (eo, Some (verbose, be, p0)) =>
      let p := apply_cut (apply_patch p0 (c_patch c)) (c_cut c) in
      match msg_args_st verbose be p with
      | Ok (args, it) =>
          let text :=
            if verbose then
              match payload_text (x_fdisp32 (c_orc c)) (x_fdisp64 (c_orc c)) (x_lossy (c_orc c)) (x_w1252 (c_orc c)) be p with
              | Ok t => T [L 0; o_bytes t]
              | Panic _ => T [L 1]
              | OutOfFuel => T [L 2]
              end
            else T [] in
          let '(o1, it1) := o_next (arg_next p it) in
          let '(o2, _) := o_next (arg_next p it1) in
          T [eo; T [L 0; T (map o_arg args)]; text; T [o1; o2]]
      | Panic _ => T [eo; T [L 1]]
      | OutOfFuel => T [eo; T [L 2]]
      end
  end.

Definition agree_C18 : case_C18 -> otree -> bool := agree_det run_C18.
