(* Executable entry points for the C11 correspondence shards.
   A case = one front-end input + the real regex engines' answers on exactly the pairs this case can ask for
   + a list of messages (+ optionally a message whose type byte is swept over all 256 values).
   Key names of the JSON object / DLF elements are spelled here (the model works on enumerations). *)
From Coq Require Import List NArith Bool Ascii.
From Coq Require Export String.
From AdltV Require Import Base.Obs Base.Res.
From AdltV Require Export Filter.Match Filter.MatchEngine Filter.Frontends Filter.FrontendsXml Filter.FrontendsSpec.
Import ListNotations.
Open Scope N_scope.

Definition jkey_names : list (string * jkey) :=
  [("type", KType); ("enabled", KEnabled); ("not", KNot); ("atLoadTime", KAtLoadTime);
   ("ecu", KEcu); ("ecuIsRegex", KEcuIsRegex); ("apid", KApid); ("apidIsRegex", KApidIsRegex);
   ("ctid", KCtid); ("ctidIsRegex", KCtidIsRegex);
   ("ignoreCasePayload", KIgnoreCasePayload); ("payloadRegex", KPayloadRegex); ("payload", KPayload);
   ("logLevelMin", KLogLevelMin); ("logLevelMax", KLogLevelMax); ("lifecycles", KLifecycles);
   ("verb_mstp_mtin", KVerbMstpMtin); ("mstp", KMstp)]%string.
Fixpoint name_lookup {K} (dflt : K) (tbl : list (string * K)) (s : string) : K :=
  match tbl with
  | [] => dflt
  | (n, k) :: r => if String.eqb n s then k else name_lookup dflt r s
  end.
Definition jkey_of_name := name_lookup KOther jkey_names.

Inductive fe_in :=
| InJson (top : option (list (string * jvalue)))     (* None: the text is not a JSON object *)
| InDlf (evs : list xev)                              (* the events quick-xml produces for the file *)
| InConv (buf : list N)
| InEac (s : text)
| InDirect (a : afilter).                             (* Filter::new(kind) + assignment of the public fields *)

(* message as written by the harness: ecu bytes, extended header (type byte, apid, ctid), payload text, lifecycle *)
Definition cmsg := (list N * option (N * list N * list N) * option (list N) * N)%type.
Definition msg_of (c : cmsg) : msg :=
  let '(ecu, ex, t, lc) := c in
  {| m_ecu := pad4 ecu;
     m_ext := match ex with
              | Some (v, a, ct) => Some {| e_vmm := v; e_apid := pad4 a; e_ctid := pad4 ct |}
              | None => None
              end;
     m_text := t; m_lc := lc |}.

(* (engine, pattern, compiles) and (engine, pattern, text, is_match); engines: 0 bytes, 1 fancy, 2 escaped+case-insensitive.
   The answer of is_match is exported as the engine gave it: 0 = no match, 1 = match, 2 = the engine failed at match
   time (Err(RuntimeError(..)) of fancy_regex; the other two engines return a plain bool and never answer 2). *)
Definition vtable := list (N * list N * bool).
Definition rtable := list (N * list N * list N * N).
Definition engine_idx (e : engine) : N := match e with EBytes => 0 | EFancy => 1 | ECi => 2 end.

Fixpoint valid_of (tbl : vtable) (e : engine) (p : pattern) : bool :=
  match tbl with
  | [] => false
  | (e', p', b) :: r => if N.eqb (engine_idx e) e' && text_eqb p p' then b else valid_of r e p
  end.
Fixpoint ans_of (tbl : rtable) (e : engine) (p : pattern) (t : text) : N :=
  match tbl with
  | [] => 0
  | (e', p', t', b) :: r =>
      if N.eqb (engine_idx e) e' && text_eqb p p' && text_eqb t t' then b else ans_of r e p t
  end.
(* regex / regex::bytes: bool *)
Definition re_of (tbl : rtable) (e : engine) (p : pattern) (t : text) : bool := N.eqb (ans_of tbl e p t) 1.
(* fancy_regex: Result<bool, Error> *)
Definition fre_of (tbl : rtable) (p : pattern) (t : text) : eans :=
  match ans_of tbl EFancy p t with 0 => ENoMatch | 1 => EMatch | _ => EError end.

Definition case_C11 := (fe_in * vtable * rtable * list cmsg * option cmsg)%type.

(* ---------------------------------------------------------------- observations *)
Definition otext (t : text) : otree := T (map L t).
Definition oidc (c : option idcrit) : otree :=
  match c with
  | None => T []
  | Some (IdLit l) => T [L 0; otext (id4_bytes l)]
  | Some (IdRe p) => T [L 1; otext p]
  end.
(* the public fields of the loaded Filter *)
Definition o_fields (f : filter) : otree :=
  T [L (f_kind f); ob (f_enabled f); oidc (f_ecu f); oidc (f_apid f); oidc (f_ctid f);
     oopt (fun vm : N * N => T [L (fst vm); L (snd vm)]) (f_vmm f);
     oopt otext (f_payload f); oopt otext (f_payload_regex f); ob (f_ignore_case f);
     oopt L (f_lmin f); oopt L (f_lmax f); oopt (olist L) (f_lifecycles f)].

Definition o_jvalue (v : jvalue) : otree :=
  match v with
  | JNull => T [L 0]
  | JBool b => T [L 1; ob b]
  | JNum n => T [L 2; L n]
  | JStr s => T [L 3; otext s]
  | JArr l => T [L 4; T (map (fun e => match e with ENum n => L n | EOther => T [] end) l)]
  | _ => T [L 5]
  end.
Definition all_jkeys : list jkey :=
  [KType; KEnabled; KNot; KAtLoadTime; KEcu; KEcuIsRegex; KApid; KApidIsRegex; KCtid; KCtidIsRegex;
   KIgnoreCasePayload; KPayloadRegex; KPayload; KLogLevelMin; KLogLevelMax; KLifecycles; KVerbMstpMtin; KMstp].
(* the written object: number of members, then each known key's value *)
Definition o_json (o : jobj) : otree :=
  T [L (N.of_nat (List.length o)); T (map (fun k => oopt o_jvalue (jfind k o)) all_jkeys)].

Definition with_vmm (m : msg) (v : N) : msg :=
  {| m_ecu := m_ecu m;
     m_ext := match m_ext m with
              | Some e => Some {| e_vmm := v; e_apid := e_apid e; e_ctid := e_ctid e |}
              | None => None
              end;
     m_text := m_text m; m_lc := m_lc m |}.
(* bit i of the result = answer for base + i *)
Fixpoint sweep_bits (n : nat) (base : N) (g : N -> bool) : N :=
  match n with
  | O => 0
  | S k => (if g base then 1 else 0) + 2 * sweep_bits k (base + 1) g
  end.
Definition o_sweep (g : msg -> bool) (sw : option cmsg) : otree :=
  match sw with
  | None => T []
  | Some c => let m := msg_of c in
              T [L (sweep_bits 128 0 (fun v => g (with_vmm m v))); L (sweep_bits 128 128 (fun v => g (with_vmm m v)))]
  end.

(* one call of `matches` under catch_unwind: 0 / 1 = the answer, 2 = it panicked *)
Definition o_answer (r : res bool) : otree :=
  match r with Ok b => ob b | Panic _ => L 2 | OutOfFuel => L 3 end.
Definition answer_bit (r : res bool) : bool := match r with Ok b => b | _ => false end.

Section Run.
  Variable vt : vtable.
  Variable rt : rtable.
  Variable msgs : list cmsg.
  Variable sw : option cmsg.

  (* Filter::matches as it is in the code: the payloadRegex engine's answer goes through `unwrap_or(false)` *)
  Definition matches_x (f : filter) (m : msg) : res bool := matches_total (re_of rt) (fre_of rt) f m.
  Definition o_matches (f : filter) : otree := T (map (fun c => o_answer (matches_x f (msg_of c))) msgs).

  Definition o_roundtrip (f : filter) : otree :=
    match from_json_kv (valid_of vt) (JObject (to_json_kv f)) with
    | None => T [L 1]
    | Some f' => T [L 0; o_fields f'; o_matches f'; o_sweep (fun m => answer_bit (matches_x f' m)) sw]
    end.

  Definition o_filter (f : filter) : otree :=
    T [o_fields f; o_matches f; o_sweep (fun m => answer_bit (matches_x f m)) sw; o_json (to_json_kv f); o_roundtrip f].

  Definition o_loaded (r : option (list filter)) : otree :=
    match r with
    | None => T [L 1]
    | Some fs => T [L 0; T (map o_filter fs)]
    end.

  Definition run_fe (i : fe_in) : otree :=
    match i with
    | InJson None => o_loaded (option_map (fun f => [f]) (from_json_kv (valid_of vt) JNotObject))
    | InJson (Some kv) =>
        o_loaded (option_map (fun f => [f])
                    (from_json_kv (valid_of vt) (JObject (map (fun p => (jkey_of_name (fst p), snd p)) kv))))
    | InDlf evs => o_loaded (filters_from_dlf_events (valid_of vt) evs)
    | InConv buf => o_loaded (Some (from_convert_format buf))
    | InDirect a => o_loaded (Some [filter_of a])
    | InEac s =>
        (* driven through `adlt convert --eac=`: only the selection is visible *)
        match eac_from_str (valid_of vt) s with
        | None => T [L 1]
        | Some f => T [L 0; o_matches f]
        end
    end.
End Run.

Definition run_C11 (c : case_C11) : otree :=
  let '(i, vt, rt, msgs, sw) := c in run_fe vt rt msgs sw i.
Definition agree_C11 (c : case_C11) (o : otree) : bool := agree_det run_C11 c o.
