(* Executable entry points for the C14 correspondence shards (the `adlt` binary vs Convert/Select.v).
   One case = one invocation of `adlt convert`.
   Input as the harness writes it ([case_C14]): the files (canonical path number, number of messages inside the
   first 512 KiB, messages as (uid, ecu, reception time us, timestamp us, has timestamp, is control request,
   header parts Filter::matches reads = ECU id bytes + extended header (type byte, APID, CTID) if any)), the file
   arguments (None: a name that cannot be opened), the options with the filter SOURCES as the user wrote them
   (the <filter> elements of the DLF file / the bytes of the dlt-convert format file, then the --eac expressions),
   and the real regex engine's answers for the (pattern, id) pairs of the case.
   [elab] loads the filters with the front-end models of C11 (Filter/Frontends.v via Convert/Verdict.v), evaluates
   the model of Filter::matches (Filter/Match.v) for every message and filter, and produces the [raw_case] the
   convert model works on: messages carrying the verdict of every filter of the filter vector.
   Observation of the implementation:  T [L status; T baseline; T screen; file; listing]
     baseline : uids in the order of `adlt convert -s <same file arguments>` (the unfiltered, numbered input)
     screen   : T [L index; L uid] per stdout message line
     file     : T [] (no file at the -o path after the run) | T [T uids] (its WHOLE final content, re-read);
                the input also says what the path re-read to BEFORE the run (absent / empty / junk / another DLT
                file / output of earlier runs): the model's [path_after] must give the final content
     listing  : T [] | T [T [T [L id; L ecu; L nr_msgs] ...]] sorted by id (printed when no style is given)
   [agree_C14]: the baseline is a run of the merge model on the model's streams (acceptor of C09; exact equality
   when there is one stream), and pushing it through lifecycle detection, filter, output stage of the model gives
   exactly the screen lines / file content / listing observed (with --sort: the same messages in any order). *)
From Coq Require Import List NArith Bool.
From AdltV Require Import Base.Obs Base.Res Base.MachInt Merge.Multi Filter.Sets Lifecycle.Model Convert.Select.
From AdltV Require Export Convert.Verdict.
Import ListNotations.
Open Scope N_scope.

Definition raw_msg := (N * N * N * N * bool * bool * list bool)%type.
Definition raw_file := (N * N * list raw_msg)%type.
Definition raw_opts := (N * N * list N * list (N * bool) * bool * N * bool * option (list N))%type.
Definition raw_case := (list raw_file * list (option N) * raw_opts)%type.

(* ---- the case as the harness writes it, and its elaboration *)
Definition src_msg := (N * N * N * N * bool * bool * hdr)%type.
Definition src_file := (N * N * list src_msg)%type.
Definition src_opts := (N * N * list N * list fsrc * bool * N * bool * option (list N))%type.
Definition case_C14 := (list src_file * list (option N) * src_opts * (vtable * rtable))%type.

Section Elab.
  (* Filter::matches for every filter of the vector *)
  Variable fv_of : hdr -> list bool.
  Definition elab_msg (t : src_msg) : raw_msg :=
    let '(uid, e, rt, ts, has_ts, creq, h) := t in (uid, e, rt, ts, has_ts, creq, fv_of h).
  Definition elab_file (t : src_file) : raw_file :=
    let '(p, scan, ms) := t in (p, scan, map elab_msg ms).
End Elab.
(* None: an --eac expression is rejected (the command fails in clap; the harness generates no such case) *)
Definition elab (c : case_C14) : option raw_case :=
  let '(files, args, so, tbl) := c in
  let '(b, e, lcs, srcs, srt, style, ofile, prior) := so in
  match load_all (valid_of (fst tbl)) srcs with
  | Some fs =>
      Some (map (elab_file (verdicts (re_of (snd tbl)) fs)) files, args,
            (b, e, lcs, map kind_enabled fs, srt, style, ofile, prior))
  | None => None
  end.

Definition mk_cmsg (t : raw_msg) : cmsg :=
  let '(uid, e, rt, ts, has_ts, creq, fv) := t in
  mkc {| m_index := 0; m_ecu := e; m_rt := rt; m_ts := ts; m_has_ts := has_ts; m_creq := creq; m_lc := 0 |} uid fv.
Definition mk_file (t : raw_file) : file :=
  let '(p, scan, ms) := t in mkf p (N.to_nat scan) (map mk_cmsg ms).
Definition mk_args (files : list file) (args : list (option N)) : list arg :=
  map (fun a => match a with Some k => nth_error files (N.to_nat k) | None => None end) args.
Definition mk_kind (k : N) : kind :=
  match k with 0 => Positive | 1 => Negative | 2 => Marker | _ => Event end.
Fixpoint mk_filters (k : N) (l : list (N * bool)) : list flt :=
  match l with
  | [] => []
  | (kd, en) :: r => mkFlt (mk_kind kd) en k :: mk_filters (k + 1) r
  end.
Definition mk_opts (t : raw_opts) : opts :=
  let '(b, e, lcs, fs, srt, style, ofile, _) := t in mko b e lcs (mk_filters 0 fs) srt style ofile.
(* what the -o path re-read to before the run (None: no such file); frames are named by their uid *)
Definition mk_prior (t : raw_opts) : option (list N) := snd t.
Definition frame_of (x : cmsg) : list N := [c_uid x].

(* ---- equality of messages *)
Definition msg_eqb (a b : msg) : bool :=
  (m_index a =? m_index b) && (m_ecu a =? m_ecu b) && (m_rt a =? m_rt b) && (m_ts a =? m_ts b) &&
  Bool.eqb (m_has_ts a) (m_has_ts b) && Bool.eqb (m_creq a) (m_creq b) && (m_lc a =? m_lc b).
Fixpoint bools_eqb (a b : list bool) : bool :=
  match a, b with
  | [], [] => true
  | x :: r, y :: s => Bool.eqb x y && bools_eqb r s
  | _, _ => false
  end.
Definition cmsg_eqb (a b : cmsg) : bool :=
  msg_eqb (c_m a) (c_m b) && (c_uid a =? c_uid b) && bools_eqb (c_fv a) (c_fv b).
Fixpoint nums_eqb (a b : list N) : bool :=
  match a, b with
  | [], [] => true
  | x :: r, y :: s => (x =? y) && nums_eqb r s
  | _, _ => false
  end.

(* ---- reading the observation *)
Fixpoint nums_of (l : list otree) : option (list N) :=
  match l with
  | [] => Some []
  | L n :: r => match nums_of r with Some t => Some (n :: t) | None => None end
  | _ => None
  end.
Fixpoint pairs_of (l : list otree) : option (list (N * N)) :=
  match l with
  | [] => Some []
  | T [L a; L b] :: r => match pairs_of r with Some t => Some ((a, b) :: t) | None => None end
  | _ => None
  end.
Fixpoint find_uid (u : N) (l : list cmsg) : option cmsg :=
  match l with
  | [] => None
  | x :: r => if c_uid x =? u then Some x else find_uid u r
  end.
(* the messages the baseline names, numbered by position (what a heap merge would have produced) *)
Fixpoint obs_msgs (pool : list cmsg) (uids : list N) (idx : N) : option (list cmsg) :=
  match uids with
  | [] => Some []
  | u :: r =>
      match find_uid u pool, obs_msgs pool r (idx + 1) with
      | Some x, Some t => Some (c_set_index idx x :: t)
      | _, _ => None
      end
  end.

Fixpoint ins_pair (x : N * N) (l : list (N * N)) : list (N * N) :=
  match l with
  | [] => [x]
  | y :: r => if fst x <=? fst y then x :: l else y :: ins_pair x r
  end.
Definition sort_pairs (l : list (N * N)) : list (N * N) := fold_right ins_pair [] l.
Fixpoint ins_num (x : N) (l : list N) : list N :=
  match l with
  | [] => [x]
  | y :: r => if x <=? y then x :: l else y :: ins_num x r
  end.
Definition sort_nums (l : list N) : list N := fold_right ins_num [] l.
Fixpoint pairs_eqb (a b : list (N * N)) : bool :=
  match a, b with
  | [], [] => true
  | x :: r, y :: s => (fst x =? fst y) && (snd x =? snd y) && pairs_eqb r s
  | _, _ => false
  end.

(* ---- the model's side of the observation *)
Definition screen_pairs (r : outcome) : list (N * N) := map (fun x => (c_index x, c_uid x)) (r_screen r).
Fixpoint ins_row (x : N * lcy) (l : list (N * lcy)) : list (N * lcy) :=
  match l with
  | [] => [x]
  | y :: r => if fst x <=? fst y then x :: l else y :: ins_row x r
  end.
Definition table_rows (t : table) : list otree :=
  map (fun kv => T [L (fst kv); L (l_ecu (snd kv)); L (l_nr (snd kv))]) (fold_right ins_row [] t).

Definition o_outcome (style : N) (prior : option (list N)) (baseline : list cmsg) (r : outcome) : otree :=
  T [L 0; T (map (fun x => L (c_uid x)) baseline);
     T (map (fun p => T [L (fst p); L (snd p)]) (screen_pairs r));
     match path_after frame_of prior (Some r) with None => T [] | Some l => T [T (map L l)] end;
     if style =? 0 then T [T (table_rows (r_table r))] else T []].

Definition o_path (p : option (list N)) : otree := match p with None => T [] | Some l => T [T (map L l)] end.

(* is the observed baseline a run of the merge? *)
Definition merged_ok (its : list (list cmsg)) (base : list N) : option (list cmsg) :=
  match its with
  | [it] => if nums_eqb (map c_uid it) base then Some it else None
  | _ =>
      match obs_msgs (concat its) base 0 with
      | Some obs => if accepts c_rt c_set_index cmsg_eqb 0 (new_heap its) obs then Some obs else None
      | None => None
      end
  end.

Definition agree_raw (c : raw_case) (o : otree) : bool :=
  let '(rfiles, rargs, ropts) := c in
  let args := mk_args (map mk_file rfiles) rargs in
  let op := mk_opts ropts in
  match o with
  | T [L status; T base; T screen; fileo; listo] =>
      match files_ok args with
      | [] =>
          (* the run fails before the output thread exists: the -o path keeps its state *)
          otree_eqb o (T [L 1; T []; T []; o_path (path_after frame_of (mk_prior ropts) None); T []])
      | _ =>
          match all_its (streams_of args), nums_of base, pairs_of screen with
          | Ok its, Some base_uids, Some scr =>
              match merged_ok its base_uids with
              | Some merged =>
                  let r := t4 op merged (filter_stage (o_filters op) (lc_stage merged)) in
                  (status =? 0) &&
                  (if o_sort op then pairs_eqb (sort_pairs scr) (screen_pairs r) else pairs_eqb scr (screen_pairs r)) &&
                  (* the WHOLE final content of the -o path, whatever it held before *)
                  (match path_after frame_of (mk_prior ropts) (Some r), fileo with
                   | None, T [] => true
                   | Some l, T [T us] =>
                       match nums_of us with
                       | Some uids =>
                           if o_sort op then nums_eqb (sort_nums uids) (sort_nums l)
                           else nums_eqb uids l
                       | None => false
                       end
                   | _, _ => false
                   end) &&
                  otree_eqb listo (if o_style op =? 0 then T [T (table_rows (r_table r))] else T [])
              | None => false
              end
          | _, _, _ => false
          end
      end
  | _ => false
  end.

(* diagnostics: the run of the model in which the heap pops the first minimal entry and --sort changes nothing *)
Definition run_raw (c : raw_case) : otree :=
  let '(rfiles, rargs, ropts) := c in
  let args := mk_args (map mk_file rfiles) rargs in
  let op := mk_opts ropts in
  match convert_first args op, merged_first args with
  | Ok None, _ => T [L 1; T []; T []; match path_after frame_of (mk_prior ropts) None with None => T [] | Some l => T [T (map L l)] end; T []]
  | Ok (Some r), Ok merged => o_outcome (o_style op) (mk_prior ropts) merged r
  | _, _ => T [L 2]
  end.

Definition agree_C14 (c : case_C14) (o : otree) : bool :=
  match elab c with Some rc => agree_raw rc o | None => false end.
Definition run_C14 (c : case_C14) : otree :=
  match elab c with Some rc => run_raw rc | None => T [L 3] end.
