(* C07: lifecycle traces (shared entry points) and, in addition, the listing on synthetic tables *)
From Coq Require Import List NArith Bool.
From AdltV Require Export Base.Obs Exec.Lifecycle.
From AdltV Require Import Lifecycle.Model.
Import ListNotations.
Open Scope N_scope.

(* (id, ecu, start, resume origin (id, start snapshot)) *)
Definition trow := (N * N * N * option (N * N))%type.
Inductive case_C07 := CStream (c : case_LC) | CTable (rows : list trow).

Definition lc_of_row (r : trow) : lcy :=
  let '(i, e, s, res) := r in
  {| l_id := i; l_ecu := e; l_nr := 1; l_nr_creq := 0; l_start := s; l_min_ts := 0; l_max_ts := 0; l_last_rt := s;
     l_resume := match res with Some (oi, os) => Some {| r_id := oi; r_max_ts := 0; r_start := os |} | None => None end |}.

Definition run_C07 (c : case_C07) : otree :=
  match c with
  | CStream s => run_LC s
  | CTable rows => T [L 0; T (map (fun x => L (l_id x)) (listing (map lc_of_row rows)))]
  end.
Definition agree_C07 (c : case_C07) (o : otree) : bool :=
  match c with
  | CStream s => agree_LC_mode 7 s o
  | CTable rows => otree_eqb o (run_C07 c)
  end.
