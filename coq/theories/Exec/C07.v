(* C07 shares the lifecycle entry points *)
From AdltV Require Export Base.Obs Exec.Lifecycle.
Definition case_C07 := case_LC.
Definition agree_C07 := agree_LC.
Definition run_C07 := run_LC.
