(* C05: lifecycle traces (shared entry points, comparing the observables this property is about) and, in addition, the
   sw-version block of Lifecycle::update on its own -- the only place where the lifecycle stage looks into a payload *)
From Coq Require Import List NArith Bool.
From AdltV Require Export Base.Obs Exec.Lifecycle.
From AdltV Require Import Base.Res Crash.ControlMsgs Lifecycle.SwVersion.
Import ListNotations.
Open Scope N_scope.

(* (sw version the lifecycle already has, msg.is_ctrl_response(), first argument, second argument): the arguments are what the
   real DltMessageArgIterator delivered for the message (payload_raw, is_big_endian) *)
Definition swv_case := (option (list N) * bool * option (list N * bool) * option (list N * bool))%type.
Inductive case_C05 := CStream (c : case_LC) | CSwv (c : swv_case).

Definition o_optbytes (o : option (list N)) : otree :=
  match o with None => T [] | Some b => T [T (map L b)] end.
(* T [L 0; sw version afterwards] when the block returns, T [L 1] when it panics *)
Definition run_swv (c : swv_case) : otree :=
  let '(cur, resp, a1, a2) := c in
  match sw_block cur resp a1 a2 with
  | Ok r => T [L 0; o_optbytes r]
  | _ => T [L 1]
  end.

Definition run_C05 (c : case_C05) : otree :=
  match c with CStream s => run_LC s | CSwv s => run_swv s end.
Definition agree_C05 (c : case_C05) (o : otree) : bool :=
  match c with
  | CStream s => agree_LC_mode 5 s o
  | CSwv s => otree_eqb o (run_swv s)
  end.
