(* C05: lifecycle entry points, comparing the observables this property is about *)
From Coq Require Import NArith.
From AdltV Require Export Base.Obs Exec.Lifecycle.
Definition case_C05 := case_LC.
Definition agree_C05 := agree_LC_mode 5%N.
Definition run_C05 := run_LC.
