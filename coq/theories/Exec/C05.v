(* C05 shares the lifecycle entry points *)
From AdltV Require Export Base.Obs Exec.Lifecycle.
Definition case_C05 := case_LC.
Definition agree_C05 := agree_LC.
Definition run_C05 := run_LC.
