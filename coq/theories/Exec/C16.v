(* Executable entry points for the C16 correspondence shards.
   Three kinds of cases:
   - CLib : process_stream_new_msgs called directly (library level), observation = (filtered_msgs, marker) after every call
   - CSess: a websocket session with the real `adlt remote` (streams, queries, window changes, searches, lookups)
   - CBs  : slice::binary_search / partition_point of the toolchain against the modelled algorithm *)
From Coq Require Import List NArith Bool.
From AdltV Require Import Base.Obs Base.Res Base.MachInt Remote.Stream Remote.StreamFast Remote.StreamFilters Remote.StreamTimes.
Import ListNotations.
Open Scope N_scope.

(* concrete messages: what the filters and lookups can see: ids, lifecycle id (ranked), timestamp (0.1 ms), reception
   time (us), msg.index *)
Record cmsg := { c_ecu : N; c_apid : N; c_ctid : N; c_lc : N; c_ts : N; c_rt : N; c_index : N }.

(* the lifecycle table of a session as the lookup reads it: (id, start_time, start recorded for the resumed lifecycle) *)
Definition clc := (N * N * option N)%type.
Definition ctab (l : list clc) : list lc_entry :=
  map (fun e : clc => let '(i, st, r) := e in {| lc_id := i; lc_start := st; lc_resume := r |}) l.
(* the time of a message as binary_search_by_time_us computes it (Remote/StreamTimes.v): start_time of the table entry
   under the message's lifecycle id + timestamp_us(), the reception time without entry *)
Definition c_time (tab : list lc_entry) : cmsg -> N := msg_time c_lc (fun m => c_ts m * 100) c_rt tab.

(* concrete filters as the commands carry them: (type, field, value, enabled);
   type as in the JSON: 0 positive, 1 negative, 2 marker, 3 event;
   field 0 ecu, 1 apid, 2 ctid: the criterion is "the field has the value"; field 3: two criteria in one filter,
   apid = value mod 3 AND ctid = value / 3;
   enabled 0: "enabled":false, 1: no "enabled" key (default true), 2: "enabled":true.
   The container is built by the parse loop of StreamContext::from / process_stream_search_params
   (Remote/StreamFilters.v: only enabled filters are sorted into the list of their kind). *)
Definition cfilt := (N * N * N * N)%type.
Definition cf_eval (f : cfilt) (m : cmsg) : bool :=
  let '(_, field, v, _) := f in
  match field with
  | 0 => c_ecu m =? v
  | 1 => c_apid m =? v
  | 2 => c_ctid m =? v
  | _ => (c_apid m =? v mod 3) && (c_ctid m =? v / 3)
  end.
Definition cf_kind (f : cfilt) : fkind :=
  let '(t, _, _, _) := f in
  match t with 0 => KPos | 1 => KNeg | 3 => KEvent | _ => KMarker end.
Definition cf_enabled (f : cfilt) : bool := let '(_, _, _, en) := f in negb (en =? 0).
Definition cf_parsed (f : cfilt) : pfilter (M:=cmsg) :=
  {| pf_kind := cf_kind f; pf_enabled := cf_enabled f; pf_crit := cf_eval f |}.
Definition cfset (fs : list cfilt) : fset cmsg := fset_of (map cf_parsed fs).

(* PART_CHUNK_SIZE of a non-test build *)
Definition part_chunk : N := 65536.

(* ------------------------------------------------------------------ library level *)
Inductive lcall :=
| LProto (arrive chunk : N)          (* [arrive] further messages of the log become available, then the call of process_file_context *)
| LRaw (offset from cnt chunk : N)   (* process_stream_new_msgs(s, offset, &log[from..from+cnt], chunk) *)
| LEnd (e : N).                      (* msgs_to_send.end = e *)

(* the log, run-length encoded: (count, ecu, apid) *)
Fixpoint gen_run (cnt : nat) (e a c lc ts dts rt drt i : N) : list cmsg :=
  match cnt with
  | O => []
  | S k => {| c_ecu := e; c_apid := a; c_ctid := c; c_lc := lc; c_ts := ts; c_rt := rt; c_index := i |}
           :: gen_run k e a c lc (ts + dts) dts (rt + drt) drt (i + 1)
  end.
Fixpoint expand_from (idx : N) (l : list (N * N * N)) : list cmsg :=
  match l with
  | [] => []
  | (cnt, e, a) :: r => gen_run (N.to_nat cnt) e a 0 0 0 0 0 0 idx ++ expand_from (idx + cnt) r
  end.
Definition expand := expand_from 0.

(* run-length rendering of an ascending index list: (first, count) *)
Fixpoint runs_aux (l : list N) (cur : option (N * N)) : list (N * N) :=
  match l with
  | [] => match cur with Some c => [c] | None => [] end
  | x :: r =>
    match cur with
    | Some (a, n) => if x =? a + n then runs_aux r (Some (a, n + 1)) else (a, n) :: runs_aux r (Some (x, 1))
    | None => runs_aux r (Some (x, 1))
    end
  end.
Definition o_runs (l : list N) : otree := T (map (fun r => T [L (fst r); L (snd r)]) (runs_aux l None)).
Definition o_state (s : sctx cmsg) : otree := T [o_runs (s_filtered s); L (s_last s)].

Fixpoint run_lib (log : list cmsg) (avail : N) (s : sctx cmsg) (calls : list lcall) : list otree :=
  match calls with
  | [] => []
  | c :: r =>
    match c with
    | LProto arrive chunk =>
        let avail' := N.min (len log) (avail + arrive) in
        let s' := feed part_chunk (firstN avail' log) chunk s in
        o_state s' :: run_lib log avail' s' r
    | LRaw offset from cnt chunk =>
        let s' := process_stream_new_msgs part_chunk s offset (firstN cnt (skipN from log)) chunk in
        o_state s' :: run_lib log avail s' r
    | LEnd e =>
        let s' := set_to_end s e in
        o_state s' :: run_lib log avail s' r
    end
  end.

(* ------------------------------------------------------------------ sessions *)
Inductive sop :=
| SNew (settle is_stream binary : bool) (fs : list cfilt) (start end_ : N)
| SWindow (settle : bool) (k start end_ : N)        (* k: ordinal of the stream among the SNew ops of the session *)
| SStop (k : N)
| SSearch (k start maxr : N) (fs : list cfilt)
| SPages (k start maxr : N) (fs : list cfilt)       (* follow next_search_idx until it is null *)
| SLookIdx (k idx : N)
| SLookTime (k t : N)
| SBad (kind : N)                    (* a command the server rejects (the harness knows the text): err reply, nothing else *)
| SLookIdxAll (k n : N)              (* index= for every index 0..n *)
| SLookTimeAll (k t0 step cnt : N)  (* time lookups at t0 + j*step (us), j < cnt *)
| SLookTimes (k : N) (ts : list N). (* time lookups at the listed times (us) *)

(* [fast_run] = [run] on every reachable state (Remote/StreamFastProofs.v, pinned as C16_fast_run_is_run); it makes
   sessions with windows of some 100 000 messages evaluable *)
Definition c_run (tab : list lc_entry) (sorted : bool) := @fast_run cmsg part_chunk (c_time tab) c_index sorted.
Definition c_step (tab : list lc_entry) (sorted : bool) := @step cmsg part_chunk (c_time tab) c_index sorted.

(* what was delivered_obs under [id] in a list of events: message indices, text positions, number of end markers *)
Fixpoint delivered_obs (id : N) (evs : list (event cmsg)) : list N * list N * N :=
  match evs with
  | [] => ([], [], 0)
  | e :: r =>
    let '(ix, ps, d) := delivered_obs id r in
    match e with
    | EFrame (FMsgs i ms) => if i =? id then (map c_index ms ++ ix, ps, d) else (ix, ps, d)
    | EFrame (FText i p m) => if i =? id then (c_index m :: ix, p :: ps, d) else (ix, ps, d)
    | EFrame (FDone i) => if i =? id then (ix, ps, d + 1) else (ix, ps, d)
    | _ => (ix, ps, d)
    end
  end.
(* number of messages delivered under [id] before its first end marker (all of them if there is none) *)
Fixpoint before_done (id : N) (evs : list (event cmsg)) (n : N) : N :=
  match evs with
  | [] => n
  | EFrame (FMsgs i ms) :: r => before_done id r (if i =? id then n + len ms else n)
  | EFrame (FText i _ _) :: r => before_done id r (if i =? id then n + 1 else n)
  | EFrame (FDone i) :: r => if i =? id then n else before_done id r n
  | _ :: r => before_done id r n
  end.

(* long index lists are observed by (count, first, last, checksum) *)
Definition chk_mod : N := 1000000007.
Fixpoint chk (l : list N) (k acc : N) : N :=
  match l with
  | [] => acc
  | x :: r => chk r (k + 1) ((acc + (x + 1) * k) mod chk_mod)
  end.
Definition o_ix (l : list N) : otree :=
  if len l <=? 64 then T [L 0; T (map L l)]
  else T [L 1; L (len l); L (hd 0 l); L (last l 0); L (chk l 1 0)].

(* the last StreamInfo under [id]: (nr_stream_msgs, processed, total) *)
Fixpoint last_info (id : N) (evs : list (event cmsg)) (cur : option (N * N * N)) : option (N * N * N) :=
  match evs with
  | [] => cur
  | EFrame (FInfo i a b c) :: r => last_info id r (if i =? id then Some (a, b, c) else cur)
  | _ :: r => last_info id r cur
  end.
(* for a query the numbers of its last StreamInfo depend on the batching (it may end while the file is read): not observed *)
Definition o_info (is_stream : bool) (i : option (N * N * N)) : otree :=
  match i with
  | None => T []
  | Some (a, b, c) => if is_stream then T [L a; L b; L c] else T []
  end.
(* [with_info]: only for the first id of a stream (whether a renewed id sees a StreamInfo depends on the batching) *)
Definition o_delivered (with_info is_stream : bool) (id : N) (evs : list (event cmsg)) : otree :=
  let '(ix, ps, d) := delivered_obs id evs in
  T [o_ix ix; o_ix ps; L d; L (before_done id evs 0);
     if with_info then o_info is_stream (last_info id evs None) else T []].

Record sess := {
  ss_sv : server cmsg;
  ss_loaded : bool;
  ss_ids : list N;              (* current id of the k-th stream *)
  ss_trace : list (event cmsg); (* all events so far *)
  ss_created : list (N * bool)  (* every announced id with: was the announcing op settled *)
}.

Definition o_panic : otree := T [L 99].

Definition nth_id (ids : list N) (k : N) : N := nth (N.to_nat k) ids 0.
Fixpoint set_nth_id (ids : list N) (k : nat) (id : N) : list N :=
  match ids, k with
  | [], _ => []
  | _ :: r, O => id :: r
  | x :: r, S k' => x :: set_nth_id r k' id
  end.

(* apply model ops, appending to the trace; None on a model panic *)
Definition apply (tab : list lc_entry) (sorted : bool) (st : sess) (ops : list (op cmsg)) : option (sess * list (event cmsg)) :=
  match c_run tab sorted (ss_sv st) ops with
  | Ok (sv', evs) => Some ({| ss_sv := sv'; ss_loaded := ss_loaded st; ss_ids := ss_ids st;
                             ss_trace := ss_trace st ++ evs; ss_created := ss_created st |}, evs)
  | _ => None
  end.

(* settle: the file is completely loaded (first time: its messages arrive now), then two more ticks *)
Definition settle_ops (file : list cmsg) (loaded : bool) : list (op cmsg) :=
  [OTick (if loaded then [] else file) true; OTick [] true].

Definition with_loaded (st : sess) : sess :=
  {| ss_sv := ss_sv st; ss_loaded := true; ss_ids := ss_ids st; ss_trace := ss_trace st; ss_created := ss_created st |}.
Definition with_ids (st : sess) (ids : list N) (created : list (N * bool)) : sess :=
  {| ss_sv := ss_sv st; ss_loaded := ss_loaded st; ss_ids := ids; ss_trace := ss_trace st; ss_created := created |}.

Definition do_settle (tab : list lc_entry) (sorted : bool) (file : list cmsg) (st : sess) : option sess :=
  match apply tab sorted st (settle_ops file (ss_loaded st)) with
  | Some (st', _) => Some (with_loaded st')
  | None => None
  end.

Definition o_next (n : option N) : otree := match n with Some i => T [L i] | None => T [] end.

Fixpoint pages_obs (fuel : nat) (tab : list lc_entry) (sorted : bool) (st : sess) (id start maxr : N) (fs : list cfilt) : list otree :=
  match fuel with
  | O => [T [L 98]]
  | S f =>
    match c_step tab sorted (ss_sv st) (OSearch id start maxr (cfset fs)) with
    | Ok (_, [EReplySearch _ idxs next]) =>
        T [L 0; T (map L idxs); o_next next] ::
        match next with Some n => pages_obs f tab sorted st id n maxr fs | None => [] end
    | Ok (_, _) => [T [L 1]]
    | _ => [o_panic]
    end
  end.

(* searches, lookups and stops are asked in settled states only (a raced query may or may not have ended yet) *)
Definition needs_settled (o : sop) : bool :=
  match o with SSearch _ _ _ _ | SPages _ _ _ _ | SLookIdx _ _ | SLookTime _ _ | SStop _ | SLookIdxAll _ _
               | SLookTimeAll _ _ _ _ | SLookTimes _ _ => true | _ => false end.

Definition look_obs (tab : list lc_entry) (sorted : bool) (st : sess) (o : op cmsg) : otree :=
  match c_step tab sorted (ss_sv st) o with
  | Ok (_, [EReplyLookup _ (Some p)]) => T [L 0; L p]
  | Ok (_, _) => T [L 1]
  | _ => o_panic
  end.

Definition sess_step (tab : list lc_entry) (sorted : bool) (file : list cmsg) (st0 : sess) (o : sop) : sess * otree :=
  let st := if needs_settled o && negb (ss_loaded st0)
            then match do_settle tab sorted file st0 with Some s => s | None => st0 end else st0 in
  match o with
  | SNew settle is_stream binary fs start end_ =>
      match apply tab sorted st [ONew is_stream binary (cfset fs) start end_] with
      | Some (st1, [EReplyNew id]) =>
          let st2 := with_ids st1 (ss_ids st1 ++ [id]) (ss_created st1 ++ [(id, settle)]) in
          if settle then
            match do_settle tab sorted file st2 with
            | Some st3 => (st3, T [L 0; o_delivered true is_stream id (ss_trace st3)])
            | None => (st2, o_panic)
            end
          else (st2, T [L 0; T []])
      | _ => (st, o_panic)
      end
  | SWindow settle k start end_ =>
      match apply tab sorted st [OWindow (nth_id (ss_ids st) k) start end_] with
      | Some (st1, [EReplyWindow _ nid _ _]) =>
          let st2 := with_ids st1 (set_nth_id (ss_ids st1) (N.to_nat k) nid) (ss_created st1 ++ [(nid, settle)]) in
          if settle then
            match do_settle tab sorted file st2 with
            | Some st3 => (st3, T [L 0; o_delivered false true nid (ss_trace st3)])
            | None => (st2, o_panic)
            end
          else (st2, T [L 0; T []])
      | Some (st1, _) => (st1, T [L 1])
      | None => (st, o_panic)
      end
  | SStop k =>
      match apply tab sorted st [OStop (nth_id (ss_ids st) k)] with
      | Some (st1, [EReplyStop _]) => (st1, T [L 0])
      | Some (st1, _) => (st1, T [L 1])
      | None => (st, o_panic)
      end
  | SSearch k start maxr fs =>
      match apply tab sorted st [OSearch (nth_id (ss_ids st) k) start maxr (cfset fs)] with
      | Some (st1, [EReplySearch _ idxs next]) => (st1, T [L 0; T (map L idxs); o_next next])
      | Some (st1, _) => (st1, T [L 1])
      | None => (st, o_panic)
      end
  | SPages k start maxr fs =>
      (st, T (pages_obs (S (length file)) tab sorted st (nth_id (ss_ids st) k) start maxr fs))
  | SLookIdx k idx =>
      match apply tab sorted st [OLookupIdx (nth_id (ss_ids st) k) idx] with
      | Some (st1, [EReplyLookup _ (Some p)]) => (st1, T [L 0; L p])
      | Some (st1, _) => (st1, T [L 1])
      | None => (st, o_panic)
      end
  | SBad _ =>
      match apply tab sorted st [OReject] with
      | Some (st1, [EErr]) => (st1, T [L 1])
      | Some (st1, _) => (st1, T [L 0])
      | None => (st, o_panic)
      end
  | SLookIdxAll k n =>
      (st, T (map (fun i => look_obs tab sorted st (OLookupIdx (nth_id (ss_ids st) k) i)) (positions 0 (N.to_nat (n + 1)))))
  | SLookTimeAll k t0 step cnt =>
      (st, T (map (fun j => look_obs tab sorted st (OLookupTime (nth_id (ss_ids st) k) (t0 + j * step))) (positions 0 (N.to_nat cnt))))
  | SLookTimes k ts =>
      (st, T (map (fun t => look_obs tab sorted st (OLookupTime (nth_id (ss_ids st) k) t)) ts))
  | SLookTime k t =>
      match apply tab sorted st [OLookupTime (nth_id (ss_ids st) k) t] with
      | Some (st1, [EReplyLookup _ (Some p)]) => (st1, T [L 0; L p])
      | Some (st1, _) => (st1, T [L 1])
      | None => (st, o_panic)
      end
  end.

Fixpoint sess_run (tab : list lc_entry) (sorted : bool) (file : list cmsg) (st : sess) (ops : list sop) : sess * list otree :=
  match ops with
  | [] => (st, [])
  | o :: r =>
    let '(st1, ob) := sess_step tab sorted file st o in
    let '(st2, obs) := sess_run tab sorted file st1 r in
    (st2, ob :: obs)
  end.

(* totals at the end of the session for every id whose announcing op was settled *)
Definition o_totals (st : sess) : otree :=
  T (map (fun c : N * bool =>
            if snd c then let '(ix, _, d) := delivered_obs (fst c) (ss_trace st) in T [L (len ix); L d] else T [])
         (ss_created st)).

Definition run_sess (tab : list lc_entry) (sorted preload : bool) (file : list cmsg) (ops : list sop) : otree :=
  let st0 := {| ss_sv := server0 1; ss_loaded := false; ss_ids := []; ss_trace := []; ss_created := [] |} in
  let st1 := if preload then match do_settle tab sorted file st0 with Some s => s | None => st0 end else st0 in
  let '(st2, obs) := sess_run tab sorted file st1 ops in
  (* final settle: everything that is still due arrives *)
  match do_settle tab sorted file st2 with
  | Some st3 => T [T obs; o_totals st3]
  | None => o_panic
  end.

(* ------------------------------------------------------------------ std binary search *)
Definition o_bres (r : bres) : otree := match r with BOk i => T [L 0; L i] | BErr i => T [L 1; L i] end.

(* ------------------------------------------------------------------ cases *)
(* the file of a session in all_msgs order, run-length encoded:
   (count, ecu, apid, ctid, lifecycle, ts0, dts, rt0, drt, idx0); timestamp, reception time and index advance linearly
   inside a run *)
Definition frun := (N * N * N * N * N * N * N * N * N * N)%type.
Fixpoint expand_file (l : list frun) : list cmsg :=
  match l with
  | [] => []
  | (cnt, e, a, c, lc, ts0, dts, rt0, drt, i0) :: r => gen_run (N.to_nat cnt) e a c lc ts0 dts rt0 drt i0 ++ expand_file r
  end.

Inductive case_C16 :=
| CLib (is_stream : bool) (fs : list cfilt) (start end_ : N) (log : list (N * N * N)) (calls : list lcall)
| CSess (sorted preload : bool) (lcs : list clc) (file : list frun) (ops : list sop)
| CBs (l : list N) (key : N).

Definition run_C16 (c : case_C16) : otree :=
  match c with
  | CLib is_stream fs start end_ log calls =>
      T (run_lib (expand log) 0 (new_ctx 0 is_stream true (cfset fs) start end_) calls)
  | CSess sorted preload lcs file ops => run_sess (ctab lcs) sorted preload (expand_file file) ops
  | CBs l key =>
      T [o_bres (std_bsearch (fun x => N.compare x key) l); L (partition_point (fun x => x <? key) l)]
  end.

Definition agree_C16 : case_C16 -> otree -> bool := agree_det run_C16.
