(* Executable entry points for the C09 correspondence shards. *)
From Coq Require Import List NArith Bool.
From AdltV Require Import Base.Obs Base.Res Base.MachInt Merge.Multi.
Import ListNotations.
Open Scope N_scope.

Record cm := { c_idx : N; c_src : N; c_pos : N; c_rt : N }.
Definition cm_set_index (i : N) (m : cm) : cm := {| c_idx := i; c_src := c_src m; c_pos := c_pos m; c_rt := c_rt m |}.
Definition cm_eqb (a b : cm) : bool :=
  N.eqb (c_idx a) (c_idx b) && N.eqb (c_src a) (c_src b) && N.eqb (c_pos a) (c_pos b) && N.eqb (c_rt a) (c_rt b).

(* input: variant, start index, sources as lists of (reception time, own index) *)
Definition case_C09 := (N * N * list (list (N * N)))%type.

Fixpoint tag_src (s p : N) (l : list (N * N)) : list cm :=
  match l with
  | [] => []
  | (r, i) :: t => {| c_idx := i; c_src := s; c_pos := p; c_rt := r |} :: tag_src s (p + 1) t
  end.
Fixpoint tag_its (s : N) (its : list (list (N * N))) : list (list cm) :=
  match its with [] => [] | it :: r => tag_src s 0 it :: tag_its (s + 1) r end.

Definition o_cm (m : cm) : otree := T [L (c_idx m); L (c_src m); L (c_pos m); L (c_rt m)].
Definition cm_of_otree (o : otree) : option cm :=
  match o with
  | T [L i; L s; L p; L r] => Some {| c_idx := i; c_src := s; c_pos := p; c_rt := r |}
  | _ => None
  end.
Fixpoint cms_of (l : list otree) : option (list cm) :=
  match l with
  | [] => Some []
  | o :: r => match cm_of_otree o, cms_of r with Some m, Some ms => Some (m :: ms) | _, _ => None end
  end.

Definition o_res (r : res (list cm)) : otree :=
  match r with
  | Ok l => T [L 0; T (map o_cm l)]
  | Panic _ => T [L 1]
  | OutOfFuel => T [L 2]
  end.

Definition total (its : list (list cm)) : N := N.of_nat (length (concat its)).

(* observation of the implementation: T [L 0; T msgs] on normal termination, T [L 1] on panic *)
Definition agree_sort (start : N) (its : list (list cm)) (o : otree) : bool :=
  if start + total its <=? u32max then
    match o with
    | T [L 0; T ms] =>
        match cms_of ms with
        | Some obs => accepts c_rt cm_set_index cm_eqb start (new_heap its) obs
        | None => false
        end
    | _ => false
    end
  else
    (* `self.index += 1` overflows in a debug build: the implementation must have panicked *)
    match its with
    | [] => otree_eqb o (T [L 0; T []])
    | _ => otree_eqb o (T [L 1])
    end.

(* variants 4..6: SequentialMultiIterator::new_or_single_it over outer iterators with inexact (truthful) size hints:
   4 = filter (0, Some n); 5 = peekable after one peek (1, Some n) / (0, Some 0); 6 = (1, None) / (0, None) *)
Definition hint_of (variant n : N) : N * option N :=
  match variant with
  | 4 => (0, Some n)
  | 5 => if n =? 0 then (0, Some 0) else (1, Some n)
  | 6 => if n =? 0 then (0, None) else (1, None)
  | _ => (n, Some n)
  end.

Definition agree_C09 (c : case_C09) (o : otree) : bool :=
  let '(variant, start, raw) := c in
  let its := tag_its 0 raw in
  match variant with
  | 0 => agree_sort start its o
  | 1 => match its with
         | [it] => otree_eqb o (T [L 0; T (map o_cm it)])
         | _ => agree_sort start its o
         end
  | 2 => otree_eqb o (o_res (seq_run cm_set_index start its))
  | 3 => otree_eqb o (o_res (seq_run_or_single cm_set_index start its))
  | _ => otree_eqb o (o_res (seq_run_or_single_h cm_set_index (hint_of variant (N.of_nat (length its))) start its))
  end.

(* diagnostics: one of the model's runs *)
Definition run_C09 (c : case_C09) : otree :=
  let '(variant, start, raw) := c in
  let its := tag_its 0 raw in
  match variant with
  | 0 => o_res (run_first c_rt cm_set_index (length (concat its)) start (new_heap its))
  | 1 => match its with
         | [it] => T [L 0; T (map o_cm it)]
         | _ => o_res (run_first c_rt cm_set_index (length (concat its)) start (new_heap its))
         end
  | 2 => o_res (seq_run cm_set_index start its)
  | 3 => o_res (seq_run_or_single cm_set_index start its)
  | _ => o_res (seq_run_or_single_h cm_set_index (hint_of variant (N.of_nat (length its))) start its)
  end.
