(* Executable entry points for the C15 correspondence shards.
   One case = one websocket session against a fresh `adlt remote` process:
     (first stream id, list of items);  item = (events seen before the reply: FileInfo counters,
     done-notifications and - TLcs - the lifecycle table the opened file makes the lifecycle thread publish
     (key -> value bag, computed by the harness in-process with the library's parser and lifecycle detector, handed
     over in the pass whose FileInfo reports all messages of the file) in order, frame text, oracle inputs).
   Observation = T [ T [per command: T [reply] | T [L 9] (connection dead / no reply)] ; L connection_alive ]. *)
From Coq Require Export String.
From Coq Require Import List NArith ZArith Bool Ascii.
From AdltV Require Import Base.Obs Base.Res Base.MachInt.
From AdltV Require Export Remote.Dispatch Remote.DispatchTick.
Import ListNotations.
Open Scope N_scope.

Definition case_C15 := (N * list titem)%type.

(* ---- compact constructors used by the generated shards *)
Fixpoint sb (l : list N) : string :=
  match l with
  | [] => EmptyString
  | b :: r => String (ascii_of_N b) (sb r)
  end.
Fixpoint bytes_of (s : string) : list N :=
  match s with
  | EmptyString => []
  | String a r => N_of_ascii a :: bytes_of r
  end.

Definition o0 : orc :=
  {| o_open := OpenErr; o_archive := false; o_nfiles := 1; o_stream := StreamErr; o_search_ok := false; o_nmsgs := 0; o_json := JBad; o_fs := fs0 |}.
Definition oo (r : open_res) : orc :=
  {| o_open := r; o_archive := false; o_nfiles := 1; o_stream := StreamErr; o_search_ok := false; o_nmsgs := 0; o_json := JBad; o_fs := fs0 |}.
(* open with the number of files taken / the archive path *)
Definition oof (r : open_res) (archive : bool) (nfiles : N) : orc :=
  {| o_open := r; o_archive := archive; o_nfiles := nfiles; o_stream := StreamErr; o_search_ok := false; o_nmsgs := 0; o_json := JBad; o_fs := fs0 |}.
Definition os (r : stream_res) : orc :=
  {| o_open := OpenErr; o_archive := false; o_nfiles := 1; o_stream := r; o_search_ok := false; o_nmsgs := 0; o_json := JBad; o_fs := fs0 |}.
(* id commands: search body ok?, number of collected messages *)
Definition oi (search_ok : bool) (nmsgs : N) : orc :=
  {| o_open := OpenErr; o_archive := false; o_nfiles := 1; o_stream := StreamErr; o_search_ok := search_ok; o_nmsgs := nmsgs; o_json := JBad; o_fs := fs0 |}.
(* plugin_cmd: shape of the JSON body *)
Definition oj (j : json_shape) : orc :=
  {| o_open := OpenErr; o_archive := false; o_nfiles := 1; o_stream := StreamErr; o_search_ok := false; o_nmsgs := 0; o_json := j; o_fs := fs0 |}.
(* fs: shape of the JSON body + what the harness found in the environment for the path (its own OS calls / the
   trusted archive helpers called in-process, before the command is sent) *)
Definition ofs (j : json_shape) (f : fs_orc) : orc :=
  {| o_open := OpenErr; o_archive := false; o_nfiles := 1; o_stream := StreamErr; o_search_ok := false; o_nmsgs := 0; o_json := j; o_fs := f |}.
(* a file time: not available | signed nanoseconds relative to the epoch given as (before the epoch?, magnitude) *)
Definition tnone : time_res := None.
Definition tm (before : bool) (ns : N) : time_res := Some (if before then Z.opp (Z.of_N ns) else Z.of_N ns).
Definition fk (n : N) : fkind := match n with 0 => KDir | 1 => KFile | 2 => KSymlink | _ => KOther end.
Definition ftg (n : N) : ftarget := match n with 0 => TgDir | 1 => TgFile | 2 => TgOther | _ => TgErr end.
Definition mok (k tg len : N) (mt ct : time_res) : meta_res :=
  MetaOk {| m_kind := fk k; m_target := ftg tg; m_len := len; m_modified := mt; m_created := ct |}.
Definition mnf : meta_res := MetaErr IoNotFound.
Definition mer : meta_res := MetaErr IoOther.
Definition rdn : readdir_res := RdErr IoNotFound.
Definition rde : readdir_res := RdErr IoOther.
Definition fcmd (n : N) : fs_cmd := match n with 0 => FsCmdStat | 1 => FsCmdReadDir | _ => FsCmdOther end.
Definition fso (has : bool) (cmd : N) (path : string) (meta : meta_res) (rd : readdir_res)
    (ex su mu op : bool) (l : option (list string)) (rc : N) (am : option (N * N)) : fs_orc :=
  {| fo_cmd_path := has; fo_cmd := fcmd cmd; fo_path := path; fo_meta := meta; fo_readdir := rd;
     fo_exists := ex; fo_supported := su; fo_multi := mu; fo_open_ok := op; fo_list := l; fo_rd_count := rc; fo_ameta := am |}.
Definition it (pre : list tevent) (frame : string) (o : orc) : titem :=
  {| t_pre := pre; t_frame := frame; t_orc := o |}.
(* filter classes of the harness templates: 1 = every message matches, 2 = no message matches *)
Definition fl (k : N) : N -> bool := fun _ => k =? 1.
Definition sk (one_pass : bool) (ws we np nn ne k : N) : stream_res := StreamOk one_pass ws we np nn ne (fl k).

(* ---- rendering of replies *)
Definition o_ok (k : ok_kind) : otree :=
  match k with
  | OkOpen n => T [L 0; L 0; T [L n]]
  | OkPaused p => T [L 0; L 1; T [ob p]]
  | OkClose => T [L 0; L 2; T []]
  | OkStream is_stream id np nn ne => T [L 0; L 3; T [ob is_stream; L id; L np; L nn; L ne]]
  | OkSearch id => T [L 0; L 4; T [L id]]
  | OkBinSearch id => T [L 0; L 5; T [L id]]
  | OkWindow old new ws we => T [L 0; L 6; T [L old; L new; L ws; L we]]
  | OkStop id => T [L 0; L 7; T [L id]]
  | OkPluginCmd => T [L 0; L 8; T []]
  | OkFs (FsStat ty size mt ct) => T [L 0; L 9; T [L 0; L ty; L size; L mt; L ct]]
  | OkFs FsInnerErr => T [L 0; L 9; T [L 1]]
  | OkFs (FsList n) => T [L 0; L 9; T [L 2; L n]]
  end.
Definition o_err (k : err_kind) : otree :=
  match k with
  | EOpenAlready n => T [L 1; L 0; T [L n]]
  | EOpenFailed => T [L 1; L 1; T []]
  | ENoFileOpenFirst => T [L 1; L 2; T []]
  | EOnePassOnly => T [L 1; L 3; T []]
  | EStreamCtx => T [L 1; L 4; T []]
  | ECollectNone => T [L 1; L 5; T []]
  | ESearchParams => T [L 1; L 6; T []]
  | EBinSearchFailed id => T [L 1; L 7; T [L id]]
  | EBinSearchUnknown id => T [L 1; L 8; T [L id]]
  | ETooFewParams id => T [L 1; L 9; T [L id]]
  | EWindowParse id => T [L 1; L 10; T [L id]]
  | EIdNotFound id => T [L 1; L 11; T [L id]]
  | ENoFileOpened => T [L 1; L 12; T []]
  | ENotValidId => T [L 1; L 13; T []]
  | EInnerDefault id => T [L 1; L 14; T [L id]]
  | EPluginNoCmds => T [L 1; L 15; T []]
  | EPluginNotFound => T [L 1; L 16; T []]
  | EMissCmdName => T [L 1; L 17; T []]
  | ENotObject => T [L 1; L 18; T []]
  | EJsonParse => T [L 1; L 19; T []]
  | EFsErr => T [L 1; L 20; T []]
  end.
Definition o_reply (r : reply) : otree :=
  match r with
  | ROk k => o_ok k
  | RErr k => o_err k
  | RUnknown e => T [L 2; L 0; T (map L (bytes_of e))]
  end.

(* the event loop of Remote/DispatchTick.v, keeping the replies written before a panic *)
Fixpoint run_obs (st : state) (h : list titem) : list otree * bool :=
  match h with
  | [] => ([], true)
  | i :: r =>
      match apply_tevents st (t_pre i) with
      | Ok st0 =>
          match step st0 (t_frame i) (t_orc i) with
          | Ok (st1, w) =>
              match tick st1 0 with
              | Ok st2 => let '(l, alive) := run_obs st2 r in (T (map o_reply w) :: l, alive)
              | _ => (T (map o_reply w) :: map (fun _ => T [L 9]) r, false)   (* replied, then the pass after it panics *)
              end
          | _ => (map (fun _ => T [L 9]) h, false)
          end
      | _ => (map (fun _ => T [L 9]) h, false)
      end
  end.

Definition run_C15 (c : case_C15) : otree :=
  let '(first_id, h) := c in
  let '(l, alive) := run_obs (init_state first_id) h in
  T [T l; ob alive].

(* The wording after `err:` is not part of the property.  The harness renders an err: reply whose text it does
   not recognise as the generic kind 99; it agrees with EVERY err: kind of the model (same position, same
   reply count).  Everything else - ok: replies with their ids / windows / counts, notices, liveness - is
   compared exactly. *)
Definition is_err_other (o : otree) : bool :=
  match o with T [L 1; L 99; _] => true | _ => false end.
Definition reply_agree (model impl : otree) : bool :=
  if is_err_other impl then match model with T (L 1 :: _) => true | _ => false end
  else otree_eqb model impl.
Fixpoint list_agree (f : otree -> otree -> bool) (ms is_ : list otree) : bool :=
  match ms, is_ with
  | [], [] => true
  | m :: mr, i :: ir => f m i && list_agree f mr ir
  | _, _ => false
  end.
Definition cmd_agree (model impl : otree) : bool :=
  match model, impl with
  | T ms, T is_ => list_agree reply_agree ms is_
  | _, _ => otree_eqb model impl
  end.
Definition agree_C15 (c : case_C15) (o : otree) : bool :=
  match run_C15 c, o with
  | T [T mc; a], T [T ic; b] => list_agree cmd_agree mc ic && otree_eqb a b
  | m, _ => otree_eqb m o
  end.
