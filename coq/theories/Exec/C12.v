(* Executable entry points for the C12 correspondence shards.
   A case carries the filter set as (kind, enabled, truth row of the REAL `Filter::matches` over the case's
   messages); messages are their positions 0..n-1.  The model therefore needs no matcher (C11's business). *)
From Coq Require Import List NArith Bool.
From AdltV Require Import Base.Obs Filter.Sets.
Import ListNotations.
Open Scope N_scope.

Record case_C12 := mkCase {
  k_filters : list (N * bool * list bool);  (* kind 0..3, enabled, row *)
  k_n : N;                                  (* number of messages *)
  k_budget : option N;                      (* filter_as_streams: receiver hangs up after that many messages *)
  k_offset : N;                             (* process_stream_new_msgs: new_msgs_offset *)
  k_chunk : N;                              (*                          max_chunk_size *)
  k_exp_enabled : bool;                     (* export plugin: "enabled" *)
  k_exp_lc : option (list bool);            (* row of the extra negative filter pushed for lifecyclesToKeep *)
  k_from : option N;                        (* recordedTimeFromMs * 1000 *)
  k_to : option N;                          (* recordedTimeToMs * 1000 *)
  k_rts : list N                            (* reception_time_us per message *)
}.

Definition kind_of_N (k : N) : kind :=
  match k with 0 => Positive | 1 => Negative | 2 => Marker | _ => Event end.

Fixpoint mk_flts (id : N) (l : list (N * bool * list bool)) : list flt :=
  match l with
  | [] => []
  | (k, e, _) :: r => mkFlt (kind_of_N k) e id :: mk_flts (id + 1) r
  end.

Definition rows_of (c : case_C12) : list (list bool) :=
  map (fun x => snd x) (k_filters c) ++ match k_exp_lc c with Some r => [r] | None => [] end.

Definition matches_tab (rows : list (list bool)) (f : flt) (m : N) : bool :=
  nth (N.to_nat m) (nth (N.to_nat (f_id f)) rows []) false.

Fixpoint iota (from : N) (n : nat) : list N :=
  match n with O => [] | S k => from :: iota (from + 1) k end.

Definition o_stream (r : list N * option (N * N)) : otree :=
  T [T (map L (fst r)); match snd r with Some (p, f) => T [L p; L f] | None => T [] end].

Definition run_C12 (c : case_C12) : otree :=
  let fs := mk_flts 0 (k_filters c) in
  let mt := matches_tab (rows_of c) in
  let msgs := iota 0 (N.to_nat (k_n c)) in
  let sc := build fs in
  let lc := match k_exp_lc c with Some _ => Some (mkFlt Negative true (N.of_nat (length (k_filters c)))) | None => None end in
  let ec := export_build fs lc in
  let rt := fun m => nth (N.to_nat m) (k_rts c) 0 in
  let psn := process_stream_new mt sc 0 (k_offset c) msgs (N.to_nat (k_chunk c)) in
  let '(written, nexp, nproc) := export_run mt rt (k_exp_enabled c) ec (k_from c) (k_to c) msgs in
  T [ o_stream (filter_as_streams mt fs msgs (option_map N.to_nat (k_budget c)));
      T [ob (filters_active sc); T (map (fun m => ob (match_filters mt sc m)) msgs)];
      T [T (map L (fst psn)); L (snd psn)];
      T [T (map L written); L nexp; L nproc] ].

Definition agree_C12 : case_C12 -> otree -> bool := agree_det run_C12.
