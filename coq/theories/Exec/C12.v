(* Executable entry points for the C12 correspondence shards.
   A case carries the filter set as (kind, enabled, truth row of the REAL `Filter::matches` over the case's
   messages); messages are their positions 0..n-1.  The model therefore needs no matcher (C11's business).
   Only the lifecycle filters the export plugin creates itself ({"type":1,"not":true,"lifecycles":l}) are
   evaluated here by their meaning (matches iff the message's lifecycle is not in l); the harness checks that
   meaning against the real matcher on every case (tag `lc_filter_not_as_assumed`). *)
From Coq Require Import List NArith Bool.
From AdltV Require Import Base.Obs Base.Res Filter.Sets.
Import ListNotations.
Open Scope N_scope.

Record case_C12 := mkCase {
  k_filters : list (N * bool * list bool);  (* kind 0..3, enabled, row *)
  k_n : N;                                  (* number of messages *)
  k_budget : option N;                      (* filter_as_streams: receiver hangs up after that many messages *)
  k_offset : N;                             (* process_stream_new_msgs: new_msgs_offset *)
  k_chunk : N;                              (*                          max_chunk_size *)
  k_exp_enabled : bool;                     (* export plugin: "enabled" *)
  k_from : option N;                        (* recordedTimeFromMs * 1000 *)
  k_to : option N;                          (* recordedTimeToMs * 1000 *)
  k_rts : list N;                           (* reception_time_us per message *)
  k_to_keep : N;                            (* number of lifecyclesToKeep entries (named 0..k-1) *)
  k_handle : bool;                          (* set_lifecycle_read_handle called *)
  k_lcs : list N;                           (* msg.lifecycle per message (canonical numbering) *)
  k_known : list bool;                      (* lifecycle present in the evmap table, per message *)
  k_keeps : list (list bool);               (* keep_lifecycle(entry, msg.ecu, lifecycle of msg): [entry][message] *)
  k_search : bool;                          (* a `stream_search` with the set was run over the websocket (all-pass stream) *)
  k_rounds_chunk : N                        (* max_chunk_size of the server-loop drive of process_stream_new_msgs *)
}.

Definition kind_of_N (k : N) : kind :=
  match k with 0 => Positive | 1 => Negative | 2 => Marker | _ => Event end.

Fixpoint mk_flts (id : N) (l : list (N * bool * list bool)) : list flt :=
  match l with
  | [] => []
  | (k, e, _) :: r => mkFlt (kind_of_N k) e id :: mk_flts (id + 1) r
  end.

Definition tab {A} (rows : list (list A)) (d : A) (i j : N) : A := nth (N.to_nat j) (nth (N.to_nat i) rows []) d.

(* lifecycle lists <-> filter ids above the configured ones *)
Definition lc_base : N := 2 ^ 33.
Definition lc_code (l : list N) : N := fold_left (fun acc x => acc * lc_base + (x + 1)) l 0.
Fixpoint lc_decode (fuel : nat) (n : N) : list N :=
  match fuel with
  | O => []
  | S f => if n =? 0 then [] else lc_decode f (n / lc_base) ++ [n mod lc_base - 1]
  end.

Definition matches_case (c : case_C12) (f : flt) (m : N) : bool :=
  let nf := N.of_nat (length (k_filters c)) in
  if f_id f <? nf then tab (map (fun x => snd x) (k_filters c)) false (f_id f) m
  else
    let code := f_id f - nf in
    negb (memN (nth (N.to_nat m) (k_lcs c) 0) (lc_decode (N.to_nat (N.size code)) code)).

Definition lc_filter_case (c : case_C12) (l : list N) : flt :=
  mkFlt Negative true (N.of_nat (length (k_filters c)) + lc_code l).

Fixpoint iota (from : N) (n : nat) : list N :=
  match n with O => [] | S k => from :: iota (from + 1) k end.

Definition matches_tab (rows : list (list bool)) (f : flt) (m : N) : bool := tab rows false (f_id f) m.

Definition o_stream (r : list N * option (N * N)) : otree :=
  T [T (map L (fst r)); match snd r with Some (p, f) => T [L p; L f] | None => T [] end].

Definition run_C12 (c : case_C12) : otree :=
  let fs := mk_flts 0 (k_filters c) in
  let mt := matches_case c in
  let msgs := iota 0 (N.to_nat (k_n c)) in
  let sc := build fs in
  let rt := fun m => nth (N.to_nat m) (k_rts c) 0 in
  let psn := process_stream_new mt sc 0 (k_offset c) msgs (k_chunk c) in
  let exp :=
    if k_exp_enabled c then
      match export_dyn_loop mt rt (fun m => nth (N.to_nat m) (k_lcs c) 0) (fun m => nth (N.to_nat m) (k_known c) false)
              (fun e m => tab (k_keeps c) false e m) (lc_filter_case c) (k_handle c)
              (export_dyn_init (lc_filter_case c) fs (iota 0 (N.to_nat (k_to_keep c)))) (k_from c) (k_to c) msgs [] 0 0 with
      | Ok (written, nexp, nproc, s) => T [T (map L written); L nexp; L nproc; T (map L (x_exported s))]
      | Panic _ => T [L 1]
      | OutOfFuel => T [L 2]
      end
    else T [T []; L 0; L 0; T []] in
  T [ o_stream (filter_as_streams mt fs msgs (option_map N.to_nat (k_budget c)));
      T [ob (filters_active sc); T (map (fun m => ob (match_filters mt sc m)) msgs)];
      T [T (map L (fst psn)); L (snd psn)];
      exp;
      (* process_stream_search_params: the constructor loop (= build), then match_filters over the stream's messages *)
      if k_search c then T [T (map L (matching_idxs mt sc msgs 0))] else T [];
      (* server loop: ticks until nothing is pending (at most n + 2) *)
      (let r := stream_rounds mt (N.to_nat (k_n c) + 2) sc msgs (k_rounds_chunk c) [] 0 in T [T (map L (fst r)); L (snd r)]) ].

Definition agree_C12 : case_C12 -> otree -> bool := agree_det run_C12.
