(* Executable entry points for the C01 correspondence shards:
   DltMessageIterator::new(start, Cursor::new(bytes)) drained, vs Dlt/Iter.v. *)
From Coq Require Import List NArith Bool.
From AdltV Require Import Base.Obs Base.Res Base.MachInt Dlt.Frame Dlt.Iter.
Import ListNotations.
Open Scope N_scope.

(* input: start index, byte stream as segments (count, block) = block repeated count times *)
Definition case_C01 := (N * list (N * list N))%type.

Fixpoint rep_block (k : nat) (b : bytes) : bytes := match k with O => [] | S k' => b ++ rep_block k' b end.
Definition bytes_of_segs (segs : list (N * list N)) : bytes :=
  concat (map (fun s => rep_block (N.to_nat (fst s)) (snd s)) segs).

Definition o_c4 (c : char4) : otree := match c with (a, b, c', d) => L (be32 a b c' d) end.
Definition cksum (l : bytes) : N := fold_left (fun h b => (h * 31 + b) mod 4294967296) l 7.
(* short byte strings verbatim, long ones as length + checksum + first 8 bytes *)
Definition o_bytes (l : bytes) : otree :=
  if Nat.leb (length l) 64 then T [L 0; T (map L l)] else T [L 1; L (blen l); L (cksum l); T (map L (firstn 8 l))].
Definition o_ext (e : ext_hdr) : otree := T [L (verb_mstp_mtin e); L (noar e); o_c4 (apid e); o_c4 (ctid e)].
Definition o_msg (m : msg) : otree :=
  T [L (m_index m); L (m_reception_us m); o_c4 (m_ecu m); L (m_timestamp m);
     L (htyp (m_std m)); L (mcnt (m_std m)); L (len (m_std m)); oopt o_ext (m_ext m); o_bytes (m_payload m)].
Definition o_ist (s : ist) : otree :=
  T [L (i_index s); L (i_processed s); L (i_skipped s); ob (i_det_storage s); ob (i_det_serial s)].

Definition o_run (r : res (list msg * ist * bytes)) : otree :=
  match r with
  | Ok (ms, st, rest) => T [L 0; T (map o_msg ms); o_ist st; L (blen rest)]
  | Panic _ => T [L 1]
  | OutOfFuel => T [L 2]
  end.

Definition run_C01 (c : case_C01) : otree := o_run (run_iter (fst c) (bytes_of_segs (snd c))).
Definition agree_C01 : case_C01 -> otree -> bool := agree_det run_C01.
