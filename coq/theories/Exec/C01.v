(* Executable entry points for the C01 correspondence shards:
   DltMessageIterator::new(start, Cursor::new(bytes)) drained, vs Dlt/Iter.v.
   The Cursor run is evaluated as [run_fast] (Dlt/IterFast.v: jumps over marker-free stretches instead of re-measuring
   the input at every byte), which equals [run_iter] on every input (Properties/C01.v C01_fast_iter_equal). *)
From Coq Require Import List NArith Bool.
From AdltV Require Import Base.Obs Base.Res Base.MachInt Dlt.Frame Dlt.Iter Dlt.IterFast Dlt.Probe.
Import ListNotations.
Open Scope N_scope.

(* how the iterator is wired to its input:
   WCursor            DltMessageIterator::new(start, Cursor::new(bytes))  (the reader shows the whole rest)
   WLowMark cap low look4
                      DltMessageIterator::new(start, LowMarkBufReader::new(Cursor::new(bytes), cap, low)) as the crate's
                      call sites do; [low] is the value of the crate's own low-mark expression
                      (DLT_MAX_STORAGE_MSG_SIZE, or DLT_MAX_STORAGE_MSG_SIZE + 4 when look4) *)
Inductive wiring : Type :=
| WCursor
| WLowMark (cap low : N) (look4 : bool)
| WSliced (cap low : N) (look4 : bool) (ctor : N) (sched : list (N * N))
| WProbe (read_size first_read : N).
(* WSliced cap low look4 ctor sched
                      the same wiring as WLowMark, but the inner source satisfies its reads in slices: [sched] is the
                      cyclic run-length list (count, size) of the read sizes it chooses (each clipped to [1, room] and to
                      what is left; [] = every read satisfied completely).  [ctor] says how the iterator was built:
                      0 = DltMessageIterator::new, 1 = the same with a logger attached (it.log = Some(..)),
                      2 / 3 = adlt::utils::get_dlt_message_iterator(ext, start, &mut reader, get_new_namespace(), None,
                      None, None / Some(log)) with a DLT extension -- through the boxed iterator only the items and the
                      reader's unconsumed bytes can be observed, not the counters.
                      The model's answer does NOT depend on [sched]: Properties/C01.v
                      C01_iter_recovers_all_scheduled_reads (streams with markers only at the message starts, any
                      schedule, low >= 65551), C04_iter_chunk_independent (any stream, low >= 65555) and C04_lookahead
                      (a stream shorter than the low mark is always shown completely).  The harness generates
                      out-of-domain streams longer than the low mark only with look4. *)

(* WProbe read_size first_read
                      the probe of an input file: adlt::utils::get_dlt_infos_from_read(ext, &mut src, .., read_size, ..)
                      (resp. get_dlt_infos_from_file on a regular file) with a DLT extension, [first_read] = the number
                      of bytes the source delivers at most in one read() (regular file / Cursor: all).  Observed:
                      DltFileInfos.first_msg, the set DltFileInfos.ecus_seen and the bytes taken from the source.  The
                      start index of the case is not used (the probe numbers from 0).  Model: Dlt/Probe.v [probe] (the
                      iterator over a std BufReader of capacity read_size over the bytes read), evaluated as [probe_exec]
                      (Properties/C01.v C01_probe_exec_equal). *)

(* input: wiring, start index, byte stream as segments (count, block) = block repeated count times *)
Definition case_C01 := (wiring * N * list (N * list N))%type.

(* a storage-framed message occupies up to 16 + 65535 bytes; the heuristic looks at 4 more.  The buffered iterator
   equals the whole-buffer iterator only if every fill_buf shows a complete message (or everything up to EOF):
   low mark >= MAX_STORAGE_MSG (+ 4 where the call site promises the look-ahead), and LowMarkBufReader::new asserts
   low + 4096 <= cap.  (Dlt/ChunkProofs.v, iter_chunk_independent, proves the equality for every stream from
   low >= 65555; for streams whose markers sit only at message starts 65551 is what the messages need.) *)
Definition MAX_STORAGE_MSG : N := 16 + 65535.
Definition wiring_ok (w : wiring) : bool :=
  match w with
  | WCursor => true
  | WLowMark cap low look4 | WSliced cap low look4 _ _ =>
      (MAX_STORAGE_MSG + (if look4 then 4 else 0) <=? low) && (low + 4096 <=? cap)
  | WProbe _ _ => true
  end.

Fixpoint rep_block (k : nat) (b : bytes) : bytes := match k with O => [] | S k' => b ++ rep_block k' b end.
Definition bytes_of_segs (segs : list (N * list N)) : bytes :=
  concat (map (fun s => rep_block (N.to_nat (fst s)) (snd s)) segs).

Definition o_c4 (c : char4) : otree := match c with (a, b, c', d) => L (be32 a b c' d) end.
Definition cksum (l : bytes) : N := fold_left (fun h b => (h * 31 + b) mod 4294967296) l 7.
(* cheap position-sensitive checksum for long byte strings: s1 = sum of the bytes, s2 = sum of the running s1
   (no modulus; N addition only) *)
Definition cksum2 (l : bytes) : N :=
  let r := fold_left (fun (p : N * N) x => let s1 := fst p + x in (s1, snd p + s1)) l (0, 0) in
  snd r * 4294967296 + fst r.
(* short byte strings verbatim, longer ones as length + checksum + first 8 bytes (cksum up to 4096 bytes, cksum2 above) *)
Definition o_bytes (l : bytes) : otree :=
  if Nat.leb (length l) 64 then T [L 0; T (map L l)]
  else if Nat.leb (length l) 4096 then T [L 1; L (blen l); L (cksum l); T (map L (firstn 8 l))]
  else T [L 2; L (blen l); L (cksum2 l); T (map L (firstn 8 l))].
Definition o_ext (e : ext_hdr) : otree := T [L (verb_mstp_mtin e); L (noar e); o_c4 (apid e); o_c4 (ctid e)].
Definition o_msg (m : msg) : otree :=
  T [L (m_index m); L (m_reception_us m); o_c4 (m_ecu m); L (m_timestamp m);
     L (htyp (m_std m)); L (mcnt (m_std m)); L (len (m_std m)); oopt o_ext (m_ext m); o_bytes (m_payload m)].
Definition o_ist (s : ist) : otree :=
  T [L (i_index s); L (i_processed s); L (i_skipped s); ob (i_det_storage s); ob (i_det_serial s)].

Definition o_run (r : res (list msg * ist * bytes)) : otree :=
  match r with
  | Ok (ms, st, rest) => T [L 0; T (map o_msg ms); o_ist st; L (blen rest)]
  | Panic _ => T [L 1]
  | OutOfFuel => T [L 2]
  end.

(* what can be seen through Box<dyn Iterator<Item = DltMessage>>: the items and the bytes the reader still holds *)
Definition o_run_items (r : res (list msg * ist * bytes)) : otree :=
  match r with
  | Ok (ms, _, rest) => T [L 3; T (map o_msg ms); L (blen rest)]
  | Panic _ => T [L 1]
  | OutOfFuel => T [L 2]
  end.

(* a HashSet<DltChar4> is observed as the strictly increasing list of its elements' big-endian values *)
Definition c4n (c : char4) : N := match c with (a, b, c', d) => be32 a b c' d end.
Fixpoint set_ins (x : N) (l : list N) : list N :=
  match l with
  | [] => [x]
  | y :: t => if x <? y then x :: l else if x =? y then l else y :: set_ins x t
  end.
Definition set_of (l : list N) : list N := fold_right set_ins [] l.

Definition o_probe (consumed : N) (r : res (option msg * list char4)) : otree :=
  match r with
  | Ok (first, ecus) => T [L 4; oopt o_msg first; T (map L (set_of (map c4n ecus))); L consumed]
  | Panic _ => T [L 1]
  | OutOfFuel => T [L 2]
  end.

Definition run_C01 (c : case_C01) : otree :=
  let '(w, start, segs) := c in
  match w with
  | WCursor => o_run (run_fast start (bytes_of_segs segs))
  | WLowMark cap low look4 =>
      (* the crate's constants must meet the bound; then the buffered run is the whole-buffer run *)
      if wiring_ok w then o_run (run_fast start (bytes_of_segs segs))
      else T [L 9; L MAX_STORAGE_MSG; L low; L cap]
  | WSliced cap low look4 ctor _ =>
      (* sliced reads: the same answer for every schedule (see above) *)
      if wiring_ok w then (if 2 <=? ctor then o_run_items else o_run) (run_fast start (bytes_of_segs segs))
      else T [L 9; L MAX_STORAGE_MSG; L low; L cap]
  | WProbe read_size first_read =>
      let data := bytes_of_segs segs in
      o_probe (blen (probe_window read_size first_read data)) (probe_exec read_size first_read data)
  end.
Definition agree_C01 : case_C01 -> otree -> bool := agree_det run_C01.
