(* Executable entry points for the C10 correspondence shards. *)
From Coq Require Import List NArith Bool.
From AdltV Require Import Base.Obs Base.Res Base.MachInt Sort.BufferSort.
Import ListNotations.
Open Scope N_scope.

(* one message: (index, reception time us, ecu, timestamp dms, extended header code: 0 none, else 1 + verb_mstp_mtin, lifecycle id) *)
Definition raw_msg := (N * N * N * N * N * N)%type.
(* one table entry as the harness read it off the real `Lifecycle` value it put into the evmap:
   (start_time, is_resume() as 0/1, resume_start_time(), resume_time(), end_time(), suspend_duration(), nr_msgs) *)
Definition raw_item := (N * N * N * N * N * N * N)%type.
Definition item_of (r : raw_item) : lc_item :=
  let '(s, isr, rs, rtm, e, su, nr) := r in mkitem s (negb (isr =? 0)) rs rtm e su nr.
(* input: window size (secs), minimum delay (us), lifecycle table versions, the stream.
   A version is (number of delivered messages from which it is in force, table); table None: the read handle
   yields no map (never refreshed or destroyed), Some l: published map id -> entry.  The first version
   is in force from 0; thresholds increase. *)
Definition raw_table := option (list (N * raw_item)).
Definition version := (N * raw_table)%type.
Definition case_C10 := (N * N * list version * list raw_msg)%type.

Fixpoint tag_msgs (t : N) (l : list raw_msg) : list msg :=
  match l with
  | [] => []
  | (idx, rt, ecu, ts, ext, lc) :: r => mkmsg idx rt ecu ts (is_ctrl_request ext) lc t :: tag_msgs (t + 1) r
  end.

Fixpoint assoc {A} (l : list (N * A)) (id : N) : option A :=
  match l with [] => None | (k, v) :: r => if k =? id then Some v else assoc r id end.
(* the published map as a function id -> entry *)
Definition items_of (t : raw_table) : item_table :=
  match t with None => fun _ => None | Some l => fun id => option_map item_of (assoc l id) end.
(* what the sort reads of it: the start_time field of the entry *)
Definition table_of (t : raw_table) : table := table_of_items (items_of t).
(* tables whose entries are plain (no resume): (id, start_time) pairs *)
Definition plain_table (l : list (N * N)) : raw_table := Some (map (fun x => (fst x, (snd x, 0, snd x, snd x, snd x, 0, 1))) l).
Fixpoint version_at (vs : list version) (np : N) (cur : raw_table) : raw_table :=
  match vs with
  | [] => cur
  | (t, tb) :: r => if t <=? np then version_at r np tb else cur
  end.
(* the table seen by a lookup made after np messages have been delivered *)
Definition item_tables_of (vs : list version) : nat -> nat -> item_table := fun _ np => items_of (version_at vs (N.of_nat np) None).
Definition tables_of (vs : list version) : tables := fun i np => table_of_items (item_tables_of vs i np).

Fixpoint leaves (l : list otree) : option (list N) :=
  match l with
  | [] => Some []
  | L n :: r => match leaves r with Some ns => Some (n :: ns) | None => None end
  | _ => None
  end.

Fixpoint list_N_eqb (a b : list N) : bool :=
  match a, b with
  | [], [] => true
  | x :: a', y :: b' => (x =? y) && list_N_eqb a' b'
  | _, _ => false
  end.

(* the observed tag sequence [tags] is the output of the run of the model whose picker is reconstructed from it *)
Definition accepts (w mind : N) (lcs : tables) (input : list msg) (tags : list N) : bool :=
  match run (pick_obs tags) w mind lcs input with
  | Ok out => list_N_eqb (map m_tag out) tags
  | _ => false
  end.

Definition is_panic {A} (r : res A) : bool := match r with Panic _ => true | _ => false end.

(* observation of the implementation: T [L 0; T tags; L intact] (tags = input positions of the messages in
   outflow order; intact = 1 iff every delivered message is field-for-field the input message) or T [L 1] on panic *)
Definition agree_C10 (c : case_C10) (o : otree) : bool :=
  let '(w, mind, tbl, raw) := c in
  let input := tag_msgs 0 raw in
  match o with
  | T [L 0; T ts; L intact] =>
      match leaves ts with
      | Some tags => (intact =? 1) && accepts w mind (tables_of tbl) input tags
      | None => false
      end
  | T [L 1] => is_panic (run pick_first w mind (tables_of tbl) input)
  | _ => false
  end.

(* diagnostics: the run that always pops the first minimal entry *)
Definition run_C10 (c : case_C10) : otree :=
  let '(w, mind, tbl, raw) := c in
  match run pick_first w mind (tables_of tbl) (tag_msgs 0 raw) with
  | Ok out => T [L 0; T (map (fun m => L (m_tag m)) out); L 1]
  | Panic s => T [L 1; L s]
  | OutOfFuel => T [L 2]
  end.
