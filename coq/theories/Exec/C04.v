(* Executable entry points for the C04 correspondence shards. *)
From Coq Require Import List NArith ZArith Bool.
From AdltV Require Import Base.Obs Base.Res Base.MachInt Dlt.Frame Dlt.Iter Dlt.Chunk.
From AdltV Require Export Reader.LowMark.
Import ListNotations.
Open Scope N_scope.

(* signed seek offsets as printed by the harness (the shards do not load the Z notations) *)
Definition zp (n : N) : Z := Z.of_N n.
Definition zn (n : N) : Z := Z.opp (Z.of_N n).

(* byte strings are described structurally (big literal lists are slow to parse) *)
Inductive seg : Type :=
| SLit (l : list N)
| SRep (b n : N)            (* n copies of b *)
| SRamp (a m n : N).        (* (a + i*m) mod 251 for i < n *)

Fixpoint ramp (x m : N) (n : nat) : list N :=
  match n with O => [] | S n' => x :: ramp ((x + m) mod 251) m n' end.
Definition expand1 (s : seg) : list N :=
  match s with
  | SLit l => l
  | SRep b n => repeat b (N.to_nat n)
  | SRamp a m n => ramp (a mod 251) m (N.to_nat n)
  end.
Definition expand (l : list seg) : list N := flat_map expand1 l.

Inductive case_C04 : Type :=
(* LowMarkBufReader::new(source(data, schedule), capacity, low_mark), then the operations one by one *)
| CTrace (capacity low_mark : N) (data : list seg) (sched : list N) (ops : list op)
(* DltMessageIterator::new(start, LowMarkBufReader::new(source(data, schedule), capacity, low_mark)) drained *)
| CIterRd (capacity low_mark : N) (data : list seg) (sched : list N) (start : N)
(* the same with low_mark >= LOOKAHEAD under some schedule: by C04_iter_chunk_independent the schedule,
   capacity and low mark do not matter; the model is the iterator over the whole buffer *)
| CIterWhole (data : list seg) (start : N)
(* position: a fresh iterator on the whole stream and, for every cut (offset c, j messages in front), a fresh
   iterator with start index start + j on the suffix data[c..] *)
| CSuffixes (storage : bool) (data : list seg) (start : N) (cuts : list (N * N)).

(* two running sums as a cheap position-sensitive digest of a byte string *)
Fixpoint digest_go (l : list N) (s1 s2 : N) : N * N :=
  match l with [] => (s1, s2) | b :: t => digest_go t (s1 + b + 1) (s2 + (s1 + b + 1)) end.
Definition o_bytes (l : list N) : list otree :=
  let '(s1, s2) := digest_go l 0 0 in [L (nlen l); L s1; L s2].

Definition o_out (x : out) : otree :=
  match x with
  | RFill w => T (L 0 :: o_bytes w)
  | RUnit => T [L 1]
  | RRead bs => T (L 2 :: o_bytes bs)
  | RSeek (Some n) => T [L 3; L n]
  | RSeek None => T [L 4]
  end.

(* events until the first panic (T [L 9]) *)
Fixpoint run_obs (r : reader) (ops : list op) : list otree :=
  match ops with
  | [] => []
  | o :: ops' =>
      match step_now r o with
      | Ok (x, r1) => T [o_out x; T (o_bytes (window r1))] :: run_obs r1 ops'
      | _ => [T [L 9]]
      end
  end.

Definition o_c4 (c : char4) : otree := match c with (a, b, c', d) => T [L a; L b; L c'; L d] end.
Definition o_msg (m : msg) : otree :=
  T ([L (m_index m); L (m_reception_us m); o_c4 (m_ecu m); L (m_timestamp m);
      L (htyp (m_std m)); L (mcnt (m_std m)); L (len (m_std m));
      oopt (fun e => T [L (verb_mstp_mtin e); L (noar e); o_c4 (apid e); o_c4 (ctid e)]) (m_ext m)]
     ++ o_bytes (m_payload m)).
Definition o_ist (s : ist) : otree :=
  T [L (i_index s); L (i_processed s); L (i_skipped s); ob (i_det_storage s); ob (i_det_serial s)].

Definition o_iter {R} (x : res (list msg * ist * R)) : otree :=
  match x with
  | Ok (ms, st, _) => T [L 0; T (map o_msg ms); o_ist st]
  | Panic _ => T [L 9]
  | OutOfFuel => T [L 8]
  end.

(* the instance of C04_position_independent / C04_counters_do_not_matter at a cut the iterator passes with j >= 1
   messages of framing f yielded: the rest of the whole run is the run of the iterator with only the latch set
   on the suffix, indices advanced by start + j (always true; evaluated so that the correspondence runs the
   theorem's formulation on every case) *)
Definition position_instance (f : framing) (start : N) (d : list N) (c j : N) : bool :=
  if j =? 0 then true
  else
    match run_iter start d, drain_fuel (S (length d)) (S (length d)) (latched f (ist_new 0)) (ndrop c d) with
    | Ok (ms, _, _), Ok (ms', _, _) =>
        otree_eqb (T (map o_msg (skipn (N.to_nat j) ms))) (T (map o_msg (map (msg_shift (start + j)) ms')))
    | _, _ => true
    end.

Definition run_C04 (c : case_C04) : otree :=
  match c with
  | CTrace capacity low data sched ops =>
      match new_reader {| s_rest := expand data; s_sched := sched |} capacity low with
      | Ok r => T (run_obs r ops)
      | _ => T [T [L 9]]
      end
  | CIterRd capacity low data sched start => o_iter (run_iter_rd start capacity low (expand data) sched)
  | CIterWhole data start => o_iter (run_iter start (expand data))
  | CSuffixes storage data start cuts =>
      let d := expand data in
      let f := if storage then Storage else Serial in
      T [o_iter (run_iter start d);
         T (map (fun cj => T [L (fst cj); L (snd cj); o_iter (run_iter (start + snd cj) (ndrop (fst cj) d));
                              ob (position_instance f start d (fst cj) (snd cj))]) cuts)]
  end.

Definition agree_C04 := agree_det run_C04.
