(* C13 — model of a linear pipeline of adlt stages connected by bounded channels.

   What is modelled (read line by line in /repo):
   - the send helper  utils/mod.rs:969 sync_sender_send_delay_if_full:
       match tx.try_send(m) { Ok => Ok, Full(m) => { sleep 10 ms; tx.send(m) }, Disconnected(m) => Err }
     [AEnq]   try_send / blocked send succeeds: room in the FIFO and the receiver exists
     [AXfer]  capacity 0 (rendezvous): the message is handed over directly to a receiver sitting in recv()
     [ASleep] try_send returned Full: the 10 ms sleep (a stutter step that only sets the flag `slept`,
              after which the blocking `send` is pending; at most once per message)
     [AErr]   try_send returned Disconnected / the blocking send returned Err: the receiver is gone
   - a stage thread: `for msg in inflow { ... outflow(m) ... }  <flush>  return`
       lifecycle/mod.rs:621-959, plugins/mod.rs:21-43, utils/mod.rs:805-851, filter/functions.rs:28-62
     the Receiver is owned by the loop (dropped when the loop is left), the SyncSender by the closure
     (dropped when the thread function returns): a node is a *receiver* exactly while it is [NRun],
     and a *sender* until it is [NDone].
   - reaction of a stage to a failed send (field [on_err], read per stage):
       plugins `outflow(msg)?`, sort `outflow(..)?` (both loops), filter `return Err(..)`  -> RAbort
       lifecycle send 3 (the message itself) `break` out of the for loop, then the flush loop -> RFlush
       lifecycle send 1/2/4 (inner while over buffered_msgs) `break` out of the inner loop only: the
         failed message is lost, the rest stays buffered, the for loop goes on consuming         -> RCont s' k
       lifecycle flush loop `break`, then return                                                   -> RAbort
   - the wiring of convert.rs:595-657 / remote.rs:2131-2191: source -> ch -> stage -> ch -> ... -> consumer,
     every channel a std::sync::mpsc::sync_channel(cap) (FIFO; recv on an empty channel whose sender is
     gone reports the end of the stream; send to a channel whose receiver is gone reports Err).
   The scheduler is arbitrary: [step] is a relation; any enabled action of any node may fire.
   The consumer may disappear at any step ([ADrop], only in [step true]).

   Stage functions are abstract here (record [stage]): the sequential models of the other properties are
   instances; small concrete instances for execution are at the end of this file.
   No proofs in this file. *)
From Coq Require Import List NArith Bool Arith.
Import ListNotations.

Section Kahn.
  Context {msg St : Type}.

  (* what a stage does when a send fails *)
  Inductive reaction :=
  | RAbort                       (* return from the thread function: receiver and sender are dropped *)
  | RFlush                       (* leave the receive loop (drops the receiver), run the flush code *)
  | RCont (s' : St) (k : nat).    (* the failed message is lost, k further pending ones are not sent now,
                                    the loop goes on in state s' *)

  Record stage := {
    init : St;
    step_fn : St -> msg -> St * list msg;       (* one loop iteration: new state, messages passed to outflow in order *)
    flush : St -> list msg;                    (* the code after the loop *)
    on_err : bool -> St -> list msg -> reaction (* flushing?, state, pending sends (head = the one that failed) *)
  }.

  (* a stage thread: state, messages it still has to send (the remaining outflow calls of the current
     iteration), and whether the helper has already slept for the head message *)
  Inductive nstate :=
  | NRun (s : St) (pend : list msg) (slept : bool)     (* inside `for msg in inflow` *)
  | NFlush (s : St) (pend : list msg) (slept : bool)   (* after the loop: Receiver dropped *)
  | NDone (s : St).                                    (* returned: SyncSender dropped; s = final state (e.g. the lifecycle table) *)

  Record cell := {
    stg : stage;
    ns : nstate;
    q : list msg;      (* the FIFO of this node's output channel, oldest first *)
    cap : nat          (* its capacity; 0 = rendezvous *)
  }.

  (* upstream first; the consumer (alive?, delivered so far) at the end *)
  Inductive pipe :=
  | PEnd (alive : bool) (delivered : list msg)
  | PCell (c : cell) (rest : pipe).

  Definition pend_of (n : nstate) : list msg :=
    match n with NRun _ p _ | NFlush _ p _ => p | NDone _ => [] end.
  Definition slept_of (n : nstate) : bool :=
    match n with NRun _ _ b | NFlush _ _ b => b | NDone _ => false end.
  Definition set_pend (n : nstate) (p : list msg) (b : bool) : nstate :=
    match n with NRun s _ _ => NRun s p b | NFlush s _ _ => NFlush s p b | NDone s => NDone s end.
  Definition state_of (n : nstate) : St :=
    match n with NRun s _ _ | NFlush s _ _ | NDone s => s end.

  Definition with_ns (c : cell) (n : nstate) : cell := {| stg := stg c; ns := n; q := q c; cap := cap c |}.
  Definition with_ns_q (c : cell) (n : nstate) (q' : list msg) : cell := {| stg := stg c; ns := n; q := q'; cap := cap c |}.

  (* does the receiving end of the channel into [p] still exist? *)
  Definition alive (p : pipe) : bool :=
    match p with
    | PEnd b _ => b
    | PCell c _ => match ns c with NRun _ _ _ => true | _ => false end
    end.

  (* sender gone and FIFO drained: recv() reports the end of the stream *)
  Definition closed (c : cell) : bool :=
    match ns c, q c with NDone _, [] => true | _, _ => false end.

  (* the receiver takes the oldest message; with capacity 0 directly out of the sender's hands *)
  Definition take (c : cell) : option (msg * cell) :=
    match q c with
    | m :: q' => Some (m, with_ns_q c (ns c) q')
    | [] =>
      match cap c, pend_of (ns c) with
      | O, m :: pd => Some (m, with_ns c (set_pend (ns c) pd false))
      | _, _ => None
      end
    end.

  (* the head of [p] is blocked in recv() and gets message m *)
  Definition accept (m : msg) (p : pipe) : option pipe :=
    match p with
    | PEnd true d => Some (PEnd true (d ++ [m]))
    | PEnd false _ => None
    | PCell c rest =>
      match ns c with
      | NRun s [] _ => let '(s', outs) := step_fn (stg c) s m in Some (PCell (with_ns c (NRun s' outs false)) rest)
      | _ => None
      end
    end.

  (* the head of [p] is blocked in recv() and gets the end of the stream *)
  Definition eos (p : pipe) : option pipe :=
    match p with
    | PEnd true d => Some (PEnd false d)
    | PEnd false _ => None
    | PCell c rest =>
      match ns c with
      | NRun s [] _ => Some (PCell (with_ns c (NFlush s (flush (stg c) s) false)) rest)
      | _ => None
      end
    end.

  Inductive act := AEnq | ASleep | AFin | AErr | AXfer | AEos | ADrop.

  Definition react (c : cell) (pd : list msg) : nstate :=
    match ns c with
    | NRun s _ _ =>
      match on_err (stg c) false s pd with
      | RAbort => NDone s
      | RFlush => NFlush s (flush (stg c) s) false
      | RCont s' k => NRun s' (skipn k (tl pd)) false
      end
    | NFlush s _ _ =>
      match on_err (stg c) true s pd with
      | RAbort | RFlush => NDone s
      | RCont s' k => NFlush s' (skipn k (tl pd)) false
      end
    | NDone s => NDone s
    end.

  (* action [a] of the first node of [p] (AXfer/AEos: of the first node together with its receiver) *)
  Definition head_step (drop : bool) (a : act) (p : pipe) : option pipe :=
    match p with
    | PEnd b d =>
      match a with
      | ADrop => if drop && b then Some (PEnd false d) else None
      | _ => None
      end
    | PCell c rest =>
      match a with
      | AEnq =>
        match pend_of (ns c) with
        | m :: pd =>
          if alive rest && (length (q c) <? cap c)
          then Some (PCell (with_ns_q c (set_pend (ns c) pd false) (q c ++ [m])) rest) else None
        | [] => None
        end
      | ASleep =>
        match pend_of (ns c) with
        | _ :: _ =>
          if alive rest && negb (slept_of (ns c)) && (cap c <=? length (q c))
          then Some (PCell (with_ns c (set_pend (ns c) (pend_of (ns c)) true)) rest) else None
        | [] => None
        end
      | AFin =>
        match ns c with
        | NFlush s [] _ => Some (PCell (with_ns c (NDone s)) rest)
        | _ => None
        end
      | AErr =>
        match pend_of (ns c) with
        | _ :: _ => if alive rest then None else Some (PCell (with_ns c (react c (pend_of (ns c)))) rest)
        | [] => None
        end
      | AXfer =>
        match take c with
        | Some (m, c') => match accept m rest with Some rest' => Some (PCell c' rest') | None => None end
        | None => None
        end
      | AEos =>
        if closed c then match eos rest with Some rest' => Some (PCell c rest') | None => None end else None
      | ADrop => None
      end
    end.

  (* the outcomes of `tx.try_send(m)` as a function of the channel: receiver exists?, capacity, FIFO length,
     a receiver blocked in recv() (only matters for capacity 0) *)
  Inductive try_result := TryOk | TryFull | TryDisconnected.
  Definition try_send (rx_alive : bool) (cap qlen : nat) (rx_waiting : bool) : try_result :=
    if negb rx_alive then TryDisconnected
    else if (qlen <? cap) || ((cap =? 0) && rx_waiting) then TryOk else TryFull.
  (* the receiver at the head of [p] is blocked in recv() *)
  Definition waiting (p : pipe) : bool :=
    match p with
    | PEnd b _ => b
    | PCell c _ => match ns c with NRun _ [] _ => true | _ => false end
    end.

  (* small-step relation of the nodes of a (sub-)pipeline; [drop] = the consumer may disappear *)
  Inductive step (drop : bool) : pipe -> pipe -> Prop :=
  | step_head a p p' : head_step drop a p = Some p' -> step drop p p'
  | step_deep c rest rest' : step drop rest rest' -> step drop (PCell c rest) (PCell c rest').

  (* a complete pipeline: nothing feeds the first node, a first node sitting in recv() sees the end of the stream *)
  Definition pstep (drop : bool) (p p' : pipe) : Prop := step drop p p' \/ eos p = Some p'.

  Inductive psteps (drop : bool) : pipe -> pipe -> Prop :=
  | psteps_refl p : psteps drop p p
  | psteps_step p p' p'' : pstep drop p p' -> psteps drop p' p'' -> psteps drop p p''.

  (* every thread has returned and the consumer is gone *)
  Fixpoint all_done (p : pipe) : bool :=
    match p with
    | PEnd b _ => negb b
    | PCell c rest => match ns c with NDone _ => all_done rest | _ => false end
    end.

  Fixpoint delivered (p : pipe) : list msg :=
    match p with PEnd _ d => d | PCell _ rest => delivered rest end.
  Fixpoint consumer_alive (p : pipe) : bool :=
    match p with PEnd b _ => b | PCell _ rest => consumer_alive rest end.
  Fixpoint final_states (p : pipe) : list St :=
    match p with PEnd _ _ => [] | PCell c rest => state_of (ns c) :: final_states rest end.
  Fixpoint depth (p : pipe) : nat :=
    match p with PEnd _ _ => O | PCell _ rest => S (depth rest) end.

  (* ---- the sequential (unbounded, one stage after the other) semantics ---- *)
  Fixpoint run (g : stage) (s : St) (l : list msg) : St * list msg :=
    match l with
    | [] => (s, flush g s)
    | m :: r => let '(s1, o) := step_fn g s m in let '(s2, o2) := run g s1 r in (s2, o ++ o2)
    end.
  Definition F (g : stage) (l : list msg) : list msg := snd (run g (init g) l).

  (* F_n (... (F_1 input)) and the final state of every stage on the way *)
  Fixpoint compose (gs : list stage) (l : list msg) : list msg :=
    match gs with [] => l | g :: r => compose r (F g l) end.
  Fixpoint compose_states (gs : list stage) (l : list msg) : list St :=
    match gs with [] => [] | g :: r => fst (run g (init g) l) :: compose_states r (F g l) end.

  (* ---- initial configuration ---- *)
  (* the source: a node that has the whole input as pending sends (the parse thread of convert.rs / remote.rs:
     `loop { match it.next() { Some(msg) => if let Err(_) = helper(msg, &tx) { break / return Err } ... } }`) *)
  Definition source_stage (s0 : St) : stage :=
    {| init := s0; step_fn := fun s _ => (s, []); flush := fun _ => []; on_err := fun _ _ _ => RAbort |}.
  Definition source (s0 : St) (input : list msg) (cap0 : nat) : cell :=
    {| stg := source_stage s0; ns := NFlush s0 input false; q := []; cap := cap0 |}.
  Fixpoint stages_pipe (gs : list (stage * nat)) : pipe :=
    match gs with
    | [] => PEnd true []
    | (g, c) :: r => PCell {| stg := g; ns := NRun (init g) [] false; q := []; cap := c |} (stages_pipe r)
    end.
  Definition init_pipe (s0 : St) (input : list msg) (cap0 : nat) (gs : list (stage * nat)) : pipe :=
    PCell (source s0 input cap0) (stages_pipe gs).

  (* ---- executable scheduler (used by Exec/C13.v and by the examples) ---- *)
  Fixpoint do_step (drop : bool) (i : nat) (a : act) (p : pipe) : option pipe :=
    match i with
    | O => head_step drop a p
    | S j =>
      match p with
      | PCell c rest => match do_step drop j a rest with Some rest' => Some (PCell c rest') | None => None end
      | PEnd _ _ => None
      end
    end.
  Definition acts : list act := [AXfer; AEnq; AEos; AFin; AErr; ASleep].
  (* all successors without ADrop, in a fixed order *)
  Definition succs (p : pipe) : list pipe :=
    (match eos p with Some p' => [p'] | None => [] end) ++
    flat_map (fun i => flat_map (fun a => match do_step false i a p with Some p' => [p'] | None => [] end) acts)
             (seq 0 (S (depth p))).
  Fixpoint drop_now (p : pipe) : pipe :=
    match p with PEnd _ d => PEnd false d | PCell c rest => PCell c (drop_now rest) end.

  (* run with the schedule [sched] (numbers choosing among the enabled successors, reused cyclically through
     [more]); the consumer disappears as soon as it has taken [dropat] messages *)
  Fixpoint exec (fuel : nat) (dropat : option nat) (sched more : list nat) (p : pipe) : pipe * bool :=
    match fuel with
    | O => (p, false)
    | S f =>
      let p := match dropat with
               | Some k => if consumer_alive p && (k <=? length (delivered p)) then drop_now p else p
               | None => p
               end in
      match succs p with
      | [] => (p, true)
      | x :: xs =>
        let '(n, sched') := match sched with n :: r => (n, r) | [] => match more with n :: r => (n, r) | [] => (O, []) end end in
        exec f dropat sched' more (nth (n mod length (x :: xs)) (x :: xs) x)
      end
    end.
End Kahn.


(* ---- small concrete instances (messages are numbers, the state is a buffer of messages) ---- *)
Section Instances.
  Open Scope N_scope.
  Definition imsg := N.
  Definition ist := list N.

  (* plugins_process_msgs without plugins: forward everything; `?` on Err *)
  Definition st_id : @stage imsg ist :=
    {| init := []; step_fn := fun s m => (s, [m]); flush := fun _ => []; on_err := fun _ _ _ => RAbort |}.

  (* filter_as_streams / a plugin returning false: drops the messages divisible by k; returns on Err *)
  Definition st_drop (k : N) : @stage imsg ist :=
    {| init := []; step_fn := fun s m => (s, if (m mod k =? 0) then [] else [m]); flush := fun _ => [];
       on_err := fun _ _ _ => RAbort |}.

  (* buffer_sort_messages in miniature: keep a sorted buffer, release what is more than w below the
     newest message, flush the rest in order; `?` on Err *)
  Fixpoint ins (m : N) (l : list N) : list N :=
    match l with [] => [m] | x :: r => if m <? x then m :: l else x :: ins m r end.
  Fixpoint split_old (lim : N) (l : list N) : list N * list N :=
    match l with
    | [] => ([], [])
    | x :: r => if x <? lim then let '(a, b) := split_old lim r in (x :: a, b) else ([], l)
    end.
  Definition st_sort (w : N) : @stage imsg ist :=
    {| init := [];
       step_fn := fun s m => let '(old, keep) := split_old (m - w) (ins m s) in (keep, old);
       flush := fun s => s;
       on_err := fun _ _ _ => RAbort |}.

  (* the same with an arbitrary calculated time per message: buffer_sort_messages orders by
     lifecycle start + timestamp, where the start is whatever the lifecycle table showed when the sort first
     looked the lifecycle up (shared memory, timing dependent).  [key] stands for the outcome of these reads:
     every timing of the reads is some [key]. *)
  Fixpoint insk (key : N -> N) (m : N) (l : list N) : list N :=
    match l with [] => [m] | x :: r => if key m <? key x then m :: l else x :: insk key m r end.
  Fixpoint split_oldk (key : N -> N) (lim : N) (l : list N) : list N * list N :=
    match l with
    | [] => ([], [])
    | x :: r => if key x <? lim then let '(a, b) := split_oldk key lim r in (x :: a, b) else ([], l)
    end.
  Definition st_sort_key (key : N -> N) (w : N) : @stage imsg ist :=
    {| init := [];
       step_fn := fun s m => let '(old, keep) := split_oldk key (m - w) (insk key m s) in (keep, old);
       flush := fun s => s;
       on_err := fun _ _ _ => RAbort |}.

  (* parse_lifecycles_buffered_from_stream in miniature: messages are buffered until a message divisible
     by k "confirms" them: then the buffered ones are sent in the inner loop and the message itself
     directly.  Err in the inner loop: the failed message is lost, the rest goes back to the buffer, the
     loop goes on (here: with the direct send); Err on the direct send: leave the loop and flush;
     Err while flushing: stop. *)
  Definition st_lc (k : N) : @stage imsg ist :=
    {| init := [];
       step_fn := fun s m => if (m mod k =? 0) then ([], s ++ [m]) else (s ++ [m], []);
       flush := fun s => s;
       on_err := fun flushing s pd =>
         if flushing then RAbort
         else match tl pd with
              | [] => RFlush
              | _ :: _ => RCont (removelast (tl pd)) (length (tl pd) - 1)
              end |}.
End Instances.
