(* Proofs about Pipe/Incr.v: the incremental lifecycle-table protocol is correct for every interleaving iff every refresh
   publishes under a fresh (strictly larger) index. *)
From Coq Require Import List NArith Bool Arith Lia.
From AdltV Require Import Pipe.Incr.
Import ListNotations.
Local Open Scope N_scope.

Section IncrProofs.
  Context {msg info : Type}.
  Notation entry := (@entry info).
  Notation view := (@view info).
  Notation iev := (@iev msg info).
  Notation ist := (@ist msg info).

  (* ------------------------------------------------------------------ views *)
  Lemma lookup_some id (v : view) e : lookup id v = Some e -> In e v /\ e_id e = id.
  Proof.
    unfold lookup. intros H. apply find_some in H. destruct H as [Hin He]. split; [exact Hin|]. apply N.eqb_eq. exact He.
  Qed.

  Lemma lookup_in_ids id (v : view) : In id (ids v) -> lookup id v <> None.
  Proof.
    unfold ids, lookup. induction v as [|x r IH]; cbn [map In find]; [tauto|]. intros [H|H].
    - subst id. rewrite N.eqb_refl. discriminate.
    - destruct (e_id x =? id); [discriminate|]. exact (IH H).
  Qed.

  Lemma lookup_none_ids id (v : view) : ~ In id (ids v) -> lookup id v = None.
  Proof.
    unfold ids, lookup. induction v as [|x r IH]; cbn [map In find]; [reflexivity|]. intros H.
    destruct (e_id x =? id) eqn:E.
    - apply N.eqb_eq in E. tauto.
    - apply IH. tauto.
  Qed.

  Lemma nodup_same_id (v : view) a b : NoDup (ids v) -> In a v -> In b v -> e_id a = e_id b -> a = b.
  Proof.
    unfold ids. induction v as [|x r IH]; cbn [map In]; [tauto|]. intros Hnd Ha Hb E.
    inversion Hnd as [|y l Hx Hr]; subst.
    destruct Ha as [Ha|Ha], Hb as [Hb|Hb].
    - congruence.
    - subst a. exfalso. apply Hx. rewrite E. apply in_map. exact Hb.
    - subst b. exfalso. apply Hx. rewrite <- E. apply in_map. exact Ha.
    - exact (IH Hr Ha Hb E).
  Qed.

  Lemma lookup_in_nodup (v : view) e : NoDup (ids v) -> In e v -> lookup (e_id e) v = Some e.
  Proof.
    intros Hnd Hin. destruct (lookup (e_id e) v) as [x|] eqn:E.
    - destruct (lookup_some _ _ _ E) as [Hx Hid]. f_equal. exact (nodup_same_id v x e Hnd Hx Hin Hid).
    - exfalso. apply (lookup_in_ids (e_id e) v); [|exact E]. unfold ids. apply in_map. exact Hin.
  Qed.

  (* put *)
  Lemma lookup_put_same (e : entry) (v : view) : lookup (e_id e) (put e v) = Some e.
  Proof.
    unfold lookup. induction v as [|x r IH]; cbn [put find].
    - rewrite N.eqb_refl. reflexivity.
    - destruct (e_id x =? e_id e) eqn:E; cbn [find].
      + rewrite N.eqb_refl. reflexivity.
      + rewrite E. exact IH.
  Qed.

  Lemma lookup_put_other id (e : entry) (v : view) : id <> e_id e -> lookup id (put e v) = lookup id v.
  Proof.
    unfold lookup. intros Hne. induction v as [|x r IH]; cbn [put find].
    - destruct (e_id e =? id) eqn:E; [apply N.eqb_eq in E; congruence|reflexivity].
    - destruct (e_id x =? e_id e) eqn:E; cbn [find].
      + apply N.eqb_eq in E.
        destruct (e_id e =? id) eqn:E1; [apply N.eqb_eq in E1; congruence|].
        destruct (e_id x =? id) eqn:E2; [apply N.eqb_eq in E2; congruence|]. reflexivity.
      + destruct (e_id x =? id); [reflexivity|exact IH].
  Qed.

  Lemma in_put x (e : entry) (v : view) : In x (put e v) -> x = e \/ In x v.
  Proof.
    induction v as [|y r IH]; cbn [put In].
    - intros [H|[]]. left. congruence.
    - destruct (e_id y =? e_id e); cbn [In].
      + intros [H|H]; [left; congruence|right; right; exact H].
      + intros [H|H]; [right; left; exact H|]. destruct (IH H) as [H1|H1]; [left; exact H1|right; right; exact H1].
  Qed.

  Lemma ids_put id (e : entry) (v : view) : In id (ids (put e v)) -> id = e_id e \/ In id (ids v).
  Proof.
    unfold ids. intros H. apply in_map_iff in H. destruct H as [x [Hx Hin]]. destruct (in_put _ _ _ Hin) as [H1|H1].
    - left. congruence.
    - right. subst id. apply in_map. exact H1.
  Qed.

  Lemma nodup_put (e : entry) (v : view) : NoDup (ids v) -> NoDup (ids (put e v)).
  Proof.
    induction v as [|x r IH]; cbn [put]; intros Hnd.
    - cbn. constructor; [tauto|constructor].
    - inversion Hnd as [|y l Hx Hr]; subst. destruct (e_id x =? e_id e) eqn:E.
      + apply N.eqb_eq in E. cbn [ids map]. rewrite <- E. constructor; assumption.
      + cbn [ids map]. constructor; [|exact (IH Hr)]. intros Hin. apply ids_put in Hin. destruct Hin as [H|H].
        * apply N.eqb_neq in E. congruence.
        * exact (Hx H).
  Qed.

  Lemma lookup_put_mono id (e : entry) (v : view) : lookup id v <> None -> lookup id (put e v) <> None.
  Proof.
    intros H. destruct (N.eq_dec id (e_id e)) as [E|E].
    - subst id. rewrite lookup_put_same. discriminate.
    - rewrite lookup_put_other by exact E. exact H.
  Qed.

  (* del *)
  Lemma in_del x id (v : view) : In x (del id v) -> In x v.
  Proof. unfold del. intros H. apply filter_In in H. tauto. Qed.

  Lemma nodup_del id (v : view) : NoDup (ids v) -> NoDup (ids (del id v)).
  Proof.
    unfold ids, del. induction v as [|x r IH]; cbn [filter map]; intros Hnd; [constructor|].
    inversion Hnd as [|y l Hx Hr]; subst. destruct (negb (e_id x =? id)); [|exact (IH Hr)].
    cbn [map]. constructor; [|exact (IH Hr)]. intros Hin. apply Hx. apply in_map_iff in Hin.
    destruct Hin as [z [Hz Hin]]. apply filter_In in Hin. rewrite <- Hz. apply in_map. tauto.
  Qed.

  Lemma lookup_del_other id d (v : view) : id <> d -> lookup id (del d v) = lookup id v.
  Proof.
    unfold lookup, del. intros Hne. induction v as [|x r IH]; cbn [filter find]; [reflexivity|].
    destruct (e_id x =? d) eqn:E; cbn [negb find].
    - apply N.eqb_eq in E. destruct (e_id x =? id) eqn:E1; [apply N.eqb_eq in E1; congruence|exact IH].
    - destruct (e_id x =? id); [reflexivity|exact IH].
  Qed.

  (* refresh *)
  Lemma in_refresh i ups : forall (v : view) x, In x (refresh i ups v) -> e_idx x = i \/ In x v.
  Proof.
    unfold refresh. induction ups as [|u r IH]; cbn [fold_left]; intros v x H; [right; exact H|].
    destruct (IH _ _ H) as [H1|H1]; [left; exact H1|]. destruct (in_put _ _ _ H1) as [H2|H2].
    - left. subst x. reflexivity.
    - right. exact H2.
  Qed.

  Lemma nodup_refresh i ups : forall v : view, NoDup (ids v) -> NoDup (ids (refresh i ups v)).
  Proof.
    unfold refresh. induction ups as [|u r IH]; cbn [fold_left]; intros v H; [exact H|]. apply IH. apply nodup_put. exact H.
  Qed.

  Lemma lookup_refresh_mono id i ups : forall v : view, lookup id v <> None -> lookup id (refresh i ups v) <> None.
  Proof.
    unfold refresh. induction ups as [|u r IH]; cbn [fold_left]; intros v H; [exact H|]. apply IH. apply lookup_put_mono. exact H.
  Qed.

  (* ------------------------------------------------------------------ one look of the consumer *)
  Lemma poll_tbl_other last id : forall (l t : view),
    (forall x, In x l -> e_id x = id -> e_idx x <= last) -> lookup id (poll_tbl last l t) = lookup id t.
  Proof.
    unfold poll_tbl. induction l as [|x r IH]; cbn [fold_left]; intros t H; [reflexivity|].
    rewrite IH by (intros y Hy; apply H; right; exact Hy).
    destruct (last <? e_idx x) eqn:E; [|reflexivity].
    apply lookup_put_other. intros Hid. apply N.ltb_lt in E. specialize (H x (or_introl eq_refl) (eq_sym Hid)). lia.
  Qed.

  Lemma poll_tbl_newer last : forall (l t : view) e,
    NoDup (ids l) -> In e l -> last < e_idx e -> lookup (e_id e) (poll_tbl last l t) = Some e.
  Proof.
    unfold poll_tbl. induction l as [|x r IH]; cbn [fold_left In]; intros t e Hnd Hin Hlt; [tauto|].
    unfold ids in Hnd. cbn [map] in Hnd. inversion Hnd as [|y l Hx Hr]; subst. destruct Hin as [Hin|Hin].
    - subst x. apply N.ltb_lt in Hlt. rewrite Hlt.
      change (lookup (e_id e) (poll_tbl last r (put e t)) = Some e).
      rewrite poll_tbl_other; [apply lookup_put_same|].
      intros y Hy Hid. exfalso. apply Hx. rewrite <- Hid. apply in_map. exact Hy.
    - apply IH; assumption.
  Qed.

  Lemma poll_last_ge last : forall (l : view) nl,
    nl <= fold_left (fun nl e => if last <? e_idx e then N.max nl (e_idx e) else nl) l nl.
  Proof.
    induction l as [|x r IH]; cbn [fold_left]; intros nl; [lia|].
    destruct (last <? e_idx x); [|apply IH]. eapply N.le_trans; [|apply IH]. lia.
  Qed.

  Lemma poll_last_covers last : forall (l : view) nl e, last <= nl -> In e l ->
    e_idx e <= fold_left (fun nl e => if last <? e_idx e then N.max nl (e_idx e) else nl) l nl.
  Proof.
    induction l as [|x r IH]; cbn [fold_left In]; intros nl e Hl Hin; [tauto|]. destruct Hin as [Hin|Hin].
    - subst x. destruct (last <? e_idx e) eqn:E.
      + eapply N.le_trans; [|apply poll_last_ge]. lia.
      + apply N.ltb_ge in E. eapply N.le_trans; [|apply poll_last_ge]. lia.
    - apply IH; [|exact Hin]. destruct (last <? e_idx x); lia.
  Qed.

  Lemma poll_last_le last top : forall (l : view) nl, nl <= top -> (forall e, In e l -> e_idx e <= top) ->
    fold_left (fun nl e => if last <? e_idx e then N.max nl (e_idx e) else nl) l nl <= top.
  Proof.
    induction l as [|x r IH]; cbn [fold_left]; intros nl Hn H; [exact Hn|]. apply IH.
    - specialize (H x (or_introl eq_refl)). destruct (last <? e_idx x); lia.
    - intros e He. apply H. right. exact He.
  Qed.

  (* ------------------------------------------------------------------ the invariant *)
  Lemma fresh_later top (l : list iev) i ups : fresh top l -> In (IRefresh i ups) l -> top < i.
  Proof.
    revert top. induction l as [|x r IH]; cbn [In]; intros top Hf Hin; [tauto|].
    destruct x as [j us|d|m]; cbn [fresh] in Hf.
    - destruct Hf as [Hlt Hf]. destruct Hin as [Hin|Hin]; [inversion Hin; subst; exact Hlt|].
      specialize (IH _ Hf Hin). lia.
    - destruct Hin as [Hin|Hin]; [discriminate|]. exact (IH _ Hf Hin).
    - destruct Hin as [Hin|Hin]; [discriminate|]. exact (IH _ Hf Hin).
  Qed.

  Lemma fresh_b_spec (l : list iev) : forall top, fresh_b top l = true <-> fresh top l.
  Proof.
    induction l as [|x r IH]; intros top; cbn [fresh fresh_b]; [tauto|]. destruct x as [j us|d|m]; [|apply IH|apply IH].
    rewrite andb_true_iff, N.ltb_lt, IH. tauto.
  Qed.

  Record inv (D : list N) (s : ist) (top : N) : Prop := {
    inv_fresh : fresh top (i_todo s);
    inv_last : i_last s <= top;
    inv_top : forall e, In e (i_cur s) -> e_idx e <= top;
    inv_nodup : NoDup (ids (i_cur s));
    inv_seen : forall e, In e (i_cur s) -> e_idx e <= i_last s -> lookup (e_id e) (i_tbl s) = Some e;
    inv_sub : forall id, lookup id (i_tbl s) <> None -> lookup id (i_cur s) <> None \/ In id D;
    inv_dels : incl (dels_of (i_todo s)) D }.

  Lemma inv_init (evs : list iev) : fresh 0 evs -> inv (dels_of evs) (iinit evs) 0.
  Proof.
    intros Hf. constructor; cbn [iinit i_todo i_last i_cur i_tbl In].
    - exact Hf.
    - lia.
    - tauto.
    - constructor.
    - tauto.
    - intros id H. exfalso. apply H. reflexivity.
    - apply incl_refl.
  Qed.

  Lemma inv_step cap D (s s' : ist) top : istep cap s s' -> inv D s top -> exists top', inv D s' top'.
  Proof.
    intros Hst [Hf Hl Ht Hn Hs Hsub Hd]. destruct Hst; cbn [i_todo i_cur i_last i_tbl i_chan i_got] in *.
    - (* refresh *) cbn [fresh] in Hf. destruct Hf as [Hlt Hf]. exists i. constructor; cbn [i_todo i_cur i_last i_tbl].
      + exact Hf.
      + lia.
      + intros e He. destruct (in_refresh _ _ _ _ He) as [H|H]; [lia|]. specialize (Ht e H). lia.
      + apply nodup_refresh. exact Hn.
      + intros e He Hle. destruct (in_refresh _ _ _ _ He) as [H|H]; [lia|]. exact (Hs e H Hle).
      + intros id H. destruct (Hsub id H) as [H1|H1]; [left; apply lookup_refresh_mono; exact H1|right; exact H1].
      + exact Hd.
    - (* del *) cbn [fresh] in Hf. cbn [dels_of] in Hd. exists top. constructor; cbn [i_todo i_cur i_last i_tbl].
      + exact Hf.
      + exact Hl.
      + intros e He. apply Ht. exact (in_del _ _ _ He).
      + apply nodup_del. exact Hn.
      + intros e He Hle. apply Hs; [exact (in_del _ _ _ He)|exact Hle].
      + intros x H. destruct (N.eq_dec x id) as [E|E].
        * right. subst x. apply Hd. left. reflexivity.
        * destruct (Hsub x H) as [H1|H1]; [left; rewrite lookup_del_other by exact E; exact H1|right; exact H1].
      + intros x Hx. apply Hd. right. exact Hx.
    - (* send *) exists top. constructor; cbn [i_todo i_cur i_last i_tbl]; assumption.
    - (* rendezvous *) exists top. constructor; cbn [i_todo i_cur i_last i_tbl]; assumption.
    - (* take *) exists top. constructor; cbn [i_todo i_cur i_last i_tbl]; assumption.
    - (* poll *) exists top. constructor; cbn [i_todo i_cur i_last i_tbl].
      + exact Hf.
      + unfold poll_last. apply poll_last_le; assumption.
      + exact Ht.
      + exact Hn.
      + intros e He _. destruct (l <? e_idx e) eqn:E.
        * apply N.ltb_lt in E. apply poll_tbl_newer; assumption.
        * apply N.ltb_ge in E. rewrite poll_tbl_other; [exact (Hs e He E)|].
          intros x Hx Hid. rewrite (nodup_same_id _ _ _ Hn Hx He Hid). exact E.
      + intros id H. destruct (in_dec N.eq_dec id (ids c)) as [Hin|Hin]; [left; apply lookup_in_ids; exact Hin|].
        rewrite poll_tbl_other in H; [exact (Hsub id H)|].
        intros x Hx Hid. exfalso. apply Hin. rewrite <- Hid. unfold ids. apply in_map. exact Hx.
      + exact Hd.
  Qed.

  Lemma inv_steps cap D (s s' : ist) : isteps cap s s' -> forall top, inv D s top -> exists top', inv D s' top'.
  Proof.
    induction 1 as [s|s s1 s2 H1 _ IH]; intros top Hi; [exists top; exact Hi|].
    destruct (inv_step cap D s s1 top H1 Hi) as [t1 Hi1]. exact (IH t1 Hi1).
  Qed.

  (* the writer's future is a function of (view, remaining events) *)
  Lemma istep_final cap (s s' : ist) : istep cap s s' -> final_view (i_cur s') (i_todo s') = final_view (i_cur s) (i_todo s).
  Proof. intros H. destruct H; reflexivity. Qed.
  Lemma isteps_final cap (s s' : ist) : isteps cap s s' -> final_view (i_cur s') (i_todo s') = final_view (i_cur s) (i_todo s).
  Proof. induction 1 as [s|s s1 s2 H1 _ IH]; [reflexivity|]. rewrite IH. exact (istep_final cap _ _ H1). Qed.

  Lemma isteps_trans cap (a b c : ist) : isteps cap a b -> isteps cap b c -> isteps cap a c.
  Proof. induction 1 as [|x y z H1 _ IH]; intros H; [exact H|]. eapply isteps_step; [exact H1|exact (IH H)]. Qed.

  (* ------------------------------------------------------------------ theorems *)
  (* every refresh still to come carries an index strictly greater than anything a reader holds or can see now *)
  Theorem refresh_index_fresh cap (evs : list iev) (s : ist) i ups :
    fresh 0 evs -> isteps cap (iinit evs) s -> In (IRefresh i ups) (i_todo s) ->
    i_last s < i /\ forall e, In e (i_cur s) -> e_idx e < i.
  Proof.
    intros Hf Hs Hin. destruct (inv_steps cap _ _ _ Hs 0 (inv_init evs Hf)) as [top [Hfr Hl Ht _ _ _ _]].
    pose proof (fresh_later top _ i ups Hfr Hin) as Hlt. split; [lia|]. intros e He. specialize (Ht e He). lia.
  Qed.

  (* settled: the writer is done and the consumer has looked at the table since *)
  Definition settled (s : ist) : Prop := i_todo s = [] /\ forall e, In e (i_cur s) -> e_idx e <= i_last s.

  Lemma settled_poll (s : ist) : i_todo s = [] -> settled (ipoll s).
  Proof.
    intros H. split; [exact H|]. cbn [ipoll i_cur i_last]. intros e He. unfold poll_last. apply poll_last_covers; [lia|exact He].
  Qed.

  Lemma settled_step cap (s s' : ist) : istep cap s s' -> settled s -> settled s'.
  Proof.
    intros Hst [Ht Hc]. destruct Hst; cbn [i_todo i_cur i_last] in *; try discriminate; split; try assumption.
    intros e He. eapply N.le_trans; [exact (Hc e He)|]. unfold poll_last. apply poll_last_ge.
  Qed.

  Lemma settled_steps cap (s s' : ist) : isteps cap s s' -> settled s -> settled s'.
  Proof. induction 1 as [s|s s1 s2 H1 _ IH]; intros H; [exact H|]. exact (IH (settled_step cap _ _ H1 H)). Qed.

  Lemma ipoll_step cap (s : ist) : istep cap s (ipoll s).
  Proof. destruct s as [r c q g l t]. unfold ipoll. cbn [i_todo i_cur i_chan i_got i_last i_tbl]. apply i_poll. Qed.

  (* FOR EVERY INTERLEAVING of the writer's events, the consumer's receives and its looks at the table (every capacity,
     every pacing): once the writer is done, the first look at the table leaves the consumer with the final table -- every
     lifecycle of the final table with exactly its final entry, and nothing else except lifecycles the writer removed (which
     the protocol cannot tell) -- and it stays so *)
  Theorem incremental_consumer_final_table cap (evs : list iev) (s s' : ist) :
    fresh 0 evs -> isteps cap (iinit evs) s -> i_todo s = [] -> isteps cap (ipoll s) s' ->
    (forall id e, lookup id (final_view [] evs) = Some e -> lookup id (i_tbl s') = Some e) /\
    (forall id, lookup id (final_view [] evs) = None -> lookup id (i_tbl s') = None \/ In id (dels_of evs)).
  Proof.
    intros Hf Hs Ht Hs'.
    assert (Hall : isteps cap (iinit evs) s').
    { eapply isteps_trans; [exact Hs|]. eapply isteps_step; [apply ipoll_step|exact Hs']. }
    destruct (inv_steps cap _ _ _ Hall 0 (inv_init evs Hf)) as [top [_ _ _ Hn Hseen Hsub _]].
    destruct (settled_steps cap _ _ Hs' (settled_poll s Ht)) as [Ht' Hc].
    pose proof (isteps_final cap _ _ Hall) as Hfin. cbn [iinit i_cur i_todo] in Hfin. rewrite Ht' in Hfin. cbn [final_view] in Hfin.
    rewrite <- Hfin. split.
    - intros id e H. destruct (lookup_some _ _ _ H) as [Hin Hid]. subst id. exact (Hseen e Hin (Hc e Hin)).
    - intros id H. destruct (lookup id (i_tbl s')) as [x|] eqn:E; [|left; reflexivity].
      destruct (Hsub id) as [H1|H1]; [rewrite E; discriminate|contradiction|right; exact H1].
  Qed.

  Corollary incremental_consumer_final_table_no_removals cap (evs : list iev) (s s' : ist) :
    fresh 0 evs -> dels_of evs = [] -> isteps cap (iinit evs) s -> i_todo s = [] -> isteps cap (ipoll s) s' ->
    forall id, lookup id (i_tbl s') = lookup id (final_view [] evs).
  Proof.
    intros Hf Hd Hs Ht Hs' id. destruct (incremental_consumer_final_table cap evs s s' Hf Hs Ht Hs') as [H1 H2].
    destruct (lookup id (final_view [] evs)) as [e|] eqn:E; [exact (H1 id e E)|].
    destruct (H2 id E) as [H|H]; [exact H|]. rewrite Hd in H. destruct H.
  Qed.

  (* ------------------------------------------------------------------ refuted variants *)
  (* the behaviour class of seeded change C13-6: two refreshes (two lifecycles confirmed by one buffer check) share an
     index and a message is sent in between.  A consumer that looks at the table in between never learns the second
     lifecycle, however often it looks afterwards; a consumer that looks only afterwards holds the complete table. *)
  Theorem shared_index_consumer_stays_stale cap k a b (ia ib : info) (m : msg) :
    0 < k -> a <> b ->
    let evs := [IRefresh k [(a, ia)]; ISend m; IRefresh k [(b, ib)]] in
    lookup b (final_view [] evs) = Some (stamp k (b, ib)) /\
    (exists s : ist, isteps cap (iinit evs) s /\ i_todo s = [] /\ i_chan s = [] /\ i_got s = [m] /\
       forall s', isteps cap s s' -> lookup b (i_tbl s') = None) /\
    (exists s : ist, isteps cap (iinit evs) s /\ i_todo s = [] /\ i_chan s = [] /\ i_got s = [m] /\
       forall id, lookup id (i_tbl (ipoll s)) = lookup id (final_view [] evs)).
  Proof.
    intros Hk Hab evs.
    assert (Eab : (a =? b) = false) by (apply N.eqb_neq; exact Hab).
    assert (Ek : (0 <? k) = true) by (apply N.ltb_lt; exact Hk).
    assert (Ekk : (k <? k) = false) by apply N.ltb_irrefl.
    set (ea := stamp k (a, ia)). set (eb := stamp k (b, ib)).
    assert (Hfin : final_view [] evs = [ea; eb]).
    { unfold evs. cbn [final_view refresh fold_left put]. fold ea. fold eb. cbn [put e_id ea eb stamp fst]. rewrite Eab. reflexivity. }
    assert (Hpre : exists s1 : ist, isteps cap (iinit evs) s1 /\
              s1 = {| i_todo := [IRefresh k [(b, ib)]]; i_cur := [ea]; i_chan := []; i_got := [m]; i_last := 0; i_tbl := [] |}).
    { eexists. split; [|reflexivity]. unfold evs, iinit.
      eapply isteps_step; [apply i_refresh|]. cbn [refresh fold_left put]. fold ea.
      destruct cap as [|c].
      - eapply isteps_step; [apply i_rdv; reflexivity|]. cbn [app]. apply isteps_refl.
      - eapply isteps_step; [apply i_send; cbn; lia|]. cbn [app].
        eapply isteps_step; [apply i_take|]. cbn [app]. apply isteps_refl. }
    destruct Hpre as [s1 [Hs1 Es1]]. split; [|split].
    - rewrite Hfin. unfold lookup. cbn [find e_id ea eb stamp fst]. rewrite Eab, N.eqb_refl. reflexivity.
    - exists {| i_todo := []; i_cur := [ea; eb]; i_chan := []; i_got := [m]; i_last := k; i_tbl := [ea] |}.
      split; [|split; [reflexivity|split; [reflexivity|split; [reflexivity|]]]].
      + eapply isteps_trans; [exact Hs1|]. subst s1.
        eapply isteps_step; [apply i_poll|]. unfold poll_last, poll_tbl. cbn [fold_left e_idx ea stamp]. rewrite Ek.
        cbn [put]. replace (N.max 0 k) with k by lia.
        eapply isteps_step; [apply i_refresh|]. cbn [refresh fold_left put]. fold eb. cbn [e_id ea eb stamp fst]. rewrite Eab.
        apply isteps_refl.
      + assert (G : forall s s' : ist, isteps cap s s' ->
                    i_todo s = [] -> i_cur s = [ea; eb] -> i_last s = k -> i_tbl s = [ea] -> i_tbl s' = [ea]).
        { induction 1 as [s|s s2 s3 H1 _ IH]; intros Ht Hc Hl Htb; [exact Htb|].
          destruct H1; cbn [i_todo i_cur i_last i_tbl] in *; try discriminate.
          - apply IH; assumption.
          - apply IH; try assumption.
            + rewrite Hc, Hl. unfold poll_last. cbn [fold_left e_idx ea eb stamp]. rewrite Ekk. reflexivity.
            + rewrite Hc, Hl, Htb. unfold poll_tbl. cbn [fold_left e_idx ea eb stamp]. rewrite Ekk. reflexivity. }
        intros s' Hs'. rewrite (G _ _ Hs' eq_refl eq_refl eq_refl eq_refl).
        unfold lookup. cbn [find e_id ea stamp fst]. rewrite Eab. reflexivity.
    - exists {| i_todo := []; i_cur := [ea; eb]; i_chan := []; i_got := [m]; i_last := 0; i_tbl := [] |}.
      split; [|split; [reflexivity|split; [reflexivity|split; [reflexivity|]]]].
      + eapply isteps_trans; [exact Hs1|]. subst s1.
        eapply isteps_step; [apply i_refresh|]. cbn [refresh fold_left put]. fold eb. cbn [e_id ea eb stamp fst]. rewrite Eab.
        apply isteps_refl.
      + intros id. rewrite Hfin. cbn [ipoll i_tbl i_last i_cur]. unfold poll_tbl. cbn [fold_left e_idx ea eb stamp]. rewrite Ek.
        cbn [put e_id ea eb stamp fst]. rewrite Eab. reflexivity.
  Qed.

  (* a published lifecycle that the writer removes again (merged into an older, still buffered one): the protocol has no
     message for that; a consumer that looked while it was visible keeps it for ever *)
  Theorem removed_entry_consumer_keeps_it cap i a (ia : info) :
    0 < i ->
    let evs := [IRefresh i [(a, ia)]; IDel a] : list iev in
    fresh 0 evs /\ lookup a (final_view [] evs) = None /\
    exists s : ist, isteps cap (iinit evs) s /\ i_todo s = [] /\
      forall s', isteps cap s s' -> lookup a (i_tbl s') = Some (stamp i (a, ia)).
  Proof.
    intros Hi evs. assert (Ei : (0 <? i) = true) by (apply N.ltb_lt; exact Hi).
    assert (Eii : (i <? i) = false) by apply N.ltb_irrefl.
    set (ea := stamp i (a, ia)).
    split; [cbn; tauto|]. split.
    { unfold evs. cbn [final_view refresh fold_left put del filter e_id stamp fst]. rewrite N.eqb_refl. reflexivity. }
    exists {| i_todo := []; i_cur := []; i_chan := []; i_got := []; i_last := i; i_tbl := [ea] |}. split; [|split; [reflexivity|]].
    - unfold evs, iinit. eapply isteps_step; [apply i_refresh|]. cbn [refresh fold_left put]. fold ea.
      eapply isteps_step; [apply i_poll|]. unfold poll_last, poll_tbl. cbn [fold_left e_idx ea stamp]. rewrite Ei.
      cbn [put]. replace (N.max 0 i) with i by lia.
      eapply isteps_step; [apply i_del|]. unfold del. cbn [filter e_id ea stamp fst]. rewrite N.eqb_refl. cbn [negb].
      apply isteps_refl.
    - assert (G : forall s s' : ist, isteps cap s s' -> i_todo s = [] -> i_cur s = [] -> i_tbl s = [ea] -> i_tbl s' = [ea]).
      { induction 1 as [s|s s2 s3 H1 _ IH]; intros Ht Hc Htb; [exact Htb|].
        destruct H1; cbn [i_todo i_cur i_last i_tbl] in *; try discriminate.
        - apply IH; assumption.
        - apply IH; try assumption. rewrite Hc, Htb. reflexivity. }
      intros s' Hs'. rewrite (G _ _ Hs' eq_refl eq_refl eq_refl).
      unfold lookup. cbn [find e_id ea stamp fst]. rewrite N.eqb_refl. reflexivity.
  Qed.

  (* ------------------------------------------------------------------ the interpreters of the shards compute executions *)
  Lemma iwriter_sound cap (s : ist) : isteps cap s (iwriter cap s).
  Proof.
    destruct s as [r c q g l t]. unfold iwriter. cbn [i_todo i_cur i_chan i_got i_last i_tbl].
    destruct r as [|[i ups|d|m] r]; [apply isteps_refl| | |].
    - eapply isteps_step; [apply i_refresh|apply isteps_refl].
    - eapply isteps_step; [apply i_del|apply isteps_refl].
    - destruct (length q <? cap)%nat eqn:E.
      + apply Nat.ltb_lt in E. eapply isteps_step; [apply i_send; exact E|apply isteps_refl].
      + destruct cap as [|cp]; [|apply isteps_refl]. destruct q as [|x q]; [|apply isteps_refl].
        eapply isteps_step; [apply i_rdv; reflexivity|apply isteps_refl].
  Qed.
  Lemma itake_sound cap (s : ist) : isteps cap s (itake s).
  Proof.
    destruct s as [r c q g l t]. unfold itake. cbn [i_todo i_cur i_chan i_got i_last i_tbl].
    destruct q as [|m q]; [apply isteps_refl|]. eapply isteps_step; [apply i_take|apply isteps_refl].
  Qed.
  Lemma ipoll_sound cap (s : ist) : isteps cap s (ipoll s).
  Proof. eapply isteps_step; [apply ipoll_step|apply isteps_refl]. Qed.

  Lemma irun_sound cap : forall sched (s : ist), isteps cap s (irun cap sched s).
  Proof.
    induction sched as [|n r IH]; intros s; cbn [irun]; [apply isteps_refl|].
    eapply isteps_trans; [|apply IH]. destruct (n mod 3)%nat as [|[|k]]; [apply iwriter_sound|apply itake_sound|apply ipoll_sound].
  Qed.
  Lemma ifinish_sound cap : forall fuel (s : ist), isteps cap s (ifinish fuel cap s).
  Proof.
    induction fuel as [|f IH]; intros s; cbn [ifinish]; [apply isteps_refl|].
    destruct (i_todo s); [destruct (i_chan s); [apply isteps_refl|]|].
    - eapply isteps_trans; [apply itake_sound|apply IH].
    - eapply isteps_trans; [|apply IH]. destruct (length (i_chan s) <? Nat.max cap 1)%nat; [apply iwriter_sound|apply itake_sound].
  Qed.
  Lemma iscript_sound cap : forall fuel pat (s : ist), isteps cap s (iscript fuel cap pat s).
  Proof.
    induction fuel as [|f IH]; intros pat s; cbn [iscript]; [apply isteps_refl|].
    destruct (i_todo s) as [|[i ups|d|m] r] eqn:E; [apply isteps_refl| | |].
    - eapply isteps_trans; [apply iwriter_sound|apply IH].
    - eapply isteps_trans; [apply iwriter_sound|apply IH].
    - assert (H1 : isteps cap s (itake (iwriter cap s))) by (eapply isteps_trans; [apply iwriter_sound|apply itake_sound]).
      destruct pat as [|b p]; [eapply isteps_trans; [exact H1|apply IH]|].
      eapply isteps_trans; [|apply IH]. destruct b; [|exact H1]. eapply isteps_trans; [exact H1|apply ipoll_sound].
  Qed.
End IncrProofs.
