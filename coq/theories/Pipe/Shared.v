(* C13 — a stage that reads, out of band, state published by the stage in front of it.

   parse_lifecycles_buffered_from_stream publishes the lifecycle table through an evmap (`lcs_w.update` ..
   `lcs_w.refresh()`); stages behind it look a message's lifecycle up in that table WHEN THEY GET THE MESSAGE:
   buffer_sort_messages (start time, cached at the first look-up), the export plugin with `lifecyclesToKeep`
   (panics on an unknown id), remote clients.  This is not a Kahn channel: the value read depends on how far
   the writer thread has got, i.e. on channel capacities and pacing.

   Model: the writer, alone, is deterministic: its run is a sequence of events
       EPub t   the readers' view of the table becomes t   (refresh)
       ESend m  m is handed to the outflow                 (sync_sender_send_delay_if_full)
   The reader takes messages from a FIFO of capacity [cap] (0 = rendezvous) at arbitrary later times and
   looks m up in the table that is current AT THAT MOMENT ([look cur m]).  [sstep] = any interleaving.
   No proofs in this file. *)
From Coq Require Import List NArith Bool Arith.
Import ListNotations.

Section Shared.
  Context {msg tbl V : Type}.
  Variable look : tbl -> msg -> V.

  Inductive ev := EPub (t : tbl) | ESend (m : msg).

  Record sst := {
    todo : list ev;            (* what the writer still does *)
    cur : tbl;                 (* the readers' view of the table *)
    chan : list msg;           (* FIFO between writer and reader, oldest first *)
    seen : list (msg * V)      (* the reader's look-ups so far, in order *)
  }.

  Inductive sstep (cap : nat) : sst -> sst -> Prop :=
  | s_pub t r c q o :
      sstep cap {| todo := EPub t :: r; cur := c; chan := q; seen := o |} {| todo := r; cur := t; chan := q; seen := o |}
  | s_send m r c q o : length q < cap ->
      sstep cap {| todo := ESend m :: r; cur := c; chan := q; seen := o |} {| todo := r; cur := c; chan := q ++ [m]; seen := o |}
  | s_rdv m r c o : cap = 0 ->
      sstep cap {| todo := ESend m :: r; cur := c; chan := []; seen := o |}
                {| todo := r; cur := c; chan := []; seen := o ++ [(m, look c m)] |}
  | s_recv m r c q o :
      sstep cap {| todo := r; cur := c; chan := m :: q; seen := o |} {| todo := r; cur := c; chan := q; seen := o ++ [(m, look c m)] |}.

  Inductive ssteps (cap : nat) : sst -> sst -> Prop :=
  | ssteps_refl s : ssteps cap s s
  | ssteps_step s s' s'' : sstep cap s s' -> ssteps cap s' s'' -> ssteps cap s s''.

  Definition sdone (s : sst) : Prop := todo s = [] /\ chan s = [].
  Definition sinit (t0 : tbl) (evs : list ev) : sst := {| todo := evs; cur := t0; chan := []; seen := [] |}.

  Fixpoint sends (evs : list ev) : list msg :=
    match evs with [] => [] | EPub _ :: r => sends r | ESend m :: r => m :: sends r end.
  Fixpoint pubs (evs : list ev) : list tbl :=
    match evs with [] => [] | EPub t :: r => t :: pubs r | ESend _ :: r => pubs r end.

  (* the side condition ("a lifecycle is published before any message carrying it is sent", and stays so):
     from the moment m is handed to the outflow, every view of the table answers the look-up of m with [val m] *)
  Variable val : msg -> V.
  Definition answers (t : tbl) (m : msg) : Prop := look t m = val m.
  Fixpoint published_before_sent (c : tbl) (evs : list ev) : Prop :=
    match evs with
    | [] => True
    | EPub t :: r => published_before_sent t r
    | ESend m :: r => answers c m /\ Forall (fun t => answers t m) (pubs r) /\ published_before_sent c r
    end.

  (* ---- executable: one interleaving chosen by a list of numbers (even = writer first, odd = reader first) ---- *)
  Definition writer_step (cap : nat) (s : sst) : option sst :=
    match todo s with
    | [] => None
    | EPub t :: r => Some {| todo := r; cur := t; chan := chan s; seen := seen s |}
    | ESend m :: r =>
      if length (chan s) <? cap then Some {| todo := r; cur := cur s; chan := chan s ++ [m]; seen := seen s |}
      else match cap, chan s with
           | O, [] => Some {| todo := r; cur := cur s; chan := []; seen := seen s ++ [(m, look (cur s) m)] |}
           | _, _ => None
           end
    end.
  Definition reader_step (s : sst) : option sst :=
    match chan s with
    | [] => None
    | m :: q => Some {| todo := todo s; cur := cur s; chan := q; seen := seen s ++ [(m, look (cur s) m)] |}
    end.
  Fixpoint srun (fuel cap : nat) (sched : list nat) (s : sst) : sst :=
    match fuel with
    | O => s
    | S f =>
      let '(n, sched') := match sched with n :: r => (n, r) | [] => (O, []) end in
      let first := if Nat.even n then writer_step cap s else reader_step s in
      let second := if Nat.even n then reader_step s else writer_step cap s in
      match first with
      | Some s' => srun f cap sched' s'
      | None => match second with Some s' => srun f cap sched' s' | None => s end
      end
    end.
End Shared.
