(* C13 — what ONE stage does after its consumer has disappeared, with a producer that only stops when its
   own send fails (a live source).

   [loss_loop g s inputs k i ff]: the stage thread `for msg in inflow { .. outflow(m) .. } <flush>` run against
   an outflow that accepts [k] more messages and fails from then on (the consumer took k messages and dropped
   its receiver; the closure `|m| sync_sender_send_delay_if_full(m, &tx)` returns Err from then on, for ever).
   The reaction to each failed send is the stage's [on_err] of Pipe/Kahn.v (the same record that is used in
   the pipeline model), interpreted exactly as [react] does there:
     RAbort       the thread function returns             (plugins, sort, filter: `?` / `return Err`)
     RFlush       leaves the receive loop, runs the flush (lifecycle `.send 3`, the direct forward)
     RCont s' j   the failed message is lost, j pending ones are not sent, the loop goes on in state s'
                  (lifecycle `.send 1/.send 2/.send 4`: `break` out of the inner `while` only)
   Result: how many messages the stage pulled from its inflow before it returned ([l_consumed]), what the
   consumer got, the iteration of the first failed send, and whether the stage returned before its input
   ended (then the Receiver is dropped and the producer's next send fails: the producer is told).

   [sstage] / [z_loop]: the loop of parse_lifecycles_buffered_from_stream with its send sites made explicit:
   per iteration [z_drain] = lifecycle update + the messages popped by the drain loops (merge path `.send 4`,
   confirmation `.send 1/.send 2`); a drain send that fails loses that message, leaves the inner loop, and the
   not yet popped rest stays queued ([z_keep]); then the bottom of the iteration [z_bottom]: queue the message
   (`buffered_lcs` not empty) or forward it directly (`.send 3`), whose failure is the ONLY exit of the loop on
   a failing outflow; [z_flush] = the flush loop after the input ended (first failing send: `break`, return).
   [kahn_of z]: the same loop as a [stage] of the pipeline model.
   No proofs in this file. *)
From Coq Require Import List NArith Bool Arith.
From AdltV Require Import Pipe.Kahn.
Import ListNotations.

Section Loss.
  Context {msg St : Type}.
  Notation stage := (@stage msg St).

  Inductive after := AGo (s : St) | AFlush (s : St) | AStop.

  (* the receiver is gone: every remaining send of this iteration fails; fuel = length pd suffices *)
  Fixpoint fail_all (g : stage) (fuel : nat) (flushing : bool) (s : St) (pd : list msg) : after :=
    match pd with
    | [] => AGo s
    | _ :: _ =>
      match fuel with
      | O => AStop
      | S f =>
        match on_err g flushing s pd with
        | RAbort => AStop
        | RFlush => if flushing then AStop else AFlush s
        | RCont s' j => fail_all g f flushing s' (skipn j (tl pd))
        end
      end
    end.

  Record lres := {
    l_consumed : nat;             (* messages pulled from the inflow *)
    l_delivered : list msg;       (* what the consumer got before it disappeared *)
    l_first_fail : option nat;    (* iteration (0-based) of the first failed send; = number of inputs: in the final flush *)
    l_returned_early : bool       (* returned although the inflow had not ended: the producer's next send fails *)
  }.
  Definition with_del (d : list msg) (r : lres) : lres :=
    {| l_consumed := l_consumed r; l_delivered := d ++ l_delivered r; l_first_fail := l_first_fail r;
       l_returned_early := l_returned_early r |}.
  Definition or_some (ff : option nat) (i : nat) : option nat := match ff with Some x => Some x | None => Some i end.

  Fixpoint loss_loop (g : stage) (s : St) (inputs : list msg) (k i : nat) (ff : option nat) : lres :=
    match inputs with
    | [] =>
      let pd := flush g s in
      {| l_consumed := i; l_delivered := firstn k pd;
         l_first_fail := if k <? length pd then or_some ff i else ff; l_returned_early := false |}
    | m :: r =>
      let '(s1, pd) := step_fn g s m in
      match skipn k pd with
      | [] => with_del pd (loss_loop g s1 r (k - length pd) (S i) ff)
      | rest =>
        match fail_all g (length rest) false s1 rest with
        | AGo s2 => with_del (firstn k pd) (loss_loop g s2 r 0 (S i) (or_some ff i))
        | _ => {| l_consumed := S i; l_delivered := firstn k pd; l_first_fail := or_some ff i; l_returned_early := true |}
        end
      end
    end.

  Definition loss_run (g : stage) (inputs : list msg) (k : nat) : lres := loss_loop g (init g) inputs k 0 None.

  (* ---- the lifecycle loop with its send sites ---- *)
  Record sstage := {
    z_init : St;
    z_drain : St -> msg -> St * list msg;       (* lifecycle update, merge path and confirmation: the messages popped by the drain loops, in order *)
    z_keep : St -> list msg -> St;              (* a drain loop left by `break`: these stay queued *)
    z_bottom : St -> msg -> St * option msg;    (* bottom of the iteration: queue the message (None) or forward it directly *)
    z_flush : St -> list msg
  }.
  Definition is_some (d : option msg) : bool := match d with Some _ => true | None => false end.

  (* k = number of messages the consumer still takes *)
  Fixpoint z_loop (z : sstage) (s : St) (inputs : list msg) (k i : nat) (ff : option nat) : lres :=
    match inputs with
    | [] =>
      let pd := z_flush z s in
      {| l_consumed := i; l_delivered := firstn k pd;
         l_first_fail := if k <? length pd then or_some ff i else ff; l_returned_early := false |}
    | m :: r =>
      let '(s1, dr) := z_drain z s m in
      if length dr <=? k then
        (* every drain send succeeds *)
        let '(s2, d) := z_bottom z s1 m in
        match d with
        | None => with_del dr (z_loop z s2 r (k - length dr) (S i) ff)
        | Some x =>
          if length dr <? k
          then with_del (dr ++ [x]) (z_loop z s2 r (k - length dr - 1) (S i) ff)
          else (* .send 3 fails: `break` out of the for loop; the flush loop fails at its first send *)
            {| l_consumed := S i; l_delivered := dr; l_first_fail := or_some ff i; l_returned_early := true |}
        end
      else
        (* .send 1/2/4: the (k+1)-th drain send fails: that message is lost, the inner loop is left, the rest stays queued *)
        let s1' := z_keep z s1 (skipn (S k) dr) in
        let '(s2, d) := z_bottom z s1' m in
        match d with
        | None => with_del (firstn k dr) (z_loop z s2 r 0 (S i) (or_some ff i))
        | Some _ => {| l_consumed := S i; l_delivered := firstn k dr; l_first_fail := or_some ff i; l_returned_early := true |}
        end
    end.
  Definition z_run (z : sstage) (inputs : list msg) (k : nat) : lres := z_loop z (z_init z) inputs k 0 None.

  (* everything the stage forwards when the outflow never fails *)
  Fixpoint z_out (z : sstage) (s : St) (inputs : list msg) : list msg :=
    match inputs with
    | [] => z_flush z s
    | m :: r =>
      let '(s1, dr) := z_drain z s m in
      let '(s2, d) := z_bottom z s1 m in
      dr ++ (match d with Some x => [x] | None => [] end) ++ z_out z s2 r
    end.

  (* the consumer is gone already: how many further messages does the loop pull, from state s? *)
  Definition after_drain (z : sstage) (s1 : St) (dr : list msg) : St :=
    match dr with [] => s1 | _ :: t => z_keep z s1 t end.
  Fixpoint gone_pull (z : sstage) (s : St) (inputs : list msg) : nat :=
    match inputs with
    | [] => 0
    | m :: r =>
      let '(s1, dr) := z_drain z s m in
      let '(s2, d) := z_bottom z (after_drain z s1 dr) m in
      match d with Some _ => 1 | None => S (gone_pull z s2 r) end
    end.
  Fixpoint gone_exits (z : sstage) (s : St) (inputs : list msg) : bool :=
    match inputs with
    | [] => false
    | m :: r =>
      let '(s1, dr) := z_drain z s m in
      let '(s2, d) := z_bottom z (after_drain z s1 dr) m in
      match d with Some _ => true | None => gone_exits z s2 r end
    end.

  (* the same loop as a stage of the pipeline model (Pipe/Kahn.v), for stages whose bottom decision does not look
     at the queue (as coded: `if !buffered_lcs.is_empty()`): state = (state, this iteration ends with the direct forward) *)
End Loss.

Definition kahn_of {msg St : Type} (z : @sstage msg St) : @stage msg (St * bool) :=
  {| init := (z_init z, false);
     step_fn := fun s m =>
       let '(s1, dr) := z_drain z (fst s) m in
       let '(s2, d) := z_bottom z s1 m in
       ((s2, is_some d), dr ++ match d with Some x => [x] | None => [] end);
     flush := fun s => z_flush z (fst s);
     on_err := fun flushing s pd =>
       if flushing then RAbort                                   (* flush loop: `break`, return *)
       else if snd s then
         match tl pd with
         | [] => RFlush                                          (* .send 3 failed: `break` out of `for msg in inflow` *)
         | r => RCont (z_keep z (fst s) (removelast r), true) (length r - 1)   (* a drain send failed: on to the direct forward *)
         end
       else RCont (z_keep z (fst s) (tl pd), false) (length (tl pd)) |}.   (* a drain send failed, the message was queued: next message *)

(* ---- instances over numbers ---- *)
Section LossInstances.
  Open Scope N_scope.
  Definition qempty (l : list N) : bool := match l with [] => true | _ => false end.
  (* state: (queue, buffering?).  Messages are queued while a lifecycle is unconfirmed; a message divisible by k
     confirms: the queue is drained and, nothing being buffered any more, the message is forwarded directly; a
     message divisible by r "reboots": buffering starts again *)
  Definition z_lc (k r : N) : @sstage N (list N * bool) :=
    {| z_init := ([], true);
       z_drain := fun s m =>
         if (m mod k =? 0) then (([], false), fst s)
         else if (m mod r =? 0) then ((fst s, true), [])
         else (s, []);
       z_keep := fun s rest => (rest ++ fst s, snd s);
       z_bottom := fun s m => if snd s then ((fst s ++ [m], true), None) else (s, Some m);
       z_flush := fun s => fst s |}.
  (* the same loop with the bottom guard "never pass a message directly while older messages are still queued":
     `if !buffered_lcs.is_empty() || !buffered_msgs.is_empty()`.  Indistinguishable while the outflow works *)
  Definition z_lc_guarded (k r : N) : @sstage N (list N * bool) :=
    {| z_init := ([], true);
       z_drain := z_drain (z_lc k r);
       z_keep := z_keep (z_lc k r);
       z_bottom := fun s m => if snd s || negb (qempty (fst s)) then ((fst s ++ [m], snd s), None) else (s, Some m);
       z_flush := fun s => fst s |}.
End LossInstances.
