(* Proofs about Pipe/Kahn.v:
   A. the potential [result]/[fstates] (what will have been delivered / the final stage states) is invariant
      under every step of a drop-free execution  ->  determinism, for every capacity vector and schedule
   B. delivered is always a prefix of the sequential result, also when the consumer disappears
   C. no infinite execution (nested well-founded induction: nodes upstream first, phase, pending work)
   D. no deadlock: a configuration without enabled step has all threads finished
   E. the executable scheduler [exec] only produces executions of the relation
   F. permutation stages (time sort) / permutation-congruent stages (filters) *)
From Coq Require Import List NArith Bool Arith Lia Permutation.
From AdltV Require Import Pipe.Kahn.
Import ListNotations.

Section Proofs.
  Context {msg St : Type}.
  Notation stage := (@stage msg St).
  Notation cell := (@cell msg St).
  Notation pipe := (@pipe msg St).
  Notation nstate := (@nstate msg St).

  (* ------------------------------------------------------------------ A. the potential *)
  Definition fut (c : cell) (acc : list msg) : list msg :=
    match ns c with
    | NRun s pd _ => pd ++ snd (run (stg c) s acc)
    | NFlush _ pd _ => pd
    | NDone _ => []
    end.
  Definition fin_state (c : cell) (acc : list msg) : St :=
    match ns c with
    | NRun s _ _ => fst (run (stg c) s acc)
    | NFlush s _ _ => s
    | NDone s => s
    end.
  (* everything the consumer will have got, when [acc] is what will still arrive at the head of [p] *)
  Fixpoint result (acc : list msg) (p : pipe) : list msg :=
    match p with
    | PEnd _ d => d ++ acc
    | PCell c rest => result (q c ++ fut c acc) rest
    end.
  Fixpoint fstates (acc : list msg) (p : pipe) : list St :=
    match p with
    | PEnd _ _ => []
    | PCell c rest => fin_state c acc :: fstates (q c ++ fut c acc) rest
    end.
  (* a node whose receiver is gone has itself finished and its channel is drained
     (true as long as the consumer has not been dropped) *)
  Fixpoint ordered (p : pipe) : Prop :=
    match p with
    | PEnd _ _ => True
    | PCell c rest => (alive rest = false -> closed c = true) /\ ordered rest
    end.

  Lemma run_cons (g : stage) s m r :
    run g s (m :: r) = (fst (run g (fst (step_fn g s m)) r), snd (step_fn g s m) ++ snd (run g (fst (step_fn g s m)) r)).
  Proof.
    cbn [run]. destruct (step_fn g s m) as [s1 o]. cbn [fst snd]. destruct (run g s1 r) as [s2 o2]. reflexivity.
  Qed.

  Lemma accept_result m (p p' : pipe) :
    accept m p = Some p' ->
    forall acc, result (m :: acc) p = result acc p' /\ fstates (m :: acc) p = fstates acc p'.
  Proof.
    destruct p as [b d|c rest]; cbn [accept].
    - destruct b; intros H; inversion H; subst. intros acc. cbn [result fstates]. rewrite <- app_assoc. auto.
    - destruct (ns c) as [s pd sl|s pd sl|s] eqn:En; try discriminate.
      destruct pd as [|x pd]; try discriminate.
      destruct (step_fn (stg c) s m) as [s' outs] eqn:Es. intros H; inversion H; subst p'. intros acc.
      cbn [result fstates]. unfold fut, fin_state, with_ns. cbn [ns q stg]. rewrite En.
      rewrite run_cons, Es. cbn [fst snd app]. auto.
  Qed.

  Lemma accept_alive m (p p' : pipe) : accept m p = Some p' -> alive p = true /\ alive p' = true.
  Proof.
    destruct p as [b d|c rest]; cbn [accept].
    - destruct b; intros H; inversion H; auto.
    - destruct (ns c) as [s pd sl|s pd sl|s] eqn:En; try discriminate.
      destruct pd; try discriminate. destruct (step_fn (stg c) s m). intros H; inversion H; subst.
      cbn [alive with_ns ns]. rewrite En. auto.
  Qed.

  Lemma accept_ordered m (p p' : pipe) : accept m p = Some p' -> ordered p -> ordered p'.
  Proof.
    destruct p as [b d|c rest]; cbn [accept].
    - destruct b; intros H; inversion H; auto.
    - destruct (ns c) as [s pd sl|s pd sl|s] eqn:En; try discriminate.
      destruct pd; try discriminate. destruct (step_fn (stg c) s m). intros H; inversion H; subst.
      cbn [ordered]. intros [H1 H2]. split; [|exact H2]. intros Ha. specialize (H1 Ha).
      unfold closed in H1. rewrite En in H1. discriminate.
  Qed.

  Lemma eos_result (p p' : pipe) :
    eos p = Some p' -> result [] p = result [] p' /\ fstates [] p = fstates [] p'.
  Proof.
    destruct p as [b d|c rest]; cbn [eos].
    - destruct b; intros H; inversion H; subst. auto.
    - destruct (ns c) as [s pd sl|s pd sl|s] eqn:En; try discriminate.
      destruct pd; try discriminate. intros H; inversion H; subst p'.
      cbn [result fstates]. unfold fut, fin_state, with_ns. cbn [ns q stg]. rewrite En. cbn [run fst snd app]. auto.
  Qed.

  Lemma eos_alive (p p' : pipe) : eos p = Some p' -> alive p = true /\ alive p' = false.
  Proof.
    destruct p as [b d|c rest]; cbn [eos].
    - destruct b; intros H; inversion H; auto.
    - destruct (ns c) as [s pd sl|s pd sl|s] eqn:En; try discriminate.
      destruct pd; try discriminate. intros H; inversion H; subst. cbn [alive with_ns ns]. rewrite En. auto.
  Qed.

  Lemma eos_ordered (p p' : pipe) : eos p = Some p' -> ordered p -> ordered p'.
  Proof.
    destruct p as [b d|c rest]; cbn [eos].
    - destruct b; intros H; inversion H; auto.
    - destruct (ns c) as [s pd sl|s pd sl|s] eqn:En; try discriminate.
      destruct pd; try discriminate. intros H; inversion H; subst.
      cbn [ordered]. intros [H1 H2]. split; [|exact H2]. intros Ha. specialize (H1 Ha).
      unfold closed in H1. rewrite En in H1. discriminate.
  Qed.

  Lemma take_spec (c : cell) m (c' : cell) :
    take c = Some (m, c') ->
    (forall acc, q c ++ fut c acc = m :: (q c' ++ fut c' acc)) /\
    (forall acc, fin_state c' acc = fin_state c acc) /\
    alive (PCell c' (PEnd false [])) = alive (PCell c (PEnd false [])) /\
    closed c = false.
  Proof.
    unfold take. destruct (q c) as [|x q'] eqn:Eq.
    - destruct (cap c); try discriminate.
      destruct (ns c) as [s pd sl|s pd sl|s] eqn:En; cbn [pend_of]; try discriminate;
        destruct pd as [|y pd]; try discriminate; intros H; inversion H; subst; clear H;
        unfold fut, fin_state, closed, with_ns; cbn [ns q stg alive set_pend]; rewrite ?En, ?Eq; cbn [app]; auto.
    - intros H; inversion H; subst; clear H.
      unfold fut, fin_state, closed, with_ns_q. cbn [ns q stg alive]. rewrite Eq.
      destruct (ns c); auto.
  Qed.

  Lemma closed_spec (c : cell) : closed c = true -> q c = [] /\ exists s, ns c = NDone s.
  Proof.
    unfold closed. destruct (ns c) as [s pd sl|s pd sl|s]; try discriminate.
    destruct (q c); try discriminate. eauto.
  Qed.

  Lemma head_step_nodrop_preserves a (p p' : pipe) :
    head_step false a p = Some p' -> ordered p ->
    ordered p' /\ alive p' = alive p /\
    forall acc, result acc p = result acc p' /\ fstates acc p = fstates acc p'.
  Proof.
    destruct p as [b d|c rest]; cbn [head_step].
    - destruct a; discriminate.
    - intros H [Ho1 Ho2]. destruct a.
      + (* AEnq *)
        destruct (pend_of (ns c)) as [|m pd] eqn:Ep; try discriminate.
        destruct (alive rest && (length (q c) <? cap c)) eqn:Ec; try discriminate.
        inversion H; subst p'; clear H. apply andb_true_iff in Ec. destruct Ec as [Ea _].
        cbn [ordered]. split; [split; [intros Hf; congruence|exact Ho2]|]. split.
        * cbn [alive with_ns_q ns]. destruct (ns c); reflexivity.
        * intros acc. cbn [result fstates]. unfold fut, fin_state, with_ns_q. cbn [ns q stg].
          destruct (ns c) as [s pd0 sl|s pd0 sl|s]; cbn [pend_of] in Ep; subst; cbn [set_pend]; try discriminate;
            rewrite <- !app_assoc; cbn [app]; auto.
      + (* ASleep *)
        destruct (pend_of (ns c)) as [|m pd] eqn:Ep; try discriminate.
        destruct (alive rest && negb (slept_of (ns c)) && (cap c <=? length (q c))) eqn:Ec; try discriminate.
        inversion H; subst p'; clear H. apply andb_true_iff in Ec. destruct Ec as [Ec _].
        apply andb_true_iff in Ec. destruct Ec as [Ea _].
        cbn [ordered]. split; [split; [intros Hf; congruence|exact Ho2]|]. split.
        * cbn [alive with_ns ns]. destruct (ns c); reflexivity.
        * intros acc. cbn [result fstates]. unfold fut, fin_state, with_ns. cbn [ns q stg].
          destruct (ns c) as [s pd0 sl|s pd0 sl|s]; cbn [pend_of] in Ep; subst; cbn [set_pend pend_of]; auto.
      + (* AFin *)
        destruct (ns c) as [s pd sl|s pd sl|s] eqn:En; try discriminate.
        destruct pd; try discriminate. inversion H; subst p'; clear H.
        assert (Ha : alive rest = true).
        { destruct (alive rest) eqn:Ea; auto. specialize (Ho1 eq_refl). unfold closed in Ho1. rewrite En in Ho1. discriminate. }
        cbn [ordered]. split; [split; [intros Hf; congruence|exact Ho2]|]. split.
        * cbn [alive with_ns ns]. rewrite En. reflexivity.
        * intros acc. cbn [result fstates]. unfold fut, fin_state, with_ns. cbn [ns q stg]. rewrite En. auto.
      + (* AErr: impossible while the consumer has not been dropped *)
        destruct (pend_of (ns c)) as [|m pd] eqn:Ep; try discriminate.
        destruct (alive rest) eqn:Ea; try discriminate.
        specialize (Ho1 eq_refl). apply closed_spec in Ho1. destruct Ho1 as [_ [s En]]. rewrite En in Ep. discriminate.
      + (* AXfer *)
        destruct (take c) as [[m c']|] eqn:Et; try discriminate.
        destruct (accept m rest) as [rest'|] eqn:Eacc; try discriminate.
        inversion H; subst p'; clear H.
        destruct (take_spec _ _ _ Et) as [Hf [Hs [Hal Hcl]]].
        destruct (accept_alive _ _ _ Eacc) as [Ha Ha'].
        cbn [ordered]. split; [split; [intros Hx; congruence|exact (accept_ordered _ _ _ Eacc Ho2)]|]. split.
        * exact Hal.
        * intros acc. cbn [result fstates]. rewrite Hf, Hs.
          destruct (accept_result _ _ _ Eacc (q c' ++ fut c' acc)) as [R1 R2]. rewrite R1, R2. auto.
      + (* AEos *)
        destruct (closed c) eqn:Ecl; try discriminate.
        destruct (eos rest) as [rest'|] eqn:Ee; try discriminate.
        inversion H; subst p'; clear H.
        destruct (closed_spec _ Ecl) as [Eq [s En]].
        cbn [ordered]. split; [split; [auto|exact (eos_ordered _ _ Ee Ho2)]|]. split; [reflexivity|].
        intros acc. cbn [result fstates]. unfold fut. rewrite En, Eq. cbn [app].
        destruct (eos_result _ _ Ee) as [R1 R2]. rewrite R1, R2. auto.
      + discriminate.
  Qed.

  Lemma step_nodrop_preserves (p p' : pipe) :
    step false p p' -> ordered p ->
    ordered p' /\ alive p' = alive p /\
    forall acc, result acc p = result acc p' /\ fstates acc p = fstates acc p'.
  Proof.
    induction 1 as [a p p' H|c rest rest' H IH].
    - exact (head_step_nodrop_preserves a p p' H).
    - intros [Ho1 Ho2]. destruct (IH Ho2) as [Ho' [Ha Hr]].
      cbn [ordered]. split; [split; [rewrite Ha; exact Ho1|exact Ho']|]. split; [reflexivity|].
      intros acc. cbn [result fstates]. destruct (Hr (q c ++ fut c acc)) as [R1 R2]. rewrite R1, R2. auto.
  Qed.

  Lemma pstep_nodrop_preserves (p p' : pipe) :
    pstep false p p' -> ordered p ->
    ordered p' /\ result [] p = result [] p' /\ fstates [] p = fstates [] p'.
  Proof.
    intros [H|H] Ho.
    - destruct (step_nodrop_preserves _ _ H Ho) as [Ho' [_ Hr]]. destruct (Hr []) as [R1 R2]. auto.
    - destruct (eos_result _ _ H) as [R1 R2]. split; [exact (eos_ordered _ _ H Ho)|auto].
  Qed.

  Lemma psteps_nodrop_preserves (p p' : pipe) :
    psteps false p p' -> ordered p ->
    ordered p' /\ result [] p = result [] p' /\ fstates [] p = fstates [] p'.
  Proof.
    induction 1 as [p|p p' p'' H1 H2 IH]; intros Ho; [auto|].
    destruct (pstep_nodrop_preserves _ _ H1 Ho) as [Ho' [R1 R2]].
    destruct (IH Ho') as [Ho'' [R1' R2']]. split; [exact Ho''|]. split; congruence.
  Qed.

  Lemma all_done_not_alive (p : pipe) : all_done p = true -> alive p = false.
  Proof.
    destruct p as [b d|c rest]; cbn [all_done alive].
    - destruct b; auto; discriminate.
    - destruct (ns c); auto; discriminate.
  Qed.

  Lemma all_done_result (p : pipe) :
    all_done p = true -> ordered p -> result [] p = delivered p /\ fstates [] p = final_states p.
  Proof.
    induction p as [b d|c rest IH]; cbn [all_done ordered result fstates delivered final_states].
    - intros _ _. rewrite app_nil_r. auto.
    - destruct (ns c) as [s pd sl|s pd sl|s] eqn:En; try discriminate.
      intros Hd [Ho1 Ho2]. specialize (Ho1 (all_done_not_alive _ Hd)).
      destruct (closed_spec _ Ho1) as [Eq _]. unfold fut, fin_state. rewrite En, Eq. cbn [app state_of].
      destruct (IH Hd Ho2) as [R1 R2]. rewrite R1, R2. auto.
  Qed.

  (* in a drop-free final configuration every channel is drained: nothing was left behind *)
  Fixpoint drained (p : pipe) : Prop :=
    match p with PEnd _ _ => True | PCell c rest => q c = [] /\ drained rest end.
  Lemma all_done_drained (p : pipe) : all_done p = true -> ordered p -> drained p.
  Proof.
    induction p as [b d|c rest IH]; cbn [all_done ordered drained]; auto.
    destruct (ns c); try discriminate. intros Hd [Ho1 Ho2].
    destruct (closed_spec _ (Ho1 (all_done_not_alive _ Hd))) as [Eq _]. auto.
  Qed.

  Lemma stages_pipe_alive (gs : list (stage * nat)) : alive (stages_pipe gs) = true.
  Proof. destruct gs as [|[g c] r]; reflexivity. Qed.

  Lemma stages_pipe_ordered (gs : list (stage * nat)) : ordered (stages_pipe gs).
  Proof.
    induction gs as [|[g c] r IH]; cbn [stages_pipe ordered]; auto.
    split; [|exact IH]. rewrite stages_pipe_alive. discriminate.
  Qed.

  Lemma stages_pipe_result (gs : list (stage * nat)) acc :
    result acc (stages_pipe gs) = compose (map fst gs) acc /\
    fstates acc (stages_pipe gs) = compose_states (map fst gs) acc.
  Proof.
    revert acc. induction gs as [|[g c] r IH]; intros acc; cbn [stages_pipe result fstates map fst compose compose_states].
    - auto.
    - unfold fut, fin_state. cbn [ns q stg app]. destruct (IH (snd (run g (init g) acc))) as [R1 R2].
      unfold F. rewrite R1, R2. auto.
  Qed.

  Lemma init_pipe_ordered s0 input cap0 (gs : list (stage * nat)) : ordered (init_pipe s0 input cap0 gs).
  Proof.
    unfold init_pipe. cbn [ordered]. split; [|apply stages_pipe_ordered].
    rewrite stages_pipe_alive. discriminate.
  Qed.

  Lemma init_pipe_result s0 input cap0 (gs : list (stage * nat)) :
    result [] (init_pipe s0 input cap0 gs) = compose (map fst gs) input /\
    fstates [] (init_pipe s0 input cap0 gs) = s0 :: compose_states (map fst gs) input.
  Proof.
    unfold init_pipe. cbn [result fstates]. unfold fut, fin_state, source. cbn [ns q stg app].
    destruct (stages_pipe_result gs input) as [R1 R2]. rewrite R1, R2. auto.
  Qed.

  Theorem pipeline_deterministic s0 input cap0 (gs : list (stage * nat)) (p' : pipe) :
    psteps false (init_pipe s0 input cap0 gs) p' -> all_done p' = true ->
    delivered p' = compose (map fst gs) input /\
    final_states p' = s0 :: compose_states (map fst gs) input /\
    drained p'.
  Proof.
    intros Hs Hd.
    destruct (psteps_nodrop_preserves _ _ Hs (init_pipe_ordered _ _ _ _)) as [Ho [R1 R2]].
    destruct (all_done_result _ Hd Ho) as [D1 D2].
    destruct (init_pipe_result s0 input cap0 gs) as [I1 I2].
    split; [congruence|]. split; [congruence|]. exact (all_done_drained _ Hd Ho).
  Qed.

  (* ------------------------------------------------------------------ B. prefix, with consumer drop *)
  Lemma result_delivered (p : pipe) : forall acc, exists suf, result acc p = delivered p ++ suf.
  Proof.
    induction p as [b d|c rest IH]; intros acc; cbn [result delivered]; eauto.
  Qed.

  Lemma accept_gone m (p p' : pipe) :
    accept m p = Some p' -> consumer_alive p = false -> consumer_alive p' = false /\ delivered p' = delivered p.
  Proof.
    destruct p as [b d|c rest]; cbn [accept].
    - destruct b; intros H; inversion H; subst. cbn. discriminate.
    - destruct (ns c) as [s pd sl|s pd sl|s]; try discriminate. destruct pd; try discriminate.
      destruct (step_fn (stg c) s m). intros H; inversion H; subst. cbn. auto.
  Qed.
  Lemma eos_gone (p p' : pipe) :
    eos p = Some p' -> consumer_alive p = false -> consumer_alive p' = false /\ delivered p' = delivered p.
  Proof.
    destruct p as [b d|c rest]; cbn [eos].
    - destruct b; intros H; inversion H; subst. cbn. discriminate.
    - destruct (ns c) as [s pd sl|s pd sl|s]; try discriminate. destruct pd; try discriminate.
      intros H; inversion H; subst. cbn. auto.
  Qed.

  Lemma step_gone dr (p p' : pipe) :
    step dr p p' -> consumer_alive p = false -> consumer_alive p' = false /\ delivered p' = delivered p.
  Proof.
    induction 1 as [a p p' H|c rest rest' H IH].
    - destruct p as [b d|c rest]; cbn [head_step] in H.
      + destruct a; try discriminate. destruct (dr && b) eqn:E; try discriminate.
        inversion H; subst. cbn. auto.
      + destruct a; cbn [consumer_alive delivered].
        * destruct (pend_of (ns c)); try discriminate. destruct (alive rest && _); try discriminate. inversion H; subst. cbn. auto.
        * destruct (pend_of (ns c)); try discriminate. destruct (alive rest && _ && _); try discriminate. inversion H; subst. cbn. auto.
        * destruct (ns c) as [s pd sl|s pd sl|s]; try discriminate. destruct pd; try discriminate. inversion H; subst. cbn. auto.
        * destruct (pend_of (ns c)); try discriminate. destruct (alive rest); try discriminate. inversion H; subst. cbn. auto.
        * destruct (take c) as [[m c']|]; try discriminate. destruct (accept m rest) as [rest'|] eqn:Ea; try discriminate.
          inversion H; subst. cbn. exact (accept_gone _ _ _ Ea).
        * destruct (closed c); try discriminate. destruct (eos rest) as [rest'|] eqn:Ee; try discriminate.
          inversion H; subst. cbn. exact (eos_gone _ _ Ee).
        * discriminate.
    - cbn [consumer_alive delivered]. exact IH.
  Qed.

  Lemma step_drop_split (p p' : pipe) :
    step true p p' -> step false p p' \/ (consumer_alive p' = false /\ delivered p' = delivered p).
  Proof.
    induction 1 as [a p p' H|c rest rest' H IH].
    - destruct a.
      + left. apply step_head with (a := AEnq). destruct p; exact H.
      + left. apply step_head with (a := ASleep). destruct p; exact H.
      + left. apply step_head with (a := AFin). destruct p; exact H.
      + left. apply step_head with (a := AErr). destruct p; exact H.
      + left. apply step_head with (a := AXfer). destruct p; exact H.
      + left. apply step_head with (a := AEos). destruct p; exact H.
      + right. destruct p as [b d|c rest]; cbn [head_step] in H; try discriminate.
        destruct (true && b); try discriminate. inversion H; subst. cbn. auto.
    - destruct IH as [IH|IH]; [left; apply step_deep; exact IH|right; exact IH].
  Qed.

  Definition is_prefix (a b : list msg) : Prop := exists suf, a ++ suf = b.

  Lemma psteps_prefix R (p p' : pipe) :
    psteps true p p' ->
    (ordered p /\ result [] p = R) \/ (consumer_alive p = false /\ is_prefix (delivered p) R) ->
    (ordered p' /\ result [] p' = R) \/ (consumer_alive p' = false /\ is_prefix (delivered p') R).
  Proof.
    induction 1 as [p|p p' p'' H1 H2 IH]; intros HJ; [exact HJ|].
    apply IH. clear IH H2. destruct HJ as [[Ho HR]|[Hg Hp]].
    - destruct H1 as [H1|H1].
      + destruct (step_drop_split _ _ H1) as [Hs|[Hg Hd]].
        * left. destruct (step_nodrop_preserves _ _ Hs Ho) as [Ho' [_ Hr]]. destruct (Hr []) as [R1 _].
          split; [exact Ho'|congruence].
        * right. split; [exact Hg|]. rewrite Hd. destruct (result_delivered p []) as [suf Hsuf].
          exists suf. congruence.
      + left. destruct (eos_result _ _ H1) as [R1 _]. split; [exact (eos_ordered _ _ H1 Ho)|congruence].
    - right. destruct H1 as [H1|H1].
      + destruct (step_gone _ _ _ H1 Hg) as [Hg' Hd]. rewrite Hd. auto.
      + destruct (eos_gone _ _ H1 Hg) as [Hg' Hd]. rewrite Hd. auto.
  Qed.

  Theorem delivered_prefix_always s0 input cap0 (gs : list (stage * nat)) (p' : pipe) :
    psteps true (init_pipe s0 input cap0 gs) p' ->
    is_prefix (delivered p') (compose (map fst gs) input).
  Proof.
    intros Hs.
    destruct (psteps_prefix (compose (map fst gs) input) _ _ Hs) as [[Ho HR]|[_ Hp]].
    - left. split; [apply init_pipe_ordered|]. apply init_pipe_result.
    - destruct (result_delivered p' []) as [suf Hsuf]. exists suf. congruence.
    - exact Hp.
  Qed.

  (* ------------------------------------------------------------------ C. termination *)
  Definition R (y x : pipe) : Prop := pstep true x y.

  Definition phase (c : cell) : nat :=
    match ns c with NRun _ _ _ => 2 | NFlush _ _ _ => 1 | NDone _ => 0 end.
  (* pending work of a node on its own output side: 3 per unsent message (sleep, send, leave the FIFO),
     1 per queued message, 1 while the helper has not slept yet *)
  Definition wt (c : cell) : nat :=
    3 * length (pend_of (ns c)) + length (q c) + (if slept_of (ns c) then 0 else 1).

  Lemma accept_depth m (p p' : pipe) : accept m p = Some p' -> depth p' = depth p.
  Proof.
    destruct p as [b d|c rest]; cbn [accept].
    - destruct b; intros H; inversion H; reflexivity.
    - destruct (ns c) as [s pd sl|s pd sl|s]; try discriminate. destruct pd; try discriminate.
      destruct (step_fn (stg c) s m). intros H; inversion H; reflexivity.
  Qed.
  Lemma eos_depth (p p' : pipe) : eos p = Some p' -> depth p' = depth p.
  Proof.
    destruct p as [b d|c rest]; cbn [eos].
    - destruct b; intros H; inversion H; reflexivity.
    - destruct (ns c) as [s pd sl|s pd sl|s]; try discriminate. destruct pd; try discriminate.
      intros H; inversion H; reflexivity.
  Qed.
  Lemma step_depth dr (p p' : pipe) : step dr p p' -> depth p' = depth p.
  Proof.
    induction 1 as [a p p' H|c rest rest' H IH]; [|cbn [depth]; congruence].
    destruct p as [b d|c rest]; cbn [head_step] in H.
    - destruct a; try discriminate. destruct (dr && b); inversion H; reflexivity.
    - destruct a.
      + destruct (pend_of (ns c)); try discriminate. destruct (alive rest && _); inversion H; reflexivity.
      + destruct (pend_of (ns c)); try discriminate. destruct (alive rest && _ && _); inversion H; reflexivity.
      + destruct (ns c) as [s pd sl|s pd sl|s]; try discriminate. destruct pd; inversion H; reflexivity.
      + destruct (pend_of (ns c)); try discriminate. destruct (alive rest); inversion H; reflexivity.
      + destruct (take c) as [[m c']|]; try discriminate. destruct (accept m rest) as [rest'|] eqn:Ea; try discriminate.
        inversion H; subst. cbn [depth]. f_equal. exact (accept_depth _ _ _ Ea).
      + destruct (closed c); try discriminate. destruct (eos rest) as [rest'|] eqn:Ee; try discriminate.
        inversion H; subst. cbn [depth]. f_equal. exact (eos_depth _ _ Ee).
      + discriminate.
  Qed.
  Lemma R_depth (y x : pipe) : R y x -> depth y = depth x.
  Proof. intros [H|H]; [exact (step_depth _ _ _ H)|exact (eos_depth _ _ H)]. Qed.

  Lemma take_measure (c : cell) m (c' : cell) : take c = Some (m, c') -> phase c' = phase c /\ wt c' < wt c.
  Proof.
    unfold take, phase, wt. destruct (q c) as [|x q'] eqn:Eq.
    - destruct (cap c); try discriminate.
      destruct (ns c) as [s pd sl|s pd sl|s]; cbn [pend_of]; try discriminate;
        destruct pd as [|y pd]; try discriminate; intros H; inversion H; subst; clear H;
        cbn [with_ns ns q set_pend pend_of slept_of length]; rewrite Eq; cbn [length]; split; auto; destruct sl; lia.
    - intros H; inversion H; subst; clear H. cbn [with_ns_q ns q length]. split; auto. lia.
  Qed.

  Lemma skipn_tl_length {A} k (l : list A) : l <> [] -> length (skipn k (tl l)) < length l.
  Proof.
    intros Hl. destruct l as [|x l]; [congruence|]. cbn [tl length]. rewrite skipn_length. lia.
  Qed.

  Lemma react_measure (c : cell) pd :
    pend_of (ns c) = pd -> pd <> [] ->
    phase (with_ns c (react c pd)) < phase c \/
    (phase (with_ns c (react c pd)) = phase c /\ wt (with_ns c (react c pd)) < wt c).
  Proof.
    intros Hp Hne. unfold react, phase, wt. cbn [with_ns ns q].
    destruct (ns c) as [s pd0 sl|s pd0 sl|s]; cbn [pend_of] in Hp; subst pd.
    - destruct (on_err (stg c) false s pd0) as [| |s' k]; cbn [pend_of slept_of]; auto.
      right. split; auto. pose proof (skipn_tl_length k pd0 Hne). destruct sl; lia.
    - destruct (on_err (stg c) true s pd0) as [| |s' k]; cbn [pend_of slept_of]; auto.
      right. split; auto. pose proof (skipn_tl_length k pd0 Hne). destruct sl; lia.
    - congruence.
  Qed.

  Lemma acc_end b d : Acc R (PEnd b d : pipe).
  Proof.
    assert (Hf : Acc R (PEnd false d : pipe)).
    { constructor. intros y [H|H]; [|cbn in H; discriminate].
      inversion H as [a p p' Hh|]; subst. destruct a; cbn in Hh; discriminate. }
    destruct b; [|exact Hf].
    constructor. intros y [H|H].
    - inversion H as [a p p' Hh|]; subst. destruct a; cbn in Hh; try discriminate. inversion Hh; subst. exact Hf.
    - cbn in H. inversion H; subst. exact Hf.
  Qed.

  Lemma step_cell_inv dr (c : cell) (r y : pipe) :
    step dr (PCell c r) y ->
    (exists a, head_step dr a (PCell c r) = Some y) \/ (exists r', y = PCell c r' /\ step dr r r').
  Proof.
    intros H. inversion H as [a p p' Hh|c0 rest rest' Hdeep]; subst; [left; eauto|right; eauto].
  Qed.

  Lemma acc_cell n (IHn : forall r : pipe, depth r = n -> Acc R r) :
    forall ph w (c : cell) (r : pipe), phase c = ph -> wt c = w -> depth r = n -> Acc R (PCell c r).
  Proof.
    induction ph as [ph IHph] using lt_wf_ind.
    induction w as [w IHw] using lt_wf_ind.
    intros c r Hph Hw Hd. pose proof (IHn r Hd) as Hacc. revert Hd. induction Hacc as [r _ IHr]. intros Hd.
    assert (SAME : forall (c' : cell) (r' : pipe), phase c' = phase c -> wt c' < wt c -> depth r' = n -> Acc R (PCell c' r')).
    { intros c' r' Hp Hlt Hd'. rewrite Hw in Hlt. apply (IHw _ Hlt c' r'); congruence. }
    assert (LESS : forall (c' : cell) (r' : pipe), phase c' < phase c -> depth r' = n -> Acc R (PCell c' r')).
    { intros c' r' Hlt Hd'. rewrite Hph in Hlt. apply (IHph _ Hlt (wt c') c' r'); congruence. }
    constructor. intros y [Hstep|Heos].
    - destruct (step_cell_inv _ _ _ _ Hstep) as [[a Hh]|[r' [-> Hdeep]]].
      + cbn [head_step] in Hh. destruct a.
        * (* AEnq *)
          destruct (pend_of (ns c)) as [|m pd] eqn:Ep; try discriminate.
          destruct (alive r && (length (q c) <? cap c)); try discriminate. inversion Hh; subst y; clear Hh.
          apply SAME; [| |exact Hd].
          -- unfold phase. cbn [with_ns_q ns]. destruct (ns c); reflexivity.
          -- unfold wt. cbn [with_ns_q ns q]. rewrite app_length. cbn [length].
             destruct (ns c) as [s pd0 sl|s pd0 sl|s]; cbn [pend_of] in Ep; try discriminate; subst pd0;
               cbn [set_pend pend_of slept_of length]; destruct sl; lia.
        * (* ASleep *)
          destruct (pend_of (ns c)) as [|m pd] eqn:Ep; try discriminate.
          destruct (alive r && negb (slept_of (ns c)) && (cap c <=? length (q c))) eqn:Ec; try discriminate.
          inversion Hh; subst y; clear Hh.
          apply andb_true_iff in Ec. destruct Ec as [Ec _]. apply andb_true_iff in Ec. destruct Ec as [_ Esl].
          apply SAME; [| |exact Hd].
          -- unfold phase. cbn [with_ns ns]. destruct (ns c); reflexivity.
          -- unfold wt. cbn [with_ns ns q].
             destruct (ns c) as [s pd0 sl|s pd0 sl|s]; cbn [pend_of slept_of] in *; try discriminate; subst pd0;
               cbn [set_pend pend_of slept_of]; destruct sl; try discriminate; lia.
        * (* AFin *)
          destruct (ns c) as [s pd sl|s pd sl|s] eqn:En; try discriminate. destruct pd; try discriminate.
          inversion Hh; subst y; clear Hh.
          apply LESS; [|exact Hd]. unfold phase. cbn [with_ns ns]. rewrite En. lia.
        * (* AErr *)
          destruct (pend_of (ns c)) as [|m pd] eqn:Ep; try discriminate.
          destruct (alive r); try discriminate. inversion Hh; subst y; clear Hh.
          destruct (react_measure c (m :: pd) Ep) as [Hlt|[Heq Hlt]]; [discriminate| |].
          -- apply LESS; assumption.
          -- apply SAME; assumption.
        * (* AXfer *)
          destruct (take c) as [[m c']|] eqn:Et; try discriminate.
          destruct (accept m r) as [r'|] eqn:Ea; try discriminate. inversion Hh; subst y; clear Hh.
          destruct (take_measure _ _ _ Et) as [Hp Hlt].
          apply SAME; [exact Hp|exact Hlt|]. rewrite (accept_depth _ _ _ Ea). exact Hd.
        * (* AEos *)
          destruct (closed c); try discriminate. destruct (eos r) as [r'|] eqn:Ee; try discriminate.
          inversion Hh; subst y; clear Hh.
          apply IHr; [right; exact Ee|]. rewrite (eos_depth _ _ Ee). exact Hd.
        * discriminate.
      + apply IHr; [left; exact Hdeep|]. rewrite (step_depth _ _ _ Hdeep). exact Hd.
    - cbn [eos] in Heos. destruct (ns c) as [s pd sl|s pd sl|s] eqn:En; try discriminate.
      destruct pd; try discriminate. inversion Heos; subst y; clear Heos.
      apply LESS; [|exact Hd]. unfold phase. cbn [with_ns ns]. rewrite En. lia.
  Qed.

  Lemma acc_depth n : forall p : pipe, depth p = n -> Acc R p.
  Proof.
    induction n as [|n IHn]; intros p Hd.
    - destruct p as [b d|c r]; [apply acc_end|discriminate].
    - destruct p as [b d|c r]; [discriminate|]. cbn [depth] in Hd. inversion Hd.
      eapply (acc_cell n IHn); reflexivity || assumption.
  Qed.

  (* no infinite execution, from any configuration, with or without the consumer disappearing *)
  Theorem pipeline_terminates (p : pipe) : Acc (fun y x => pstep true x y) p.
  Proof. exact (acc_depth (depth p) p eq_refl). Qed.

  Lemma pstep_false_true (p p' : pipe) : pstep false p p' -> pstep true p p'.
  Proof.
    intros [H|H]; [left|right; exact H].
    induction H as [a p p' H|c rest rest' H IH]; [|apply step_deep; exact IH].
    apply step_head with (a := a). destruct p as [b d|c rest]; [destruct a; discriminate|].
    destruct a; exact H.
  Qed.

  Theorem pipeline_terminates_nodrop (p : pipe) : Acc (fun y x => pstep false x y) p.
  Proof.
    induction (pipeline_terminates p) as [p _ IH]. constructor. intros y Hy. apply IH. exact (pstep_false_true _ _ Hy).
  Qed.

  (* ------------------------------------------------------------------ D. no deadlock *)
  Definition wants_input (p : pipe) : bool :=
    match p with
    | PEnd b _ => b
    | PCell c _ => match ns c with NRun _ [] _ => true | _ => false end
    end.

  Lemma wants_input_spec (p : pipe) :
    wants_input p = true -> alive p = true /\ (forall m, exists p', accept m p = Some p') /\ exists p', eos p = Some p'.
  Proof.
    destruct p as [b d|c rest]; cbn [wants_input alive accept eos].
    - intros ->. split; [auto|]. split; eauto.
    - destruct (ns c) as [s pd sl|s pd sl|s]; try discriminate. destruct pd; try discriminate.
      intros _. split; [auto|]. split; [|eauto]. intros m. destruct (step_fn (stg c) s m). eauto.
  Qed.

  Lemma progress_sub (p : pipe) :
    all_done p = true \/ (exists p', step false p p') \/ wants_input p = true.
  Proof.
    induction p as [b d|c rest IH].
    - destruct b; cbn; auto.
    - destruct IH as [Hd|[[rest' Hs]|Hw]].
      + (* everything downstream has finished: sends fail *)
        pose proof (all_done_not_alive _ Hd) as Ha.
        destruct (pend_of (ns c)) as [|m pd] eqn:Ep.
        * destruct (ns c) as [s pd sl|s pd sl|s] eqn:En; cbn [pend_of] in Ep; subst.
          -- right. right. cbn [wants_input]. rewrite En. reflexivity.
          -- right. left. eexists. apply step_head with (a := AFin). cbn [head_step]. rewrite En. reflexivity.
          -- left. cbn [all_done]. rewrite En. exact Hd.
        * right. left. eexists. apply step_head with (a := AErr). cbn [head_step]. rewrite Ep, Ha. reflexivity.
      + right. left. eexists. apply step_deep. exact Hs.
      + (* the receiver sits in recv() *)
        destruct (wants_input_spec _ Hw) as [Ha [Hacc [rest' He]]].
        destruct (take c) as [[m c']|] eqn:Et.
        * destruct (Hacc m) as [r' Hr']. right. left. eexists. apply step_head with (a := AXfer).
          cbn [head_step]. rewrite Et, Hr'. reflexivity.
        * unfold take in Et. destruct (q c) as [|x q'] eqn:Eq; [|discriminate].
          destruct (pend_of (ns c)) as [|m pd] eqn:Ep.
          -- destruct (ns c) as [s pd sl|s pd sl|s] eqn:En; cbn [pend_of] in Ep; subst.
             ++ right. right. cbn [wants_input]. rewrite En. reflexivity.
             ++ right. left. eexists. apply step_head with (a := AFin). cbn [head_step]. rewrite En. reflexivity.
             ++ right. left. eexists. apply step_head with (a := AEos). cbn [head_step]. unfold closed.
                rewrite En, Eq, He. reflexivity.
          -- destruct (cap c) as [|k] eqn:Ec; [discriminate|].
             right. left. eexists. apply step_head with (a := AEnq). cbn [head_step].
             rewrite Ep, Ha, Eq, Ec. cbn. reflexivity.
  Qed.

  (* every configuration in which some thread has not finished (or the consumer still waits) has an enabled
     step, without needing the consumer to disappear: no deadlock *)
  Theorem pipeline_no_deadlock (p : pipe) : all_done p = false -> exists p', pstep false p p'.
  Proof.
    intros Hnd. destruct (progress_sub p) as [Hd|[[p' Hs]|Hw]].
    - congruence.
    - exists p'. left. exact Hs.
    - destruct (wants_input_spec _ Hw) as [_ [_ [p' He]]]. exists p'. right. exact He.
  Qed.

  (* maximal executions end with every thread finished *)
  Theorem stuck_is_done (p : pipe) : (forall p', ~ pstep false p p') -> all_done p = true.
  Proof.
    intros Hst. destruct (all_done p) eqn:E; auto.
    destruct (pipeline_no_deadlock p E) as [p' H]. destruct (Hst p' H).
  Qed.

  (* from every configuration a maximal execution exists, it is finite, and it ends with all threads done *)
  Theorem pipeline_reaches_done (p : pipe) : exists p', psteps false p p' /\ all_done p' = true.
  Proof.
    induction (pipeline_terminates_nodrop p) as [p _ IH].
    destruct (all_done p) eqn:E.
    - exists p. split; [apply psteps_refl|exact E].
    - destruct (pipeline_no_deadlock p E) as [p1 H1]. destruct (IH p1 H1) as [p' [Hs Hd]].
      exists p'. split; [eapply psteps_step; eassumption|exact Hd].
  Qed.

  (* the send actions of [head_step] are exactly the outcomes of the helper
       match tx.try_send(m) { Ok => Ok, Full(m) => { sleep; tx.send(m) }, Disconnected(m) => Err }  *)
  Lemma helper_faithful (c : cell) (rest : pipe) m pd :
    pend_of (ns c) = m :: pd -> length (q c) <= cap c ->
    let r := try_send (alive rest) (cap c) (length (q c)) (waiting rest) in
    (r = TryDisconnected <-> head_step false AErr (PCell c rest) <> None) /\
    (r = TryOk <-> (head_step false AEnq (PCell c rest) <> None \/
                    (q c = [] /\ cap c = 0 /\ head_step false AXfer (PCell c rest) <> None))) /\
    (r = TryFull -> slept_of (ns c) = false -> head_step false ASleep (PCell c rest) <> None) /\
    (head_step false ASleep (PCell c rest) <> None -> alive rest = true /\ slept_of (ns c) = false /\ cap c <= length (q c)).
  Proof.
    intros Ep Hcap. cbv zeta. unfold try_send. cbn [head_step]. rewrite Ep.
    split; [|split; [|split]].
    - destruct (alive rest); cbn [negb]; split; intros H; try congruence.
      destruct ((length (q c) <? cap c) || ((cap c =? 0) && waiting rest)); discriminate.
    - destruct (alive rest) eqn:Ea; cbn [negb andb].
      + destruct (length (q c) <? cap c) eqn:El; cbn [orb].
        * split; [intros _; left; discriminate|reflexivity].
        * apply Nat.ltb_ge in El. unfold take. split.
          -- destruct (cap c =? 0) eqn:Ec; cbn [andb]; [|discriminate].
             destruct (waiting rest) eqn:Ew; [|discriminate]. intros _. right.
             apply Nat.eqb_eq in Ec. rewrite Ec in *. destruct (q c) as [|x q']; [|cbn in Hcap; lia].
             split; [reflexivity|]. split; [reflexivity|]. rewrite Ep.
             destruct (wants_input_spec rest Ew) as [_ [Hacc _]]. destruct (Hacc m) as [r' Hr']. rewrite Hr'. discriminate.
          -- intros [H|[Hq [Hc H]]]; [congruence|]. rewrite Hc, Hq, Ep in *. cbn [Nat.eqb andb].
             destruct (waiting rest) eqn:Ew; [reflexivity|]. exfalso. apply H.
             destruct rest as [b d|c2 r2]; cbn [waiting accept] in *.
             ++ rewrite Ew. reflexivity.
             ++ destruct (ns c2) as [s2 pd2 sl2|s2 pd2 sl2|s2]; try reflexivity. destruct pd2; [discriminate|reflexivity].
      + split; [discriminate|]. intros [H|[_ [_ H]]]; [congruence|]. exfalso. apply H.
        destruct (take c) as [[m' c']|]; [|reflexivity].
        destruct rest as [b d|c2 r2]; cbn [alive accept] in *; [rewrite Ea; reflexivity|].
        destruct (ns c2) as [s2 pd2 sl2|s2 pd2 sl2|s2]; try reflexivity; discriminate.
    - destruct (alive rest); cbn [negb andb]; [|discriminate].
      destruct (length (q c) <? cap c) eqn:El; cbn [orb].
      + discriminate.
      + intros _ Hs. rewrite Hs. cbn [negb andb]. apply Nat.ltb_ge in El. apply Nat.leb_le in El. rewrite El. discriminate.
    - destruct (alive rest); cbn [andb]; [|congruence].
      destruct (slept_of (ns c)); cbn [negb andb]; [congruence|].
      destruct (cap c <=? length (q c)) eqn:El; [|congruence]. apply Nat.leb_le in El. auto.
  Qed.

  (* the channels really are bounded: no FIFO ever holds more than its capacity (capacity 0: never anything) *)
  Fixpoint within_cap (p : pipe) : Prop :=
    match p with PEnd _ _ => True | PCell c rest => length (q c) <= cap c /\ within_cap rest end.

  Lemma accept_within m (p p' : pipe) : accept m p = Some p' -> within_cap p -> within_cap p'.
  Proof.
    destruct p as [b d|c rest]; cbn [accept].
    - destruct b; intros H; inversion H; auto.
    - destruct (ns c) as [s pd sl|s pd sl|s]; try discriminate. destruct pd; try discriminate.
      destruct (step_fn (stg c) s m). intros H; inversion H; subst. cbn. auto.
  Qed.
  Lemma eos_within (p p' : pipe) : eos p = Some p' -> within_cap p -> within_cap p'.
  Proof.
    destruct p as [b d|c rest]; cbn [eos].
    - destruct b; intros H; inversion H; auto.
    - destruct (ns c) as [s pd sl|s pd sl|s]; try discriminate. destruct pd; try discriminate.
      intros H; inversion H; subst. cbn. auto.
  Qed.
  Lemma step_within dr (p p' : pipe) : step dr p p' -> within_cap p -> within_cap p'.
  Proof.
    induction 1 as [a p p' H|c rest rest' H IH]; [|cbn [within_cap]; intros [H1 H2]; auto].
    destruct p as [b d|c rest]; cbn [head_step] in H.
    - destruct a; try discriminate. destruct (dr && b); inversion H; auto.
    - intros [H1 H2]. destruct a.
      + destruct (pend_of (ns c)); try discriminate.
        destruct (alive rest && (length (q c) <? cap c)) eqn:E; try discriminate. inversion H; subst.
        apply andb_true_iff in E. destruct E as [_ E]. apply Nat.ltb_lt in E.
        cbn [within_cap with_ns_q q cap]. rewrite app_length. cbn [length]. split; [lia|exact H2].
      + destruct (pend_of (ns c)); try discriminate. destruct (alive rest && _ && _); inversion H; subst. cbn. auto.
      + destruct (ns c) as [s pd sl|s pd sl|s]; try discriminate. destruct pd; inversion H; subst. cbn. auto.
      + destruct (pend_of (ns c)); try discriminate. destruct (alive rest); inversion H; subst. cbn. auto.
      + destruct (take c) as [[m c']|] eqn:Et; try discriminate. destruct (accept m rest) as [rest'|] eqn:Ea; try discriminate.
        inversion H; subst. cbn [within_cap]. split; [|exact (accept_within _ _ _ Ea H2)].
        unfold take in Et. destruct (q c) as [|x q'] eqn:Eq.
        * destruct (cap c); try discriminate. destruct (pend_of (ns c)); try discriminate.
          inversion Et; subst. cbn [with_ns q cap]. rewrite Eq. cbn. lia.
        * inversion Et; subst. cbn [with_ns_q q cap]. cbn [length] in H1. lia.
      + destruct (closed c); try discriminate. destruct (eos rest) as [rest'|] eqn:Ee; try discriminate.
        inversion H; subst. cbn [within_cap]. split; [exact H1|exact (eos_within _ _ Ee H2)].
      + discriminate.
  Qed.

  Lemma init_pipe_within s0 input cap0 (gs : list (stage * nat)) : within_cap (init_pipe s0 input cap0 gs).
  Proof.
    unfold init_pipe. cbn [within_cap source q length]. split; [lia|].
    induction gs as [|[g c] r IH]; cbn [stages_pipe within_cap q length]; auto. split; [lia|exact IH].
  Qed.

  Theorem channels_bounded dr s0 input cap0 (gs : list (stage * nat)) (p' : pipe) :
    psteps dr (init_pipe s0 input cap0 gs) p' -> within_cap p'.
  Proof.
    intros H. pose proof (init_pipe_within s0 input cap0 gs) as Hw. revert Hw.
    induction H as [p|p p1 p' H1 H2 IH]; intros Hw; [exact Hw|]. apply IH.
    destruct H1 as [H1|H1]; [exact (step_within _ _ _ H1 Hw)|exact (eos_within _ _ H1 Hw)].
  Qed.

  (* ------------------------------------------------------------------ E. the executable scheduler *)
  Lemma do_step_sound dr i a : forall (p p' : pipe), do_step dr i a p = Some p' -> step dr p p'.
  Proof.
    induction i as [|i IH]; intros p p'; cbn [do_step].
    - intros H. exact (step_head dr a p p' H).
    - destruct p as [b d|c rest]; try discriminate.
      destruct (do_step dr i a rest) as [rest'|] eqn:E; try discriminate.
      intros H; inversion H; subst. apply step_deep. exact (IH _ _ E).
  Qed.

  Lemma do_step_complete (p p' : pipe) :
    step false p p' -> exists i a, i <= depth p /\ In a acts /\ do_step false i a p = Some p'.
  Proof.
    induction 1 as [a p p' H|c rest rest' H IH].
    - exists 0, a. split; [lia|]. split; [|exact H].
      destruct a; cbn; auto 10. destruct p; cbn in H; discriminate.
    - destruct IH as [i [a [Hi [Ha Hd]]]]. exists (S i), a. cbn [depth do_step]. rewrite Hd.
      split; [lia|]. auto.
  Qed.

  Lemma succs_spec (p x : pipe) : In x (succs p) <-> pstep false p x.
  Proof.
    unfold succs. rewrite in_app_iff. split.
    - intros [H|H].
      + destruct (eos p) as [p'|] eqn:E; [|destruct H]. destruct H as [H|[]]. subst. right. exact E.
      + apply in_flat_map in H. destruct H as [i [_ H]]. apply in_flat_map in H. destruct H as [a [_ H]].
        destruct (do_step false i a p) as [p'|] eqn:E; [|destruct H]. destruct H as [H|[]]. subst.
        left. exact (do_step_sound _ _ _ _ _ E).
    - intros [H|H].
      + right. destruct (do_step_complete _ _ H) as [i [a [Hi [Ha Hd]]]].
        apply in_flat_map. exists i. split; [apply in_seq; lia|].
        apply in_flat_map. exists a. split; [exact Ha|]. rewrite Hd. left. reflexivity.
      + left. rewrite H. left. reflexivity.
  Qed.

  Lemma drop_now_step (p : pipe) : consumer_alive p = true -> step true p (drop_now p).
  Proof.
    induction p as [b d|c rest IH]; cbn [consumer_alive drop_now].
    - intros ->. apply step_head with (a := ADrop). reflexivity.
    - intros H. apply step_deep. exact (IH H).
  Qed.

  Lemma psteps_trans dr (p p' p'' : pipe) : psteps dr p p' -> psteps dr p' p'' -> psteps dr p p''.
  Proof.
    induction 1 as [p|p p1 p' H1 H2 IH]; intros H; [exact H|].
    eapply psteps_step; [exact H1|exact (IH H)].
  Qed.

  Lemma succs_nil_done (p : pipe) : succs p = [] -> all_done p = true.
  Proof.
    intros H. apply stuck_is_done. intros p' Hs. apply succs_spec in Hs. rewrite H in Hs. destruct Hs.
  Qed.

  (* what [exec] computes is an execution of the relation (with the consumer disappearing when scripted);
     when it reports completion every thread has finished *)
  Theorem exec_sound fuel dropat : forall sched more (p p' : pipe) b,
    exec fuel dropat sched more p = (p', b) ->
    psteps true p p' /\ (b = true -> all_done p' = true).
  Proof.
    induction fuel as [|f IH]; intros sched more p p' b; cbn [exec].
    - intros H; inversion H; subst. split; [apply psteps_refl|discriminate].
    - set (p1 := match dropat with
                 | Some k => if consumer_alive p && (k <=? length (delivered p)) then drop_now p else p
                 | None => p
                 end).
      assert (H1 : psteps true p p1).
      { unfold p1. destruct dropat as [k|]; [|apply psteps_refl].
        destruct (consumer_alive p && (k <=? length (delivered p))) eqn:E; [|apply psteps_refl].
        apply andb_true_iff in E. destruct E as [E _].
        eapply psteps_step; [left; exact (drop_now_step p E)|apply psteps_refl]. }
      clearbody p1. destruct (succs p1) as [|x xs] eqn:Es.
      + intros H; inversion H; subst. split; [exact H1|]. intros _. exact (succs_nil_done _ Es).
      + set (ch := match sched with
                   | n :: r => (n, r)
                   | [] => match more with n :: r => (n, r) | [] => (0, []) end
                   end).
        destruct ch as [n sched'].
        intros H. destruct (IH _ _ _ _ _ H) as [H2 H3]. split; [|exact H3].
        eapply psteps_trans; [exact H1|]. eapply psteps_step; [|exact H2].
        apply pstep_false_true. apply succs_spec. rewrite Es.
        apply nth_In. apply Nat.mod_upper_bound. cbn [length]. lia.
  Qed.

  (* ------------------------------------------------------------------ F. permutation stages *)
  (* a stage that only buffers and reorders (the time sort), whatever it reads from shared memory:
     some content function witnesses that it neither invents nor loses messages *)
  Definition perm_stage (g : stage) : Prop :=
    exists content : St -> list msg,
      content (init g) = [] /\
      (forall s m, Permutation (content s ++ [m]) (snd (step_fn g s m) ++ content (fst (step_fn g s m)))) /\
      (forall s, Permutation (flush g s) (content s)).
  (* a stage whose output multiset only depends on the input multiset (stateless filters, per-message plugins) *)
  Definition perm_congruent (g : stage) : Prop :=
    forall l l', Permutation l l' -> Permutation (F g l) (F g l').

  Lemma perm_stage_run (g : stage) content :
    (forall s m, Permutation (content s ++ [m]) (snd (step_fn g s m) ++ content (fst (step_fn g s m)))) ->
    (forall s, Permutation (flush g s) (content s)) ->
    forall l s, Permutation (snd (run g s l)) (content s ++ l).
  Proof.
    intros Hs Hf. induction l as [|m r IH]; intros s.
    - cbn [run snd]. rewrite app_nil_r. apply Hf.
    - rewrite run_cons. cbn [snd]. rewrite IH.
      rewrite app_assoc. rewrite <- (Hs s m). rewrite <- app_assoc. reflexivity.
  Qed.

  Lemma perm_stage_F (g : stage) : perm_stage g -> forall l, Permutation (F g l) l.
  Proof.
    intros [content [H0 [Hs Hf]]] l. unfold F. rewrite (perm_stage_run g content Hs Hf l (init g)).
    rewrite H0. reflexivity.
  Qed.

  Lemma compose_congruent (gs : list stage) :
    Forall perm_congruent gs -> forall l l', Permutation l l' -> Permutation (compose gs l) (compose gs l').
  Proof.
    induction 1 as [|g r Hg _ IH]; intros l l' Hp; cbn [compose]; [exact Hp|]. apply IH. apply Hg. exact Hp.
  Qed.

  Lemma compose_app (g1 g2 : list stage) l : compose (g1 ++ g2) l = compose g2 (compose g1 l).
  Proof. revert l. induction g1 as [|g r IH]; intros l; cbn [app compose]; [reflexivity|apply IH]. Qed.

  (* two pipelines that differ in one permutation stage (the same time sort with two different timings of
     its reads of the lifecycle table) followed by permutation-congruent stages deliver the same multiset *)
  Theorem sorted_pipeline_permutation (pre post : list stage) (g1 g2 : stage) input :
    perm_stage g1 -> perm_stage g2 -> Forall perm_congruent post ->
    Permutation (compose (pre ++ g1 :: post) input) (compose (pre ++ g2 :: post) input).
  Proof.
    intros H1 H2 Hpost. rewrite !compose_app. cbn [compose].
    apply compose_congruent; [exact Hpost|].
    rewrite (perm_stage_F g1 H1), (perm_stage_F g2 H2). reflexivity.
  Qed.
End Proofs.

(* ---- the concrete instances of Kahn.v meet the hypotheses of section F ---- *)
Section InstanceProofs.
  Open Scope N_scope.

  Lemma ins_perm m l : Permutation (ins m l) (m :: l).
  Proof.
    induction l as [|x r IH]; cbn [ins]; [reflexivity|].
    destruct (m <? x); [reflexivity|]. rewrite IH. apply perm_swap.
  Qed.

  Lemma split_old_app lim l : fst (split_old lim l) ++ snd (split_old lim l) = l.
  Proof.
    induction l as [|x r IH]; cbn [split_old]; [reflexivity|].
    destruct (x <? lim); [|reflexivity]. destruct (split_old lim r) as [a b]. cbn [fst snd app] in *. congruence.
  Qed.

  Lemma st_sort_perm_stage w : perm_stage (st_sort w).
  Proof.
    exists (fun s => s). split; [reflexivity|]. split.
    - intros s m. cbn [st_sort step_fn]. pose proof (split_old_app (m - w) (ins m s)) as H.
      destruct (split_old (m - w) (ins m s)) as [old keep]. cbn in *.
      apply Permutation_trans with (l' := ins m s); [|rewrite <- H; apply Permutation_refl].
      apply Permutation_trans with (l' := m :: s); [apply Permutation_sym, Permutation_cons_append|].
      apply Permutation_sym, ins_perm.
    - intros s. reflexivity.
  Qed.

  Lemma insk_perm key m l : Permutation (insk key m l) (m :: l).
  Proof.
    induction l as [|x r IH]; cbn [insk]; [reflexivity|].
    destruct (key m <? key x); [reflexivity|]. rewrite IH. apply perm_swap.
  Qed.

  Lemma split_oldk_app key lim l : fst (split_oldk key lim l) ++ snd (split_oldk key lim l) = l.
  Proof.
    induction l as [|x r IH]; cbn [split_oldk]; [reflexivity|].
    destruct (key x <? lim); [|reflexivity]. destruct (split_oldk key lim r) as [a b]. cbn [fst snd app] in *. congruence.
  Qed.

  (* whatever the sort read from the lifecycle table (any [key]): a permutation stage *)
  Lemma st_sort_key_perm_stage key w : perm_stage (st_sort_key key w).
  Proof.
    exists (fun s => s). split; [reflexivity|]. split.
    - intros s m. cbn [st_sort_key step_fn]. pose proof (split_oldk_app key (m - w) (insk key m s)) as H.
      destruct (split_oldk key (m - w) (insk key m s)) as [old keep]. cbn in *.
      apply Permutation_trans with (l' := insk key m s); [|rewrite <- H; apply Permutation_refl].
      apply Permutation_trans with (l' := m :: s); [apply Permutation_sym, Permutation_cons_append|].
      apply Permutation_sym, insk_perm.
    - intros s. reflexivity.
  Qed.

  Lemma filter_stage_F (keep : N -> bool) (g : @stage imsg ist) :
    (forall s m, step_fn g s m = (s, if keep m then [m] else [])) -> (forall s, flush g s = []) ->
    forall l, F g l = filter keep l.
  Proof.
    intros Hs Hf l. unfold F. generalize (init g). induction l as [|m r IH]; intros s.
    - cbn [run snd filter]. apply Hf.
    - rewrite run_cons, Hs. cbn [fst snd filter]. rewrite IH. destruct (keep m); reflexivity.
  Qed.

  Lemma filter_perm {A} (f : A -> bool) l l' : Permutation l l' -> Permutation (filter f l) (filter f l').
  Proof.
    induction 1 as [|x l l' _ IH|x y l|l l' l'' _ IH1 _ IH2]; cbn [filter].
    - reflexivity.
    - destruct (f x); [apply perm_skip|]; exact IH.
    - destruct (f x), (f y); try reflexivity. apply perm_swap.
    - etransitivity; eassumption.
  Qed.

  Lemma st_drop_congruent k : perm_congruent (st_drop k).
  Proof.
    intros l l' Hp.
    rewrite !(filter_stage_F (fun m => negb (m mod k =? 0)) (st_drop k)).
    - apply filter_perm. exact Hp.
    - intros s m. cbn. destruct (m mod k =? 0); reflexivity.
    - reflexivity.
    - intros s m. cbn. destruct (m mod k =? 0); reflexivity.
    - reflexivity.
  Qed.

  Lemma st_id_congruent : perm_congruent st_id.
  Proof.
    intros l l' Hp.
    rewrite !(filter_stage_F (fun _ => true) st_id); try reflexivity.
    apply filter_perm. exact Hp.
  Qed.
End InstanceProofs.
