(* Proofs about Pipe/Shared.v: under the side condition "published before sent (and it stays so)" the reader's
   look-ups are the same for every capacity and every interleaving; without it they depend on the schedule. *)
From Coq Require Import List NArith Bool Arith Lia.
From AdltV Require Import Pipe.Kahn Pipe.Shared.
Import ListNotations.

Section SharedProofs.
  Context {msg tbl V : Type}.
  Variable look : tbl -> msg -> V.
  Variable val : msg -> V.
  Notation sst := (@sst msg tbl V).
  Notation ev := (@ev msg tbl).

  Definition f (m : msg) : msg * V := (m, val m).
  Definition pot (s : sst) : list (msg * V) := seen s ++ map f (chan s ++ sends (todo s)).
  Definition Inv (s : sst) : Prop :=
    published_before_sent look val (cur s) (todo s) /\
    Forall (fun m => answers look val (cur s) m /\ Forall (fun t => answers look val t m) (pubs (todo s))) (chan s).

  Lemma step_inv cap (s s' : sst) : Inv s -> sstep look cap s s' -> Inv s' /\ pot s' = pot s.
  Proof.
    intros [Hp Hc] Hs. destruct Hs as [t r c q o|m r c q o Hl|m r c o Hcap|m r c q o]; unfold Inv, pot in *; cbn [todo cur chan seen] in *.
    - cbn [published_before_sent pubs sends] in *. split; [split; [exact Hp|]|reflexivity].
      eapply Forall_impl; [|exact Hc]. cbn. intros m [_ H]. inversion H; subst. auto.
    - cbn [published_before_sent pubs sends] in *. destruct Hp as [Ha [Hf Hp]]. split.
      + split; [exact Hp|]. apply Forall_app. split; [exact Hc|]. constructor; [auto|constructor].
      + rewrite <- app_assoc. reflexivity.
    - cbn [published_before_sent pubs sends] in *. destruct Hp as [Ha [Hf Hp]]. split.
      + split; [exact Hp|constructor].
      + unfold answers in Ha. rewrite Ha. rewrite <- app_assoc. reflexivity.
    - inversion Hc as [|? ? [Ha Hf] Hq]; subst. split.
      + split; [exact Hp|exact Hq].
      + unfold answers in Ha. rewrite Ha. rewrite <- app_assoc. reflexivity.
  Qed.

  Lemma steps_inv cap (s s' : sst) : Inv s -> ssteps look cap s s' -> Inv s' /\ pot s' = pot s.
  Proof.
    intros Hi Hs. induction Hs as [s|s s1 s2 H1 H2 IH]; [auto|].
    destruct (step_inv cap s s1 Hi H1) as [Hi1 E1]. destruct (IH Hi1) as [Hi2 E2]. split; [exact Hi2|congruence].
  Qed.

  (* every complete execution, for every capacity (0 = rendezvous) and every interleaving of writer and reader:
     the reader has looked every message up, in order, and got [val m] *)
  Theorem lookups_schedule_independent cap t0 (evs : list ev) (s' : sst) :
    published_before_sent look val t0 evs ->
    ssteps look cap (sinit t0 evs) s' -> sdone s' ->
    seen s' = map f (sends evs).
  Proof.
    intros Hp Hs [Ht Hc].
    assert (Hi : Inv (sinit t0 evs)) by (split; [exact Hp|constructor]).
    destruct (steps_inv cap _ _ Hi Hs) as [_ E]. unfold pot in E. rewrite Ht, Hc in E. cbn in E.
    rewrite app_nil_r in E. exact E.
  Qed.

  (* the executable interleaving is an execution *)
  Lemma writer_step_sound cap (s s' : sst) : writer_step look cap s = Some s' -> sstep look cap s s'.
  Proof.
    destruct s as [td c q o]. unfold writer_step. cbn [todo cur chan seen].
    destruct td as [|[t|m] r]; try discriminate.
    - intros H; inversion H; subst. constructor.
    - destruct (length q <? cap) eqn:El.
      + intros H; inversion H; subst. apply Nat.ltb_lt in El. constructor. exact El.
      + destruct cap; try discriminate. destruct q; try discriminate. intros H; inversion H; subst. constructor. reflexivity.
  Qed.
  Lemma reader_step_sound cap (s s' : sst) : reader_step look s = Some s' -> sstep look cap s s'.
  Proof.
    destruct s as [td c q o]. unfold reader_step. cbn [todo cur chan seen]. destruct q; try discriminate.
    intros H; inversion H; subst. constructor.
  Qed.
  Lemma srun_sound cap : forall fuel sched (s : sst), ssteps look cap s (srun look fuel cap sched s).
  Proof.
    induction fuel as [|fu IH]; intros sched s; cbn [srun]; [constructor|].
    destruct (match sched with n :: r => (n, r) | [] => (0, []) end) as [n sched'].
    destruct (Nat.even n).
    - destruct (writer_step look cap s) as [s1|] eqn:E1.
      + eapply ssteps_step; [exact (writer_step_sound _ _ _ E1)|apply IH].
      + destruct (reader_step look s) as [s1|] eqn:E2; [|constructor].
        eapply ssteps_step; [exact (reader_step_sound cap _ _ E2)|apply IH].
    - destruct (reader_step look s) as [s1|] eqn:E1.
      + eapply ssteps_step; [exact (reader_step_sound cap _ _ E1)|apply IH].
      + destruct (writer_step look cap s) as [s1|] eqn:E2; [|constructor].
        eapply ssteps_step; [exact (writer_step_sound _ _ _ E2)|apply IH].
  Qed.

  (* without the side condition the composition IS schedule dependent: a message handed over before the table that
     answers its look-up is published is seen with the old answer through a rendezvous channel and with the new one
     when the writer runs ahead (capacity >= 1) *)
  Theorem unpublished_send_schedule_dependent t0 t1 (m : msg) :
    look t0 m <> look t1 m ->
    exists s1 s2 : sst,
      ssteps look 0 (sinit t0 [ESend m; EPub t1]) s1 /\ sdone s1 /\
      ssteps look 1 (sinit t0 [ESend m; EPub t1]) s2 /\ sdone s2 /\
      seen s1 <> seen s2.
  Proof.
    intros Hne.
    exists {| todo := []; cur := t1; chan := []; seen := [(m, look t0 m)] |},
           {| todo := []; cur := t1; chan := []; seen := [(m, look t1 m)] |}.
    split; [|split; [split; reflexivity|split; [|split; [split; reflexivity|]]]].
    - eapply ssteps_step; [apply s_rdv; reflexivity|]. eapply ssteps_step; [apply s_pub|]. cbn. constructor.
    - eapply ssteps_step; [apply s_send; cbn; lia|]. eapply ssteps_step; [apply s_pub|].
      eapply ssteps_step; [apply (s_recv look 1 m [] t1 [] [])|]. cbn. constructor.
    - cbn. intros H. inversion H. contradiction.
  Qed.
End SharedProofs.

(* ---- back to the pipeline model: a reader stage whose step uses the looked-up value is, under the side condition, the
   ordinary (Kahn) stage that uses [val m]: all theorems of Pipe/KahnProofs.v apply to the pipeline containing it ---- *)
Section ReaderStage.
  Context {msg tbl V St : Type}.
  Variable look : tbl -> msg -> V.
  Variable val : msg -> V.
  Variable rstep : V -> St -> msg -> St * list msg.     (* one iteration of the reader, given the value it read *)
  Variable rflush : St -> list msg.
  Variable rerr : bool -> St -> list msg -> @reaction St.

  Definition reader_stage (s0 : St) : @stage msg St :=
    {| init := s0; step_fn := fun s m => rstep (val m) s m; flush := rflush; on_err := rerr |}.

  (* what the reader does with the values it really saw *)
  Fixpoint reader_fold (s : St) (l : list (msg * V)) : St * list msg :=
    match l with
    | [] => (s, rflush s)
    | (m, v) :: r => let '(s1, o) := rstep v s m in let '(s2, o2) := reader_fold s1 r in (s2, o ++ o2)
    end.

  Lemma reader_fold_val s00 s l : reader_fold s (map (f val) l) = run (reader_stage s00) s l.
  Proof.
    revert s. induction l as [|m r IH]; intros s; cbn [map reader_fold run f]; [reflexivity|].
    cbn [reader_stage step_fn]. destruct (rstep (val m) s m) as [s1 o]. rewrite IH. reflexivity.
  Qed.

  Theorem reader_is_kahn_stage cap t0 (evs : list (@ev msg tbl)) (s' : @sst msg tbl V) s0 :
    published_before_sent look val t0 evs ->
    ssteps look cap (sinit t0 evs) s' -> sdone s' ->
    reader_fold s0 (seen s') = run (reader_stage s0) s0 (sends evs).
  Proof.
    intros Hp Hs Hd. rewrite (lookups_schedule_independent look val cap t0 evs s' Hp Hs Hd). apply reader_fold_val.
  Qed.
End ReaderStage.

