(* C13 — the plugins stage of the pipeline: plugins/mod.rs:21-43 plugins_process_msgs, read line by line:

     for mut msg in inflow {
         let mut forward_msg = true;                       // per message
         for plugin in &mut plugins_active {               // sequentially, in the order of the vector
             if !plugin.process_msg(&mut msg) {            // a plugin may rewrite the message and its own state
                 forward_msg = false;
                 break;                                    // the plugins behind the rejecting one do NOT see the message
             }
         }
         if forward_msg { outflow(msg)?; }                 // `?`: return on a failed send (RAbort)
     }
     Ok(plugins_active)                                    // the plugins (their final states) are the stage's result

   [plugin] = process_msg as a function (own state, message) -> (own state, rewritten message, verdict).
   [chain]  = the inner loop.  [st_plugins] = the stage of the pipeline model (Pipe/Kahn.v) built from it.
   [verdicts] = the specification side: per input message the message as it left the chain and whether it is forwarded.
   [st_plugins_sticky] = the variant in which the flag is declared in front of the outer loop (it is never set back to
   true): the behaviour class of seeded change C13-7.
   No proofs in this file. *)
From Coq Require Import List NArith Bool Arith.
From AdltV Require Import Pipe.Kahn.
Import ListNotations.

Section Plugins.
  Context {msg P : Type}.

  Definition plugin := P -> msg -> P * msg * bool.

  (* the inner loop over the plugins: states of all plugins afterwards, the message as rewritten so far, forward? *)
  Fixpoint chain (ps : list plugin) (ss : list P) (m : msg) : list P * msg * bool :=
    match ps, ss with
    | p :: ps', s :: ss' =>
      let '(s1, m1, ok) := p s m in
      if ok then let '(ss1, m2, ok2) := chain ps' ss' m1 in (s1 :: ss1, m2, ok2)
      else (s1 :: ss', m1, false)
    | _, _ => (ss, m, true)
    end.

  Definition st_plugins (ps : list plugin) (inits : list P) : @stage msg (list P) :=
    {| init := inits;
       step_fn := fun ss m => let '(ss', m', ok) := chain ps ss m in (ss', if ok then [m'] else []);
       flush := fun _ => [];
       on_err := fun _ _ _ => RAbort |}.

  (* specification: what happens to every message of the input, in order *)
  Fixpoint verdicts (ps : list plugin) (ss : list P) (l : list msg) : list (msg * bool) :=
    match l with
    | [] => []
    | m :: r => let '(ss', m', ok) := chain ps ss m in (m', ok) :: verdicts ps ss' r
    end.
  Fixpoint plugin_states (ps : list plugin) (ss : list P) (l : list msg) : list P :=
    match l with
    | [] => ss
    | m :: r => plugin_states ps (fst (fst (chain ps ss m))) r
    end.
  (* the messages that are forwarded: every message no plugin rejected, as rewritten, in order *)
  Definition kept (v : list (msg * bool)) : list msg := map fst (filter snd v).
  Definition accepted (ps : list plugin) (ss : list P) (l : list msg) : list bool := map snd (verdicts ps ss l).
  (* the elements of l whose flag is true *)
  Fixpoint select {A : Type} (bs : list bool) (l : list A) : list A :=
    match bs, l with
    | b :: bs', x :: l' => if b then x :: select bs' l' else select bs' l'
    | _, _ => []
    end.
  Fixpoint take_while {A : Type} (f : A -> bool) (l : list A) : list A :=
    match l with [] => [] | x :: r => if f x then x :: take_while f r else [] end.

  (* a plugin that leaves [key] of the message alone (every plugin of adlt leaves msg.index alone) *)
  Definition keeps_key {K : Type} (key : msg -> K) (p : plugin) : Prop := forall s m, key (snd (fst (p s m))) = key m.

  (* the flag declared outside the `for msg in inflow` loop: once false, always false; everything else as coded *)
  Definition st_plugins_sticky (ps : list plugin) (inits : list P) : @stage msg (bool * list P) :=
    {| init := (true, inits);
       step_fn := fun s m =>
         let '(ss', m', ok) := chain ps (snd s) m in
         let fwd := fst s && ok in ((fwd, ss'), if fwd then [m'] else []);
       flush := fun _ => [];
       on_err := fun _ _ _ => RAbort |}.
End Plugins.

(* ---- concrete plugins for execution (messages are numbers = msg.index, the state counts the calls of process_msg) ---- *)
Section PluginInstances.
  Open Scope N_scope.
  (* rejects the messages of [rej] (a scripted plugin; the FileTransfer plugin with keepFLDA:false, [rej] = the FLDA
     messages of its apid/ctid; a filter seen as a plugin, [rej] = the messages it does not let pass), never rewrites *)
  Definition rej_plugin (rej : list N) : @plugin N N :=
    fun c m => (c + 1, m, negb (existsb (N.eqb m) rej)).
  Definition rej_chain (rejs : list (list N)) : @stage N (list N) :=
    st_plugins (map rej_plugin rejs) (map (fun _ => 0) rejs).
  Definition rej_chain_sticky (rejs : list (list N)) : @stage N (bool * list N) :=
    st_plugins_sticky (map rej_plugin rejs) (map (fun _ => 0) rejs).
End PluginInstances.
