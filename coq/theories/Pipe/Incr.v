(* C13 — the INCREMENTAL protocol by which a consumer follows the lifecycle table (remote.rs, process_file_context).

   parse_lifecycles_buffered_from_stream keeps a counter `last_lcw_refresh_index` (starts at 1, "needs to be larger than 0
   and increased after every refresh").  Every `lcs_w.update(id, new_lifecycle_item(lc, last_lcw_refresh_index))` stamps the
   entry with the current value; `lcs_w.refresh()` makes the entries written since the last refresh visible together.  Sites:
   the once-per-second buffer check (one update + refresh PER CONFIRMED LIFECYCLE, followed by the drain of the buffered
   messages = sends), the regular refresh (all marked lifecycles, one refresh), the end of the stream (all still buffered
   lifecycles, one refresh, then the final flush = sends) and the final forced refresh.  `lcs_w.empty(id)` (a published
   lifecycle merged away) becomes visible with the next refresh; the protocol below has no means to tell a reader.

   The consumer (remote.rs:1800-1837, `fc.last_lcs_w_refresh_index`, starts at 0):
       new := last;  for every entry e of the table as it is NOW:  if e.idx > last { new := max new e.idx;  forward e }
       last := new
   and whoever it forwards to keeps the last info per lifecycle id.

   Model: the writer alone is deterministic; its run is a list of events
       IRefresh i ups   the entries (id, info) of [ups], stamped with index i, become visible (one `refresh()`)
       IDel id          the entry of id disappears from the readers' view
       ISend m          m is handed to the outflow (sync_sender_send_delay_if_full) on a channel of capacity [cap], 0 = rendezvous
   The consumer takes messages and polls the table at arbitrary moments: [istep] = any interleaving ("every pacing").
   No proofs in this file. *)
From Coq Require Import List NArith Bool Arith.
Import ListNotations.
Local Open Scope N_scope.

Section Incr.
  Context {msg info : Type}.

  (* an entry of the table as a reader sees it: lifecycle id, lcs_w_refresh_idx, the rest *)
  Record entry := { e_id : N; e_idx : N; e_info : info }.
  Definition view := list entry.

  Definition ids (v : view) : list N := map e_id v.
  Definition lookup (id : N) (v : view) : option entry := find (fun x => e_id x =? id) v.
  (* lcs_w.update(id, item): replaces the entry of that id *)
  Fixpoint put (e : entry) (v : view) : view :=
    match v with
    | [] => [e]
    | x :: r => if e_id x =? e_id e then e :: r else x :: put e r
    end.
  (* lcs_w.empty(id) *)
  Definition del (id : N) (v : view) : view := filter (fun x => negb (e_id x =? id)) v.

  Inductive iev := IRefresh (i : N) (ups : list (N * info)) | IDel (id : N) | ISend (m : msg).

  Definition stamp (i : N) (u : N * info) : entry := {| e_id := fst u; e_idx := i; e_info := snd u |}.
  Definition refresh (i : N) (ups : list (N * info)) (v : view) : view :=
    fold_left (fun t u => put (stamp i u) t) ups v.

  (* one look of the consumer at the table: (new last index, what its client holds afterwards) *)
  Definition poll_last (last : N) (cur : view) : N :=
    fold_left (fun nl e => if last <? e_idx e then N.max nl (e_idx e) else nl) cur last.
  Definition poll_tbl (last : N) (cur tbl : view) : view :=
    fold_left (fun t e => if last <? e_idx e then put e t else t) cur tbl.

  Record ist := {
    i_todo : list iev;     (* what the writer still does *)
    i_cur : view;          (* the readers' view of the table *)
    i_chan : list msg;     (* the channel, oldest first *)
    i_got : list msg;      (* messages the consumer has received *)
    i_last : N;            (* fc.last_lcs_w_refresh_index *)
    i_tbl : view           (* last info per lifecycle id the consumer has forwarded *)
  }.

  Inductive istep (cap : nat) : ist -> ist -> Prop :=
  | i_refresh i ups r c q g l t :
      istep cap {| i_todo := IRefresh i ups :: r; i_cur := c; i_chan := q; i_got := g; i_last := l; i_tbl := t |}
                {| i_todo := r; i_cur := refresh i ups c; i_chan := q; i_got := g; i_last := l; i_tbl := t |}
  | i_del id r c q g l t :
      istep cap {| i_todo := IDel id :: r; i_cur := c; i_chan := q; i_got := g; i_last := l; i_tbl := t |}
                {| i_todo := r; i_cur := del id c; i_chan := q; i_got := g; i_last := l; i_tbl := t |}
  | i_send m r c q g l t : (length q < cap)%nat ->
      istep cap {| i_todo := ISend m :: r; i_cur := c; i_chan := q; i_got := g; i_last := l; i_tbl := t |}
                {| i_todo := r; i_cur := c; i_chan := q ++ [m]; i_got := g; i_last := l; i_tbl := t |}
  | i_rdv m r c g l t : cap = 0%nat ->
      istep cap {| i_todo := ISend m :: r; i_cur := c; i_chan := []; i_got := g; i_last := l; i_tbl := t |}
                {| i_todo := r; i_cur := c; i_chan := []; i_got := g ++ [m]; i_last := l; i_tbl := t |}
  | i_take m r c q g l t :
      istep cap {| i_todo := r; i_cur := c; i_chan := m :: q; i_got := g; i_last := l; i_tbl := t |}
                {| i_todo := r; i_cur := c; i_chan := q; i_got := g ++ [m]; i_last := l; i_tbl := t |}
  | i_poll r c q g l t :
      istep cap {| i_todo := r; i_cur := c; i_chan := q; i_got := g; i_last := l; i_tbl := t |}
                {| i_todo := r; i_cur := c; i_chan := q; i_got := g; i_last := poll_last l c; i_tbl := poll_tbl l c t |}.

  Inductive isteps (cap : nat) : ist -> ist -> Prop :=
  | isteps_refl s : isteps cap s s
  | isteps_step s s' s'' : istep cap s s' -> isteps cap s' s'' -> isteps cap s s''.

  Definition iinit (evs : list iev) : ist :=
    {| i_todo := evs; i_cur := []; i_chan := []; i_got := []; i_last := 0; i_tbl := [] |}.

  (* the table after the writer's last event; the ids it removed *)
  Fixpoint final_view (c : view) (evs : list iev) : view :=
    match evs with
    | [] => c
    | IRefresh i ups :: r => final_view (refresh i ups c) r
    | IDel id :: r => final_view (del id c) r
    | ISend _ :: r => final_view c r
    end.
  Fixpoint dels_of (evs : list iev) : list N :=
    match evs with [] => [] | IDel id :: r => id :: dels_of r | _ :: r => dels_of r end.
  Fixpoint isends (evs : list iev) : list msg :=
    match evs with [] => [] | ISend m :: r => m :: isends r | _ :: r => isends r end.

  (* THE INVARIANT THE PROTOCOL RELIES ON: every refresh publishes under an index strictly greater than the index of every
     refresh before it (hence greater than any index a reader can have seen); [top] = the largest index used so far *)
  Fixpoint fresh (top : N) (evs : list iev) : Prop :=
    match evs with
    | [] => True
    | IRefresh i _ :: r => top < i /\ fresh i r
    | _ :: r => fresh top r
    end.
  Fixpoint fresh_b (top : N) (evs : list iev) : bool :=
    match evs with
    | [] => true
    | IRefresh i _ :: r => (top <? i) && fresh_b i r
    | _ :: r => fresh_b top r
    end.

  (* ---- executable: schedule numbers n: n mod 3 = 0 the writer's next event (a send only if the channel takes it; through a
     rendezvous channel the message goes straight to the consumer), 1 the consumer takes a message, 2 the consumer polls ---- *)
  Definition iwriter (cap : nat) (s : ist) : ist :=
    match i_todo s with
    | [] => s
    | IRefresh i ups :: r =>
      {| i_todo := r; i_cur := refresh i ups (i_cur s); i_chan := i_chan s; i_got := i_got s; i_last := i_last s; i_tbl := i_tbl s |}
    | IDel id :: r =>
      {| i_todo := r; i_cur := del id (i_cur s); i_chan := i_chan s; i_got := i_got s; i_last := i_last s; i_tbl := i_tbl s |}
    | ISend m :: r =>
      if (length (i_chan s) <? cap)%nat
      then {| i_todo := r; i_cur := i_cur s; i_chan := i_chan s ++ [m]; i_got := i_got s; i_last := i_last s; i_tbl := i_tbl s |}
      else match cap, i_chan s with
           | O, [] => {| i_todo := r; i_cur := i_cur s; i_chan := []; i_got := i_got s ++ [m]; i_last := i_last s; i_tbl := i_tbl s |}
           | _, _ => s
           end
    end.
  Definition itake (s : ist) : ist :=
    match i_chan s with
    | [] => s
    | m :: q => {| i_todo := i_todo s; i_cur := i_cur s; i_chan := q; i_got := i_got s ++ [m]; i_last := i_last s; i_tbl := i_tbl s |}
    end.
  Definition ipoll (s : ist) : ist :=
    {| i_todo := i_todo s; i_cur := i_cur s; i_chan := i_chan s; i_got := i_got s;
       i_last := poll_last (i_last s) (i_cur s); i_tbl := poll_tbl (i_last s) (i_cur s) (i_tbl s) |}.
  Fixpoint irun (cap : nat) (sched : list nat) (s : ist) : ist :=
    match sched with
    | [] => s
    | n :: r => irun cap r (match (n mod 3)%nat with O => iwriter cap s | 1%nat => itake s | _ => ipoll s end)
    end.
  (* the rest of the run without any further look at the table: the writer finishes (the consumer takes what blocks it) *)
  Fixpoint ifinish (fuel cap : nat) (s : ist) : ist :=
    match fuel with
    | O => s
    | S f => match i_todo s, i_chan s with
             | [], [] => s
             | [], _ :: _ => ifinish f cap (itake s)
             | _ :: _, _ => ifinish f cap (if (length (i_chan s) <? Nat.max cap 1)%nat then iwriter cap s else itake s)
             end
    end.

  (* the consumer of the demo / of the harness: takes every message as soon as it is sent and polls after the messages whose
     position is marked in [pat] (through a rendezvous channel: the writer is still inside that send) *)
  Fixpoint iscript (fuel cap : nat) (pat : list bool) (s : ist) : ist :=
    match fuel with
    | O => s
    | S f =>
      match i_todo s with
      | [] => s
      | ISend _ :: _ =>
        let s1 := itake (iwriter cap s) in
        match pat with
        | b :: p => iscript f cap p (if b then ipoll s1 else s1)
        | [] => iscript f cap [] s1
        end
      | _ => iscript f cap pat (iwriter cap s)
      end
    end.
End Incr.
