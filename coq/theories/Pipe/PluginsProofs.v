(* C13 — proofs about the plugins stage (Pipe/Plugins.v): its sequential semantics is "the input minus exactly the
   rejected messages, in order"; in a pipeline on bounded channels it delivers that for every capacity vector and every
   schedule (by the determinism theorem of Pipe/KahnProofs.v); the plugins behind a rejecting plugin do not see the
   message; the variant with the flag outside the loop loses everything behind the first rejected message. *)
From Coq Require Import List NArith Bool Arith Lia.
From AdltV Require Import Pipe.Kahn Pipe.KahnProofs Pipe.Plugins.
Import ListNotations.

Section PluginsProofs.
  Context {msg P : Type}.
  Notation plugin := (@plugin msg P).

  Lemma plugins_run (ps : list plugin) inits ss l :
    run (st_plugins ps inits) ss l = (plugin_states ps ss l, kept (verdicts ps ss l)).
  Proof.
    revert ss. induction l as [|m r IH]; intros ss.
    - reflexivity.
    - rewrite run_cons. cbn [st_plugins step_fn verdicts plugin_states].
      destruct (chain ps ss m) as [[ss' m'] ok] eqn:Ec. cbn [fst snd]. rewrite IH. cbn [fst snd].
      unfold kept. cbn [filter snd]. destruct ok; reflexivity.
  Qed.

  Lemma plugins_F (ps : list plugin) inits l : F (st_plugins ps inits) l = kept (verdicts ps inits l).
  Proof. unfold F. cbn [init st_plugins]. rewrite plugins_run. reflexivity. Qed.

  Lemma plugins_final_states (ps : list plugin) inits l :
    fst (run (st_plugins ps inits) (init (st_plugins ps inits)) l) = plugin_states ps inits l.
  Proof. cbn [init st_plugins]. rewrite plugins_run. reflexivity. Qed.

  Lemma accepted_length (ps : list plugin) ss l : length (accepted ps ss l) = length l.
  Proof.
    unfold accepted. rewrite map_length. revert ss. induction l as [|m r IH]; intros ss; [reflexivity|].
    cbn [verdicts]. destruct (chain ps ss m) as [[ss' m'] ok]. cbn [length]. rewrite IH. reflexivity.
  Qed.

  (* ---- a key that no plugin touches (msg.index): the output is a sub-sequence of the input ---- *)
  Section Key.
    Context {K : Type} (key : msg -> K).

    Lemma chain_keeps_key (ps : list plugin) : Forall (keeps_key key) ps ->
      forall ss m, key (snd (fst (chain ps ss m))) = key m.
    Proof.
      induction 1 as [|p r Hp _ IH]; intros ss m; [destruct ss; reflexivity|].
      destruct ss as [|s ss']; [reflexivity|]. cbn [chain].
      pose proof (Hp s m) as Hk. destruct (p s m) as [[s1 m1] ok]. cbn [fst snd] in Hk.
      destruct ok.
      - specialize (IH ss' m1). destruct (chain r ss' m1) as [[ss1 m2] ok2]. cbn [fst snd] in *. congruence.
      - cbn [fst snd]. exact Hk.
    Qed.

    Lemma kept_is_selection (ps : list plugin) : Forall (keeps_key key) ps ->
      forall ss l, map key (kept (verdicts ps ss l)) = map key (select (accepted ps ss l) l).
    Proof.
      intros Hk ss l. revert ss. induction l as [|m r IH]; intros ss; [reflexivity|].
      unfold accepted, kept in *. cbn [verdicts].
      pose proof (chain_keeps_key ps Hk ss m) as Hm.
      destruct (chain ps ss m) as [[ss' m'] ok]. cbn [fst snd] in Hm. cbn [map filter snd select].
      destruct ok; cbn [map fst]; rewrite IH; [rewrite Hm|]; reflexivity.
    Qed.
  End Key.

  (* ---- `break`: the plugins behind the first rejecting one do not see the message (their state is untouched), the ones
     in front of it have all processed it ---- *)
  Lemma chain_reject_rest_untouched (ps1 ps2 : list plugin) (p : plugin) ss1 ss1' s ss2 m m1 :
    length ps1 = length ss1 ->
    chain ps1 ss1 m = (ss1', m1, true) ->
    snd (p s m1) = false ->
    chain (ps1 ++ p :: ps2) (ss1 ++ s :: ss2) m = (ss1' ++ fst (fst (p s m1)) :: ss2, snd (fst (p s m1)), false).
  Proof.
    revert ss1 ss1' m. induction ps1 as [|p0 r IH]; intros ss1 ss1' m HL Hc Hr.
    - destruct ss1; [|discriminate]. cbn [chain] in Hc. inversion Hc; subst. cbn [app chain].
      destruct (p s m1) as [[s1 m2] ok]. cbn [fst snd] in *. subst ok. reflexivity.
    - destruct ss1 as [|s0 ss1]; [discriminate|]. cbn [length] in HL. cbn [app chain] in *.
      destruct (p0 s0 m) as [[s01 m01] ok0]. destruct ok0; [|discriminate].
      destruct (chain r ss1 m01) as [[ssr mr] okr] eqn:Er. inversion Hc; subst.
      rewrite (IH ss1 ssr m01 (eq_add_S _ _ HL) Er Hr). reflexivity.
  Qed.

  (* if the chain forwards the message, every plugin has accepted it; if it does not, some plugin rejected it *)
  Lemma chain_no_plugin_all_pass ss m : chain (@nil plugin) ss m = (ss, m, true).
  Proof. destruct ss; reflexivity. Qed.

  (* ---- the sticky variant: everything behind the first rejected message is lost ---- *)
  Lemma sticky_run (ps : list plugin) inits b ss l :
    snd (run (st_plugins_sticky ps inits) (b, ss) l) =
    if b then map fst (take_while snd (verdicts ps ss l)) else [].
  Proof.
    revert b ss. induction l as [|m r IH]; intros b ss.
    - destruct b; reflexivity.
    - rewrite run_cons. cbn [st_plugins_sticky step_fn verdicts fst snd].
      destruct (chain ps ss m) as [[ss' m'] ok] eqn:Ec. cbn [fst snd]. rewrite IH.
      destruct b, ok; reflexivity.
  Qed.

  Lemma sticky_F (ps : list plugin) inits l :
    F (st_plugins_sticky ps inits) l = map fst (take_while snd (verdicts ps inits l)).
  Proof. unfold F. cbn [init st_plugins_sticky]. rewrite sticky_run. reflexivity. Qed.

  (* ---- in a pipeline: for every capacity vector and every schedule ---- *)
  Theorem plugins_stage_in_pipeline s0 input cap0 (pre post : list (@stage msg (list P) * nat)) (ps : list plugin) inits c
          (p' : @pipe msg (list P)) :
    psteps false (init_pipe s0 input cap0 (pre ++ (st_plugins ps inits, c) :: post)) p' -> all_done p' = true ->
    delivered p' = compose (map fst post) (kept (verdicts ps inits (compose (map fst pre) input))).
  Proof.
    intros Hs Hd. destruct (pipeline_deterministic _ _ _ _ _ Hs Hd) as [H _]. rewrite H.
    rewrite map_app. cbn [map fst]. rewrite compose_app. cbn [compose]. rewrite plugins_F. reflexivity.
  Qed.

  Theorem sticky_stage_in_pipeline s0 input cap0 (ps : list plugin) inits c (p' : @pipe msg (bool * list P)) :
    psteps false (init_pipe s0 input cap0 [(st_plugins_sticky ps inits, c)]) p' -> all_done p' = true ->
    delivered p' = map fst (take_while snd (verdicts ps inits input)).
  Proof.
    intros Hs Hd. destruct (pipeline_deterministic _ _ _ _ _ Hs Hd) as [H _]. rewrite H.
    cbn [map fst compose]. apply sticky_F.
  Qed.
End PluginsProofs.
