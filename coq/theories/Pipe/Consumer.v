(* C13 — the consumer end of the remote pipeline (remote.rs, process_file_context): every tick it drains the final
   channel for a while and then forwards to the client the entries of the lifecycle table that changed; the client
   keeps the last info it got per lifecycle.  The lifecycle stage publishes its final table AFTER it has forwarded
   its last message (forced refresh at the end of parse_lifecycles_buffered_from_stream).

   Model: the writer's run is a list of events [EPub t] / [ESend m] (Pipe/Shared.v); the consumer ticks at arbitrary
   moments: a tick takes k >= 0 messages out of the channel and then, depending on the policy,
     always  = true   (as coded: `if let Some(pt) = &fc.parsing_thread { .. lcs_r.read() ..`)  looks at the table
     always  = false  (looks at the table only in ticks that received messages)
   copies the current view of the table to the client ([c_view]).  The consumer never stops ticking.
   No proofs in this file. *)
From Coq Require Import List NArith Bool Arith.
From AdltV Require Import Pipe.Shared.
Import ListNotations.

Section Consumer.
  Context {msg tbl : Type}.
  Notation ev := (@ev msg tbl).

  Record cst := {
    c_todo : list ev;      (* what the writer still does *)
    c_cur : tbl;           (* the readers' view of the table *)
    c_chan : list msg;     (* final channel *)
    c_got : list msg;      (* messages the consumer has received *)
    c_view : tbl           (* what the client holds *)
  }.

  Inductive cstep (always : bool) : cst -> cst -> Prop :=
  | c_pub t r c q g v :
      cstep always {| c_todo := EPub t :: r; c_cur := c; c_chan := q; c_got := g; c_view := v |}
                   {| c_todo := r; c_cur := t; c_chan := q; c_got := g; c_view := v |}
  | c_send m r c q g v :
      cstep always {| c_todo := ESend m :: r; c_cur := c; c_chan := q; c_got := g; c_view := v |}
                   {| c_todo := r; c_cur := c; c_chan := q ++ [m]; c_got := g; c_view := v |}
  | c_tick k r c q g v : k <= length q ->
      cstep always {| c_todo := r; c_cur := c; c_chan := q; c_got := g; c_view := v |}
                   {| c_todo := r; c_cur := c; c_chan := skipn k q; c_got := g ++ firstn k q;
                      c_view := if always || (0 <? k) then c else v |}.

  Inductive csteps (always : bool) : cst -> cst -> Prop :=
  | csteps_refl s : csteps always s s
  | csteps_step s s' s'' : cstep always s s' -> csteps always s' s'' -> csteps always s s''.

  Definition cinit (t0 : tbl) (evs : list ev) : cst :=
    {| c_todo := evs; c_cur := t0; c_chan := []; c_got := []; c_view := t0 |}.

  (* the table after the writer's last publication *)
  Fixpoint final_of (c : tbl) (evs : list ev) : tbl :=
    match evs with [] => c | EPub t :: r => final_of t r | ESend _ :: r => final_of c r end.

  (* ---- executable: schedule numbers n: n mod 3 = 0 writer event, else a tick taking (n / 3) mod 3 messages (at most
     what is there); after the schedule the writer finishes and the consumer ticks twice more, taking everything ---- *)
  Definition tick (always : bool) (k : nat) (s : cst) : cst :=
    let k := Nat.min k (length (c_chan s)) in
    {| c_todo := c_todo s; c_cur := c_cur s; c_chan := skipn k (c_chan s); c_got := c_got s ++ firstn k (c_chan s);
       c_view := if always || (0 <? k) then c_cur s else c_view s |}.
  Definition wstep (s : cst) : cst :=
    match c_todo s with
    | [] => s
    | EPub t :: r => {| c_todo := r; c_cur := t; c_chan := c_chan s; c_got := c_got s; c_view := c_view s |}
    | ESend m :: r => {| c_todo := r; c_cur := c_cur s; c_chan := c_chan s ++ [m]; c_got := c_got s; c_view := c_view s |}
    end.
  Fixpoint crun (always : bool) (sched : list nat) (s : cst) : cst :=
    match sched with
    | [] => s
    | n :: r => crun always r (if Nat.eqb (n mod 3) 0 then wstep s else tick always ((n / 3) mod 3) s)
    end.
  Fixpoint wfinish (fuel : nat) (s : cst) : cst :=
    match fuel with O => s | S f => match c_todo s with [] => s | _ => wfinish f (wstep s) end end.
End Consumer.
