(* Proofs about Pipe/Loss.v: what a stage pulls from its inflow after its consumer has disappeared. *)
From Coq Require Import List NArith Bool Arith Lia.
From AdltV Require Import Pipe.Kahn Pipe.Loss.
Import ListNotations.

Section LossProofs.
  Context {msg St : Type}.
  Notation sstage := (@sstage msg St).

  Lemma with_del_nil (r : @lres msg) : with_del [] r = r.
  Proof. destruct r; reflexivity. Qed.

  (* ---- after the loss: the loop pulls exactly until the first iteration that takes the direct forward ---- *)
  Lemma z_loop_gone (z : sstage) : forall inputs s i f,
    z_loop z s inputs 0 i (Some f) =
    {| l_consumed := i + gone_pull z s inputs; l_delivered := []; l_first_fail := Some f;
       l_returned_early := gone_exits z s inputs |}.
  Proof.
    induction inputs as [|m r IH]; intros s i f; cbn [z_loop gone_pull gone_exits].
    - rewrite Nat.add_0_r. cbn [firstn or_some]. destruct (0 <? length (z_flush z s)); reflexivity.
    - destruct (z_drain z s m) as [s1 dr]. destruct dr as [|y t]; cbn [length Nat.leb after_drain skipn].
      + destruct (z_bottom z s1 m) as [s2 d]. destruct d as [x|].
        * cbn [Nat.ltb Nat.leb or_some]. f_equal. lia.
        * cbn [Nat.sub]. rewrite IH, with_del_nil. f_equal. lia.
      + destruct (z_bottom z (z_keep z s1 t) m) as [s2 d]. destruct d as [x|].
        * cbn [firstn or_some]. f_equal. lia.
        * cbn [firstn or_some]. rewrite IH, with_del_nil. f_equal. lia.
  Qed.

  Lemma gone_pull_le (z : sstage) : forall inputs s, gone_pull z s inputs <= length inputs.
  Proof.
    induction inputs as [|m r IH]; intros s; cbn [gone_pull length]; [lia|].
    destruct (z_drain z s m) as [s1 dr]. destruct (z_bottom z (after_drain z s1 dr) m) as [s2 d].
    destruct d; [lia|]. specialize (IH s2). lia.
  Qed.

  (* bounded pull: if the j-th of the remaining messages is forwarded directly whatever the state of the stage is,
     the stage returns after pulling at most j+1 messages, however long the rest of the input is *)
  Lemma gone_pull_bound (z : sstage) : forall j inputs s m,
    nth_error inputs j = Some m -> (forall s', is_some (snd (z_bottom z s' m)) = true) ->
    gone_pull z s inputs <= S j /\ gone_exits z s inputs = true.
  Proof.
    induction j as [|j IH]; intros inputs s m Hn Hd; destruct inputs as [|m0 r]; try discriminate; cbn [nth_error] in Hn;
      cbn [gone_pull gone_exits]; destruct (z_drain z s m0) as [s1 dr].
    - inversion Hn; subst m0. specialize (Hd (after_drain z s1 dr)).
      destruct (z_bottom z (after_drain z s1 dr) m) as [s2 d]. destruct d; [split; [lia|reflexivity]|discriminate].
    - destruct (z_bottom z (after_drain z s1 dr) m0) as [s2 d]. destruct d; [split; [lia|reflexivity]|].
      destruct (IH r s2 m Hn Hd) as [H1 H2]. split; [lia|exact H2].
  Qed.

  (* what the consumer got before it disappeared is the k-prefix of what the undisturbed stage forwards *)
  Lemma z_loop_delivered (z : sstage) : forall inputs s k i ff,
    l_delivered (z_loop z s inputs k i ff) = firstn k (z_out z s inputs).
  Proof.
    induction inputs as [|m r IH]; intros s k i ff; cbn [z_loop z_out]; [reflexivity|].
    destruct (z_drain z s m) as [s1 dr]. destruct (length dr <=? k) eqn:Ele.
    - apply Nat.leb_le in Ele. destruct (z_bottom z s1 m) as [s2 d]. destruct d as [x|].
      + destruct (length dr <? k) eqn:Elt.
        * apply Nat.ltb_lt in Elt. cbn [with_del l_delivered]. rewrite IH.
          rewrite app_assoc. rewrite (firstn_app k (dr ++ [x])).
          rewrite (firstn_all2 (dr ++ [x])) by (rewrite app_length; cbn [length]; lia).
          f_equal. f_equal. rewrite ?app_length. cbn [length]. lia.
        * apply Nat.ltb_ge in Elt. cbn [l_delivered]. rewrite firstn_app.
          replace (k - length dr) with 0 by lia. cbn [firstn]. rewrite app_nil_r. rewrite (firstn_all2 dr) by lia. reflexivity.
      + cbn [with_del l_delivered app]. rewrite IH. rewrite firstn_app. rewrite (firstn_all2 dr) by lia. reflexivity.
    - apply Nat.leb_gt in Ele.
      assert (E : forall l, firstn k (dr ++ l) = firstn k dr).
      { intros l. rewrite firstn_app. replace (k - length dr) with 0 by lia. cbn [firstn]. apply app_nil_r. }
      destruct (z_bottom z s1 m) as [s2u du]. rewrite E.
      destruct (z_bottom z (z_keep z s1 (skipn (S k) dr)) m) as [s2 d]. destruct d as [x|].
      + reflexivity.
      + cbn [with_del l_delivered]. rewrite IH. cbn [firstn]. apply app_nil_r.
  Qed.

  Lemma z_loop_first_fail_ge (z : sstage) : forall inputs s k i i0,
    l_first_fail (z_loop z s inputs k i None) = Some i0 -> i <= i0.
  Proof.
    induction inputs as [|m r IH]; intros s k i i0; cbn [z_loop].
    - cbn [l_first_fail]. destruct (k <? length (z_flush z s)); cbn [or_some]; intros H; inversion H; lia.
    - destruct (z_drain z s m) as [s1 dr]. destruct (length dr <=? k).
      + destruct (z_bottom z s1 m) as [s2 d]. destruct d as [x|].
        * destruct (length dr <? k).
          -- cbn [with_del l_first_fail]. intros H. apply IH in H. lia.
          -- cbn [l_first_fail or_some]. intros H; inversion H; lia.
        * cbn [with_del l_first_fail]. intros H. apply IH in H. lia.
      + destruct (z_bottom z (z_keep z s1 (skipn (S k) dr)) m) as [s2 d]. destruct d as [x|].
        * cbn [l_first_fail or_some]. intros H; inversion H; lia.
        * cbn [with_del l_first_fail or_some]. rewrite z_loop_gone. cbn [l_first_fail]. intros H; inversion H; lia.
  Qed.

  (* bounded pull, for all inputs and all k: if the first failed send happens while one of the first j+1 messages is
     processed and message j is one that is forwarded directly whatever the state of the stage is, then the stage has
     returned after pulling at most j+1 messages -- however many messages follow *)
  Lemma z_loop_bounded_pull (z : sstage) : forall inputs s k i j m i0,
    nth_error inputs j = Some m -> (forall s', is_some (snd (z_bottom z s' m)) = true) ->
    l_first_fail (z_loop z s inputs k i None) = Some i0 -> i0 <= i + j ->
    l_consumed (z_loop z s inputs k i None) <= S (i + j) /\
    (S j < length inputs -> l_returned_early (z_loop z s inputs k i None) = true).
  Proof.
    induction inputs as [|m0 r IH]; intros s k i j m i0 Hn Hd; [destruct j; discriminate|].
    cbn [z_loop]. destruct (z_drain z s m0) as [s1 dr]. destruct (length dr <=? k) eqn:Ele.
    - destruct (z_bottom z s1 m0) as [s2 d] eqn:Eb. destruct d as [x|].
      + destruct (length dr <? k).
        * cbn [with_del l_first_fail l_consumed l_returned_early]. intros Hf Hle.
          destruct j as [|j]; cbn [nth_error] in Hn.
          -- apply z_loop_first_fail_ge in Hf. lia.
          -- destruct (IH s2 (k - length dr - 1) (S i) j m i0 Hn Hd Hf ltac:(lia)) as [H1 H2].
             split; [lia|]. cbn [length]. intros H. apply H2. lia.
        * cbn [l_first_fail l_consumed l_returned_early or_some]. intros _ _. split; [lia|reflexivity].
      + cbn [with_del l_first_fail l_consumed l_returned_early]. intros Hf Hle.
        destruct j as [|j]; cbn [nth_error] in Hn.
        -- apply z_loop_first_fail_ge in Hf. lia.
        -- destruct (IH s2 (k - length dr) (S i) j m i0 Hn Hd Hf ltac:(lia)) as [H1 H2].
           split; [lia|]. cbn [length]. intros H. apply H2. lia.
    - destruct (z_bottom z (z_keep z s1 (skipn (S k) dr)) m0) as [s2 d] eqn:Eb. destruct d as [x|].
      + cbn [l_first_fail l_consumed l_returned_early or_some]. intros _ _. split; [lia|reflexivity].
      + cbn [with_del l_first_fail l_consumed l_returned_early or_some]. rewrite z_loop_gone.
        cbn [l_first_fail l_consumed l_returned_early]. intros _ _.
        destruct j as [|j]; cbn [nth_error] in Hn.
        -- inversion Hn; subst m0. specialize (Hd (z_keep z s1 (skipn (S k) dr))). rewrite Eb in Hd. discriminate.
        -- destruct (gone_pull_bound z j r s2 m Hn Hd) as [H1 H2]. split; [lia|]. intros _. exact H2.
  Qed.

  Theorem z_run_delivered_prefix (z : sstage) inputs k :
    l_delivered (z_run z inputs k) = firstn k (z_out z (z_init z) inputs).
  Proof. apply z_loop_delivered. Qed.
End LossProofs.

(* ---- stages that return on the first failed send (`?`): nothing more is pulled ---- *)
Section Abort.
  Context {msg St : Type}.
  Notation stage := (@stage msg St).

  Lemma loss_abort (g : stage) (Hab : forall b s pd, on_err g b s pd = RAbort) : forall inputs s k i,
    let r := loss_loop g s inputs k i None in
    match l_first_fail r with
    | None => l_consumed r = i + length inputs /\ l_returned_early r = false
    | Some i0 =>
      (i <= i0 < i + length inputs /\ l_consumed r = S i0 /\ l_returned_early r = true) \/
      (i0 = i + length inputs /\ l_consumed r = i0 /\ l_returned_early r = false)
    end.
  Proof.
    induction inputs as [|m r IH]; intros s k i; cbv zeta; cbn [loss_loop].
    - cbn [l_first_fail l_consumed l_returned_early length]. destruct (k <? length (flush g s)); cbn [or_some].
      + right. split; [lia|]. auto.
      + split; [lia|reflexivity].
    - destruct (step_fn g s m) as [s1 pd]. destruct (skipn k pd) as [|y rest] eqn:Es.
      + specialize (IH s1 (k - length pd) (S i)). cbv zeta in IH.
        destruct (loss_loop g s1 r (k - length pd) (S i) None) as [c dl ff re]. cbn [with_del l_first_fail l_consumed l_returned_early length] in *.
        destruct ff as [i0|].
        * destruct IH as [[H1 [H2 H3]]|[H1 [H2 H3]]]; [left|right]; repeat split; try assumption; lia.
        * destruct IH as [H1 H2]. split; [lia|exact H2].
      + cbn [fail_all length]. rewrite Hab. cbn [l_first_fail l_consumed l_returned_early or_some length].
        left. repeat split; lia.
  Qed.
End Abort.

(* ---- the site model as a stage of the pipeline model: same behaviour when the bottom decision does not look at the queue ---- *)
Section Refine.
  Context {msg St : Type}.
  Notation sstage := (@sstage msg St).

  Definition bottom_ignores_queue (z : sstage) : Prop :=
    forall s rest m, z_bottom z (z_keep z s rest) m = (z_keep z (fst (z_bottom z s m)) rest, snd (z_bottom z s m)).

  Lemma removelast_snoc {A} (l : list A) x : removelast (l ++ [x]) = l.
  Proof. apply removelast_last. Qed.
  Lemma skipn_snoc_last {A} (l : list A) x : skipn (length l) (l ++ [x]) = [x].
  Proof. induction l; cbn; auto. Qed.

  Lemma skipn_S_tl {A} k : forall l : list A, skipn (S k) l = tl (skipn k l).
  Proof. induction k as [|k IH]; intros [|a l]; cbn [skipn tl]; auto. apply (IH l). Qed.

  Lemma on_err_drain (z : sstage) s y t x :
    on_err (kahn_of z) false (s, true) (y :: t ++ [x]) = RCont (z_keep z s t, true) (length t).
  Proof.
    cbn [kahn_of on_err snd fst tl]. destruct (t ++ [x]) as [|a l] eqn:E; [destruct t; discriminate|].
    rewrite <- E. rewrite removelast_snoc, app_length. cbn [length]. f_equal. lia.
  Qed.

  Lemma kahn_of_refines (z : sstage) (Hc : bottom_ignores_queue z) : forall inputs s b k i ff,
    loss_loop (kahn_of z) (s, b) inputs k i ff = z_loop z s inputs k i ff.
  Proof.
    induction inputs as [|m r IH]; intros s b k i ff; cbn [loss_loop z_loop]; [reflexivity|].
    cbn [kahn_of step_fn fst].
    destruct (z_drain z s m) as [s1 dr] eqn:Ed. destruct (z_bottom z s1 m) as [s2 d] eqn:Eb.
    destruct (length dr <=? k) eqn:Ele.
    - apply Nat.leb_le in Ele. destruct d as [x|].
      + destruct (length dr <? k) eqn:Elt.
        * apply Nat.ltb_lt in Elt. rewrite skipn_all2 by (rewrite app_length; cbn [length]; lia).
          rewrite IH. rewrite app_length. cbn [length]. f_equal. f_equal. lia.
        * apply Nat.ltb_ge in Elt. assert (k = length dr) by lia. subst k.
          rewrite skipn_snoc_last. cbn [length fail_all kahn_of on_err snd tl].
          rewrite firstn_app, Nat.sub_diag, firstn_all. cbn [firstn]. rewrite app_nil_r. reflexivity.
      + rewrite app_nil_r. rewrite skipn_all2 by lia. rewrite IH. reflexivity.
    - apply Nat.leb_gt in Ele.
      pose proof (Hc s1 (skipn (S k) dr) m) as Hcm. rewrite Eb in Hcm. cbn [fst snd] in Hcm. rewrite Hcm.
      destruct (skipn k dr) as [|y t] eqn:Esk.
      { exfalso. apply (f_equal (@length msg)) in Esk. rewrite skipn_length in Esk. cbn in Esk. lia. }
      assert (Et : t = skipn (S k) dr).
      { rewrite skipn_S_tl, Esk. reflexivity. }
      destruct d as [x|].
      + rewrite skipn_app. rewrite Esk. replace (k - length dr) with 0 by lia. cbn [skipn app is_some].
        cbn [length fail_all]. rewrite on_err_drain. cbn [tl]. rewrite skipn_snoc_last.
        rewrite app_length. cbn [length]. rewrite Nat.add_1_r. cbn [fail_all kahn_of on_err snd tl].
        rewrite firstn_app. replace (k - length dr) with 0 by lia.
        cbn [firstn]. rewrite app_nil_r. subst t. reflexivity.
      + rewrite app_nil_r. rewrite Esk. cbn [length fail_all kahn_of on_err snd fst tl is_some].
        rewrite skipn_all. destruct (length t) eqn:El; cbn [fail_all]; rewrite IH; subst t; reflexivity.
  Qed.
End Refine.

(* ---- instances ---- *)
Section LossInstanceProofs.
  Open Scope N_scope.

  Lemma z_lc_ignores_queue k r : bottom_ignores_queue (z_lc k r).
  Proof.
    intros [q b] rest m. cbn. destruct b; cbn; [rewrite app_assoc|]; reflexivity.
  Qed.

  (* while the outflow works the guarded loop forwards exactly the same *)
  Lemma z_lc_guarded_invariant k r : forall inputs q b,
    (b = false -> q = []) ->
    z_out (z_lc_guarded k r) (q, b) inputs = z_out (z_lc k r) (q, b) inputs.
  Proof.
    induction inputs as [|m t IH]; intros q b Hq; cbn [z_out]; [reflexivity|].
    cbn [z_lc_guarded z_lc z_drain z_bottom z_flush fst snd].
    destruct (m mod k =? 0).
    - cbn [fst snd qempty orb negb]. rewrite IH by reflexivity. reflexivity.
    - destruct (m mod r =? 0).
      + cbn [fst snd orb]. rewrite IH by discriminate. reflexivity.
      + destruct b.
        * cbn [fst snd orb]. rewrite IH by discriminate. reflexivity.
        * rewrite (Hq eq_refl). cbn [fst snd orb negb qempty]. rewrite IH by reflexivity. reflexivity.
  Qed.

  (* ... but once a drain send has failed (queue not empty, nothing buffered) it queues every further message: it pulls the
     whole rest of the input, however long, and never returns before the input ends (the producer is never told) *)
  Lemma z_lc_guarded_pulls_everything k r : forall t q b,
    q <> [] -> Forall (fun m => (m mod k =? 0) = false) t ->
    gone_pull (z_lc_guarded k r) (q, b) t = length t /\ gone_exits (z_lc_guarded k r) (q, b) t = false.
  Proof.
    induction t as [|m t IH]; intros q b Hq Hf; cbn [gone_pull gone_exits length]; [auto|].
    inversion Hf as [|? ? Hm Ht]; subst.
    cbn [z_lc_guarded z_lc z_drain z_bottom z_keep fst snd]. rewrite Hm.
    assert (Hne : forall x, q ++ [x] <> []) by (intros x; destruct q; discriminate).
    destruct (m mod r =? 0); cbn [after_drain fst snd orb].
    - destruct (IH (q ++ [m]) true (Hne m) Ht) as [H1 H2]. rewrite H1, H2. auto.
    - assert (Eg : (b || negb (qempty q)) = true) by (destruct q; [congruence|destruct b; reflexivity]).
      rewrite Eg. destruct (IH (q ++ [m]) b (Hne m) Ht) as [H1 H2]. rewrite H1, H2. auto.
  Qed.

  (* the loop as coded returns at the very next message in the same situation *)
  Lemma z_lc_prompt k r m t q :
    (m mod k =? 0) = false -> (m mod r =? 0) = false ->
    gone_pull (z_lc k r) (q, false) (m :: t) = 1%nat /\ gone_exits (z_lc k r) (q, false) (m :: t) = true.
  Proof.
    intros Hk Hr. cbn [gone_pull gone_exits z_lc z_drain z_bottom fst snd]. rewrite Hk, Hr. cbn. auto.
  Qed.
End LossInstanceProofs.
