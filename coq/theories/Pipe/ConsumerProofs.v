(* Proofs about Pipe/Consumer.v *)
From Coq Require Import List NArith Bool Arith Lia.
From AdltV Require Import Pipe.Shared Pipe.Consumer.
Import ListNotations.

Section ConsumerProofs.
  Context {msg tbl : Type}.
  Notation ev := (@ev msg tbl).
  Notation cst := (@cst msg tbl).

  Lemma cstep_final always (s s' : cst) :
    cstep always s s' -> final_of (c_cur s') (c_todo s') = final_of (c_cur s) (c_todo s).
  Proof. intros H. destruct H; reflexivity. Qed.

  Lemma csteps_final always (s s' : cst) :
    csteps always s s' -> final_of (c_cur s') (c_todo s') = final_of (c_cur s) (c_todo s).
  Proof.
    induction 1 as [s|s s1 s2 H1 _ IH]; [reflexivity|]. rewrite IH. exact (cstep_final always _ _ H1).
  Qed.

  (* as coded (the table is looked at in every tick): whatever the interleaving of the writer's events and the ticks was,
     ANY tick after the writer's last event leaves the client with the final table -- and it stays so *)
  Theorem consumer_ends_with_final_table t0 (evs : list ev) (s s' : cst) :
    csteps true (cinit t0 evs) s -> c_todo s = [] -> cstep true s s' ->
    c_view s' = final_of t0 evs /\ c_todo s' = [].
  Proof.
    intros Hs Ht Hst. pose proof (csteps_final true _ _ Hs) as Hf. cbn [cinit c_cur c_todo] in Hf.
    rewrite Ht in Hf. cbn [final_of] in Hf.
    inversion Hst; subst; cbn [c_todo c_cur c_view] in *; try discriminate. split; [exact Hf|exact Ht].
  Qed.

  Lemma view_stays t0 (evs : list ev) : forall s s' : cst,
    csteps true s s' -> c_todo s = [] -> c_cur s = final_of t0 evs -> c_view s = final_of t0 evs ->
    c_view s' = final_of t0 evs.
  Proof.
    induction 1 as [s|s s1 s2 H1 _ IH]; intros Ht Hc Hv; [exact Hv|].
    inversion H1; subst; cbn [c_todo c_cur c_view] in *; try discriminate.
    apply IH; cbn [c_todo c_cur c_view]; auto.
  Qed.

  (* looking at the table only in ticks that received messages: there is a schedule (the tick that takes the last message
     runs before the writer's last publication) after which the client holds a stale table FOR EVER, however often the
     consumer ticks afterwards *)
  Theorem guarded_consumer_can_stay_stale t0 t1 (m : msg) :
    t0 <> t1 ->
    exists s : cst,
      csteps false (cinit t0 [ESend m; EPub t1]) s /\ c_todo s = [] /\ c_chan s = [] /\ c_got s = [m] /\
      forall s', csteps false s s' -> c_view s' = t0 /\ c_view s' <> final_of t0 [ESend m; EPub t1].
  Proof.
    intros Hne.
    exists {| c_todo := []; c_cur := t1; c_chan := []; c_got := [m]; c_view := t0 |}.
    split; [|split; [reflexivity|split; [reflexivity|split; [reflexivity|]]]].
    - eapply csteps_step; [apply c_send|]. cbn [app].
      eapply csteps_step; [apply (c_tick false 1); cbn; lia|]. cbn.
      eapply csteps_step; [apply c_pub|]. apply csteps_refl.
    - assert (G : forall s s' : cst, csteps false s s' -> c_todo s = [] -> c_chan s = [] -> c_view s = t0 -> c_view s' = t0).
      { induction 1 as [s|s s1 s2 H1 _ IH]; intros Ht Hq Hv; [exact Hv|].
        inversion H1; subst; cbn [c_todo c_chan c_view] in *; try discriminate.
        subst q. cbn [length] in *. assert (k = 0) by lia. subst k. cbn. apply IH; cbn; auto. }
      intros s' Hs'. split; [exact (G _ _ Hs' eq_refl eq_refl eq_refl)|].
      rewrite (G _ _ Hs' eq_refl eq_refl eq_refl). cbn. exact Hne.
  Qed.

  (* the executable schedule interpreter computes executions of [cstep] *)
  Lemma tick_sound always k (s : cst) : cstep always s (tick always k s).
  Proof. destruct s as [r c q g v]. unfold tick. cbn [c_todo c_cur c_chan c_got c_view]. apply c_tick. lia. Qed.
  Lemma wstep_sound always (s : cst) : csteps always s (wstep s).
  Proof.
    destruct s as [r c q g v]. unfold wstep. cbn [c_todo c_cur c_chan c_got c_view].
    destruct r as [|[t|m] r]; [apply csteps_refl| |]; (eapply csteps_step; [constructor|apply csteps_refl]).
  Qed.
  Lemma csteps_trans always (a b c : cst) : csteps always a b -> csteps always b c -> csteps always a c.
  Proof. induction 1 as [|x y z H1 _ IH]; intros H; [exact H|]. eapply csteps_step; [exact H1|exact (IH H)]. Qed.
  Lemma crun_sound always : forall sched (s : cst), csteps always s (crun always sched s).
  Proof.
    induction sched as [|n r IH]; intros s; cbn [crun]; [apply csteps_refl|].
    destruct (Nat.eqb (n mod 3) 0).
    - eapply csteps_trans; [apply wstep_sound|apply IH].
    - eapply csteps_step; [apply tick_sound|apply IH].
  Qed.
  Lemma wfinish_sound always : forall fuel (s : cst), csteps always s (wfinish fuel s).
  Proof.
    induction fuel as [|f IH]; intros s; cbn [wfinish]; [apply csteps_refl|].
    destruct (c_todo s); [apply csteps_refl|]. eapply csteps_trans; [apply wstep_sound|apply IH].
  Qed.
End ConsumerProofs.
