#!/bin/bash
# Regenerates _CoqProject/Makefile from the files present and builds the requested targets
# (default: everything, continuing past failures so that one broken file only breaks its own property).
# Serialised by a lock so that concurrent checks do not race on the same .vo files.
set -u
cd "$(dirname "$0")"
exec 9>.build.lock
flock 9
{ echo "-Q theories AdltV"; echo "-arg -w -arg -notation-overridden,-deprecated-hint-without-locality,-deprecated-instance-without-locality"; find theories -name '*.v' | LC_ALL=C sort; } > _CoqProject.new
if ! cmp -s _CoqProject.new _CoqProject 2>/dev/null || [ ! -f Makefile ]; then
  mv _CoqProject.new _CoqProject
  coq_makefile -f _CoqProject -o Makefile >/dev/null || exit 2
else
  rm -f _CoqProject.new
fi
if [ $# -eq 0 ]; then
  timeout ${COQ_BUILD_TIMEOUT:-3000} make -k -j16 2>&1
else
  timeout ${COQ_BUILD_TIMEOUT:-3000} make -j16 "$@" 2>&1
fi
