#!/bin/bash
# usage: tools/process_mut.sh <worktree-prefix e.g. mut2> <prop> <seeded-dir-name> [extra props to check...]
# confirms the agent's demo (fails with the change, passes without), saves the seeded change, runs the check(s) against it
pre=$1; p=$2; name=$3; shift 3
wt=/tmp/${pre}_$p; out=/tmp/${pre}_${p}_out
[ -f $out/patch.diff ] || { echo "no patch in $out"; exit 2; }
cd $wt || exit 2
tests=$(git status --porcelain | grep '^?? tests/.*\.rs$' | sed 's#^?? tests/##; s#\.rs$##')
echo "== $p demos: $tests"
for t in $tests; do
  echo -n "   WITH change:    "; (CARGO_NET_OFFLINE=true timeout 2400 cargo test --offline --test $t 2>&1 | grep -a "test result" | head -1)
done
git apply -R $out/patch.diff
for t in $tests; do
  echo -n "   WITHOUT change: "; (CARGO_NET_OFFLINE=true timeout 2400 cargo test --offline --test $t 2>&1 | grep -a "test result" | head -1)
done
git apply $out/patch.diff
d=/verif/seeded/$name; mkdir -p $d; cp $out/patch.diff $d/; cp $out/*.rs $d/ 2>/dev/null; cp $out/notes.md $d/ 2>/dev/null
cd /verif
m=$(tools/mut_worktree.sh $out/patch.diff ${p}_$pre) || exit 2
for q in $p "$@"; do
  tools/on_mutant.sh $m $q quick 2>&1 | grep -aE "VIOLATION|KNOWN|quick:" | sed "s/^/   [check $q] /"
done
git -C /repo worktree remove --force $m
