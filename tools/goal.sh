#!/bin/bash
# usage: goal.sh theories/X/Y.v LINE  -- show the proof state just before LINE
cd /verif/coq
f=$1; n=$2
tmp=$(mktemp -d)
head -n $((n-1)) $f > $tmp/G.v
echo "Show." >> $tmp/G.v
coqc -Q theories AdltV $tmp/G.v 2>&1 | head -${3:-60}
rm -rf $tmp
