#!/bin/bash
# Runs a property's check against a mutated copy of the repository WITHOUT touching /repo or this tree:
# a private copy of /verif (own cargo target dir) is used, with VERIF_REPO pointing at the mutated worktree.
# env VERIF_MUT_COPY=<dir> selects the private copy (default /tmp/verif_mut; use one per concurrent user)
# usage: tools/on_mutant.sh <repo_path> <prop> [tier]
set -u
C=${VERIF_MUT_COPY:-/tmp/verif_mut}
rsync -a --delete --exclude .target --exclude work --exclude replays --exclude .git /verif/ $C/ || exit 2
cd $C && VERIF_REPO="$1" ./check "$2" "${3:-quick}"
