#!/bin/bash
# Runs a property's check against a mutated copy of the repository WITHOUT touching /repo or this tree:
# a private copy of /verif (own cargo target dir) is used, with VERIF_REPO pointing at the mutated worktree.
# usage: tools/on_mutant.sh <repo_path> <prop> [tier]
set -u
rsync -a --delete --exclude .target --exclude work --exclude replays --exclude .git /verif/ /tmp/verif_mut/ || exit 2
cd /tmp/verif_mut && VERIF_REPO="$1" ./check "$2" "${3:-quick}"
