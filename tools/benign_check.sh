#!/bin/bash
# Runs checks against a property-PRESERVING change of /repo (a harmless refactoring / tuning / cosmetic change):
# the checks must stay quiet.  usage: tools/benign_check.sh <patch.diff> <name> <prop> [more props...]
# prints one line per check: QUIET / ALARM
p=$(readlink -f "$1"); name=$2; shift 2
cd /verif
m=$(tools/mut_worktree.sh "$p" ben_$name) || { echo "patch does not apply: $p"; exit 2; }
for q in "$@"; do
  out=$(tools/on_mutant.sh $m $q quick 2>&1); rc=$?
  s=$(echo "$out" | grep -a " quick:" | tail -1 | cut -c1-200)
  if [ $rc -eq 0 ] && ! echo "$out" | grep -aq "^VIOLATION"; then echo "QUIET $name (check $q): $s"
  else echo "ALARM $name (check $q) rc=$rc: $(echo "$out" | grep -a '^VIOLATION' | head -2 | tr '\n' ' ') $s"; fi
done
git -C /repo worktree remove --force $m
