#!/bin/bash
# Re-runs the checks listed in benign/<name>/checks.txt against /repo's HEAD + benign/<name>/patch.diff (a change that
# PRESERVES the properties); every line must say QUIET.  usage: tools/benign_regress.sh [names...]
cd /verif
list="$@"; [ -z "$list" ] && list=$(ls benign | grep -v README)
for s in $list; do
  [ -f benign/$s/patch.diff ] || continue
  tools/benign_check.sh benign/$s/patch.diff $s $(cat benign/$s/checks.txt)
done
