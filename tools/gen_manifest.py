#!/usr/bin/env python3
"""Generates /verif/MANIFEST.json from props/*.json and tools/manifest_base.json."""
import json, os
ROOT = os.path.dirname(os.path.dirname(os.path.abspath(__file__)))
base = json.load(open(os.path.join(ROOT, "tools", "manifest_base.json")))
all_ids = [json.loads(l)["id"] for l in open(os.path.join(ROOT, "properties.jsonl"))]
checks = []
claimed = set()
# only properties listed in tools/claimed.txt are claimed (their check is green on the unchanged tree)
allow = set(open(os.path.join(ROOT, "tools", "claimed.txt")).read().split())
for pid in all_ids:
    p = os.path.join(ROOT, "props", pid + ".json")
    if not os.path.exists(p):
        continue
    c = json.load(open(p))
    if c.get("disabled") or pid not in allow:
        continue
    claimed.add(pid)
    checks.append({
        "property_id": pid,
        "quick_cmd": "./check %s quick" % pid,
        "thorough_cmd": "./check %s thorough" % pid,
        "evidence_file": "/verif/evidence/%s.json" % pid,
        "replay_cmd_template": "./check %s --replay {path}" % pid,
        "engine": "coq-proof+correspondence",
        "level_claimed": {"category": c.get("level", "proof"), "text": c["level_text"], "design_ref": c.get("design_ref", "DESIGN.md")},
        "level_note": c["level_note"],
        "technique": c["technique"],
    })
na = [x for x in base.get("not_applicable", []) if x["property_id"] not in claimed]
have = set(x["property_id"] for x in na)
for pid in all_ids:
    if pid not in claimed and pid not in have:
        na.append({"property_id": pid, "reason": "not yet claimed: the Coq model/check for this property is not complete in this revision (see DESIGN.md)"})
m = dict(base)
m["checks"] = checks
m["not_applicable"] = sorted(na, key=lambda x: x["property_id"])
json.dump(m, open(os.path.join(ROOT, "MANIFEST.json"), "w"), indent=1)
# merge known-finding fragments
kf = {"findings": [], "fixed": []}
d = os.path.join(ROOT, "known_findings.d")
for f in sorted(os.listdir(d)) if os.path.isdir(d) else []:
    if f.endswith(".json"):
        k = json.load(open(os.path.join(d, f)))
        for key in ("findings", "fixed"):
            kf[key] += k.get(key, [])
json.dump(kf, open(os.path.join(ROOT, "known_findings.json"), "w"), indent=1)
print("claimed:", sorted(claimed))
