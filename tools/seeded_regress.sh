#!/bin/bash
# Re-runs, for every seeded change (or those given as arguments, e.g. C05 C05-2), the check of the property it breaks against
# /repo's HEAD + the patch, in the private copy used by tools/on_mutant.sh.  Prints CAUGHT / MISSED per seeded change.
cd /verif
list="$@"; [ -z "$list" ] && list=$(ls seeded)
for s in $list; do
  [ -f seeded/$s/meta.json ] || { echo "ERROR $s: no meta.json"; continue; }
  # the check that is expected to catch it: the first key of detected_by that does not say 'not visible'/'silent'
  q=$(python3 -c "
import json
m=json.load(open('seeded/$s/meta.json'))
for k,v in m['detected_by'].items():
    if not (v.startswith('silent') or v.startswith('not visible') or v.startswith('MISSED by')):
        print(k); break
")
  d=$(tools/mut_worktree.sh /verif/seeded/$s/patch.diff reg_$s 2>/dev/null) || { echo "$s: patch does not apply to HEAD"; continue; }
  r=$(tools/on_mutant.sh $d $q quick 2>&1 | grep -aE "quick:")
  git -C /repo worktree remove --force $d
  if [ -z "$r" ]; then echo "ERROR $s (check $q): the check did not run";
  elif echo "$r" | grep -q " 0 violation"; then echo "MISSED $s (check $q): $r"; else echo "CAUGHT $s (check $q): $r"; fi
done
