#!/bin/bash
# creates a scratch worktree of /repo's HEAD at /tmp/mutw_<name> with <patch> applied (for running checks against a seeded change)
# usage: tools/mut_worktree.sh <patch.diff> <name>     remove with: git -C /repo worktree remove --force /tmp/mutw_<name>
set -e
p=$(readlink -f "$1"); d=/tmp/mutw_$2
git -C /repo worktree remove --force $d 2>/dev/null || true
git -C /repo worktree add --detach $d HEAD -f >/dev/null 2>&1
git -C $d apply "$p"
echo $d
