#!/bin/bash
# compile single Coq files of the development directly (fast inner loop; `./check` uses coq/mk.sh)
# usage: tools/cq.sh theories/Area/File.v [more files in dependency order]
cd /verif/coq || exit 2
for f in "$@"; do
  timeout ${COQ_TIMEOUT:-900} coqc -Q theories AdltV -w -notation-overridden,-deprecated-hint-without-locality,-deprecated-instance-without-locality "$f" || exit 1
done
