#!/bin/bash
# usage: tools/confirm_mut.sh <prop> <demo test name>   : runs the demo in the agent's worktree with and without the change
p=$1; t=$2
cd /tmp/mut_$p || exit 2
echo "== $p demo $t WITH change"; (CARGO_NET_OFFLINE=true timeout 2400 cargo test --offline --test $t 2>&1 | grep "test result")
git stash -q; echo "== WITHOUT change"; (CARGO_NET_OFFLINE=true timeout 2400 cargo test --offline --test $t 2>&1 | grep "test result"); git stash pop -q
git diff --stat | tail -1
