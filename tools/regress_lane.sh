#!/bin/bash
# usage: regress_lane.sh <lane-id> <names...>
lane=$1; shift
export VERIF_MUT_COPY=/tmp/verif_mut_lane$lane
cd /verif
for s in "$@"; do
  q=$(python3 -c "
import json
m=json.load(open('seeded/$s/meta.json'))
for k,v in m['detected_by'].items():
    if not (v.startswith('silent') or v.startswith('not visible') or v.startswith('MISSED by') or v.startswith('(pending')):
        print(k); break
")
  [ -z "$q" ] && q=$(python3 -c "import json;print(json.load(open('seeded/$s/meta.json'))['property'])")
  d=$(tools/mut_worktree.sh /verif/seeded/$s/patch.diff lane${lane}_$s 2>/dev/null) || { echo "$s: patch does not apply to HEAD"; continue; }
  r=$(tools/on_mutant.sh $d $q quick 2>&1 | grep -aE "quick:|VIOLATION")
  git -C /repo worktree remove --force $d
  v=$(echo "$r" | grep -a "^VIOLATION" | head -1 | grep -c "no-failing-input-found")
  line=$(echo "$r" | grep -a "quick:" | cut -c1-160)
  if [ -z "$line" ]; then echo "ERROR $s (check $q): the check did not run";
  elif echo "$line" | grep -q " 0 violation"; then echo "MISSED $s (check $q): $line"; else echo "CAUGHT $s (check $q) nofail=$v: $line"; fi
done
