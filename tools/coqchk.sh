#!/bin/bash
# Re-checks every compiled Properties module (and everything it depends on) with Coq's independent checker and stores the
# context summary (axioms, type-in-type, unsafe fixpoints, assumed positivity) in evidence/_coqchk.txt.  Run after a full
# clean build (coq/mk.sh after `make clean`); takes a few minutes.
cd /verif/coq || exit 2
mods=$(ls theories/Properties/C*.v | sed 's#theories/Properties/\(.*\)\.v#AdltV.Properties.\1#' | tr '\n' ' ')
out=$(timeout 3000 coqchk -o -silent -Q theories AdltV $mods 2>&1); rc=$?
{ echo "$out" | sed -n '/CONTEXT SUMMARY/,$p'; echo "exit $rc"; echo "$mods"; date -u +"checked %Y-%m-%dT%H:%MZ"; } > /verif/evidence/_coqchk.txt
tail -15 /verif/evidence/_coqchk.txt
